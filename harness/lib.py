"""Common machinery of the /verif checks: model runner, implementation runner, proof gate,
evidence writer, violation reporting.  Standard library only."""
import hashlib
import json
import os
import re
import subprocess
import sys
import time

VERIF = os.path.dirname(os.path.dirname(os.path.abspath(__file__)))
REPO = os.environ.get('DZNPY_REPO', '/repo')
BUILD = os.path.join(VERIF, '_build')
COQ = os.path.join(VERIF, 'coq')
PY = '/venv/bin/python'
MODEL_BIN = os.path.join(BUILD, 'ml', 'dznmodel')

ALLOWED_AXIOMS = set()  # no axiom is used; extend here (and in DESIGN.md §7) if a stdlib axiom becomes necessary


# ---------------------------------------------------------------- s-expressions

def sx(v):
    """Python value -> s-expression text. int -> INT, str -> list of code points, list/tuple -> list."""
    if isinstance(v, bool):
        return '1' if v else '0'
    if isinstance(v, int):
        return str(v)
    if isinstance(v, str):
        return '(' + ' '.join(str(ord(c)) for c in v) + ')'
    if isinstance(v, (list, tuple)):
        return '(' + ' '.join(sx(x) for x in v) + ')'
    raise TypeError(f'sx: {type(v)}')


def parse_sx(text):
    """s-expression text -> nested lists of ints."""
    stack = [[]]
    i, n = 0, len(text)
    while i < n:
        c = text[i]
        if c == '(':
            stack.append([])
            i += 1
        elif c == ')':
            done = stack.pop()
            stack[-1].append(done)
            i += 1
        elif c in ' \t\r\n':
            i += 1
        else:
            j = i + 1
            while j < n and text[j] not in ' ()\t\r\n':
                j += 1
            stack[-1].append(int(text[i:j]))
            i = j
    assert len(stack) == 1 and len(stack[0]) == 1, 'malformed s-expression'
    return stack[0][0]


def ds(v):
    """decode a model string (list of code points)"""
    return ''.join(chr(c) for c in v)


def dss(v):
    return [ds(x) for x in v]


def run_model(requests, timeout=600):
    """Run a batch of requests (python values, see sx) through the extracted model. Returns parsed replies.
    Large batches are sharded over several model processes."""
    if not requests:
        return []
    replies = _run_model_sharded(requests, timeout)
    _vm_spot_check(requests, replies)
    return replies


VM_SPOT = {'calls': 0, 'requests': 0}
EXTRA_EVIDENCE = {}


def _vm_spot_check(requests, replies):
    """Extraction and the OCaml driver must not be a single point of trust: for the first few batches of every check process
    one or two requests are re-evaluated inside coqc (`Eval vm_compute in dispatch ...`) and compared with the binary's answer."""
    limit = 3 if CURRENT_TIER[0] == 'quick' else 12
    if VM_SPOT['calls'] >= limit:
        return
    small = [i for i, r in enumerate(requests) if len(sx(r)) < 400000 and len(str(replies[i])) < 400000]
    if not small:
        return
    VM_SPOT['calls'] += 1
    idx = [small[0]] + ([small[len(small) // 2]] if len(small) > 2 else [])
    bad = run_model_vm([requests[i] for i in idx], [replies[i] for i in idx], f'spot{os.getpid()}_{VM_SPOT["calls"]}')
    VM_SPOT['requests'] += len(idx)
    EXTRA_EVIDENCE['requests_rechecked_inside_coqc_by_vm_compute'] = VM_SPOT['requests']
    if bad:
        raise RuntimeError(f'the extracted model and vm_compute disagree on request(s) {[idx[b] for b in bad]} (op {requests[idx[bad[0]]][0]}): '
                           'extraction or harness/ml/driver.ml is broken')


def _run_model_sharded(requests, timeout=600):
    if len(requests) >= 64:
        from concurrent.futures import ThreadPoolExecutor
        n = min(12, len(requests) // 16)
        size = (len(requests) + n - 1) // n
        shards = [requests[i:i + size] for i in range(0, len(requests), size)]
        with ThreadPoolExecutor(len(shards)) as ex:
            parts = list(ex.map(lambda s: _run_model_one(s, timeout), shards))
        return [r for part in parts for r in part]
    return _run_model_one(requests, timeout)


def _run_model_one(requests, timeout=600):
    data = '\n'.join(sx(r) for r in requests) + '\n'
    proc = subprocess.run(['bash', '-c', f'ulimit -s unlimited 2>/dev/null; exec {MODEL_BIN}'],
                          input=data.encode(), stdout=subprocess.PIPE, stderr=subprocess.PIPE, timeout=timeout)
    if proc.returncode != 0:
        raise RuntimeError(f'dznmodel failed rc={proc.returncode}: {proc.stderr.decode()[:400]}')
    lines = proc.stdout.decode().splitlines()
    if len(lines) != len(requests):
        raise RuntimeError(f'dznmodel returned {len(lines)} replies for {len(requests)} requests')
    return [parse_sx(l) for l in lines]


def coq_term(v):
    """Python value -> Coq term of type sexp (for vm_compute case files)."""
    if isinstance(v, bool):
        return 'SI 1' if v else 'SI 0'
    if isinstance(v, int):
        return f'SI ({v})' if v < 0 else f'SI {v}'
    if isinstance(v, str):
        return 'SL [' + '; '.join(f'SI {ord(c)}' for c in v) + ']'
    if isinstance(v, (list, tuple)):
        return 'SL [' + '; '.join(coq_term(x) for x in v) + ']'
    raise TypeError(type(v))


def run_model_vm(requests, expected, name, timeout=600):
    """Evaluate requests inside coqc with vm_compute and compare with `expected` replies (python values)
    there; returns the list of mismatching indices. Independent of extraction and of the OCaml driver."""
    os.makedirs(os.path.join(BUILD, 'cases'), exist_ok=True)
    idxs = []
    shard = 250
    for start in range(0, len(requests), shard):
        reqs = requests[start:start + shard]
        exps = expected[start:start + shard]
        path = os.path.join(BUILD, 'cases', f'{name}_{start}.v')
        with open(path, 'w') as f:
            f.write('From Coq Require Import List ZArith.\nFrom Dznpy Require Import Base.Sexp Run.Dispatch.\n'
                    'Import ListNotations.\nOpen Scope Z_scope.\n')
            f.write('Fixpoint sexp_eqb (a b : sexp) : bool := match a, b with\n'
                    ' | SI x, SI y => Z.eqb x y\n'
                    ' | SL l, SL m => (fix go (l m : list sexp) : bool := match l, m with [], [] => true '
                    '| x :: l\', y :: m\' => andb (sexp_eqb x y) (go l\' m\') | _, _ => false end) l m\n'
                    ' | _, _ => false end.\n')
            f.write('Definition cases : list (sexp * sexp) := [\n')
            f.write(';\n'.join(f'({coq_term(r)}, {coq_term(e)})' for r, e in zip(reqs, exps)))
            f.write('].\n')
            f.write('Definition bad := map (fun p => if sexp_eqb (dispatch (fst p)) (snd p) then 0 else 1) cases.\n')
            f.write('Eval vm_compute in bad.\n')
        proc = subprocess.run(['coqc', '-Q', os.path.join(COQ, 'theories'), 'Dznpy', path],
                              stdout=subprocess.PIPE, stderr=subprocess.STDOUT, timeout=timeout,
                              cwd=os.path.join(BUILD, 'cases'))
        out = proc.stdout.decode()
        if proc.returncode != 0:
            raise RuntimeError(f'coqc failed on {path}: {out[:600]}')
        flags = [int(x) for x in re.findall(r'\b[01]\b', out.split('=', 1)[1].split(':')[0])]
        if len(flags) != len(reqs):
            raise RuntimeError(f'could not parse vm_compute output of {path}')
        idxs.extend(start + i for i, b in enumerate(flags) if b)
        for ext in ('.v', '.vo', '.vok', '.vos', '.glob'):
            try:
                os.remove(path[:-2] + ext)
            except OSError:
                pass
        try:
            os.remove(os.path.join(BUILD, 'cases', '.' + os.path.basename(path)[:-2] + '.aux'))
        except OSError:
            pass
    return idxs


# ---------------------------------------------------------------- implementation runner

def run_impl(worker, payload, hashseed=0, timeout=600, extra_env=None, cwd=None, utf8=True):
    """Run harness/workers/<worker>.py in a fresh interpreter against /repo/src. payload and result are JSON."""
    env = dict(os.environ)
    env['PYTHONPATH'] = os.path.join(REPO, 'src') + os.pathsep + os.path.join(VERIF, 'harness')
    env['PYTHONHASHSEED'] = str(hashseed)
    env['PYTHONDONTWRITEBYTECODE'] = '1'
    env['DZNPY_REPO'] = REPO
    if extra_env:
        env.update(extra_env)
    if not utf8:     # an interpreter whose default text encoding is ASCII (C locale, UTF-8 mode off)
        env.update({'LC_ALL': 'C', 'LANG': 'C', 'PYTHONUTF8': '0', 'PYTHONCOERCECLOCALE': '0'})
    proc = subprocess.run([PY] + (['-X', 'utf8'] if utf8 else []) + [os.path.join(VERIF, 'harness', 'workers', worker + '.py')],
                          input=json.dumps(payload).encode(), stdout=subprocess.PIPE,
                          stderr=subprocess.PIPE, timeout=timeout, env=env, cwd=cwd or os.path.join(VERIF, 'harness'))
    if proc.returncode != 0:
        raise ImplCrash(worker, proc.returncode, proc.stderr.decode(errors='replace')[-2000:])
    return json.loads(proc.stdout.decode())


class ImplCrash(Exception):
    def __init__(self, worker, rc, err):
        super().__init__(f'worker {worker} rc={rc}: {err}')
        self.worker, self.rc, self.err = worker, rc, err


# ---------------------------------------------------------------- proof gate

FORBIDDEN = re.compile(r'\b(Admitted|admit|Axiom|Parameter|Conjecture|Admit Obligations|Unset Guard Checking|'
                       r'bypass_check|Unset Positivity Checking|Unset Universe Checking|type-in-type|'
                       r'impredicative-set|native_compute)\b')


def _strip_comments(text):
    out, depth, i = [], 0, 0
    while i < len(text):
        if text.startswith('(*', i):
            depth += 1
            i += 2
        elif text.startswith('*)', i) and depth:
            depth -= 1
            i += 2
        else:
            if not depth:
                out.append(text[i])
            i += 1
    return ''.join(out)


def proof_gate(pid):
    """(Re)build the Coq development, re-check Properties/<pid>.v and read its Print Assumptions output.
    Returns dict(obligations, discharged, theorems, assumptions, problems).
    Checks may run side by side: the gate is serialised with a file lock (it writes compiled files in the Coq tree)."""
    import fcntl
    os.makedirs(os.path.join(VERIF, '_build'), exist_ok=True)
    with open(os.path.join(VERIF, '_build', 'proofgate.lock'), 'w') as lock:
        fcntl.flock(lock, fcntl.LOCK_EX)
        return _proof_gate(pid)


def _proof_gate(pid):
    res = {'obligations': 0, 'discharged': 0, 'theorems': [], 'assumptions': {}, 'problems': []}
    mk = subprocess.run(['bash', '-c', 'cd %s && ([ -f Makefile ] || coq_makefile -f _CoqProject -o Makefile >/dev/null) '
                         '&& timeout 3000 make -j16 2>&1 | tail -30' % COQ],
                        stdout=subprocess.PIPE, stderr=subprocess.STDOUT)
    log = mk.stdout.decode()
    if 'Error' in log or mk.returncode != 0:
        res['problems'].append('coq build failed: ' + log[-1500:])
        return res
    # forbidden vernacular anywhere in the development
    for root, _, files in os.walk(os.path.join(COQ, 'theories')):
        for fn in files:
            if fn.endswith('.v'):
                txt = _strip_comments(open(os.path.join(root, fn)).read())
                m = FORBIDDEN.search(txt)
                if m:
                    res['problems'].append(f'forbidden vernacular "{m.group(0)}" in {fn}')
    pfile = os.path.join(COQ, 'theories', 'Properties', pid + '.v')
    if not os.path.exists(pfile):
        res['problems'].append('no property file ' + pfile)
        return res
    txt = _strip_comments(open(pfile).read())
    thms = re.findall(r'\b(?:Theorem|Corollary)\s+([A-Za-z0-9_\']+)', txt)
    res['theorems'] = thms
    res['obligations'] = len(thms)
    proc = subprocess.run(['bash', '-c', f'cd {COQ} && timeout 900 coqc -Q theories Dznpy '
                           f'-w -notation-overridden theories/Properties/{pid}.v'],
                          stdout=subprocess.PIPE, stderr=subprocess.STDOUT)
    out = proc.stdout.decode()
    if proc.returncode != 0:
        res['problems'].append('property file does not check: ' + out[-1500:])
        return res
    # Print Assumptions blocks, in order
    blocks = re.split(r'(?m)^(?=Closed under the global context|Axioms:)', out)
    blocks = [b.strip() for b in blocks if b.startswith('Closed under') or b.startswith('Axioms:')]
    printed = re.findall(r'Print Assumptions\s+([A-Za-z0-9_\']+)', txt)
    for name, blk in zip(printed, blocks):
        res['assumptions'][name] = blk
    for t in thms:
        blk = res['assumptions'].get(t)
        if blk is None:
            res['problems'].append(f'no Print Assumptions for {t}')
        elif blk.startswith('Closed under the global context'):
            res['discharged'] += 1
        else:
            axioms = set(re.findall(r'(?m)^([A-Za-z0-9_.\']+)\s*:', blk.split('Axioms:', 1)[1]))
            if axioms <= ALLOWED_AXIOMS:
                res['discharged'] += 1
            else:
                res['problems'].append(f'{t} depends on axioms {sorted(axioms - ALLOWED_AXIOMS)}')
    if CURRENT_TIER[0] == 'thorough':
        # independent re-check of the compiled property module and everything it depends on
        proc = subprocess.run(['bash', '-c', f'cd {COQ} && timeout 1800 coqchk -silent -o -Q theories Dznpy Dznpy.Properties.{pid}'],
                              stdout=subprocess.PIPE, stderr=subprocess.STDOUT)
        out = proc.stdout.decode()
        m = re.search(r'\* Axioms:\s*(.*?)\n\s*\n', out, re.S)
        res['coqchk'] = {'rc': proc.returncode, 'axioms': (m.group(1).strip() if m else '?')}
        if proc.returncode != 0 or not m or m.group(1).strip() != '<none>':
            res['problems'].append('coqchk does not accept the property module or reports axioms: ' + out[-800:])
    return res


# ---------------------------------------------------------------- verdicts and evidence

class Report:
    def __init__(self, pid, tier, seed):
        self.pid, self.tier, self.seed = pid, tier, seed
        self.t0 = time.time()
        self.evaluations = 0
        self.distinct = set()
        self.samples = []
        self.hist = {}
        self.violations = []      # (replay_path, no_failing_input)
        self.known = []
        self.notes = []
        self.extra = {}

    def case(self, canon, nontrivial=True, shape=None):
        """count one evaluated case; canon is any JSON-able canonical form of the input"""
        self.evaluations += 1
        if nontrivial:
            self.distinct.add(hashlib.sha1(json.dumps(canon, sort_keys=True, default=str).encode()).digest()[:8])
        if shape is not None:
            self.hist[shape] = self.hist.get(shape, 0) + 1
        if len(self.samples) < 3 or (self.evaluations in (17, 257, 4097) and len(self.samples) < 6):
            self.samples.append(canon)

    def violation(self, what, replay, failing_input=True):
        os.makedirs(os.path.join(VERIF, 'replays'), exist_ok=True)
        n = len(self.violations)
        path = os.path.join(VERIF, 'replays', f'{self.pid}-{self.seed}-{n}.json')
        doc = {'property': self.pid, 'what': what, 'seed': self.seed, 'tier': self.tier,
               'failing_input_found': failing_input, 'replay': replay,
               'rerun': f'cd /verif && VERIF_SEED={self.seed} ./check {self.pid} {self.tier}'}
        with open(path, 'w') as f:
            json.dump(doc, f, indent=1, default=str)
        self.violations.append((path, not failing_input))
        tail = '' if failing_input else ' no-failing-input-found'
        print(f'VIOLATION property={self.pid} replay={path}{tail}', flush=True)
        print(f'  -> {what}'[:600], flush=True)

    def known_finding(self, kid, what):
        self.known.append(kid)
        print(f'KNOWN-FINDING: property={self.pid} {kid} {what}', flush=True)

    def finish(self, gate, rule, trusted, assumptions, level='proof'):
        for p in gate['problems']:
            self.violation('proof gate: ' + p, {'theorem_or_correspondence': p}, failing_input=False)
        cov = {
            'obligations': gate['obligations'], 'discharged': gate['discharged'],
            'checker_cmd': f'cd /verif/coq && make && coqc -Q theories Dznpy theories/Properties/{self.pid}.v',
            'trusted_base': trusted,
            'theorems': gate['theorems'],
            'print_assumptions': gate['assumptions'],
            'coqchk': gate.get('coqchk', 'not run in the quick tier'),
            'evaluations': self.evaluations,
            'distinct_nontrivial': len(self.distinct),
            'rule': rule,
            'samples': self.samples[:6],
            'input_histogram': self.hist,
            'known_findings_reproduced': self.known,
            'notes': self.notes,
        }
        cov.update(self.extra)
        cov.update(EXTRA_EVIDENCE)
        ev = {'property_id': self.pid, 'tier': self.tier, 'seed': self.seed, 'level': level,
              'coverage': cov, 'assumptions': assumptions,
              'wall_s': round(time.time() - self.t0, 2), 'violations': len(self.violations)}
        # evidence describes runs against /repo; a run pointed at another tree (DZNPY_REPO, used to evaluate seeded changes)
        # leaves its record under _build instead
        evdir = os.path.join(VERIF, 'evidence') if os.path.realpath(REPO) == '/repo' else os.path.join(VERIF, '_build', 'evidence_other_tree')
        os.makedirs(evdir, exist_ok=True)
        with open(os.path.join(evdir, self.pid + '.json'), 'w') as f:
            json.dump(ev, f, indent=1, default=str)
        print(f'{self.pid} {self.tier}: theorems {gate["discharged"]}/{gate["obligations"]}, '
              f'{self.evaluations} cases ({len(self.distinct)} distinct non-trivial), '
              f'{len(self.violations)} violation(s), {len(self.known)} known finding(s), '
              f'{ev["wall_s"]} s', flush=True)
        return 1 if self.violations else 0


def load_known():
    p = os.path.join(VERIF, 'known_findings.json')
    return json.load(open(p)) if os.path.exists(p) else {'known': [], 'fixed': []}


CURRENT_TIER = ['quick']


def tier_seed(argv):
    tier = argv[2] if len(argv) > 2 and argv[2] in ('quick', 'thorough') else os.environ.get('VERIF_TIER', 'quick')
    CURRENT_TIER[0] = tier
    seed = int(os.environ.get('VERIF_SEED', '20260930'))
    return tier, seed
