"""Abstract Dezyne files (the tree the Dezyne grammar produces) and their JSON AST rendering.
Mirrors Spec/DznFile.v: the same abstract tree is sent to the Gallina model, whose own `to_json`
and `flatten_decls` are the specification side of C05.

A file is a list of declarations, each a list:
  ["ns", ids, [decl...]]
  ["itf", ids, [type...], [event...]]      type = ["enum", ids, [field...]] | ["subint", ids, lo, hi]
                                            event = [name, "in"|"out", ret_ids, [[fname, type_ids, "in"|"out"|"inout"]...]]
  ["comp", ids, [port...]] | ["foreign", ids, [port...]]
  ["sys", ids, [port...], [[iname, type_ids]...], [[[lport, linst|None], [rport, rinst|None]]...]]
  ["enum", ids, [field...]] | ["subint", ids, lo, hi] | ["extern", ids, value]
  ["import", name] | ["file", name] | ["unknown", classname] | ["junk", jsonvalue]
  port = [name, type_ids, "provides"|"requires", injected(bool)]
"""


def scope_name(ids):
    return {'<class>': 'scope_name', 'ids': list(ids)}


def j_formal(f, extras):
    d = {'<class>': 'formal', 'name': f[0], 'type_name': scope_name(f[1]), 'direction': f[2]}
    if extras:
        d['expression'] = 'undefined'
    return d


def j_formals(fs, extras):
    return {'<class>': 'formals', 'elements': [j_formal(f, extras) for f in fs]}


def j_event(e, extras):
    return {'<class>': 'event', 'name': e[0], 'direction': e[1],
            'signature': {'<class>': 'signature', 'type_name': scope_name(e[2]), 'formals': j_formals(e[3], extras)}}


def j_port(p, extras):
    d = {'<class>': 'port', 'name': p[0], 'type_name': scope_name(p[1]), 'direction': p[2],
         'formals': j_formals([], extras)}
    if p[3]:
        d['injected?'] = 'injected'
    if extras:
        d['external?'] = None
    return d


def j_ports(ps, extras):
    return {'<class>': 'ports', 'elements': [j_port(p, extras) for p in ps]}


def j_type(t):
    if t[0] == 'tother':
        return {'<class>': t[1], 'name': scope_name(['Alias']), 'whatever': [1]}
    if t[0] == 'enum':
        return {'<class>': 'enum', 'name': scope_name(t[1]), 'fields': {'<class>': 'fields', 'elements': list(t[2])}}
    return {'<class>': 'subint', 'name': scope_name(t[1]), 'range': {'<class>': 'range', 'from': t[2], 'to': t[3]}}


def j_endpoint(e):
    d = {'<class>': 'end-point', 'port_name': e[0]}
    if e[1] is not None:
        d['instance_name'] = e[1]
    return d


def j_decl(d, extras=False):
    k = d[0]
    if k == 'ns':
        return {'<class>': 'namespace', 'name': scope_name(d[1]), 'elements': [j_decl(x, extras) for x in d[2]]}
    if k == 'itf':
        r = {'<class>': 'interface', 'name': scope_name(d[1]),
             'types': {'<class>': 'types', 'elements': [j_type(t) for t in d[2]]},
             'events': {'<class>': 'events', 'elements': [j_event(e, extras) for e in d[3]]}}
        if extras:
            r['behavior'] = {'<class>': 'behavior', 'statement': {}}
        return r
    if k in ('comp', 'foreign'):
        r = {'<class>': 'component' if k == 'comp' else 'foreign', 'name': scope_name(d[1]), 'ports': j_ports(d[2], extras)}
        if extras and k == 'comp':
            r['behavior'] = {'<class>': 'behavior'}
        return r
    if k == 'sys':
        return {'<class>': 'system', 'name': scope_name(d[1]), 'ports': j_ports(d[2], extras),
                'instances': {'<class>': 'instances', 'elements': [
                    {'<class>': 'instance', 'name': i[0], 'type_name': scope_name(i[1])} for i in d[3]]},
                'bindings': {'<class>': 'bindings', 'elements': [
                    {'<class>': 'binding', 'left': j_endpoint(b[0]), 'right': j_endpoint(b[1])} for b in d[4]]}}
    if k in ('enum', 'subint'):
        return j_type(d)
    if k == 'extern':
        return {'<class>': 'extern', 'name': scope_name(d[1]), 'value': {'<class>': 'data', 'value': d[2]}}
    if k == 'import':
        return {'<class>': 'import', 'name': d[1]}
    if k == 'file':
        return {'<class>': 'file-name', 'name': d[1]}
    if k == 'unknown':
        return {'<class>': d[1], 'whatever': [1, 2, {'<class>': 'interface'}]}
    if k == 'junk':
        return d[1]
    raise ValueError(k)


def to_json(decls, extras=False, comment=True):
    root = {'<class>': 'root', 'elements': [j_decl(d, extras) for d in decls], 'working-directory': '/w'}
    if comment:
        root['comment'] = {'<class>': 'comment', 'string': '// generated\n'}
    return root
