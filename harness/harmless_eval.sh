#!/bin/bash
# usage: harmless_eval.sh <worktree holding a behaviour-preserving rewrite> <property id>...
# Runs the named quick checks against the worktree (DZNPY_REPO); every check must stay silent (exit 0, no VIOLATION line).
wt="$1"; shift
for id in "$@"; do
  out=$(cd /verif && DZNPY_REPO=$wt ./check $id quick 2>&1); rc=$?
  if [ $rc -ne 0 ] || echo "$out" | grep -q "^VIOLATION"; then
    echo "ALARM $id rc=$rc"; echo "$out" | grep -E "VIOLATION|->" | cut -c1-300 | head -4
  else echo "silent $id"; fi
done
