"""Generators for strings and nested content trees (shared by C17, C18, C19). One PRNG, no global state."""

BREAKS = ['\n', '\r', '\r\n', '\x0b', '\x0c', '\x1c', '\x1d', '\x1e', '\x85', ' ', ' ']
SPACES = [' ', '\t', '\x1f', '\xa0', ' ', ' ', ' ', ' ', ' ', '　']
PLAIN = list('abcXYZ019_-/\\*{};:"#') + ['é', '\U0001F600', '//', '/*', '*/', '- ', '\\']


def rand_word(rng, lo=0, hi=6):
    return ''.join(rng.choice(PLAIN) for _ in range(rng.randint(lo, hi)))


def rand_line(rng):
    """a string without line breaks"""
    k = rng.random()
    if k < 0.15:
        return ''
    if k < 0.25:
        return ''.join(rng.choice(SPACES) for _ in range(rng.randint(1, 3)))  # blank but non-empty
    w = rand_word(rng, 1, 6)
    if rng.random() < 0.3:
        w = ''.join(rng.choice(SPACES) for _ in range(rng.randint(1, 3))) + w
    if rng.random() < 0.3:
        w = w + ''.join(rng.choice(SPACES) for _ in range(rng.randint(1, 2)))
    if rng.random() < 0.2:
        w = w + rng.choice(SPACES) + rand_word(rng, 1, 4)
    return w


def rand_str(rng):
    """a string possibly containing any of the line-break characters"""
    k = rng.random()
    if k < 0.10:
        return ''
    if k < 0.35:
        return rand_line(rng)
    parts = [rand_line(rng) for _ in range(rng.randint(1, 4))]
    out = parts[0]
    for p in parts[1:]:
        out += rng.choice(BREAKS) + p
    if rng.random() < 0.4:
        out += rng.choice(BREAKS)
    if rng.random() < 0.15:
        out = rng.choice(BREAKS) + out
    return out


# (what str() gives, truthiness): the worker builds the real object from the text (workers/common.py PY_OBJECTS)
PY_OBJECTS = [['o', 'True', True], ['o', 'False', False], ['o', '1.5', True], ['o', '0.0', False], ['o', '(1, 2)', True], ['o', '()', False],
              ['o', "b'x'", True], ['o', "b''", False], ['o', 'set()', False], ['o', '{3}', True], ['o', "('a', ['b'])", True], ['o', 'range(0, 2)', True],
              ['o', '-7', True], ['o', '(1+2j)', True], ['o', 'frozenset()', False]]


# instances of str subclasses whose str() differs from their text: only the flattening / TextBlock checks (C17) use them - how
# such an object is *rendered* by an Indentizer is outside what the properties speak about ("strings")
ALLOW_STR_SUBCLASS = False


def rand_content(rng, depth=0, maxdepth=4, wf=False):
    """JSON-able content tree:
       ["n"] None | ["s", str] | ["o", str, truthy] other object | ["l", items] | ["d", items]
       | ["b", header_lines, lines] TextBlock | ["c", lines] cpp_gen.Comment
       wf=True: blocks/comments hold break-free lines only (what the API without the lines setter produces)"""
    k = rng.random()
    if depth >= maxdepth:
        k = k * 0.62
    if k < 0.08:
        return ['n']
    if k < 0.12 and ALLOW_STR_SUBCLASS:
        # an instance of a SUBCLASS of str (e.g. a str-valued Enum member): it is a string - its own text counts, not its str()
        # (never the EMPTY string: the unchanged library keeps an empty str-subclass instance as the object itself and later
        # renders str(object) for it when the block is indented - an exotic corner outside what the properties call strings)
        return ['ssub', rand_str(rng) or 'x']
    if k < 0.42:
        return ['s', rand_str(rng)]
    if k < 0.50:
        j = rng.random()
        if j < 0.12:
            # real Python objects that are neither str, list nor dict: rendered with str(), truthiness as Python defines it
            return rng.choice(PY_OBJECTS)
        if j < 0.5:
            v = rng.randint(0, 1200)
            return ['o', str(v), v != 0]
        if j < 0.7:
            return ['o', '', rng.random() < 0.5]
        return ['o', rand_str(rng), rng.random() < 0.8]
    if k < 0.56:
        hdr = [rand_line(rng) for _ in range(rng.choice([0, 0, 1, 2]))]
        lines = [rand_line(rng) if (wf or rng.random() < 0.85) else rand_str(rng) for _ in range(rng.choice([0, 1, 2, 3]))]
        return ['b', hdr, lines]
    if k < 0.62:
        lines = [rand_line(rng) if (wf or rng.random() < 0.85) else rand_str(rng) for _ in range(rng.choice([0, 1, 2, 3]))]
        return ['c', lines]
    if k > 0.97 and depth + 1 < maxdepth:
        # the same list/dict/block object occurring twice (shared, not cyclic)
        return ['dup', rand_content(rng, depth + 1, maxdepth, wf), rand_content(rng, depth + 1, maxdepth, wf)]
    n = rng.choice([0, 1, 1, 2, 2, 3, 4])
    items = [rand_content(rng, depth + 1, maxdepth, wf) for _ in range(n)]
    return ['l' if k < 0.9 else 'd', items]


def content_sx(c):
    """content tree -> model wire value (see Run/RunText.v dec_content)"""
    t = c[0]
    if t == 'n':
        return [0]
    if t in ('s', 'ssub'):
        return [1, c[1]]
    if t == 'o':
        return [2, c[1], bool(c[2])]
    if t == 'l':
        return [3] + [content_sx(x) for x in c[1]]
    if t == 'dup':
        return [3, content_sx(c[1]), content_sx(c[2]), content_sx(c[1])]
    if t == 'd':
        return [4] + [content_sx(x) for x in c[1]]
    if t == 'b':
        return [5, [list(c[1]), list(c[2])]]
    if t == 'c':
        return [6, list(c[1])]
    raise ValueError(t)


def content_shape(c):
    t = c[0]
    if t == 'dup':
        return 'dup'
    if t in 'ld':
        return t + '(' + ''.join(content_shape(x) for x in c[1])[:12] + ')'
    return t


def rand_indcfg(rng):
    """[tab?, spaces, bullet or None] with bullet = [first_only?, glyph]"""
    tab = rng.random() < 0.25
    n = rng.choice([0, 1, 2, 3, 4, 5, 8])
    k = rng.random()
    if k < 0.4:
        b = None
    else:
        g = rng.choice(['-', '//', '-->', '*', 'o', '>>>>>>', '', ' ', '- ', ' x', '•', '{}', '{0}', '{', '}', '{{', '{x}', '%s', '%', '\\'])
        b = [rng.random() < 0.5, g]
    return [tab, n, b]


def indcfg_sx(cfg):
    tab, n, b = cfg
    return [bool(tab), n, [] if b is None else [bool(b[0]), b[1]]]
