"""From the resolved plan of a build (op 602 of the model) generate the stand-in for the Dezyne-generated model header:
port structs (meta, in/out std::function slots, check_bindings testing every event) and the component struct whose
constructor binds its own side of every port to recording handlers."""
from lib import ds, dss


def decode_plan(v):
    """wire value of op 602 -> dict"""
    if v[0] != 0:
        return None
    enc_fqn, scope, ports = v[1]
    out = {'enc_fqn': dss(enc_fqn), 'scope': dss(scope), 'ports': []}
    for p in ports:
        name, d, inj, itf, exposed = p
        port = {'name': ds(name), 'requires': bool(d), 'injected': bool(inj), 'itf': None, 'exposed': None}
        if itf:
            fqn, events, types = itf[0]
            evs = []
            for e in events:
                ename, edir, rk, formals = e
                ret = {0: ('void', None), 1: ('bool', None), 3: ('int', None), 4: ('other', None)}.get(rk[0])
                if rk[0] == 2:
                    ret = ('enum', {'fqn': dss(rk[1]), 'fields': [ds(x[1]) for x in rk[2] if x[0] == 4]})
                evs.append({'name': ds(ename), 'out': bool(edir), 'ret': ret,
                            'formals': [{'name': ds(f[0]), 'dir': ['in', 'out', 'inout'][f[1]], 'type': ds(f[2][0]) if f[2] else None}
                                        for f in formals]})
            tys = []
            for t in types:
                if len(t) == 2:
                    tys.append({'fqn': dss(t[0]), 'fields': [ds(x[1]) for x in t[1] if x[0] == 4]})
            port['itf'] = {'fqn': dss(fqn), 'events': evs, 'enums': tys}
        if exposed:
            sem, mc = exposed[0]
            port['exposed'] = {'mts': bool(sem), 'mc': None if not mc else
                               {'claim': ds(mc[0][0]), 'reply': dss(mc[0][1]), 'release': ds(mc[0][2])}}
        out['ports'].append(port)
    return out


def cpp_fqn(ids):
    return '::' + '::'.join(ids)


def ret_type(ev):
    k, e = ev['ret']
    if k == 'void':
        return 'void'
    if k == 'bool':
        return 'bool'
    if k == 'int':
        return 'int'
    if k == 'enum':
        return cpp_fqn(e['fqn'])
    return None


def usable(plan):
    """can a mock header be generated? every interface resolved, every formal type resolved, reply kinds known"""
    if plan is None:
        return False
    for p in plan['ports']:
        if p['itf'] is None:
            return False
        for e in p['itf']['events']:
            if ret_type(e) is None or any(f['type'] is None for f in e['formals']):
                return False
            k, en = e['ret']
            if k == 'enum' and en['fqn'][:-1] != p['itf']['fqn']:
                return False      # only interface-nested enums are laid out by this generator
    return True


def sig(ev):
    args = ', '.join(f['type'] + ('' if f['dir'] == 'in' else '&') for f in ev['formals'])
    return f'std::function<{ret_type(ev)}({args})>'


def wrap_ns(ids, body):
    if not ids:
        return body
    return f'namespace {"::".join(ids)} {{\n{body}}}\n'


def interface_struct(itf):
    name = itf['fqn'][-1]
    lines = [f'struct {name}', '{']
    for en in itf['enums']:
        lines.append(f'    enum class {en["fqn"][-1]} {{ {", ".join(en["fields"])} }};')
    lines.append('    dzn::port::meta meta;')
    for d, label in ((False, 'in'), (True, 'out')):
        lines.append('    struct')
        lines.append('    {')
        for e in itf['events']:
            if e['out'] == d:
                lines.append(f'        {sig(e)} {e["name"]};')
        lines.append(f'    }} {label};')
    lines.append('    void check_bindings() const')
    lines.append('    {')
    for e in itf['events']:
        lbl = 'out' if e['out'] else 'in'
        lines.append(f'        if (!{lbl}.{e["name"]}) throw dzn::binding_error(meta, "{lbl}.{e["name"]}");')
    lines.append('    }')
    lines.append('};')
    return '\n'.join(lines) + '\n'


def handler(port, ev, who):
    """recording handler bound by `who` (ENC = the component, USER = the test driver) for event ev of port"""
    params = ', '.join(f'{f["type"]}{"" if f["dir"] == "in" else "&"} {f["name"]}_' for f in ev['formals'])
    lbl = 'out' if ev['out'] else 'in'
    shows = ' + "," + '.join(f'verif::show({f["name"]}_)' for f in ev['formals'] if f['dir'] != 'out') or 'std::string()'
    body = [f'verif::rec(std::string("{who} {port}.{lbl}.{ev["name"]}(") + {shows} + ") ctx=" + verif::ctx());']
    for k, f in enumerate(ev['formals']):
        if f['dir'] != 'in':
            body.append(f'{f["name"]}_ = verif::Val<{f["type"]}>::make({700 + k});')
    rt = ret_type(ev)
    if rt == 'bool':
        body.append(f'return verif::replies()["{port}.{ev["name"]}"] != 0;')
    elif rt == 'int':
        body.append(f'return verif::replies()["{port}.{ev["name"]}"];')
    elif rt != 'void':
        body.append(f'return static_cast<{rt}>(verif::replies()["{port}.{ev["name"]}"]);')
    return f'[=]({params}) mutable {{ ' + ' '.join(body) + ' }'


def model_header_lean(plan):
    """what a Dezyne-generated header gives a translation unit and no more: <dzn/meta.hh>, forward declarations of the
    runtime facilities, the interface structs and the component struct with its members DECLARED (no inline bodies, so
    nothing else is pulled in).  A shell source that compiles against this brings its own includes for everything it uses."""
    itfs = {}
    for p in plan['ports']:
        itfs[tuple(p['itf']['fqn'])] = p['itf']
    out = ['#pragma once', '#include <dzn/meta.hh>', '#include <functional>', '#include <string>', '#include "verif_types.hh"',
           'namespace dzn { struct locator; struct runtime; struct pump; }', '']
    for fqn, itf in sorted(itfs.items()):
        text = interface_struct(itf)
        head, _, _ = text.partition('    void check_bindings() const')
        out.append(wrap_ns(list(fqn[:-1]), head + '    void check_bindings() const;\n};\n'))
    name = plan['enc_fqn'][-1]
    lines = [f'struct {name}', '{', '    dzn::meta dzn_meta;', '    const dzn::locator& dzn_locator;']
    for p in plan['ports']:
        lines.append(f'    {cpp_fqn(p["itf"]["fqn"])} {p["name"]};')
    lines += [f'    {name}(const dzn::locator& locator);', '    void check_bindings() const;', '};']
    out.append(wrap_ns(plan['enc_fqn'][:-1], '\n'.join(lines) + '\n'))
    return '\n'.join(out)


def model_header(plan):
    itfs = {}
    for p in plan['ports']:
        itfs[tuple(p['itf']['fqn'])] = p['itf']
    out = ['#pragma once', '#include <dzn/meta.hh>', '#include <dzn/locator.hh>', '#include <dzn/runtime.hh>', '#include <dzn/pump.hh>',
           '#include <functional>', '#include <string>', '#include "verif_prelude.hh"', '']
    for fqn, itf in sorted(itfs.items()):
        out.append(wrap_ns(list(fqn[:-1]), interface_struct(itf)))
    name = plan['enc_fqn'][-1]
    lines = [f'struct {name}', '{', '    dzn::meta dzn_meta;', '    const dzn::locator& dzn_locator;']
    for p in plan['ports']:
        lines.append(f'    {cpp_fqn(p["itf"]["fqn"])} {p["name"]};')
    lines.append(f'    {name}(const dzn::locator& locator) : dzn_locator(locator)')
    lines.append('    {')
    lines.append('        verif::the_component() = this;')
    lines.append('        verif::the_pump() = locator.try_get<dzn::pump>();')
    lines.append('        verif::rec(std::string("ENC constructed pump=") + (locator.try_get<dzn::pump>() ? "1" : "0") + " runtime=" + (locator.try_get<dzn::runtime>() ? "1" : "0"));')
    k = 0
    for p in plan['ports']:
        for e in p['itf']['events']:
            if (not p['requires'] and not e['out']) or (p['requires'] and e['out']):
                lbl = 'out' if e['out'] else 'in'
                lines.append(f'        if (verif::skip_enc() != {k}) {p["name"]}.{lbl}.{e["name"]} = {handler(p["name"], e, "ENC")};')
                k += 1
        side = 'require' if p['requires'] else 'provide'
        lines.append(f'        {p["name"]}.meta.{side}.name = "{p["name"]}";')
    lines.append('    }')
    lines.append('    void check_bindings() const')
    lines.append('    {')
    for p in plan['ports']:
        if not p['injected']:
            lines.append(f'        {p["name"]}.check_bindings();')
    lines.append('    }')
    lines.append('};')
    out.append(wrap_ns(plan['enc_fqn'][:-1], '\n'.join(lines) + '\n'))
    return '\n'.join(out)


def enc_handler_count(plan, exposed_only=True):
    """indices of the component-side handlers in model_header order -> (index, port, event label)"""
    out = []
    k = 0
    for p in plan['ports']:
        for e in p['itf']['events']:
            if (not p['requires'] and not e['out']) or (p['requires'] and e['out']):
                out.append((k, p, e))
                k += 1
    return out
