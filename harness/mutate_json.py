"""Malformed documents: single and multiple faults applied to a well-formed Dezyne JSON AST."""
import copy

RETYPES = [None, True, 7, 2.5, 'text', [], ['a'], {}, {'<class>': 'bogus'}, [[]], {'ids': 3}]
CLASSES = ['root', 'namespace', 'component', 'interface', 'system', 'foreign', 'enum', 'subint', 'extern', 'import',
           'file-name', 'port', 'ports', 'event', 'events', 'formal', 'formals', 'signature', 'scope_name', 'types',
           'fields', 'range', 'data', 'instance', 'instances', 'binding', 'bindings', 'end-point', 'comment',
           'bogus', '', 'Component']
BAD_IDS = ['', '9a', 'a b', 'a.b', 'a-b', 'é', 'a\n', ' a', '{}', '{0}', '%s']
# strings that mean something to str.format / % / Template when they end up inside an error message
HOSTILE_STRS = ['{injected}', '{}', '{', 'a}b', '{0}{1}', '%s %d', '%(x)s', '${x}', '{0!r:>{1}}', '\\', '{cls}']


def paths(j, prefix=()):
    """all paths (tuples of keys/indices) to nodes below the root"""
    out = []
    if isinstance(j, dict):
        for k, v in j.items():
            out.append(prefix + (k,))
            out.extend(paths(v, prefix + (k,)))
    elif isinstance(j, list):
        for i, v in enumerate(j):
            out.append(prefix + (i,))
            out.extend(paths(v, prefix + (i,)))
    return out


def get(j, path):
    for p in path:
        j = j[p]
    return j


def parent(j, path):
    return get(j, path[:-1]), path[-1]


def single_faults(doc, path):
    """all single-fault variants of doc at path: [description, mutated doc]"""
    out = []
    node = get(doc, path)

    def variant(desc, fn):
        d = copy.deepcopy(doc)
        par, key = parent(d, path)
        fn(par, key)
        out.append([desc, d])

    variant('delete', lambda par, key: par.pop(key) if isinstance(par, dict) else par.__delitem__(key))
    for r in RETYPES:
        if type(r) is type(node) and r == node:
            continue
        variant(f'retype:{type(r).__name__}', lambda par, key, r=r: par.__setitem__(key, copy.deepcopy(r)))
    for h in HOSTILE_STRS:
        variant(f'hostile-str:{h}', lambda par, key, h=h: par.__setitem__(key, h))
    if path[-1] == '<class>':
        for c in CLASSES:
            if c != node:
                variant(f'retag:{c}', lambda par, key, c=c: par.__setitem__(key, c))
    if path[-1] == 'ids' and isinstance(node, list):
        variant('ids:empty', lambda par, key: par.__setitem__(key, []))
        for b in BAD_IDS:
            variant(f'ids:bad:{b!r}', lambda par, key, b=b: par.__setitem__(key, list(node[:-1]) + [b]))
        variant('ids:nonstr', lambda par, key: par.__setitem__(key, list(node) + [1]))
    if path[-1] == 'direction':
        for v in ['in', 'out', 'inout', 'provides', 'requires', 'IN', '']:
            if v != node:
                variant(f'direction:{v}', lambda par, key, v=v: par.__setitem__(key, v))
    if path[-1] == 'injected?':
        variant('injected:bogus', lambda par, key: par.__setitem__(key, 'bogus'))
    return out


def random_fault(rng, doc):
    ps = paths(doc)
    if not ps:
        return ['none', doc]
    p = rng.choice(ps)
    return rng.choice(single_faults(doc, p))
