#!/bin/bash
# usage: regress_seeded.sh <property id>...   : for every seeded change of the named properties: apply it in a scratch worktree,
# run that property's quick check against the worktree (DZNPY_REPO) and report DETECTED (failing input) / BREAK-ONLY / MISSED.
for pid in "$@"; do
  for d in /verif/seeded/$pid-*; do
    wt=/tmp/regress_wt.$$.$RANDOM
    git -C /repo worktree add -q --detach $wt HEAD || exit 2
    if git -C $wt apply $d/patch.diff 2>/dev/null; then
      out=$(cd /verif && DZNPY_REPO=$wt ./check $pid quick 2>&1)
      if echo "$out" | grep -E "^VIOLATION" | grep -qv "no-failing-input-found"; then r=DETECTED
      elif echo "$out" | grep -qE "^VIOLATION"; then r=BREAK-ONLY
      else r=MISSED; fi
    else r=PATCH-DOES-NOT-APPLY; fi
    echo "$r $(basename $d)"
    git -C /repo worktree remove --force $wt; git -C /repo worktree prune
  done
done
