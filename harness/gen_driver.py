"""Trace driver for a compiled shell and the expected trace derived from the resolved plan.

The driver binds recording handlers on every accessor port (the user's side), then exercises every (port, event):
  user -> provides in-event, component -> provides out-event, peer -> requires out-event, component -> requires in-event,
printing one block per step. `expected_trace` computes what C01/C02 demand for the same plan."""
import gen_mockmodel as MM


def cap(n):
    return n[0].upper() + n[1:]


def shell_qname(plan, shell_name):
    ns = '::'.join(plan['scope'])
    return ('::' + ns + '::' if ns else '::') + shell_name


def enc_qname(plan):
    return '::' + '::'.join(plan['enc_fqn'])


def arg_decls(ev, base):
    """local variables for the arguments of one call; in/inout get distinguishable values"""
    out = []
    for k, f in enumerate(ev['formals']):
        init = f'verif::Val<{f["type"]}>::make({base + k})' if f['dir'] != 'out' else f'verif::Val<{f["type"]}>::make(0)'
        out.append(f'{f["type"]} a{k} = {init};')
    return ' '.join(out)


def arg_list(ev):
    return ', '.join(f'a{k}' for k in range(len(ev['formals'])))


def show_outs(ev):
    parts = [f'verif::show(a{k})' for k, f in enumerate(ev['formals']) if f['dir'] != 'in']
    return ' + "," + '.join(parts) if parts else 'std::string()'


def call_expr(target, ev, lbl):
    rt = MM.ret_type(ev)
    call = f'{target}.{lbl}.{ev["name"]}({arg_list(ev)})'
    if rt == 'void':
        return f'{call}; std::string ret = "void";'
    if rt == 'bool':
        return f'std::string ret = {call} ? "1" : "0";'
    if rt == 'int':
        return f'std::string ret = std::to_string({call});'
    return f'std::string ret = std::to_string(static_cast<int>({call}));'


def step_block(title, setup, call, ev):
    return ('    { verif::step("' + title + '"); ' + setup + ' try { ' + call +
            ' verif::after_call(ret, ' + show_outs(ev) + '); } catch (const std::exception& e) { verif::failed(e.what()); } verif::drain(); }')


DRIVER_PRELUDE = r'''
#include <iostream>
namespace verif {
inline size_t& mark() { static size_t m = 0; return m; }
inline void flush(const char* tag) { for (; mark() < trace().size(); ++mark()) std::cout << "  " << tag << " " << trace()[mark()] << "\n"; }
inline void step(const std::string& t) { std::cout << "STEP " << t << "\n"; }
inline void after_call(const std::string& ret, const std::string& outs) {
    flush("REC"); std::cout << "  RET " << ret << " OUTS " << outs << " QUEUED " << (the_pump() ? the_pump()->queue.size() : 0) << "\n"; }
inline void failed(const std::string& what) { flush("REC"); std::cout << "  EXC " << what << "\n"; }
inline void drain() { if (the_pump()) the_pump()->drain(); flush("LATE"); }
}
'''


def driver(plan, cfg, shell_header, replies=None):
    """C++ text of the trace driver"""
    shell_name = shell_header[:-3]
    q = shell_qname(plan, shell_name)
    sf = '::' + '::'.join((cfg.get('sf_prefix') or []) + ['Dzn'])
    mc = cfg['ports'].get('mc')
    create = cfg.get('fac', 'create') == 'create'
    L = [f'#include "{shell_header}"', DRIVER_PRELUDE, 'int main()', '{',
         '    dzn::locator loc; dzn::pump pump; dzn::runtime rt; dzn::meta parent; parent.name = "parent";']
    if not create:
        L.append('    loc.set(pump).set(rt);')
    if mc:
        L.append(f'    {sf}::ILog log;')
    L.append(f'    {q} shell(loc{", log" if mc else ""}, "inst");')
    L.append(f'    auto* enc = static_cast<{enc_qname(plan)}*>(verif::the_component());')
    if not create:
        L.append('    verif::the_pump() = &pump;')
    clients = ['A', 'B'] if mc else []
    # user side bindings
    for p in plan['ports']:
        if not p['exposed']:
            continue
        pre = 'Requires' if p['requires'] else 'Provides'
        if p['exposed']['mc']:
            for cid in clients:
                L.append(f'    auto& {p["name"]}_{cid} = shell.{pre}MultiClient{cap(p["name"])}("{cid}").port;')
                for e in p['itf']['events']:
                    if e['out']:
                        L.append(f'    {p["name"]}_{cid}.out.{e["name"]} = {MM.handler(p["name"] + "@" + cid, e, "USER")};')
        else:
            L.append(f'    auto& {p["name"]}_u = shell.{pre}{cap(p["name"])}().port;')
            for e in p['itf']['events']:
                if (not p['requires'] and e['out']) or (p['requires'] and not e['out']):
                    lbl = 'out' if e['out'] else 'in'
                    L.append(f'    {p["name"]}_u.{lbl}.{e["name"]} = {MM.handler(p["name"], e, "USER")};')
    for k, v in (replies or {}).items():
        L.append(f'    verif::replies()["{k}"] = {v};')
    L.append('    verif::step("FinalConstruct"); try { shell.FinalConstruct(&parent); std::cout << "  OK parent=" << (enc->dzn_meta.parent ? enc->dzn_meta.parent->name : "null") << " name=" << enc->dzn_meta.name << "\\n"; } catch (const std::exception& e) { verif::failed(e.what()); }')
    L.append('    verif::flush("REC");')
    # the accessor's return type announces the semantics: Sts<I> / Mts<I>
    L.append('    verif::step("accessor types");')
    for p in plan['ports']:
        if not p['exposed']:
            continue
        pre = 'Requires' if p['requires'] else 'Provides'
        call = f'shell.{pre}MultiClient{cap(p["name"])}("A")' if p['exposed']['mc'] else f'shell.{pre}{cap(p["name"])}()'
        itf = MM.cpp_fqn(p['itf']['fqn'])
        L.append(f'    std::cout << "  TYPE {p["name"]} " << (std::is_same_v<decltype({call}), {sf}::Mts<{itf}>> ? "Mts" : '
                 f'std::is_same_v<decltype({call}), {sf}::Sts<{itf}>> ? "Sts" : "other") << "\\n";')
    # every event is used twice, the second time with other argument values (an event must keep working after its first use)
    for rnd, again in ((0, ''), (1, ' again')):
      base = 10 + 300 * rnd
      for p in plan['ports']:
        if not p['exposed']:
            continue
        for e in p['itf']['events']:
            base += 10
            if p['exposed']['mc']:
                continue      # multi-client ports are exercised by the selector driver (C04)
            if not p['requires'] and not e['out']:      # user calls a provides in-event
                L.append(step_block(f'user {p["name"]}.in.{e["name"]}{again}', arg_decls(e, base), call_expr(p['name'] + '_u', e, 'in'), e))
            elif not p['requires'] and e['out']:        # the component raises a provides out-event
                L.append(step_block(f'enc {p["name"]}.out.{e["name"]}{again}', arg_decls(e, base), call_expr('enc->' + p['name'], e, 'out'), e))
            elif p['requires'] and e['out']:            # a peer raises a requires out-event
                L.append(step_block(f'user {p["name"]}.out.{e["name"]}{again}', arg_decls(e, base), call_expr(p['name'] + '_u', e, 'out'), e))
            else:                                       # the component calls a requires in-event
                L.append(step_block(f'enc {p["name"]}.in.{e["name"]}{again}', arg_decls(e, base), call_expr('enc->' + p['name'], e, 'in'), e))
    # the multi-client port through client A: claim (granted), every other in-event, every out-event, release, an out-event again
    for p in plan['ports']:
        if not (p['exposed'] and p['exposed']['mc']):
            continue
        for title, e, target, lbl, b in mc_sequence(p):
            if title.startswith('mc A') and e['name'] == p['exposed']['mc']['claim']:
                L.append(f'    verif::replies()["{p["name"]}.{e["name"]}"] = {mc_grant(p)};')
            if title.startswith('mc A') and e['name'] == p['exposed']['mc']['release']:
                L.append(release_raises_out_event(p, e, b))
            L.append(step_block(f'{title} {p["name"]}.{lbl}.{e["name"]}', arg_decls(e, b), call_expr(target, e, lbl), e))
    L.append('    return 0;')
    L.append('}')
    return '\n'.join(L) + '\n'


def show_val(typ, k):
    """what verif::show prints for Val<typ>::make(k)"""
    t = typ.replace(' ', '')
    if t in ('int', 'size_t', 'std::size_t'):
        return str(k)
    if t == 'double':
        return f'{4 * k + 1}/4'
    if t == 'bool':
        return str(k % 2)
    if t == 'std::string':
        return f's{k}'
    if t in ('Sub::MyLongNamedType', '::Sub::MyLongNamedType'):
        return f'L{k}'
    if t == '::My::Data<int>':
        return f'D{k}'
    if t in ('std::shared_ptr<Incident>', 'std::shared_ptr<::Incident>'):
        return f'I{k}'
    if t == 'constchar*':
        return f'c{k}'
    if t in ('Incident*', '::Incident*'):
        return f'P{k}'
    if t.startswith('type_') and t.endswith('_t'):
        return f't{t[5]}_{k}'
    raise ValueError(typ)


def expected_trace(plan, cfg, replies=None):
    """the output C01/C02 demand from the driver above (every event arrives exactly once at its same-named counterpart,
    arguments in declared order, reply and out/inout values carried back; MTS in-events in dispatcher context and
    blocking, MTS requires out-events queued with copied arguments; STS pass-through)"""
    replies = replies or {}
    out = ['STEP FinalConstruct', '  OK parent=parent name=inst', '  REC ENC constructed pump=1 runtime=1', 'STEP accessor types']
    for p in plan['ports']:
        if p['exposed']:
            out.append(f'  TYPE {p["name"]} {"Mts" if p["exposed"]["mts"] else "Sts"}')
    for rnd, again in ((0, ''), (1, ' again')):
      base = 10 + 300 * rnd
      for p in plan['ports']:
        if not p['exposed']:
            continue
        mts = p['exposed']['mts']
        for e in p['itf']['events']:
            base += 10
            if p['exposed']['mc']:
                continue
            ins = ','.join(show_val(f['type'], base + k) for k, f in enumerate(e['formals']) if f['dir'] != 'out')
            rt = MM.ret_type(e)
            ret = 'void' if rt == 'void' else str(replies.get(f'{p["name"]}.{e["name"]}', 0))
            outs = ','.join(show_val(f['type'], 700 + k) for k, f in enumerate(e['formals']) if f['dir'] != 'in')
            if not p['requires'] and not e['out']:
                out.append(f'STEP user {p["name"]}.in.{e["name"]}{again}')
                out.append(f'  REC ENC {p["name"]}.in.{e["name"]}({ins}) ctx={"D" if mts else "C"}')
                out.append(f'  RET {ret} OUTS {outs} QUEUED 0')
            elif not p['requires'] and e['out']:
                out.append(f'STEP enc {p["name"]}.out.{e["name"]}{again}')
                out.append(f'  REC USER {p["name"]}.out.{e["name"]}({ins}) ctx=C')
                out.append(f'  RET void OUTS  QUEUED 0')
            elif p['requires'] and e['out']:
                out.append(f'STEP user {p["name"]}.out.{e["name"]}{again}')
                if mts:
                    out.append(f'  RET void OUTS  QUEUED 1')
                    out.append(f'  LATE ENC {p["name"]}.out.{e["name"]}({ins}) ctx=D')
                else:
                    out.append(f'  REC ENC {p["name"]}.out.{e["name"]}({ins}) ctx=C')
                    out.append(f'  RET void OUTS  QUEUED 0')
            else:
                out.append(f'STEP enc {p["name"]}.in.{e["name"]}{again}')
                out.append(f'  REC USER {p["name"]}.in.{e["name"]}({ins}) ctx=C')
                out.append(f'  RET {ret} OUTS {outs} QUEUED 0')
    for p in plan['ports']:
        if not (p['exposed'] and p['exposed']['mc']):
            continue
        released = False
        for title, e, target, lbl, b in mc_sequence(p):
            ins = ','.join(show_val(f['type'], b + k) for k, f in enumerate(e['formals']) if f['dir'] != 'out')
            rt = MM.ret_type(e)
            is_claim = e['name'] == p['exposed']['mc']['claim']
            ret = 'void' if rt == 'void' else str(mc_grant(p) if is_claim else replies.get(f'{p["name"]}.{e["name"]}', 0))
            outs = ','.join(show_val(f['type'], 700 + k) for k, f in enumerate(e['formals']) if f['dir'] != 'in')
            out.append(f'STEP {title} {p["name"]}.{lbl}.{e["name"]}')
            if lbl == 'in':
                o0 = next((x for x in p['itf']['events'] if x['out']), None)
                if e['name'] == p['exposed']['mc']['release'] and o0 is not None:
                    # the component raises an out-event while it handles the release: the client still holds the claim
                    oins = ','.join(show_val(f['type'], b + 5 + k) for k, f in enumerate(o0['formals']) if f['dir'] != 'out')
                    out.append(f'  REC USER {p["name"]}@A.out.{o0["name"]}({oins}) ctx=D')
                out.append(f'  REC ENC {p["name"]}.in.{e["name"]}({ins}) ctx=D')
                out.append(f'  RET {ret} OUTS {outs} QUEUED 0')
                released = released or e['name'] == p['exposed']['mc']['release']
            else:
                if not released:
                    out.append(f'  REC USER {p["name"]}@A.out.{e["name"]}({ins}) ctx=C')
                out.append('  RET void OUTS  QUEUED 0')
    return out


def release_raises_out_event(p, release, b):
    """C++: from now on the component raises its first out-event while it handles the release event"""
    o0 = next((x for x in p['itf']['events'] if x['out']), None)
    if o0 is None:
        return ''
    params = ', '.join(f'{f["type"]}{"" if f["dir"] == "in" else "&"} {f["name"]}_' for f in release['formals'])
    fwd = ', '.join(f'{f["name"]}_' for f in release['formals'])
    decls = ' '.join(f'{f["type"]} o{k} = verif::Val<{f["type"]}>::make({b + 5 + k});' for k, f in enumerate(o0['formals']))
    oargs = ', '.join(f'o{k}' for k in range(len(o0['formals'])))
    return (f'    {{ auto orig = enc->{p["name"]}.in.{release["name"]}; enc->{p["name"]}.in.{release["name"]} = [=]({params}) mutable {{ '
            f'{decls} enc->{p["name"]}.out.{o0["name"]}({oargs}); return orig({fwd}); }}; }}')


def mc_grant(p):
    mc = p['exposed']['mc']
    claim = next(e for e in p['itf']['events'] if e['name'] == mc['claim'])
    return claim['ret'][1]['fields'].index(mc['reply'][-1])


def mc_sequence(p):
    """(step title, event, call target, in/out, argument base) for the multi-client port p, through client A"""
    mc = p['exposed']['mc']
    evs = p['itf']['events']
    claim = next(e for e in evs if e['name'] == mc['claim'])
    release = next(e for e in evs if e['name'] == mc['release'])
    seq = [('mc A', claim, p['name'] + '_A', 'in', 300)]
    b = 310
    for e in evs:
        if not e['out'] and e is not claim and e is not release:
            seq.append(('mc A', e, p['name'] + '_A', 'in', b))
            b += 10
    for e in evs:
        if e['out']:
            seq.append(('mc enc', e, 'enc->' + p['name'], 'out', b))
            b += 10
    seq.append(('mc A', release, p['name'] + '_A', 'in', b))
    b += 10
    for e in evs:
        if e['out']:
            seq.append(('mc enc after release', e, 'enc->' + p['name'], 'out', b))
            break
    return seq


# ---------------------------------------------------------------- C10: one event left unbound

def fc_driver(plan, cfg, shell_header):
    """driver: argv[1] = 'user' | 'enc' | 'none', argv[2] = index of the single handler left unbound. Prints OK / EXC and, for a
    multi-client port, whether a client can still be registered after final construction."""
    shell_name = shell_header[:-3]
    q = shell_qname(plan, shell_name)
    sf = '::' + '::'.join((cfg.get('sf_prefix') or []) + ['Dzn'])
    mc = cfg['ports'].get('mc')
    create = cfg.get('fac', 'create') == 'create'
    L = [f'#include "{shell_header}"', '#include <iostream>', '#include <cstring>', '#include <cstdlib>', 'int main(int argc, char** argv)', '{',
         '    if (argc > 2 && !std::strcmp(argv[1], "enc")) verif::skip_enc() = std::atoi(argv[2]);',
         '    if (argc > 2 && !std::strcmp(argv[1], "user")) verif::skip_user() = std::atoi(argv[2]);',
         '    dzn::locator loc; dzn::pump pump; dzn::runtime rt; dzn::meta parent; parent.name = "parent";']
    if not create:
        L.append('    loc.set(pump).set(rt);')
    if mc:
        L.append(f'    {sf}::ILog log;')
    L.append(f'    {q} shell(loc{", log" if mc else ""}, "inst");')
    L.append(f'    auto* enc = static_cast<{enc_qname(plan)}*>(verif::the_component());')
    k = 0
    index = []
    mcport = None
    for p in plan['ports']:
        if not p['exposed']:
            continue
        pre = 'Requires' if p['requires'] else 'Provides'
        if p['exposed']['mc']:
            mcport = p
            L.append('    if (argc < 2 || std::strcmp(argv[1], "zero")) {     // mode "zero": no client is registered before final construction')
            for cid in ('A', 'B'):
                L.append(f'    auto& {p["name"]}_{cid} = shell.{pre}MultiClient{cap(p["name"])}("{cid}").port;')
                for e in p['itf']['events']:
                    if e['out']:
                        L.append(f'    if (verif::skip_user() != {k}) {p["name"]}_{cid}.out.{e["name"]} = {MM.handler(p["name"] + "@" + cid, e, "USER")};')
                        index.append((k, f'{p["name"]}@{cid}.out.{e["name"]}'))
                        k += 1
            L.append('    }')
        else:
            L.append(f'    auto& {p["name"]}_u = shell.{pre}{cap(p["name"])}().port;')
            for e in p['itf']['events']:
                if (not p['requires'] and e['out']) or (p['requires'] and not e['out']):
                    lbl = 'out' if e['out'] else 'in'
                    L.append(f'    if (verif::skip_user() != {k}) {p["name"]}_u.{lbl}.{e["name"]} = {MM.handler(p["name"], e, "USER")};')
                    index.append((k, f'{p["name"]}.{lbl}.{e["name"]}'))
                    k += 1
    L.append('    try { shell.FinalConstruct(&parent); std::cout << "OK parent=" << (enc->dzn_meta.parent ? enc->dzn_meta.parent->name : "null") << "\\n"; }')
    L.append('    catch (const std::exception& e) { std::cout << "EXC " << e.what() << "\\n"; return 0; }')
    if mcport:
        pre = 'Provides'
        L.append(f'    try {{ (void)shell.{pre}MultiClient{cap(mcport["name"])}("LATE"); std::cout << "LATE-REGISTRATION-ACCEPTED\\n"; }} catch (const std::exception& e) {{ std::cout << "LATE-REGISTRATION-REFUSED\\n"; }}')
        L.append(f'    if (argc < 2 || std::strcmp(argv[1], "zero")) try {{ (void)shell.{pre}MultiClient{cap(mcport["name"])}("A"); std::cout << "KNOWN-CLIENT-OK\\n"; }} catch (const std::exception& e) {{ std::cout << "KNOWN-CLIENT-REFUSED\\n"; }}')
    # final construction may be repeated (e.g. after re-parenting): whenever a call returns, the parent it was given is recorded
    L.append('    dzn::meta parent2; parent2.name = "parent2";')
    L.append('    for (dzn::meta* given : {&parent2, static_cast<dzn::meta*>(nullptr), &parent}) {')
    L.append('        try { shell.FinalConstruct(given); std::cout << "AGAIN given=" << (given ? given->name : "null") << " recorded=" << (enc->dzn_meta.parent ? enc->dzn_meta.parent->name : "null") << "\\n"; }')
    L.append('        catch (const std::exception& e) { std::cout << "AGAIN-REFUSED\\n"; }')
    L.append('    }')
    L.append('    return 0;')
    L.append('}')
    return '\n'.join(L) + '\n', index


# ---------------------------------------------------------------- C09: facilities

def facilities_driver(plan, cfg, shell_header):
    """driver: argv[1] = bitmask: 1 pump present in the user's locator, 2 runtime present, 4 an extra service present.
    Prints what the component received and what the shell uses."""
    shell_name = shell_header[:-3]
    q = shell_qname(plan, shell_name)
    sf = '::' + '::'.join((cfg.get('sf_prefix') or []) + ['Dzn'])
    mc = cfg['ports'].get('mc')
    create = cfg.get('fac', 'create') == 'create'
    L = [f'#include "{shell_header}"', '#include <iostream>', '#include <cstdlib>', '#include <type_traits>',
         'struct Extra { int v = 42; };',
         'template <typename T, typename = void> struct has_locator : std::false_type {};',
         'template <typename T> struct has_locator<T, std::void_t<decltype(std::declval<T&>().Locator())>> : std::true_type {};',
         'int main(int argc, char** argv)', '{', '    int mask = argc > 1 ? std::atoi(argv[1]) : 0;',
         '    dzn::locator loc; dzn::pump pump; dzn::runtime rt; Extra extra;',
         '    if (mask & 1) loc.set(pump); if (mask & 2) loc.set(rt); if (mask & 4) loc.set(extra);',
         '    const size_t before = loc.services.size();']
    if mc:
        L.append(f'    {sf}::ILog log;')
    L.append(f'    std::cout << "ACCESSOR " << (has_locator<{q}>::value ? "yes" : "no") << "\\n";')
    L.append('    try {')
    L.append(f'        {q} shell(loc{", log" if mc else ""}, "inst");')
    L.append(f'        auto* enc = static_cast<{enc_qname(plan)}*>(verif::the_component());')
    L.append('        const dzn::locator& cl = enc->dzn_locator;')
    L.append('        std::cout << "CONSTRUCTED\\n";')
    L.append('        std::cout << "COMP-LOCATOR-IS-USERS " << (&cl == &loc ? "yes" : "no") << "\\n";')
    L.append('        std::cout << "COMP-PUMP " << (cl.try_get<dzn::pump>() == nullptr ? "none" : (cl.try_get<dzn::pump>() == &pump ? "users" : "own")) << "\\n";')
    L.append('        std::cout << "COMP-RUNTIME " << (cl.try_get<dzn::runtime>() == nullptr ? "none" : (cl.try_get<dzn::runtime>() == &rt ? "users" : "own")) << "\\n";')
    L.append('        std::cout << "COMP-EXTRA " << (cl.try_get<Extra>() == &extra ? "users" : (cl.try_get<Extra>() ? "other" : "none")) << "\\n";')
    L.append('        std::cout << "COMP-SERVICES " << cl.services.size() << "\\n";')
    if create:
        L.append('        std::cout << "ACCESSOR-IS-COMP-LOCATOR " << (&shell.Locator() == &cl ? "yes" : "no") << "\\n";')
    # which pump do multi-threaded events go through?
    probe = None
    for p in plan['ports']:
        if p['exposed'] and p['exposed']['mts'] and not p['exposed']['mc']:
            for e in p['itf']['events']:
                if (not p['requires'] and not e['out']) or (p['requires'] and e['out']):
                    probe = (p, e)
                    break
        if probe:
            break
    if probe:
        p, e = probe
        pre = 'Requires' if p['requires'] else 'Provides'
        lbl = 'out' if e['out'] else 'in'
        L.append(f'        {{ auto& prt = shell.{pre}{cap(p["name"])}().port; {arg_decls(e, 1)} prt.{lbl}.{e["name"]}({arg_list(e)}); }}')
        L.append('        std::cout << "USES-USERS-PUMP " << ((pump.posted + pump.shell_calls) > 0 ? "yes" : "no") << "\\n";')
    else:
        L.append('        std::cout << "USES-USERS-PUMP na\\n";')
    L.append('    } catch (const std::exception& e) { std::cout << "THROWS " << e.what() << "\\n"; }')
    L.append('    std::cout << "USER-LOCATOR-UNCHANGED " << (loc.services.size() == before ? "yes" : "no") << "\\n";')
    L.append('    return 0;')
    L.append('}')
    return '\n'.join(L) + '\n'


def facilities_expected(plan, cfg, mask):
    create = cfg.get('fac', 'create') == 'create'
    has_mts = any(p['exposed'] and p['exposed']['mts'] and not p['exposed']['mc'] and any(((not p['requires'] and not e['out']) or (p['requires'] and e['out'])) for e in p['itf']['events']) for p in plan['ports'])
    pump, rt, extra = bool(mask & 1), bool(mask & 2), bool(mask & 4)
    out = ['ACCESSOR ' + ('yes' if create else 'no')]
    if create:
        if pump or rt:
            out.append('THROWS')
        else:
            out += ['CONSTRUCTED', 'COMP-LOCATOR-IS-USERS no', 'COMP-PUMP own', 'COMP-RUNTIME own',
                    'COMP-EXTRA ' + ('users' if extra else 'none'), f'COMP-SERVICES {2 + (1 if extra else 0)}', 'ACCESSOR-IS-COMP-LOCATOR yes',
                    'USES-USERS-PUMP ' + ('na' if not has_mts else 'no')]
    else:
        if not (pump and rt):
            out.append('THROWS')
        else:
            out += ['CONSTRUCTED', 'COMP-LOCATOR-IS-USERS yes', 'COMP-PUMP users', 'COMP-RUNTIME users',
                    'COMP-EXTRA ' + ('users' if extra else 'none'), f'COMP-SERVICES {2 + (1 if extra else 0)}',
                    'USES-USERS-PUMP ' + ('na' if not has_mts else 'yes')]
    out.append('USER-LOCATOR-UNCHANGED yes')
    return out


# ---------------------------------------------------------------- C04: multi-client selector operation sequences

def selector_driver(plan, cfg, shell_header, clients):
    """driver reading operations from stdin:  claim <cid> <reply int> | release <cid> | other <cid> <event> | out <event>
    after each operation it prints the records produced and the value returned to the client."""
    shell_name = shell_header[:-3]
    q = shell_qname(plan, shell_name)
    sf = '::' + '::'.join((cfg.get('sf_prefix') or []) + ['Dzn'])
    create = cfg.get('fac', 'create') == 'create'
    mcp = next(p for p in plan['ports'] if p['exposed'] and p['exposed']['mc'])
    mc = mcp['exposed']['mc']
    itf = MM.cpp_fqn(mcp['itf']['fqn'])
    L = [f'#include "{shell_header}"', DRIVER_PRELUDE, '#include <map>', '#include <sstream>', 'int main()', '{',
         '    dzn::locator loc; dzn::pump pump; dzn::runtime rt; dzn::meta parent;']
    if not create:
        L.append('    loc.set(pump).set(rt);')
    L.append(f'    {sf}::ILog log;')
    L.append(f'    {q} shell(loc, log, "inst");')
    L.append(f'    auto* enc = static_cast<{enc_qname(plan)}*>(verif::the_component());')
    L.append(f'    std::map<std::string, {itf}*> cl;')
    for cid in clients:
        L.append(f'    cl["{cid}"] = &shell.ProvidesMultiClient{cap(mcp["name"])}("{cid}").port;')
        for e in mcp['itf']['events']:
            if e['out']:
                L.append(f'    cl["{cid}"]->out.{e["name"]} = {MM.handler(mcp["name"] + "@" + cid, e, "USER")};')
    # bind the user side of all other exposed ports so that FinalConstruct succeeds
    for p in plan['ports']:
        if not p['exposed'] or p['exposed']['mc']:
            continue
        pre = 'Requires' if p['requires'] else 'Provides'
        L.append(f'    auto& {p["name"]}_u = shell.{pre}{cap(p["name"])}().port;')
        for e in p['itf']['events']:
            if (not p['requires'] and e['out']) or (p['requires'] and not e['out']):
                lbl = 'out' if e['out'] else 'in'
                L.append(f'    {p["name"]}_u.{lbl}.{e["name"]} = {MM.handler(p["name"], e, "USER")};')
    L.append('    try { shell.FinalConstruct(&parent); } catch (const std::exception& e) { std::cout << "FINALCONSTRUCT-FAILED " << e.what() << "\\n"; return 0; }')
    L.append('    verif::mark() = verif::trace().size();')
    L.append('    std::string line;')
    L.append('    while (std::getline(std::cin, line)) {')
    L.append('        std::istringstream is(line); std::string op, a, b; is >> op >> a >> b;')
    L.append('        std::cout << "OP " << line << "\\n";')
    L.append('        try {')
    # in-events by name
    def in_call(e, target):
        return '{ ' + arg_decls(e, 50) + ' ' + call_expr(target, e, 'in') + ' verif::after_call(ret, ' + show_outs(e) + '); }'
    ins = [e for e in mcp['itf']['events'] if not e['out']]
    outs = [e for e in mcp['itf']['events'] if e['out']]
    L.append(f'        if (op == "claim") {{ verif::replies()["{mcp["name"]}.{mc["claim"]}"] = std::atoi(b.c_str()); ' +
             in_call(next(e for e in ins if e['name'] == mc['claim']), '(*cl[a])') + ' }')
    L.append('        else if (op == "release") ' + in_call(next(e for e in ins if e['name'] == mc['release']), '(*cl[a])'))
    L.append('        else if (op == "other") {')
    for e in ins:
        if e['name'] not in (mc['claim'], mc['release']):
            L.append(f'            if (b == "{e["name"]}") ' + in_call(e, '(*cl[a])'))
    L.append('        }')
    L.append('        else if (op == "out") {')
    for e in outs:
        L.append(f'            if (a == "{e["name"]}") {{ ' + arg_decls(e, 60) + f' enc->{mcp["name"]}.out.{e["name"]}({arg_list(e)}); verif::flush("REC"); }}')
    L.append('        }')
    L.append('        } catch (const std::exception& e) { verif::failed(e.what()); }')
    L.append('        verif::drain();')
    L.append('    }')
    L.append('    return 0;')
    L.append('}')
    return '\n'.join(L) + '\n'
