"""Shared by builder-level workers: parse an abstract Dezyne file, make a Configuration, build."""
import json

import orjson  # noqa: F401  (dependency of dznpy.json_ast; fail early if absent)
import dznjson
from dznpy.json_ast import DznJsonAst
from dznpy.scoping import NamespaceIds
from dznpy.adv_shell import Builder, PortsCfg, PortsSemanticsCfg, PortSelect, PortWildcard, MultiClientPortCfg
from dznpy.adv_shell.common import Configuration, FacilitiesOrigin

WILD = {'all': PortWildcard.ALL, 'remaining': PortWildcard.REMAINING, 'none': PortWildcard.NONE}


def parse_file(decls, extras=False):
    return DznJsonAst(json.dumps(dznjson.to_json(decls, extras))).process()


def mk_psel(p, order=None):
    if p[0] == 'w':
        return PortSelect(WILD[p[1]])
    names = list(p[1])
    if order is not None:
        order.shuffle(names)
    s = set()
    for n in names:
        s.add(n)
    return PortSelect(s)


def mk_portscfg(pc, order=None):
    prov = PortsSemanticsCfg(sts=mk_psel(pc['p'][0], order), mts=mk_psel(pc['p'][1], order))
    req = PortsSemanticsCfg(sts=mk_psel(pc['r'][0], order), mts=mk_psel(pc['r'][1], order))
    mc = None
    if pc.get('mc'):
        m = pc['mc']
        mc = MultiClientPortCfg(port_name=m[0], claim_event_name=m[1],
                                claim_granting_reply_value=NamespaceIds(list(m[2])), release_event_name=m[3])
    return PortsCfg(provides=prov, requires=req, multiclient=mc)


def enc_name(ids):
    """the encapsulee name as NamespaceIds or - for every third name - as the equivalent dotted string (build() converts it)"""
    ids = list(ids)
    if ids and all(isinstance(x, str) and x for x in ids) and sum(len(x) for x in ids) % 3 == 0:
        return '.'.join(ids)
    return NamespaceIds(ids)


def mk_cfg(cfg, fc, order=None):
    return Configuration(dezyne_filename=cfg.get('file', 'Model.dzn'), ast_fc=fc,
                         output_basename_suffix=cfg.get('suffix', 'AdvShell'),
                         fqn_encapsulee_name=enc_name(cfg['enc']),
                         ports_cfg=mk_portscfg(cfg['ports'], order),
                         facilities_origin=FacilitiesOrigin.CREATE if cfg.get('fac', 'create') == 'create' else FacilitiesOrigin.IMPORT,
                         copyright=cfg.get('copyright', 'Copyright (c) X'),
                         support_files_ns_prefix=None if cfg.get('sf_prefix') is None else NamespaceIds(list(cfg['sf_prefix'])),
                         creator_info=cfg.get('creator'), verbose=bool(cfg.get('verbose', False)))


_shared_builder = Builder()


def build(cfg, fc, order=None):
    # one Builder instance serves every build of the worker process (a Builder is reusable by its API); the history
    # checks (C12) also use a fresh instance per build
    return _shared_builder.build(mk_cfg(cfg, fc, order))


def files_obs(res):
    return [[g.filename, g.contents, g.hash, None if g.namespace is None else list(g.namespace.items)] for g in res.files]
