"""With VERIF_HOSTILE_ENV=1 in the environment: every environment variable the LIBRARY reads (a lookup made from a frame whose
code lives under $DZNPY_REPO/src) is answered with the value 'HOSTILE_<name>', whether the variable is set or not; lookups made
by the interpreter, the standard library or the harness see the real environment.  One of the processes C08 compares runs like
this, so output that depends on any environment variable - whatever its name - differs from the other processes' output.
The same process answers the library's reads of the clock with a fixed date in 2001 (install_clock).
Must be imported before dznpy."""
import os
import sys

READS = []


def _from_library():
    root = os.path.join(os.environ_real_get('DZNPY_REPO', '/repo'), 'src') + os.sep
    f = sys._getframe(2)
    for _ in range(12):
        if f is None:
            return False
        if f.f_code.co_filename.startswith(root):
            return True
        f = f.f_back
    return False


def install():
    cls = type(os.environ)
    orig = cls.__getitem__
    os.environ_real_get = lambda k, d=None: (orig(os.environ, k) if _has(orig, k) else d)

    def hostile_getitem(self, key):
        if isinstance(key, str) and _from_library():
            READS.append(key)
            return 'HOSTILE_' + key
        return orig(self, key)
    cls.__getitem__ = hostile_getitem


def _has(orig, k):
    try:
        orig(os.environ, k)
        return True
    except KeyError:
        return False


def install_clock():
    """the library's own reads of the clock (time.time/gmtime/localtime/strftime/ctime, datetime.now/utcnow/today, date.today made
    from a library frame) are answered with 3 February 2001; everybody else sees the real clock"""
    import time
    import datetime
    fixed = 981173106.0       # 2001-02-03 04:05:06 UTC

    def wrap0(orig, fake):
        def f(*a, **kw):
            if not a and not kw and _from_library():
                READS.append('clock:' + orig.__name__)
                return fake()
            return orig(*a, **kw)
        f.__name__ = orig.__name__
        return f
    o_time, o_gmtime, o_localtime, o_strftime, o_ctime = time.time, time.gmtime, time.localtime, time.strftime, time.ctime
    time.time = wrap0(o_time, lambda: fixed)
    time.time_ns = wrap0(time.time_ns, lambda: int(fixed * 1e9))
    time.gmtime = wrap0(o_gmtime, lambda: o_gmtime(fixed))
    time.localtime = wrap0(o_localtime, lambda: o_localtime(fixed))
    time.ctime = wrap0(o_ctime, lambda: o_ctime(fixed))

    def strftime(fmt, *a):
        if not a and _from_library():
            READS.append('clock:strftime')
            return o_strftime(fmt, o_localtime(fixed))
        return o_strftime(fmt, *a)
    time.strftime = strftime

    class FakeDate(datetime.date):
        @classmethod
        def today(cls):
            if _from_library():
                READS.append('clock:date.today')
                return cls(2001, 2, 3)
            return super().today()

    class FakeDateTime(datetime.datetime):
        @classmethod
        def now(cls, tz=None):
            if _from_library():
                READS.append('clock:datetime.now')
                return cls(2001, 2, 3, 4, 5, 6, tzinfo=tz)
            return super().now(tz)

        @classmethod
        def utcnow(cls):
            if _from_library():
                READS.append('clock:datetime.utcnow')
                return cls(2001, 2, 3, 4, 5, 6)
            return super().utcnow()

        @classmethod
        def today(cls):
            return cls.now()
    datetime.date = FakeDate
    datetime.datetime = FakeDateTime


def install_host():
    """host, user and platform descriptions read by the library are answered with made-up values as well"""
    import socket
    import platform
    import getpass

    def wrap(mod, name, fake):
        orig = getattr(mod, name)

        def f(*a, **kw):
            if _from_library():
                READS.append('host:' + name)
                return fake
            return orig(*a, **kw)
        f.__name__ = name
        setattr(mod, name, f)
    wrap(socket, 'gethostname', 'hostile-host')
    wrap(socket, 'getfqdn', 'hostile-host.example')
    wrap(getpass, 'getuser', 'hostile-user')
    for name, fake in (('node', 'hostile-host'), ('platform', 'Hostile-OS-0.0'), ('system', 'HostileOS'), ('release', '0.0'), ('machine', 'h64'),
                       ('python_version', '0.0.0'), ('python_implementation', 'HostilePython')):
        wrap(platform, name, fake)
    wrap(os, 'getlogin', 'hostile-user')
    wrap(os, 'cpu_count', 1)


if os.environ.get('VERIF_HOSTILE_ENV') == '1':
    install()
    install_clock()
    install_host()
