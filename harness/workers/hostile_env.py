"""With VERIF_HOSTILE_ENV=1 in the environment: every environment variable the LIBRARY reads (a lookup made from a frame whose
code lives under $DZNPY_REPO/src) is answered with the value 'HOSTILE_<name>', whether the variable is set or not; lookups made
by the interpreter, the standard library or the harness see the real environment.  One of the processes C08 compares runs like
this, so output that depends on any environment variable - whatever its name - differs from the other processes' output.
Must be imported before dznpy."""
import os
import sys

READS = []


def _from_library():
    root = os.path.join(os.environ_real_get('DZNPY_REPO', '/repo'), 'src') + os.sep
    f = sys._getframe(2)
    for _ in range(12):
        if f is None:
            return False
        if f.f_code.co_filename.startswith(root):
            return True
        f = f.f_back
    return False


def install():
    cls = type(os.environ)
    orig = cls.__getitem__
    os.environ_real_get = lambda k, d=None: (orig(os.environ, k) if _has(orig, k) else d)

    def hostile_getitem(self, key):
        if isinstance(key, str) and _from_library():
            READS.append(key)
            return 'HOSTILE_' + key
        return orig(self, key)
    cls.__getitem__ = hostile_getitem


def _has(orig, k):
    try:
        orig(os.environ, k)
        return True
    except KeyError:
        return False


if os.environ.get('VERIF_HOSTILE_ENV') == '1':
    install()
