"""Implementation side of the parser cases (C05, C15, C16): parse, then unparse the FileContents
with an unparser written independently of dznpy (field by field)."""
import copy
import json

from common import main
from dznpy import ast
from dznpy.json_ast import DznJsonAst, parse_event
from gen_model import json_sx

FD = {ast.FormalDirection.IN: 0, ast.FormalDirection.OUT: 1, ast.FormalDirection.INOUT: 2}
ED = {ast.EventDirection.IN: 0, ast.EventDirection.OUT: 1}
PD = {ast.PortDirection.PROVIDES: 0, ast.PortDirection.REQUIRES: 1}


def u_ids(n):
    return list(n.items)


def u_formal(f):
    return [f.name, u_ids(f.type_name.value), FD[f.direction]]


def u_event(e):
    return [e.name, u_ids(e.signature.type_name.value), [u_formal(f) for f in e.signature.formals.elements], ED[e.direction]]


def u_port(p):
    return [p.name, u_ids(p.type_name.value), PD[p.direction], [u_formal(f) for f in p.formals.elements], bool(p.injected.value)]


def u_head(d):
    return [u_ids(d.fqn), u_ids(d.parent_ns.fqn), u_ids(d.name.value)]


def u_enum(e):
    return u_head(e) + [[json_sx(x) for x in e.fields.elements]]


def u_subint(s):
    return u_head(s) + [json_sx(s.range.from_int), json_sx(s.range.to_int)]


def u_extern(e):
    return u_head(e) + [e.value.value]


def u_type(t):
    return [0, u_enum(t)] if isinstance(t, ast.Enum) else [1, u_subint(t)]


def u_interface(i):
    assert u_ids(i.ns_trail.fqn) == u_ids(i.fqn), 'ns_trail does not denote the interface scope'
    return u_head(i) + [[u_type(t) for t in i.types.elements], [u_event(e) for e in i.events.elements]]


def u_component(c):
    return u_head(c) + [[u_port(p) for p in c.ports.elements]]


def u_endpoint(e):
    return [e.port_name, [] if e.instance_name is None else [e.instance_name]]


def u_system(s):
    return u_head(s) + [[u_port(p) for p in s.ports.elements],
                        [[i.name, u_ids(i.type_name.value)] for i in s.instances.elements],
                        [[u_endpoint(b.left), u_endpoint(b.right)] for b in s.bindings.elements]]


def u_fc(fc):
    return [[u_component(c) for c in fc.components], [u_enum(e) for e in fc.enums], [u_extern(e) for e in fc.externs],
            [f.name for f in fc.filenames], [u_component(c) for c in fc.foreigns], [i.name for i in fc.imports],
            [u_interface(i) for i in fc.interfaces], [u_subint(s) for s in fc.subints], [u_system(s) for s in fc.systems]]


def res(fn):
    try:
        return [0, fn()]
    except RecursionError:
        return ['RecursionError']
    except Exception as e:  # noqa
        return [type(e).__name__]


def op_process(c):
    if c.get('via') == 'file':      # the other entry point: load_file(path).process(), also with verbose output
        import tempfile, os, io, contextlib

        def go():
            # the file is reached through a path that only the file system can interpret: <dir>/link/../doc.json where `link` is a
            # symbolic link to <dir>/real/sub - i.e. <dir>/real/doc.json; the textually shortened <dir>/doc.json is another document
            import shutil
            top = tempfile.mkdtemp(prefix='dznverif_path_')
            try:
                os.makedirs(os.path.join(top, 'real', 'sub'))
                os.symlink(os.path.join('real', 'sub'), os.path.join(top, 'link'))
                with open(os.path.join(top, 'real', 'doc.json'), 'wb') as f:
                    # a JSON file is UTF-8: either with every non-ASCII character escaped, or (raw_utf8) written as it is
                    f.write(json.dumps(c['doc'], ensure_ascii=not c.get('raw_utf8')).encode('utf-8'))
                with open(os.path.join(top, 'doc.json'), 'w') as f:
                    f.write('{"<class>": "root", "elements": [{"<class>": "import", "name": "decoy.dzn"}], "working-directory": "/"}')
                path = os.path.join(top, 'link', '..', 'doc.json')
                with contextlib.redirect_stdout(io.StringIO()):
                    return u_fc(DznJsonAst(verbose=bool(c.get('verbose'))).load_file(path).process())
            finally:
                shutil.rmtree(top, ignore_errors=True)
        return res(go)
    # (verbose progress output for every other document: it never influences the result)
    global _nprocess
    _nprocess += 1
    return res(lambda: u_fc(DznJsonAst(json.dumps(c['doc']), verbose=_nprocess % 2 == 0).process()))


_nprocess = 0


def op_parse_event(c):
    return res(lambda: u_event(parse_event(c['doc'])))


def op_history(c):
    """ops: ['new', doc|None] | ['load', i, doc] | ['process', i]; results of process() are unparsed at return
    time and again at the end of the history (to catch later mutation of an earlier result)."""
    import tempfile, os
    insts, out, kept = [], [], []
    # every load of a history goes through ONE path whose file is rewritten each time: what load_file returns is what the
    # file holds now
    shared_dir = tempfile.mkdtemp(prefix='dznverif_hist_')
    shared_path = os.path.join(shared_dir, 'Model.json')
    try:
        return _history(c, insts, out, kept, shared_path)
    finally:
        import shutil
        shutil.rmtree(shared_dir, ignore_errors=True)


def _history(c, insts, out, kept, shared_path):
    import os
    failures = []          # the caller keeps the exceptions of failed loads (as a log would)
    fds_before = len(os.listdir('/proc/self/fd')) if os.path.isdir('/proc/self/fd') else 0
    for op in c['ops']:
        if op[0] == 'new':
            insts.append(DznJsonAst(None if op[1] is None else json.dumps(op[1])))
            out.append(None)
        elif op[0] == 'load':
            with open(shared_path, 'w') as f:
                json.dump(op[2], f)
            r = insts[op[1]].load_file(shared_path)
            assert r is insts[op[1]]
            out.append(None)
        elif op[0] == 'load_bad':
            # a file that is not JSON at all (truncated): load_file must not return as if the file had been loaded
            with open(shared_path, 'w') as f:
                f.write(op[2])
            try:
                insts[op[1]].load_file(shared_path)
                out.append(['load-returned'])
            except Exception as e:  # noqa
                failures.append(e)
                out.append(['load-raised', type(e).__name__])
        elif op[0] == 'edit':
            # the caller edits the decoded document its parser holds (public property `ast`): keep the first element only
            a = insts[op[1]].ast
            if isinstance(a, dict) and isinstance(a.get('elements'), list):
                del a['elements'][1:]
            out.append(None)
        else:
            try:
                fc = insts[op[1]].process()
                out.append([0, u_fc(fc)])
                kept.append((len(out) - 1, fc))
            except RecursionError:
                out.append(['RecursionError'])
            except Exception as e:  # noqa
                out.append([type(e).__name__])
    late = {}
    for idx, fc in kept:
        now = [0, u_fc(fc)]
        if now != out[idx]:
            late[str(idx)] = now
    # results with the same declarations are equal objects in the library's own sense (==), whichever parse produced them
    not_eq = []
    obs = [(idx, u_fc(fc), fc) for idx, fc in kept]
    for a in range(len(obs)):
        for b in range(a + 1, len(obs)):
            if obs[a][1] == obs[b][1] and not (obs[a][2] == obs[b][2]) and len(not_eq) < 3:
                not_eq.append([obs[a][0], obs[b][0]])
    fds_after = len(os.listdir('/proc/self/fd')) if os.path.isdir('/proc/self/fd') else 0
    return {'results': out, 'changed_later': late, 'same_declarations_but_not_equal': not_eq,
            'files_left_open': max(0, fds_after - fds_before), 'failed_loads_kept': len(failures)}


main({'process': op_process, 'parse_event': op_parse_event, 'history': op_history})
