"""Shared by all implementation workers: import guard and content construction."""
import json
import os
import sys

import dznpy

_src = os.path.join(os.environ.get('DZNPY_REPO', '/repo'), 'src')
assert os.path.realpath(dznpy.__file__).startswith(os.path.realpath(_src)), \
    f'dznpy imported from {dznpy.__file__}, not from {_src}'

from dznpy.text_gen import TextBlock, Indentizer, Indentor, BulletList, BulletListMode  # noqa: E402
from dznpy.cpp_gen import Comment  # noqa: E402


class Obj:
    """an arbitrary non-str, non-container object with a chosen str() and truthiness"""

    def __init__(self, text, truthy):
        self._t, self._b = text, truthy

    def __str__(self):
        return self._t

    def __bool__(self):
        return self._b


PY_OBJECTS = {'True': True, 'False': False, '1.5': 1.5, '0.0': 0.0, '(1, 2)': (1, 2), '()': (), "b'x'": b'x', "b''": b'', 'set()': set(), '{3}': {3},
              "('a', ['b'])": ('a', ['b']), 'range(0, 2)': range(0, 2), '-7': -7, '(1+2j)': (1 + 2j), 'frozenset()': frozenset()}
assert all(str(v) == k for k, v in PY_OBJECTS.items())


class StrSub(str):
    """a str subclass whose str() is not its own text (like a str-valued Enum member)"""
    def __str__(self):
        return 'StrSub.MEMBER'

    def __repr__(self):
        return '<StrSub>'


def build(c):
    t = c[0]
    if t == 'n':
        return None
    if t == 's':
        return c[1]
    if t == 'ssub':
        return StrSub(c[1])
    if t == 'o':
        if c[1] in PY_OBJECTS and bool(PY_OBJECTS[c[1]]) == bool(c[2]):
            return PY_OBJECTS[c[1]]
        if c[1].isdigit() and str(int(c[1])) == c[1] and (int(c[1]) != 0) == bool(c[2]):
            return int(c[1])
        return Obj(c[1], bool(c[2]))
    if t == 'l':
        return [build(x) for x in c[1]]
    if t == 'dup':      # the SAME object twice in one list (shared sub-structure, no cycle)
        x = build(c[1])
        return [x, build(c[2]), x]
    if t == 'd':
        return {f'k{i}': build(x) for i, x in enumerate(c[1])}
    if t == 'b':
        tb = TextBlock(None, header=list(c[1]) if c[1] else None)
        tb.lines = list(c[2])
        return tb
    if t == 'c':
        cm = Comment()
        cm.lines = list(c[1])
        return cm
    raise ValueError(t)


def indentizer(cfg):
    tab, n, b = cfg
    bl = None
    if b is not None:
        bl = BulletList(mode=BulletListMode.FIRST_ONLY if b[0] else BulletListMode.ALL, glyph=b[1])
    if bl is not None:
        # the caller's BulletList object is configuration: building an Indentizer from it leaves it as it was, and a second
        # Indentizer built from the same object (the one returned) is the same indentizer
        before = (bl.mode, bl.glyph)
        Indentizer(indentor=Indentor.TAB if tab else Indentor.SPACES, spaces_count=n, bullet_list=bl)
        assert (bl.mode, bl.glyph) == before, f'constructing an Indentizer changed the BulletList it was given: {before!r} became {(bl.mode, bl.glyph)!r}'
    return Indentizer(indentor=Indentor.TAB if tab else Indentor.SPACES, spaces_count=n, bullet_list=bl)


def tb_obs(tb):
    return [list(tb._header), list(tb.lines), str(tb)]


def guarded(fn):
    try:
        return {'ok': fn()}
    except RecursionError:
        return {'exc': 'RecursionError'}
    except Exception as e:  # noqa: BLE001
        return {'exc': type(e).__name__, 'msg': str(e)[:200]}


def main(handlers):
    payload = json.load(sys.stdin)
    # the library prints diagnostics (e.g. parse_types) to stdout: keep the result channel clean
    result_channel = os.fdopen(os.dup(1), 'w')
    os.dup2(2, 1)
    sys.stdout = sys.stderr
    out = []
    for case in payload['cases']:
        out.append(guarded(lambda: handlers[case['op']](case)))
    json.dump({'results': out, 'dznpy_file': dznpy.__file__}, result_channel)
    result_channel.flush()
