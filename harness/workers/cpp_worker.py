"""Implementation side of the cpp_gen cases (C20)."""
from common import main, build
from dznpy import cpp_gen as G
from dznpy.scoping import NamespaceIds
from dznpy.text_gen import TextBlock

POST = [G.TypePostfix.NONE, G.TypePostfix.REFERENCE, G.TypePostfix.POINTER]
PREF = [G.FunctionPrefix.MEMBER_FUNCTION, G.FunctionPrefix.VIRTUAL, G.FunctionPrefix.STATIC]
ACC = [G.AccessSpecifier.PUBLIC, G.AccessSpecifier.PROTECTED, G.AccessSpecifier.PRIVATE, G.AccessSpecifier.ANONYMOUS]


def mk_fqn(f):
    return G.Fqn(NamespaceIds(list(f[0])), bool(f[1]))


def mk_type(t):
    f, ta, p, c, d = t
    return G.TypeDesc(fqn=mk_fqn(f), template_arg=None if ta is None else G.TemplateArg(mk_fqn(ta)),
                      postfix=POST[p], const=bool(c), default_value=d)


def mk_param(p):
    return G.Param(type_desc=mk_type(p[0]), name=p[1])


def mk_tb(t):
    tb = TextBlock(None, header=list(t[0]) if t[0] else None)
    tb.lines = list(t[1])
    return tb


def twice(fn):
    a = fn()
    b = fn()
    return [a, b]


def op_fqn(c):
    f = mk_fqn(c['f'])
    return twice(lambda: str(f))


def op_type(c):
    t = mk_type(c['t'])
    return twice(lambda: str(t))


def op_param(c):
    p = mk_param(c['p'])
    return twice(lambda: [p.as_decl, p.as_def])


def op_function(c):
    r, n, ps, pf, cav, ov, ini, cont, sc = c['f']
    try:
        scope = None if sc is None else G.Struct(name=sc)
        fn = G.Function(return_type=mk_type(r), name=n, params=[mk_param(p) for p in ps], prefix=PREF[pf], cav=cav,
                        override=bool(ov), initialization=ini, contents=build(cont), scope=scope)
    except Exception as e:  # noqa
        return [type(e).__name__]
    res = [0] + twice(lambda: [fn.as_decl, fn.as_def])
    # the library itself completes Function objects after creating (and possibly rendering) them: an object whose fields are
    # assigned after a first rendering renders like one constructed complete
    staged = G.Function(return_type=mk_type(r), name=n, scope=scope)
    try:
        staged.as_decl, staged.as_def      # noqa: B018  (first rendering, of the incomplete object)
    except Exception:  # noqa
        pass
    staged.params, staged.prefix, staged.cav, staged.override = [mk_param(p) for p in ps], PREF[pf], cav, bool(ov)
    staged.initialization, staged.contents = ini, build(cont)
    assert [staged.as_decl, staged.as_def] == res[1], 'a Function completed after its first rendering renders differently from one constructed complete'
    return res


def op_constructor(c):
    sc, ex, ps, ini, mil, cont = c['c']
    try:
        ct = G.Constructor(scope=G.Struct(name=sc), explicit=bool(ex), params=[None if p is None else mk_param(p) for p in ps],
                           initialization=ini, member_initlist=list(mil), contents=build(cont))
    except Exception as e:  # noqa
        return [type(e).__name__]
    res = [0] + twice(lambda: [ct.as_decl, ct.as_def])
    staged = G.Constructor(scope=G.Struct(name=sc))
    try:
        staged.as_decl, staged.as_def      # noqa: B018
    except Exception:  # noqa
        pass
    staged.explicit, staged.params = bool(ex), [None if p is None else mk_param(p) for p in ps]
    staged.initialization, staged.member_initlist, staged.contents = ini, list(mil), build(cont)
    assert [staged.as_decl, staged.as_def] == res[1], 'a Constructor completed after its first rendering renders differently from one constructed complete'
    return res


def op_destructor(c):
    sc, ov, ini, cont = c['d']
    dt = G.Destructor(scope=G.Class(name=sc), override=bool(ov), initialization=ini, contents=build(cont))
    res = twice(lambda: [dt.as_decl, dt.as_def])
    staged = G.Destructor(scope=G.Class(name=sc))
    try:
        staged.as_decl, staged.as_def      # noqa: B018
    except Exception:  # noqa
        pass
    staged.override, staged.initialization, staged.contents = bool(ov), ini, build(cont)
    assert [staged.as_decl, staged.as_def] == res[0], 'a Destructor completed after its first rendering renders differently from one constructed complete'
    return res


def op_member_var(c):
    mv = G.MemberVariable(type=mk_type(c['t']), name=c['n'])
    return twice(lambda: str(mv))


def op_struct(c):
    cls = G.Class if c['cls'] else G.Struct
    tb = mk_tb(c['tb'])
    s = cls(name=c['n'], contents=tb)
    r = twice(lambda: str(s))
    assert tb.lines == list(c['tb'][1]), 'contents modified'
    # structs/classes created without contents own their (empty) contents
    first = cls(name=c['n'])
    first.contents.append('int only_in_the_first;')
    assert 'only_in_the_first' not in str(cls(name=c['n'])), 'structs without contents share one contents object'
    assert 'only_in_the_first' in str(first), 'what is appended through the contents accessor of a struct is not rendered'
    s.contents.append('int appended_later;')
    assert 'appended_later' in str(s) and tb.lines[-1] == 'int appended_later;', 'the contents accessor of a struct does not hand out the block it renders'
    return r


def op_namespace(c):
    tb = mk_tb(c['tb'])
    ns = G.Namespace(NamespaceIds(list(c['ids'])), contents=tb)
    r = twice(lambda: str(ns))
    assert tb.lines == list(c['tb'][1]), 'contents modified'
    # namespaces created without contents own their (empty) contents: filling one leaves the next one empty
    first = G.Namespace(NamespaceIds(list(c['ids'])))
    first.contents.append('struct OnlyInTheFirst {};')
    second = G.Namespace(NamespaceIds(list(c['ids'])))
    third = G.Namespace(NamespaceIds(list(c['ids'])), contents=None)
    assert 'OnlyInTheFirst' not in str(second) and 'OnlyInTheFirst' not in str(third), 'namespaces without contents share one contents object'
    assert 'OnlyInTheFirst' in str(first)
    return r


def op_access(c):
    tb = mk_tb(c['tb'])
    s = G.AccessSpecifiedSection(access_specifier=ACC[c['a']], contents=tb)
    r = twice(lambda: str(s))
    assert tb.lines == list(c['tb'][1]), 'contents modified'
    return r


def op_includes(c):
    inc = (G.SystemIncludes if c['sys'] else G.ProjectIncludes)(list(c['l']))
    return twice(lambda: str(inc))


main({'fqn': op_fqn, 'type': op_type, 'param': op_param, 'function': op_function, 'constructor': op_constructor,
      'destructor': op_destructor, 'member_var': op_member_var, 'struct': op_struct, 'namespace': op_namespace,
      'access': op_access, 'includes': op_includes})
