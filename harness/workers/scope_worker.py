"""Implementation side of the scoping / lookup cases (C14)."""
import copy

from common import main
from dznpy import ast
from dznpy.scoping import NamespaceIds, NamespaceTree, namespaceids_t, scope_resolution_order, \
    sum_namespaceids_items
from dznpy.ast_view import find_fqn, find_any
from dznpy.cpp_gen import Fqn

KINDS = ['components', 'enums', 'externs', 'foreigns', 'interfaces', 'subints', 'systems']


def mk_decl(kind, fqn):
    n = NamespaceIds(list(fqn))
    root = NamespaceTree()
    name = ast.ScopeName(NamespaceIds([fqn[-1]]))
    ports = ast.Ports([])
    if kind == 'components':
        return ast.Component(n, root, name, ports)
    if kind == 'enums':
        return ast.Enum(n, root, name, ast.Fields(['A']))
    if kind == 'externs':
        return ast.Extern(n, root, name, ast.Data('int'))
    if kind == 'foreigns':
        return ast.Foreign(n, root, name, ports)
    if kind == 'interfaces':
        return ast.Interface(n, root, root, name, ast.Types([]), ast.Events([]))
    if kind == 'subints':
        return ast.SubInt(n, root, name, ast.Range(0, 1))
    return ast.System(n, root, name, ports, ast.Instances([]), ast.Bindings([]))


def mk_fc(cont):
    """cont: 7 lists of [uid, fqn]"""
    objs = {}
    kw = {}
    for kind, decls in zip(KINDS, cont):
        lst = []
        for uid, fqn in decls:
            o = mk_decl(kind, fqn)
            objs[id(o)] = uid
            lst.append(o)
        kw[kind] = lst
    # as the parser does: an enum or subint declared directly inside an interface is also listed in that interface's `types`
    # (the very same object) - it is still ONE declaration
    for itf in kw['interfaces']:
        for o in kw['enums'] + kw['subints']:
            if list(o.fqn.items[:-1]) == list(itf.fqn.items):
                itf.types.elements.append(o)
    fc = ast.FileContents(imports=[ast.Import('Acme.dzn'), ast.Import('a')], filenames=[ast.Filename('a.dzn')], **kw)
    return fc, objs


def op_valid_id(c):
    try:
        NamespaceIds([c['s']])
        return True
    except TypeError:
        return False


def build_arg(a):
    k = a[0]
    if k == 'ids':
        return NamespaceIds(list(a[1]))
    if k == 'list':
        return list(a[1])
    if k == 'str':
        return a[1]
    return {'none': None, 'int': 3, 'float': 3.5, 'mixed': ['a', 1], 'tuple': ('a',), 'dict': {'a': 1}}[a[1]]


def op_ns_t(c):
    try:
        r = namespaceids_t(build_arg(c['a']))
        assert isinstance(r, NamespaceIds)
        items = list(r.items)
        # the caller owns the result: extending it must not change what an equal argument converts to afterwards
        r += NamespaceIds(['Zz9'])
        again = namespaceids_t(build_arg(c['a']))
        if list(again.items) != items:
            return ['ResultSharedBetweenCalls', items, list(again.items)]
        return [0, items]
    except Exception as e:  # noqa
        return [type(e).__name__]


def op_sro_batch(c):
    out = []
    for i, sc in c['qs']:
        scope = NamespaceIds(list(sc)) if (sc or c.get('explicit_empty')) else None
        snap = copy.deepcopy(scope)
        r = scope_resolution_order(NamespaceIds(list(i)), scope)
        assert scope == snap, 'calling scope was modified'
        out.append([list(x.items) for x in r])
    return out


def op_find_fqn_batch(c):
    fc, objs = mk_fc(c['fc'])
    out = []
    for i, sc in c['qs']:
        scope = NamespaceIds(list(sc)) if sc else None
        r = find_fqn(fc, NamespaceIds(list(i)), scope)
        out.append([objs[id(o)] for o in r.items])
    return out


def op_find_any_batch(c):
    fc, objs = mk_fc(c['fc'])
    return [[objs[id(o)] for o in find_any(fc, NamespaceIds(list(i))).items] for i in c['qs']]


def op_render(c):
    n = NamespaceIds(list(c['ids']))
    return [str(n), str(Fqn(n))]


def op_tree(c):
    t = NamespaceTree()
    for sn in c['tree']:
        t = NamespaceTree(parent=t, scope_name=NamespaceIds(list(sn)))
    m = NamespaceIds(list(c['m']))
    r1 = t.fqn
    r2 = t.fqn_member_name(m)
    assert m.items == list(c['m']), 'member argument modified'
    return [list(r1.items), list(r2.items)]


def op_sum(c):
    items = [NamespaceIds(list(x)) for x in c['l']]
    r = sum_namespaceids_items(items)
    assert [list(x.items) for x in items] == [list(x) for x in c['l']], 'sum modified its arguments'
    return list(r.items)


main({'valid_id': op_valid_id, 'ns_t': op_ns_t, 'sro_batch': op_sro_batch, 'find_fqn_batch': op_find_fqn_batch,
      'find_any_batch': op_find_any_batch, 'render': op_render, 'tree': op_tree, 'sum': op_sum})
