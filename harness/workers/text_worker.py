"""Implementation side of the text kernel cases (C17, C18, C19)."""
import copy

from common import build, indentizer, tb_obs, main, TextBlock, Comment
from dznpy.misc_utils import flatten_to_strlist
from dznpy.text_gen import chunk, cond_chunk
from dznpy.cpp_gen import Namespace
from dznpy.scoping import NamespaceIds


def op_flatten(c):
    return flatten_to_strlist(build(c['c']), skip_empty_strings=c['skip'])


def op_mk(c):
    return tb_obs(TextBlock(build(c['c']), header=build(c['h'])))


def snap(o):
    """deep observation of a content object handed to a block"""
    if isinstance(o, TextBlock):
        return ['tb', list(o._header), list(o.lines)]
    if isinstance(o, list):
        return ['l'] + [snap(x) for x in o]
    if isinstance(o, dict):
        return ['d'] + [[k, snap(v)] for k, v in o.items()]
    return ['o', str(o)]


def scribble(o):
    """what a caller may do to ITS OWN objects after handing them to a block"""
    if isinstance(o, TextBlock):
        o.append('SCRIBBLED BY THE CALLER')
    elif isinstance(o, list):
        for x in o:
            scribble(x)
        o.append('SCRIBBLED BY THE CALLER')
    elif isinstance(o, dict):
        for v in list(o.values()):
            scribble(v)
        o['scribble'] = 'SCRIBBLED BY THE CALLER'


def op_hist(c):
    operands = []

    def operand(x):
        o = build(x)
        operands.append([o, snap(o)])
        return o

    def operands_untouched(when):
        for o, s in operands:
            assert snap(o) == s, f'{when}: the block changed an object that was handed to it as content or header'
    tb = TextBlock(operand(c['c']), header=operand(c['h']))
    out = [tb_obs(tb)]
    operands_untouched('construction')
    for op in c['ops']:
        k = op[0]
        if k == 'append':
            r = tb.append(operand(op[1]))
            assert r is tb
        elif k == 'iadd':
            tb += operand(op[1])
        elif k == 'add':
            before = tb_obs(tb)
            new = tb + operand(op[1])
            assert tb_obs(tb) == before, '__add__ modified its left operand'
            tb = new
        elif k == 'trim':
            tb.trim(end_only=op[1])
        elif k == 'indent':
            tb.indent(indentizer(op[1]))
        elif k == 'indent_again':
            tb.indent()
        elif k == 'setlines':
            tb.lines = list(op[1])
        out.append(tb_obs(tb))
        operands_untouched(k)
    # the block holds its own copy of everything: what the caller does to the objects afterwards does not reach it
    final = tb_obs(tb)
    for o, _ in operands:
        scribble(o)
    assert tb_obs(tb) == final, 'the block changed when the caller modified an object it had handed over earlier (aliased, not copied)'
    return out


def op_to_list(c):
    return indentizer(c['cfg']).to_list(build(c['c']))


def op_to_str(c):
    return indentizer(c['cfg']).to_str(build(c['c']))


def op_helper(c):
    """the ready-made indentizers all_dashes_t / initial_dash_t with their indentor argument omitted, SPACES, TAB or None"""
    from dznpy.text_gen import all_dashes_t, initial_dash_t, Indentor
    fn = all_dashes_t if c['helper'] == 'all' else initial_dash_t
    ind = fn() if c['arg'] == 'omit' else fn({'spaces': Indentor.SPACES, 'tab': Indentor.TAB, 'none': None}[c['arg']])
    return ind.to_list(build(c['c'])) if c['form'] == 'list' else ind.to_str(build(c['c']))


def opt_tb(t):
    return None if t is None else tb_obs(t)


def op_chunk(c):
    if c.get('default_appendix'):
        return opt_tb(chunk(build(c['c'])))
    return opt_tb(chunk(build(c['c']), build(c['a'])))


def op_cond_chunk(c):
    return opt_tb(cond_chunk(build(c['p']), build(c['c']), build(c['e']), build(c['a']), c['aon']))


def op_comment(c):
    """render twice, extend, render again; report renders and the lines buffer before/after"""
    src = build(c['c'])
    src_before = snap(src)
    cm = Comment(src)
    before = list(cm.lines)
    r1 = str(cm)
    assert snap(src) == src_before, 'constructing or rendering a Comment changed the object it was built from'
    scribble(src)     # the caller's object is the caller's: the comment keeps the text it was given
    assert list(cm.lines) == before and str(cm) == r1, 'the comment changed when the caller modified the object it was built from'
    mid = list(cm.lines)
    r2 = str(cm)
    cm.append(c['more'])
    r3 = str(cm)
    # the in-place operator is the other way to extend: same object afterwards, same rendering as append
    cm2 = Comment(build(c['c']))
    alias = cm2
    cm2 += c['more']
    cm3 = Comment(build(c['c']))
    plus = cm3 + c['more']
    assert list(cm3.lines) == before, '`comment + x` changed the comment'
    return {'lines': before, 'r1': r1, 'lines_after': mid, 'r2': r2, 'lines_ext': list(cm.lines), 'r3': r3, 'plus_lines': list(plus.lines),
            'iadd_same_object': cm2 is alias, 'iadd_type': type(cm2).__name__, 'r3_iadd': str(cm2), 'r3_alias': str(alias),
            'in_namespace': str(Namespace(NamespaceIds(['My', 'Reserved']), contents=Comment(build(c['c'])))),
            'in_list': str(TextBlock([Comment(build(c['c']))])), 'direct': TextBlock(Comment(build(c['c']))).lines}


def op_splitlines(c):
    return c['s'].splitlines()


def op_strip(c):
    return c['s'].strip()


def op_table(c):
    lo, n = c['lo'], c['n']
    if c['which'] == 'space':
        return [i for i in range(lo, lo + n) if (chr(i) + 'x').strip() != chr(i) + 'x' or not (chr(i)).strip()]
    return [i for i in range(lo, lo + n) if len(('a' + chr(i) + 'b').splitlines()) == 2]


main({'flatten': op_flatten, 'mk': op_mk, 'hist': op_hist, 'to_list': op_to_list, 'to_str': op_to_str,
      'chunk': op_chunk, 'cond_chunk': op_cond_chunk, 'comment': op_comment, 'helper': op_helper, 'splitlines': op_splitlines,
      'strip': op_strip, 'table': op_table})
