"""Implementation side of the builder-level cases."""
import copy
import random

import hostile_env  # noqa: F401  (first: answers the library's own environment lookups when VERIF_HOSTILE_ENV=1)
from common import main
import buildlib
from dznpy import dznpy_version
from dznpy.scoping import NamespaceIds
from dznpy.support_files import strict_port, ilog, misc_utils, meta_helpers, multi_client_selector, mutex_wrapped, distillate_ns

MODS = [strict_port, ilog, misc_utils, meta_helpers, multi_client_selector, mutex_wrapped]


def prefix_of(p):
    return None if p is None else NamespaceIds(list(p))


def op_templates(c):
    """the static texts the model takes as inputs: VERSION, COPYRIGHT, header/body lines of the six support files"""
    pre = prefix_of(c['prefix'])
    _, cpp_ns, _ = distillate_ns(pre)
    out = [dznpy_version.VERSION, dznpy_version.COPYRIGHT]
    for m in MODS:
        hdr = m.header_hh_template(cpp_ns) if hasattr(m, 'header_hh_template') else m.header_hh()
        out.append([list(hdr.lines), list(m.body_hh().lines)])
    return out


def op_support(c):
    pre = prefix_of(c['prefix'])
    return [[g.filename, g.contents, None if g.namespace is None else list(g.namespace.items)] for g in
            [m.create_header(pre) for m in MODS]]


def exc(e):
    return [type(e).__name__, str(e)[:200]]


def op_build(c):
    try:
        fc = buildlib.parse_file(c['file'], c.get('extras', False))
    except Exception as e:  # noqa
        return ['parse:' + type(e).__name__]
    order = random.Random(c['order_seed']) if c.get('order_seed') is not None else None
    def once():
        try:
            res = buildlib.build(c['cfg'], fc, order)
        except RecursionError:
            return ['RecursionError']
        except Exception as e:  # noqa
            return exc(e)
        return [0, buildlib.files_obs(res)]
    first = once()
    if c.get('twice'):
        second = once()   # the same parsed model and an equal configuration are still a valid (or invalid) input
        if second[:1] != first[:1] or (first[0] == 0 and second[1] != first[1]):
            return ['UnstableAcrossBuilds', str(first)[:300], str(second)[:300]]
    return first


def snap(o, depth=0, seen=None):
    """deep structural snapshot of arbitrary objects (dataclasses, enums, containers, TextBlocks, NamespaceTrees)"""
    import dataclasses
    import enum
    if o is None or isinstance(o, (bool, int, float, str)):
        return o
    if isinstance(o, enum.Enum):
        return ['enum', type(o).__name__, o.name]
    if isinstance(o, (list, tuple)):
        return [snap(x, depth + 1) for x in o]
    if isinstance(o, (set, frozenset)):
        return ['set'] + sorted(json_key(snap(x, depth + 1)) for x in o)
    if isinstance(o, dict):
        return ['dict'] + sorted([json_key(snap(k)), snap(v, depth + 1)] for k, v in o.items())
    if depth > 60:
        return '<deep>'
    if dataclasses.is_dataclass(o):
        return [type(o).__name__] + [[f.name, snap(getattr(o, f.name), depth + 1)] for f in dataclasses.fields(o)]
    if hasattr(o, '__dict__'):
        return [type(o).__name__] + [[k, snap(v, depth + 1)] for k, v in sorted(vars(o).items())]
    return repr(o)


def json_key(x):
    import json
    return json.dumps(x, sort_keys=True, default=str)


def op_count_files(c):
    """build and report only how many files came back (no hashing): for inputs whose text cannot be UTF-8 encoded, such as a
    file name holding a byte that os.listdir() or sys.argv surrogate-escaped"""
    fc = buildlib.parse_file(c['file'])
    try:
        res = Builder().build(buildlib.mk_cfg(c['cfg'], fc))
        return [0, len(res.files), [g.filename for g in res.files]]
    except Exception as e:  # noqa
        return exc(e)


def op_history(c):
    """models parsed once and shared; steps = [model index, cfg]; every build: snapshot inputs before/after"""
    # share_builder: one Builder instance serves every build of the history (otherwise a new one per build);
    # drop: every step parses its model afresh and lets go of it afterwards (otherwise parsed once and shared)
    fcs = None if c.get('drop') else [buildlib.parse_file(f) for f in c['models']]
    builder = Builder() if c.get('share_builder') else None
    out = []
    fc = None
    live_cfg = None
    for mi, cfgj in c['steps']:
        fc = None
        fc = buildlib.parse_file(c['models'][mi]) if fcs is None else fcs[mi]
        try:
            cfg = buildlib.mk_cfg(cfgj, fc)
        except Exception as e:  # noqa
            out.append({'res': exc(e), 'changed': None})
            continue
        if c.get('reuse_cfg'):
            # one Configuration object lives through the history: the caller edits its fields between builds
            if live_cfg is None:
                live_cfg = cfg
            else:
                import dataclasses
                try:
                    for f in dataclasses.fields(cfg):
                        setattr(live_cfg, f.name, getattr(cfg, f.name))
                    cfg = live_cfg
                except Exception:  # noqa  (a frozen Configuration cannot be edited: a new object then)
                    live_cfg = cfg
        before = json_key([snap(fc), snap(cfg)])
        try:
            result = (builder or Builder()).build(cfg)
            res = [0, buildlib.files_obs(result)]
        except RecursionError:
            res = ['RecursionError']
        except Exception as e:  # noqa
            res = exc(e)
        after = json_key([snap(fc), snap(cfg)])
        changed = None
        if before != after:
            import difflib
            a, b = before, after
            i = next(k for k in range(min(len(a), len(b))) if a[k] != b[k]) if a[:min(len(a), len(b))] != b[:min(len(a), len(b))] else min(len(a), len(b))
            changed = {'before': a[max(0, i - 150):i + 150], 'after': b[max(0, i - 150):i + 150]}
        out.append({'res': res, 'changed': changed})
        cfg = None
    return out


def op_collide(c):
    """build model A and let go of it; then present model B in a FileContents object that sits at the address A's had, and
    build that: anything remembered per object identity (id()) across builds shows as a result that belongs to A"""
    import dataclasses
    import gc
    fc_a = buildlib.parse_file(c['models'][0])
    try:
        Builder().build(buildlib.mk_cfg(c['cfg_a'], fc_a))
    except Exception:  # noqa
        pass
    addr = id(fc_a)
    fc_a = None
    gc.collect()
    fc_b = buildlib.parse_file(c['models'][1])
    keep = []
    hit = None
    for _ in range(c.get('tries', 4000)):
        w = dataclasses.replace(fc_b)
        if id(w) == addr:
            hit = w
            break
        keep.append(w)
    if hit is None:
        return {'collided': False}
    try:
        res = [0, buildlib.files_obs(Builder().build(buildlib.mk_cfg(c['cfg_b'], hit)))]
    except RecursionError:
        res = ['RecursionError']
    except Exception as e:  # noqa
        res = exc(e)
    return {'collided': True, 'res': res}


def op_standalone(c):
    """support files generated stand-alone, for comparison with those inside a build result"""
    return op_support(c)


from dznpy.adv_shell import Builder  # noqa: E402
main({'count_files': op_count_files, 'templates': op_templates, 'support': op_support, 'build': op_build, 'history': op_history, 'collide': op_collide, 'standalone': op_standalone})
