"""Implementation side of the builder-level cases."""
import copy
import random

from common import main
import buildlib
from dznpy import dznpy_version
from dznpy.scoping import NamespaceIds
from dznpy.support_files import strict_port, ilog, misc_utils, meta_helpers, multi_client_selector, mutex_wrapped, distillate_ns

MODS = [strict_port, ilog, misc_utils, meta_helpers, multi_client_selector, mutex_wrapped]


def prefix_of(p):
    return None if p is None else NamespaceIds(list(p))


def op_templates(c):
    """the static texts the model takes as inputs: VERSION, COPYRIGHT, header/body lines of the six support files"""
    pre = prefix_of(c['prefix'])
    _, cpp_ns, _ = distillate_ns(pre)
    out = [dznpy_version.VERSION, dznpy_version.COPYRIGHT]
    for m in MODS:
        hdr = m.header_hh_template(cpp_ns) if hasattr(m, 'header_hh_template') else m.header_hh()
        out.append([list(hdr.lines), list(m.body_hh().lines)])
    return out


def op_support(c):
    pre = prefix_of(c['prefix'])
    return [[g.filename, g.contents, None if g.namespace is None else list(g.namespace.items)] for g in
            [m.create_header(pre) for m in MODS]]


def exc(e):
    return [type(e).__name__, str(e)[:200]]


def op_build(c):
    try:
        fc = buildlib.parse_file(c['file'], c.get('extras', False))
    except Exception as e:  # noqa
        return ['parse:' + type(e).__name__]
    order = random.Random(c['order_seed']) if c.get('order_seed') is not None else None
    def once():
        try:
            res = buildlib.build(c['cfg'], fc, order)
        except RecursionError:
            return ['RecursionError']
        except Exception as e:  # noqa
            return exc(e)
        return [0, buildlib.files_obs(res)]
    first = once()
    if c.get('twice'):
        second = once()   # the same parsed model and an equal configuration are still a valid (or invalid) input
        if second[:1] != first[:1] or (first[0] == 0 and second[1] != first[1]):
            return ['UnstableAcrossBuilds', str(first)[:300], str(second)[:300]]
    return first


main({'templates': op_templates, 'support': op_support, 'build': op_build})
