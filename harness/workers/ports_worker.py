"""Implementation side of the port-selection cases (C03)."""
import re

from common import main
import buildlib
from dznpy.adv_shell.port_selection import PortsSemanticsCfg, PortsCfg
from dznpy.adv_shell.types import RuntimeSemantics

SEM = {RuntimeSemantics.STS: 0, RuntimeSemantics.MTS: 1}


def exc_kind(e):
    return [type(e).__name__]


def dict_obs(d):
    return sorted([k, SEM[v]] for k, v in d.items())


def op_psel(c):
    try:
        buildlib.mk_psel(c['p'])
        return [0]
    except Exception as e:  # noqa
        return exc_kind(e)


def op_semcfg(c):
    try:
        PortsSemanticsCfg(sts=buildlib.mk_psel(c['s']), mts=buildlib.mk_psel(c['m']))
        return [0]
    except Exception as e:  # noqa
        return exc_kind(e)


def op_side_match(c):
    try:
        cfg = PortsSemanticsCfg(sts=buildlib.mk_psel(c['s']), mts=buildlib.mk_psel(c['m']))
        return [0, dict_obs(cfg.match(set(c['e']), 'provides'))]
    except Exception as e:  # noqa
        return exc_kind(e)


def op_cfg_match(c):
    try:
        cfg = buildlib.mk_portscfg({'p': c['p'], 'r': c['r']})
        return [0, dict_obs(cfg.match(set(c['pp']), set(c['rp'])).value)]
    except Exception as e:  # noqa
        return exc_kind(e)


def op_build(c):
    """full build of a component with the given ports; observable: error kind, or accessor name -> Sts/Mts"""
    ports = c['ports']  # [name, requires?, injected?]
    decls = [['ns', ['My'], [
        ['itf', ['IApi'], [['enum', ['Result'], ['NotOk', 'Ok']]],
         [['Do', 'in', ['void'], []], ['Claim', 'in', ['Result'], []], ['Release', 'in', ['void'], []], ['Done', 'out', ['void'], []]]],
        ['itf', ['IHal'], [], [['Go', 'in', ['void'], []], ['Went', 'out', ['void'], []]]],
        ['comp', ['Comp'], [[p[0], ['IHal'] if p[1] else ['IApi'], 'requires' if p[1] else 'provides', bool(p[2])] for p in ports]]]]]
    fc = buildlib.parse_file(decls)
    try:
        pc = {'p': c['p'], 'r': c['r']}
        if c.get('mc'):      # the named provides port is a multi-client port
            pc['mc'] = [c['mc'], 'Claim', ['Ok'], 'Release']
        res = buildlib.build({'enc': ['My', 'Comp'], 'ports': pc, 'file': 'Comp.dzn'}, fc)
    except Exception as e:  # noqa
        return exc_kind(e)
    assert len(res.files) == 8
    hh = res.files[0].contents
    acc = {}
    for m in re.finditer(r'^\s*::Dzn::(Sts|Mts)<[^>]*> (Provides|Requires)(?:MultiClient)?(\w+)\(', hh, re.M):
        acc[m.group(2)[0] + ':' + m.group(3)] = 0 if m.group(1) == 'Sts' else 1
    return [0, sorted([k, v] for k, v in acc.items())]


main({'psel': op_psel, 'semcfg': op_semcfg, 'side_match': op_side_match, 'cfg_match': op_cfg_match, 'build': op_build})
