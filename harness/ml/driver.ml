(* Generic driver for the extracted model: one s-expression per input line, one per output line.
   Grammar: Model.sexp ::= INT | '(' sexp* ')'. All decoding/encoding of model values happens in Gallina
   (Base/Sexp.v, Run/*.v); this file only converts between text and the extracted [sexp]/[Z]. *)

let rec pos_of_int n = if n = 1 then Model.XH else if n land 1 = 1 then Model.XI (pos_of_int (n lsr 1)) else Model.XO (pos_of_int (n lsr 1))
let z_of_int n = if n = 0 then Model.Z0 else if n > 0 then Model.Zpos (pos_of_int n) else Model.Zneg (pos_of_int (-n))
let rec int_of_pos = function Model.XH -> 1 | Model.XI p -> 2 * int_of_pos p + 1 | Model.XO p -> 2 * int_of_pos p
let int_of_z = function Model.Z0 -> 0 | Model.Zpos p -> int_of_pos p | Model.Zneg p -> - (int_of_pos p)

let parse (s : string) : Model.sexp =
  let n = String.length s in
  let pos = ref 0 in
  let rec skip () = if !pos < n && (s.[!pos] = ' ' || s.[!pos] = '\t' || s.[!pos] = '\r') then (incr pos; skip ()) in
  let rec item () : Model.sexp =
    skip ();
    if !pos >= n then failwith "unexpected end"
    else if s.[!pos] = '(' then begin
      incr pos;
      let acc = ref [] in
      let rec loop () =
        skip ();
        if !pos >= n then failwith "unclosed"
        else if s.[!pos] = ')' then incr pos
        else (acc := item () :: !acc; loop ()) in
      loop ();
      Model.SL (List.rev !acc)
    end else begin
      let st = !pos in
      if s.[!pos] = '-' then incr pos;
      while !pos < n && s.[!pos] >= '0' && s.[!pos] <= '9' do incr pos done;
      if !pos = st then failwith "bad token";
      Model.SI (z_of_int (int_of_string (String.sub s st (!pos - st))))
    end in
  item ()

let rec print (b : Buffer.t) (x : Model.sexp) : unit =
  match x with
  | Model.SI z -> Buffer.add_string b (string_of_int (int_of_z z))
  | Model.SL l ->
    Buffer.add_char b '(';
    let first = ref true in
    List.iter (fun y -> if not !first then Buffer.add_char b ' '; first := false; print b y) l;
    Buffer.add_char b ')'

let () =
  let b = Buffer.create 65536 in
  (try
     while true do
       let line = input_line stdin in
       if String.length line > 0 then begin
         Buffer.clear b;
         (try print b (Model.dispatch (parse line)) with
          | Stack_overflow -> Buffer.clear b; Buffer.add_string b "(-2)"
          | Failure m -> Buffer.clear b; Buffer.add_string b "(-3)"; prerr_endline m);
         print_string (Buffer.contents b);
         print_newline ()
       end
     done
   with End_of_file -> ())
