#pragma once
// Threaded stand-in for dzn::pump (verification harness; not the real runtime): one dispatcher thread runs the posted closures
// in FIFO order; dzn::shell(pump, f) posts f and blocks the calling thread until the dispatcher has run it (promise/future),
// which is what the Dezyne runtime does for a call entering a thread-safe shell.
// In `controlled` mode the dispatcher runs a closure only when the scheduler grants a permit (step()).
#include <atomic>
#include <chrono>
#include <condition_variable>
#include <deque>
#include <functional>
#include <future>
#include <mutex>
#include <thread>
#include <type_traits>

namespace dzn
{
struct pump
{
    std::mutex m;
    std::condition_variable cv;
    std::deque<std::function<void()>> queue;
    bool in_dispatch = false; // unused here (kept for the shared prelude)
    bool controlled = false;
    bool stop = false;
    unsigned long permits = 0;
    unsigned long posted = 0;
    unsigned long completed = 0;
    unsigned long shell_calls = 0;
    std::atomic<std::thread::id> worker_id{};
    std::thread worker;

    pump() { worker = std::thread([this] { loop(); }); }
    pump(const pump&) = delete;
    ~pump()
    {
        {
            std::lock_guard<std::mutex> lk(m);
            stop = true;
        }
        cv.notify_all();
        if (worker.joinable()) worker.join();
    }

    void operator()(const std::function<void()>& f)
    {
        {
            std::lock_guard<std::mutex> lk(m);
            queue.push_back(f);
            ++posted;
        }
        cv.notify_all();
    }

    // scheduler only: a closure that is to run before the ones already waiting (an event that "was posted earlier")
    void post_front(const std::function<void()>& f)
    {
        {
            std::lock_guard<std::mutex> lk(m);
            queue.push_front(f);
            ++posted;
        }
        cv.notify_all();
    }

    void loop()
    {
        worker_id.store(std::this_thread::get_id());
        std::unique_lock<std::mutex> lk(m);
        for (;;)
        {
            cv.wait(lk, [&] { return stop || (!queue.empty() && (!controlled || permits > 0)); });
            if (stop) return;
            auto f = std::move(queue.front());
            queue.pop_front();
            if (controlled) --permits;
            lk.unlock();
            f();
            lk.lock();
            ++completed;
            cv.notify_all();
        }
    }

    bool on_dispatcher() const { return std::this_thread::get_id() == worker_id.load(); }

    // scheduler interface -------------------------------------------------------------------------------------------------
    void set_controlled(bool c)
    {
        std::lock_guard<std::mutex> lk(m);
        controlled = c;
        cv.notify_all();
    }
    unsigned long posted_now()
    {
        std::lock_guard<std::mutex> lk(m);
        return posted;
    }
    unsigned long shell_calls_now()
    {
        std::lock_guard<std::mutex> lk(m);
        return shell_calls;
    }
    bool wait_posted(unsigned long n, int ms)
    {
        std::unique_lock<std::mutex> lk(m);
        return cv.wait_for(lk, std::chrono::milliseconds(ms), [&] { return posted >= n; });
    }
    // let the dispatcher run exactly one closure and wait until it has returned
    bool step(int ms)
    {
        std::unique_lock<std::mutex> lk(m);
        unsigned long target = completed + 1;
        ++permits;
        cv.notify_all();
        return cv.wait_for(lk, std::chrono::milliseconds(ms), [&] { return completed >= target; });
    }
    bool wait_idle(int ms)
    {
        std::unique_lock<std::mutex> lk(m);
        return cv.wait_for(lk, std::chrono::milliseconds(ms), [&] { return queue.empty() && completed == posted; });
    }
};

template <typename L>
auto shell(dzn::pump& p, L&& l) -> decltype(l())
{
    using R = decltype(l());
    if (p.on_dispatcher()) return l(); // re-entrant call from the dispatcher thread itself: not exercised by the checks
    std::promise<R> pr;
    auto fut = pr.get_future();
    p([&] {
        try
        {
            if constexpr (std::is_void_v<R>)
            {
                l();
                pr.set_value();
            }
            else
            {
                pr.set_value(l());
            }
        }
        catch (...)
        {
            pr.set_exception(std::current_exception());
        }
    });
    {
        std::lock_guard<std::mutex> lk(p.m);
        ++p.shell_calls;
    }
    return fut.get();
}
} // namespace dzn
