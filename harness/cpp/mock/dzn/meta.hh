// Mock of the Dezyne runtime API used by dznpy-generated code (verification harness; not the real runtime).
#pragma once
#include <functional>
#include <stdexcept>
#include <string>
#include <vector>

namespace dzn
{
struct meta
{
    std::string name;
    std::string type;
    const meta* parent = nullptr;
    std::vector<const void*> require;
    std::vector<const meta*> children;
    std::vector<std::function<void()>> ports_connected;
};

namespace port
{
struct meta
{
    struct detail
    {
        std::string name;
        const void* port = nullptr;
        const void* address = nullptr;
        const dzn::meta* meta = nullptr;
    };
    detail provide;
    detail require;
};
} // namespace port

struct binding_error : public std::runtime_error
{
    binding_error(const port::meta& m, const std::string& what)
        : std::runtime_error("not connected: " + m.provide.name + "/" + m.require.name + "." + what) {}
};

// dzn::connect for two ports of the same interface type: in-events flow provided <- required, out-events the other way
template <typename P>
void connect(P& provided, P& required)
{
    provided.out = required.out;
    required.in = provided.in;
    provided.meta.require = required.meta.require;
    required.meta.provide = provided.meta.provide;
}
} // namespace dzn
