#pragma once
#include <map>
#include <stdexcept>
#include <string>
#include <typeindex>
#include <typeinfo>

namespace dzn
{
// type-indexed service map holding references to objects owned elsewhere
struct locator
{
    std::map<std::type_index, void*> services;

    locator() = default;
    locator clone() const { return locator(*this); }

    template <typename T>
    locator& set(T& t)
    {
        services[std::type_index(typeid(T))] = const_cast<void*>(static_cast<const void*>(&t));
        return *this;
    }
    template <typename T>
    T* try_get() const
    {
        auto it = services.find(std::type_index(typeid(T)));
        return it == services.end() ? nullptr : static_cast<T*>(it->second);
    }
    template <typename T>
    T& get() const
    {
        T* p = try_get<T>();
        if (!p) throw std::runtime_error(std::string("locator: <") + typeid(T).name() + "> not available");
        return *p;
    }
};
} // namespace dzn
