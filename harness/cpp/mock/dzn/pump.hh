#pragma once
#include <deque>
#include <functional>
#include <type_traits>

namespace dzn
{
// Deterministic single-threaded stand-in for dzn::pump: closures handed to operator() are queued and run by drain();
// dzn::shell(pump, f) runs f "in dispatcher context" (flag in_dispatch) and hands back its value to the blocked caller.
struct pump
{
    std::deque<std::function<void()>> queue;
    bool in_dispatch = false;
    unsigned long posted = 0;
    unsigned long shell_calls = 0;

    void operator()(const std::function<void()>& f)
    {
        ++posted;
        queue.push_back(f);
    }
    void drain()
    {
        while (!queue.empty())
        {
            auto f = queue.front();
            queue.pop_front();
            bool saved = in_dispatch;
            in_dispatch = true;
            f();
            in_dispatch = saved;
        }
    }
};

template <typename L>
auto shell(dzn::pump& p, L&& l) -> decltype(l())
{
    ++p.shell_calls;
    bool saved = p.in_dispatch;
    p.in_dispatch = true;
    if constexpr (std::is_void_v<decltype(l())>)
    {
        l();
        p.in_dispatch = saved;
    }
    else
    {
        auto r = l();
        p.in_dispatch = saved;
        return r;
    }
}
} // namespace dzn
