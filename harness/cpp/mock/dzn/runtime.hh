#pragma once
namespace dzn
{
struct runtime
{
    int dummy = 0;
};
} // namespace dzn
