// The C++ types behind the extern data values the generators use (what a Dezyne project's own headers would provide).
#pragma once
#include <cstddef>
#include <memory>
#include <string>

namespace Sub { struct MyLongNamedType { int v = 0; }; }
namespace My { template <typename T> struct Data { T v{}; }; }
struct Incident { int id = 0; };
struct decoy_t { int never = 0; };
struct deeper_t { int never = 0; };
struct type_0_t { int v = 0; }; struct type_1_t { int v = 0; }; struct type_2_t { int v = 0; }; struct type_3_t { int v = 0; };
