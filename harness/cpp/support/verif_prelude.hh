// Harness prelude: C++ definitions for the extern data values the generators use, value factories/printers, trace recorder.
#pragma once
#include <cstddef>
#include <functional>
#include <map>
#include <memory>
#include <sstream>
#include <string>
#include <vector>
#include <dzn/pump.hh>

#include "verif_types.hh"

namespace verif
{
inline std::vector<std::string>& trace() { static std::vector<std::string> t; return t; }
inline dzn::pump*& the_pump() { static dzn::pump* p = nullptr; return p; }
inline void*& the_component() { static void* c = nullptr; return c; }
inline std::map<std::string, int>& replies() { static std::map<std::string, int> r; return r; }
inline int& skip_enc() { static int k = -1; return k; }
inline int& skip_user() { static int k = -1; return k; }
inline std::string ctx() { return (the_pump() && the_pump()->in_dispatch) ? "D" : "C"; }
inline void rec(const std::string& line) { trace().push_back(line); }

template <typename T> struct Val;
template <> struct Val<int> { static int make(int k) { return k; } static std::string show(const int& v) { return std::to_string(v); } };
template <> struct Val<std::size_t> { static std::size_t make(int k) { return (std::size_t)k; } static std::string show(const std::size_t& v) { return std::to_string(v); } };
template <> struct Val<bool> { static bool make(int k) { return k % 2; } static std::string show(const bool& v) { return v ? "1" : "0"; } };
template <> struct Val<double> { static double make(int k) { return k + 0.25; } static std::string show(const double& v) { return std::to_string((long)(v * 4)) + "/4"; } };
template <> struct Val<std::string> { static std::string make(int k) { return "s" + std::to_string(k); } static std::string show(const std::string& v) { return v; } };
template <> struct Val<Sub::MyLongNamedType> { static Sub::MyLongNamedType make(int k) { return {k}; } static std::string show(const Sub::MyLongNamedType& v) { return "L" + std::to_string(v.v); } };
template <> struct Val<::My::Data<int>> { static ::My::Data<int> make(int k) { return {k}; } static std::string show(const ::My::Data<int>& v) { return "D" + std::to_string(v.v); } };
template <> struct Val<std::shared_ptr<Incident>> {
    static std::shared_ptr<Incident> make(int k) { auto p = std::make_shared<Incident>(); p->id = k; return p; }
    static std::string show(const std::shared_ptr<Incident>& v) { return v ? "I" + std::to_string(v->id) : "Inull"; } };
template <> struct Val<const char*> {
    static const char* make(int k) { static std::vector<std::unique_ptr<std::string>> pool; pool.push_back(std::make_unique<std::string>("c" + std::to_string(k))); return pool.back()->c_str(); }
    static std::string show(const char* const& v) { return v ? std::string(v) : "cnull"; } };
template <> struct Val<Incident*> {
    static Incident* make(int k) { static std::vector<std::unique_ptr<Incident>> pool; pool.push_back(std::make_unique<Incident>()); pool.back()->id = k; return pool.back().get(); }
    static std::string show(Incident* const& v) { return v ? "P" + std::to_string(v->id) : "Pnull"; } };
#define VERIF_SIMPLE(T, tag) template <> struct Val<T> { static T make(int k) { return {k}; } static std::string show(const T& v) { return tag + std::to_string(v.v); } };
VERIF_SIMPLE(type_0_t, "t0_") VERIF_SIMPLE(type_1_t, "t1_") VERIF_SIMPLE(type_2_t, "t2_") VERIF_SIMPLE(type_3_t, "t3_")

template <typename T> std::string show(const T& v) { return Val<std::decay_t<T>>::show(v); }
} // namespace verif
