"""Generator of abstract Dezyne files (see dznjson.py for the representation) and wire encoders."""

IDS = ['A', 'B', 'My', 'Ns', 'Sub', 'IApi', 'IHal', 'T', 'Result', 'x', '_p', 'a1', 'Acme', 'Toaster', 'Z9_',
       'async', 'global', 'pass', 'from', 'lambda', 'None', 'True', 'class', 'import', 'int', 'self', '__init__']   # Python's reserved words are ordinary Dezyne identifiers
TYPES = ['int', 'std::string', 'Sub::T', 'size_t', '::My::Data<int>', '', ' unsigned int ', '\n    struct { int a; }\n', 'long long\t', '  size_t', ' ']   # data values are kept exactly as written
FIELDS = ['Ok', 'Fail', 'Error', 'x', '_']
TYPES += ['a\\b', '"s"', "char'", 'x$y', 'std::map<int, std::string>', 'é*', 'hw::frame*', '/*c*/int']
# import and file names are kept exactly as written, whatever characters, separators or case they use
PATHS = ['ITimer.dzn', 'a/b.dzn', '', './Toaster.dzn', 'x.dzn', 'models\\Toaster.dzn', '..\\lib\\Types.dzn', 'a\\b/c.dzn', './x/../y.dzn', ' spaced name.dzn',
         'Ünï.dzn', 'UPPER.DZN', 'dir/', '"q".dzn', 'a//b.dzn', 'C:\\m\\x.dzn', 'x.dzn ', '~/m.dzn', 'a.b.c.dzn', '.dzn', '/abs/m.dzn', 'tab\there.dzn']


def ids(rng, lo=1, hi=3):
    return [rng.choice(IDS) for _ in range(rng.choice([lo] * 4 + list(range(lo, hi + 1))))]


def formal(rng, allow_out=True):
    return [rng.choice(['a', 'b', 'msg', 'n', 'identifier', 'r']), ids(rng, 1, 2),
            rng.choice(['in', 'in', 'out', 'inout'] if allow_out else ['in', 'in', 'inout'])]


def event(rng):
    if rng.random() < 0.6:
        return [rng.choice(['Do', 'Claim', 'Release', 'Go', 'e1']), 'in', rng.choice([['void'], ['Result'], ids(rng, 1, 2)]),
                [formal(rng) for _ in range(rng.choice([0, 0, 1, 2, 4]))]]
    return [rng.choice(['Done', 'Fail', 'Went', 'o1']), 'out', ['void'],
            [formal(rng, allow_out=False) for _ in range(rng.choice([0, 0, 1, 3]))]]


def port(rng):
    d = rng.choice(['provides', 'requires', 'requires'])
    return [rng.choice(['api', 'hal', 'hal2', 'p', 'Api', 'cord']), ids(rng, 1, 3), d, rng.random() < (0.25 if d == 'requires' else 0.1)]   # the grammar allows `injected` on either direction


def typedecl(rng):
    if rng.random() < 0.6:
        return ['enum', ids(rng, 1, 1), [rng.choice(FIELDS) for _ in range(rng.choice([0, 1, 2, 3]))]]
    return ['subint', ids(rng, 1, 1), rng.randint(-5, 5), rng.randint(0, 300)]


def itypedecl(rng):
    """an item of an interface's types list: enum, subint, or an item of a class the parser does not know (skipped)"""
    if rng.random() < 0.2:
        return ['tother', rng.choice(['type-alias', 'extern', 'bool', 'int', 'Enum', 'enums', 'sub-int', '', 'interface'])]
    return typedecl(rng)


def decl(rng, depth, maxdepth):
    k = rng.random()
    if k < 0.18 and depth < maxdepth:
        return ['ns', ids(rng, 1, 3), [decl(rng, depth + 1, maxdepth) for _ in range(rng.choice([0, 1, 2, 3, 4]))]]
    if k < 0.34:
        return ['itf', ids(rng, 1, 1), [itypedecl(rng) for _ in range(rng.choice([0, 0, 1, 2, 3]))],
                [event(rng) for _ in range(rng.choice([0, 1, 2, 4, 6]))]]
    if k < 0.46:
        return ['comp', ids(rng, 1, 1), [port(rng) for _ in range(rng.choice([0, 1, 2, 3, 5]))]]
    if k < 0.52:
        return ['foreign', ids(rng, 1, 1), [port(rng) for _ in range(rng.choice([0, 1, 2]))]]
    if k < 0.60:
        return ['sys', ids(rng, 1, 1), [port(rng) for _ in range(rng.choice([0, 1, 2]))],
                [[rng.choice(['c1', 'c2', 'inst']), ids(rng, 1, 3)] for _ in range(rng.choice([0, 1, 2]))],
                [[[rng.choice(['api', 'p', 'pass']), rng.choice([None, 'c1', 'from'])], [rng.choice(['hal', 'q', '*', '', 'a.b', 'q q']), rng.choice([None, 'c2', '*'])]]   # (`*` is Dezyne's wildcard end-point)
                 for _ in range(rng.choice([0, 1, 2]))]]
    if k < 0.70:
        return typedecl(rng)
    if k < 0.80:
        return ['extern', ids(rng, 1, 1), rng.choice(TYPES)]
    if k < 0.86:
        return ['import', rng.choice(PATHS)]
    if k < 0.91:
        return ['file', rng.choice(PATHS)]
    if k < 0.96:
        return ['unknown', rng.choice(['bogus', 'behavior', 'Component', 'interfaces', ''])]
    return ['junk', rng.choice([1, 'str', None, [1, 2], True, 2.5, []])]


def dfile(rng, n=None, maxdepth=5):
    n = rng.choice([0, 1, 2, 3, 5, 8, 12]) if n is None else n
    return [decl(rng, 0, maxdepth) for _ in range(n)]


def count_decls(ds):
    c = 0
    for d in ds:
        c += 1
        if d[0] == 'ns':
            c += count_decls(d[2])
    return c


def json_sx(v):
    """Python JSON value -> wire value for Run/RunJson.v dec_json"""
    if v is None:
        return [0]
    if isinstance(v, bool):
        return [1, v]
    if isinstance(v, int):
        return [2, v]
    if isinstance(v, float):
        return [3]
    if isinstance(v, str):
        return [4, v]
    if isinstance(v, list):
        return [5] + [json_sx(x) for x in v]
    if isinstance(v, dict):
        return [6] + [[k, json_sx(x)] for k, x in v.items()]
    raise TypeError(type(v))


def canon(x):
    """implementation-side observable -> the nested-int shape the model's s-expressions decode to"""
    if x is None:
        return []
    if isinstance(x, bool):
        return 1 if x else 0
    if isinstance(x, int):
        return x
    if isinstance(x, str):
        return [ord(c) for c in x]
    if isinstance(x, (list, tuple)):
        return [canon(y) for y in x]
    raise TypeError(type(x))


# ---------- wire encoding of abstract files for Run/RunJson.v (op 403) ----------

FDIR = {'in': 0, 'out': 1, 'inout': 2}


def type_sx(t):
    if t[0] == 'tother':
        return [2, t[1]]
    return [0, t[1], list(t[2])] if t[0] == 'enum' else [1, t[1], t[2], t[3]]


def port_sx(p):
    return [p[0], p[1], p[2] == 'requires', bool(p[3])]


def decl_sx(d):
    k = d[0]
    if k == 'ns':
        return [0, d[1], [decl_sx(x) for x in d[2]]]
    if k == 'itf':
        return [1, d[1], [type_sx(t) for t in d[2]],
                [[e[0], e[1] == 'out', e[2], [[f[0], f[1], FDIR[f[2]]] for f in e[3]]] for e in d[3]]]
    if k == 'comp':
        return [2, d[1], [port_sx(p) for p in d[2]]]
    if k == 'foreign':
        return [3, d[1], [port_sx(p) for p in d[2]]]
    if k == 'sys':
        return [4, d[1], [port_sx(p) for p in d[2]], [[i[0], i[1]] for i in d[3]],
                [[[b[0][0], [] if b[0][1] is None else [b[0][1]]], [b[1][0], [] if b[1][1] is None else [b[1][1]]]] for b in d[4]]]
    if k in ('enum', 'subint'):
        return [5, type_sx(d)]
    if k == 'extern':
        return [6, d[1], d[2]]
    if k == 'import':
        return [7, d[1]]
    if k == 'file':
        return [8, d[1]]
    if k == 'unknown':
        return [9, d[1]]
    if k == 'junk':
        return [10, json_sx(d[1])]
    raise ValueError(k)
