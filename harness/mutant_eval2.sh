#!/bin/bash
# usage: mutant_eval2.sh <dir with patch.diff demo.py> <worktree with the change applied> <property id> [more ids...]
# Confirms the seeded change in its own worktree (both suites, demo PASS on /repo/src / FAIL on the worktree) and runs the
# named quick checks against the worktree (DZNPY_REPO) - /repo itself is never touched.
d="$1"; wt="$2"; shift; shift
export PYTHONDONTWRITEBYTECODE=1
echo "== patch matches worktree: $(cd $wt && git diff | diff -q - $d/patch.diff >/dev/null && echo yes || echo NO)"
echo "== demo on /repo/src: $(/venv/bin/python $d/demo.py /repo/src 2>&1 | tail -1)"
echo "== demo on changed:   $(/venv/bin/python $d/demo.py $wt/src 2>&1 | tail -1)"
echo "== pinned suite:   $(cd $wt && /venv/bin/python -m pytest -q -p no:cacheprovider --continue-on-collection-errors 2>&1 | tail -1)"
echo "== worktree suite: $(cd $wt/test && PYTHONPATH=$wt/src:$wt/test /venv/bin/python -m pytest -q -p no:cacheprovider --continue-on-collection-errors 2>&1 | tail -1)"
for id in "$@"; do
  echo "== check $id against the changed tree:"
  (cd /verif && DZNPY_REPO=$wt ./check $id quick 2>&1 | grep -E "VIOLATION|KNOWN|quick:|->" | cut -c1-330 | head -7)
done
