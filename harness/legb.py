"""Leg B: compile (and run) what the library emits against the mock Dezyne runtime."""
import os
import re
import shutil
import subprocess
import tempfile
from concurrent.futures import ThreadPoolExecutor

import dznjson
import gen_model as G
import gen_mockmodel as MM
from lib import run_model, VERIF
from checks import buildcases as BC

MOCK = os.path.join(VERIF, 'harness', 'cpp', 'mock')
SUPPORT = os.path.join(VERIF, 'harness', 'cpp', 'support')
CXX = ['g++', '-std=c++17', '-w']


def plans_for(cases):
    """resolved plans (from the Gallina model) for a list of cases"""
    res = run_model([[602, G.json_sx(dznjson.to_json(c['file'])), BC.cfg_sx(c['cfg'])] for c in cases])
    return [MM.decode_plan(r) for r in res]


def orig_basename(cfg):
    return os.path.splitext(os.path.basename(cfg.get('file', 'Model.dzn')))[0]


class Workdir:
    def __init__(self):
        self.root = tempfile.mkdtemp(prefix='dznverif_legb_')

    def sub(self, name):
        d = os.path.join(self.root, name)
        os.makedirs(d, exist_ok=True)
        return d

    def cleanup(self):
        shutil.rmtree(self.root, ignore_errors=True)


def materialize(d, files, plan, cfg, shim):
    """write the generated files (shim: '#pragma once' prepended to headers - known finding K1) and the mock model header"""
    for f in files:
        text = f[1]
        if shim and f[0].endswith('.hh'):
            text = '#pragma once\n' + text
        with open(os.path.join(d, f[0]), 'w') as fh:
            fh.write(text)
    with open(os.path.join(d, orig_basename(cfg) + '.hh'), 'w') as fh:
        fh.write(MM.model_header(plan))


def gxx(args, cwd=None, timeout=300):
    p = subprocess.run(CXX + args, stdout=subprocess.PIPE, stderr=subprocess.STDOUT, cwd=cwd, timeout=timeout)
    return p.returncode, p.stdout.decode(errors='replace')


def includes(d):
    return ['-I' + MOCK, '-I' + SUPPORT, '-I' + d]


def run_exe(path, timeout=60):
    p = subprocess.run([path], stdout=subprocess.PIPE, stderr=subprocess.STDOUT, timeout=timeout)
    return p.returncode, p.stdout.decode(errors='replace')


def parallel(fn, items, n=16):
    with ThreadPoolExecutor(n) as ex:
        return list(ex.map(fn, items))


def quoted_includes(text):
    return re.findall(r'^\s*#include\s+"([^"]+)"', text, re.M)
