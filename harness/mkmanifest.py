"""Regenerate /verif/MANIFEST.json from one table (keeps it valid at all times)."""
import json
import subprocess

PARTIAL_CPP = ('the theorem is about the Gallina model of the emitted C++ fragment; that g++ gives the emitted text that '
               'meaning is validated by compiling and running it (Leg B), not proved')

CHECKS = {
    'C17': ('proof', 'Theorems over all content nestings (Properties/C17.v: lines = specified pieces, break-free invariant, string '
            'form, round trip, append/+ = concatenation, trim, chunk, cond_chunk) on a hand-written Gallina model of '
            'misc_utils/text_gen; model tied to /repo/src on every run by differential execution (extracted OCaml + vm_compute re-check).',
            'trusted: Coq kernel, extraction+driver, harness generators/worker, CPython str tables (exhaustively validated). '
            'The lines setter is outside the quantifier (exercised, mirrored by the model).', '§5 C17'),
    'C18': ('proof', 'Per-line specification of all indenter modes proved equal to the model for all line sequences and '
            'configurations (Properties/C18.v); correspondence: exhaustive small scope (63 configurations x 156 sequences) + random.',
            'trusted: as C17. Reading of "text preserved" in bullet rows fixed in DESIGN §5 C18. Repaired defect: F1 (to_str).', '§5 C18'),
    'C19': ('proof', 'Every physical line of a rendered comment starts with // and carries the piece text, for all contents '
            '(Properties/C19.v); correspondence on hostile strings incl. all line-break code points; direct oracle on the '
            'implementation output.', 'trusted: as C17. Builder-level clause (only comment lines change with copyright/creator) is checked by '
            'differential builds once the builder leg is in place.', '§5 C19'),
}

CHECKS['C14'] = ('proof', 'Resolution order = scope chain; find_fqn/find_any are exactly the filter of all declarations by the chain / '
                 'suffix predicate (soundness, completeness, multiplicity, order); validity invariant of every NamespaceIds producer; '
                 'list/dotted/:: round trips (Properties/C14.v). Correspondence: exhaustive small scope (every single declaration x '
                 'name x scope over a 3-identifier alphabet to depth 3) + sampled sets; identifier candidates over all code points < 0x300 + samples.',
                 'trusted: Coq kernel, extraction+driver, harness (direct construction of ast objects; identity->uid mapping).', '§5 C14')
CHECKS['C03'] = ('proof', 'Validity of a side <-> the documented rejections; assignment functional (exactly one semantics) and computed by '
                 'the per-port decision; match fails iff an unknown port is named; accepted configurations expose exactly the non-injected '
                 'ports with their specified semantics; every rejection is AdvShellError (Properties/C03.v). Correspondence: exhaustive '
                 'per-side enumeration (18x18 selection pairs x 8 port sets), sampled cross product, full builds.',
                 'trusted: as C14 + buildlib (JSON model rendering, header regex). Repaired defect: F4 (KeyError for an uncovered exposed port).', '§5 C03')

CHECKS['C05'] = ('proof', 'Round-trip theorem: for every well-formed Dezyne file (unbounded nesting, multi-identifier and re-opened namespaces, any '
                 'mix/order) process(to_json f) = flatten_decls f, plus corollaries (unknown classes skipped, order, counts, fqn = path+name) '
                 '(Properties/C05.v). Correspondence: generated files parsed by the implementation and compared with flatten_decls and the model parser; '
                 'the Python JSON renderer is compared with the Gallina to_json on every case.',
                 'trusted: Coq kernel, extraction+driver, harness generator/unparser. JSON shapes taken from the repository test data (no dzn tool here).', '§5 C05')
CHECKS['C15'] = ('proof', 'Totality theorem over ALL JSON values: process returns file contents or one of the two documented errors; Internal (fuel, '
                 'KeyError-like) outcomes exist in the model and are proved unreachable; out events with non-void reply / out parameter are refused '
                 '(Properties/C15.v). Correspondence: every single fault (delete/retype/retag/ids/direction) at every node of generated documents, multi-fault samples.',
                 'trusted: as C05 + orjson. Outcome compared coarsely (accepted / documented error / other). Known finding K5 (interpreter recursion limit) is outside the model and probed on every run.', '§5 C15')
CHECKS['C16'] = ('proof', 'Parser object as a state machine: process() result = parse of the held document; idempotent; for every history over any number of '
                 'instances each result equals the spec run that tracks documents only (Properties/C16.v). Correspondence: histories of new/load_file/process '
                 'over shared documents, each result compared with the model, with a fresh-instance parse, and re-read at the end of the history.',
                 'trusted: as C05. Repaired defect: F2 (process accumulated earlier results).', '§5 C16')

CHECKS['C20'] = ('proof', 'Declaration/definition decomposition around the same return type, name, pointwise-related parameter lists and cv; '
                 'definition independent of declaration-only attributes and vice versa; no definition when initialised; owner qualification; '
                 'namespace/struct/class render balanced, correctly named pairs around unchanged contents (Properties/C20.v). Correspondence: every block '
                 'kind rendered twice per object and compared with the model; compositions compiled with g++ -fsyntax-only.',
                 'partial: "any composition is accepted by a C++ compiler" is validated by compiling sampled compositions, not proved. trusted: Coq kernel, extraction+driver, harness, g++ 12.', '§5 C20')

CHECKS['C13'] = ('proof', 'On a byte-exact Gallina model of the whole pipeline (configuration objects + Builder.build): every failure is one of the '
                 'library error types (Internal/TypeError/ValueError outcomes exist in the model and are proved unreachable), a success returns exactly '
                 'shell.hh, shell.cc and the six stand-alone support files, and a build succeeds IF AND ONLY IF the input is valid, validity being stated on model and '
                 'configuration alone (Spec/ValidInput.v: unique component/system encapsulee, consistent port selection, unique interface per port, semantics for every exposed port, '
                 'unique extern per spelled-out parameter type, fitting multi-client settings, non-empty shell name) (Properties/C13.v). '
                 'Correspondence: valid generated (model, configuration) pairs and every single-fault variation, each built twice, compared byte for byte with the model.',
                 'The theorem is about Builder.build on constructed configuration objects; termination is Coq\'s; "never hangs" for the implementation is run-time evidence. '
                 'Repaired defects F4, F6, F7, F8. Known finding K5 (recursion limit) probed on every run.', '§5 C13')

CHECKS['C07'] = ('proof', 'Lookup = declarations on the scope chain; declarations off the chain never change a lookup; the interface of every exposed '
                 'port, the C++ type of every event parameter and the claim enum are THE unique declaration of the right kind on the respective chain, '
                 'anything else is FindError (Properties/C07.v, on the byte-exact builder model). Correspondence: name-reuse models with every spelling, '
                 'each also built with unrelated same-named declarations added (must be byte-identical), compared with the model.',
                 'partial: extern data values are opaque C++ text (whether it denotes the same C++ type in another namespace is outside the model). Repaired defect F6.', '§5 C07')
CHECKS['C08'] = ('proof', 'The pipeline model is a function without hash seed or state; theorem: the output is invariant under every listing order of every '
                 'name set of the configuration (membership/emptiness/sorting only; sorted permutations are unique) (Properties/C08.v). Correspondence: every '
                 'case built under several PYTHONHASHSEEDs with shuffled set insertion orders, compared across seeds and build orders (processes build the cases in opposite orders), with the model, and every content hash with the '
                 'Gallina MD5/UTF-8 model (Base/Md5.v, validated against the RFC 1321 test suite inside Coq); targeted search for seed dependence when the correspondence breaks.',
                 'the hash clause holds in the model by definition (g_hash = hex(md5(utf8 contents))); that the implementation computes the same function is correspondence. Repaired defect F3.', '§5 C08')
CHECKS['C12'] = ('proof', 'Builder as a state machine over its recipe state: every build of any history equals the build from a fresh state; support files = '
                 'stand-alone generation (Properties/C12.v). Correspondence: build histories in one interpreter over shared parsed models with deep snapshots of '
                 'model and configuration before/after each build, results compared with the stateless model.',
                 'partial: "inputs unchanged" is a statement about the Python heap - checked by snapshots on every run, not proved (no heap model of adv_shell).', '§5 C12')

CHECKS['C06'] = ('proof', 'Structural theorems on the byte-exact builder model: include closure (every quoted include is a returned file or the '
                 'model header), source includes the returned header, selector header includes returned support files; and two REFUTATIONS with the '
                 'matching compiler-level probes: no include guard (header starts with a comment line for all inputs - K1), anonymous namespace for a '
                 'global-scope encapsulee (K2) (Properties/C06.v). Leg B on the UNMODIFIED files: every header alone, twice, shell source, use from a second '
                 'translation unit + link, three prefixes in one TU.',
                 'partial: "compiles as C++17" is validated by g++ against a mock Dezyne runtime and a mock model header derived from the model-resolved plan, '
                 'not proved. Known findings K1, K2, K8, K9 reproduced on every run.', '§5 C06')

CHECKS['C01'] = ('proof', 'Semantics of the emitted C++ fragment (late-bound std::function slots, std::ref, dzn::shell, dzn::pump) in Gallina; the builder '
                 'model renders exactly these statements, so the byte-exact correspondence ties them to /repo. Theorems: the constructor program contains '
                 'the forwarding statement for every event of every MTS exposed port (none left out, same port and event on the other side); calling the '
                 'user-side slot yields exactly one native record at the same-named slot with arguments in order, reply and by-reference finals returned; '
                 'END TO END from distinct port names and distinct event names per interface alone (every slot-level hypothesis derived, four directions) '
                 '(Properties/C01.v). Leg B: every generated shell compiled with a mock runtime under ASan and driven through every (port, event) in all four directions, '
                 'the multi-client port through a registered client.',
                 'partial: that g++ gives the rendered statements the meaning Sem/Exec.v assigns is validated by running them, not proved. Name-hygiene side '
                 'conditions are explicit hypotheses (known finding K6 when violated). Multi-client ports are covered by C04. Repaired defect F5.', '§5 C01')
CHECKS['C02'] = ('proof', 'Same semantics: MTS provides in-events run in dispatcher context with the caller blocked; MTS requires out-events return at once with '
                 'one closure queued holding the values at post time and run later in dispatcher context; an uncopied argument is flagged Dangling; STS ports are '
                 'direct calls in the caller context; accessor type Sts/Mts iff semantics (Properties/C02.v). Leg B as C01 (dispatcher flag, queue length, ASan '
                 'stack-use-after-return for closures run after the caller frame died).',
                 'partial: as C01.', '§5 C02')

CHECKS['C09'] = ('proof', 'Facilities part of the constructor as a function over locators: create gives the component a fresh locator = prototype + own '
                 'dispatcher and runtime, throws on overlap, offers the accessor; import hands over the user\'s locator and dispatcher, throws when either '
                 'is missing, no accessor; mem-initialisers only depend on earlier-declared members (Properties/C09.v). Leg B: both origins x all 8 '
                 'locator contents on compiled shells (identities of locator/pump/runtime/extra service, which pump MTS events use, SFINAE probe for Locator()).',
                 'partial: the facilities semantics is transcribed from the emitted FacilitiesCheck/constructor text (which the byte-exact builder model pins); '
                 'its C++ meaning is validated by running, not proved.', '§5 C09')
CHECKS['C10'] = ('proof', 'FinalConstruct over the slot state: succeeds iff every event slot of every checked object (each client of a multi-client port, the '
                 'accessor target of every other exposed port, every port of the component) is bound; each single unbound event is detected '
                 '(Properties/C10.v). Leg B: per compiled shell all-bound, then each single user-side event and each single component-side handler left unbound, '
                 'late client registration refused; the multi-client port in every position among several provides ports.',
                 'partial: as C09; mock check_bindings() tests every event (contract of Dezyne\'s generator).', '§5 C10')

CHECKS['C04'] = ('proof', 'Selector + per-client lambdas as a state machine transcribed from the emitted C++: out-events go to exactly the selected client or nobody; '
                 'non-granting claims change nothing; every client in-event is forwarded once; for every history in which only the holder releases, delivery follows '
                 'the holder specification; REFUTED in general by a non-holder release (K3); claim/release events are those named in the configuration; registration '
                 'closes at final construction (Properties/C04.v). Leg B: compiled multi-client shells driven through random and all short operation sequences, each '
                 'operation compared with the Gallina model (extracted) and with the holder specification.',
                 'partial: C++ meaning of the selector text validated by running. Known finding K3 reproduced on every run. Repaired defects F5, F7, F9.', '§5 C04')

CHECKS['C11'] = ('proof', 'Interleaving semantics of N client threads with arbitrary finite programs of claim/use/release plus the dispatcher thread, and of '
                 'MutexWrapped with any number of threads: for every schedule - mutual exclusion of the protected section (clients and dispatcher), the selection '
                 'is written only under the lock, an out-event goes to the client selected at that moment or to nobody, some thread can always step while a '
                 'client is unfinished (no deadlock); MutexWrapped: at most one thread has access, others block, reset and scope exit both unlock, no double '
                 'unlock; "the granted client receives the out-events until it releases, whatever others do" is REFUTED by three schedules (K3, K3\', K4) '
                 '(Properties/C11.v). Leg B: model-generated schedules replayed on real threads against the compiled shell (client threads held in dzn::shell and '
                 'at the selector\'s ILog callbacks) and compared observation by observation; MutexWrapped histories on real threads with a try_lock probe; '
                 'free-running stress of both under ThreadSanitizer with a watchdog.',
                 'partial: the atomic-step semantics is transcribed from the emitted C++ and validated by replay; data-race freedom at the C++ memory-model level '
                 'and deadlock freedom of the binary are ThreadSanitizer/watchdog evidence, not theorems. Known findings K3, K4 reproduced on every run.', '§5 C11')

NOT_YET = {
}


def main():
    checks = []
    for pid in sorted(CHECKS):
        cat, text, note, ref = CHECKS[pid]
        checks.append({
            'property_id': pid,
            'quick_cmd': f'./check {pid} quick',
            'thorough_cmd': f'./check {pid} thorough',
            'evidence_file': f'/verif/evidence/{pid}.json',
            'replay_cmd_template': f'./check {pid} --replay {{path}}',
            'engine': 'coq-model+correspondence',
            'level_claimed': {'category': cat, 'text': text, 'design_ref': 'DESIGN.md ' + ref},
            'level_note': note,
            'technique': 'machine-checked proof in Coq 8.16 over a hand-written executable model + differential correspondence check against /repo/src',
        })
    na = [{'property_id': f'C{i:02d}', 'reason': NOT_YET.get(f'C{i:02d}', 'check not built yet in this round (planned, see DESIGN.md §9 staging); not claimed until its theorem and correspondence leg exist')}
          for i in range(1, 21) if f'C{i:02d}' not in CHECKS]
    try:
        commits = subprocess.run(['git', '-C', '/repo', 'log', '--format=%H %s', 'd51ce25..HEAD'], stdout=subprocess.PIPE).stdout.decode().splitlines()
    except Exception:  # noqa
        commits = []
    m = {
        'version': 1,
        'setup_cmd': './setup.sh',
        'hooks': {'guard': 'DZNPY_VERIF',
                  'enable': 'no hooks are needed: every observable is reachable through the public API and the generated files',
                  'baseline_off_cmd': 'cd /repo && /venv/bin/python -m pytest -ra -q -p no:cacheprovider --timeout=900 --continue-on-collection-errors',
                  'source_commits': [], 'add_only': True},
        'engines': [{'name': 'coq-model+correspondence', 'path': '/verif/coq', 'serves_properties': sorted(CHECKS),
                     'kind_free_text': 'Coq 8.16.1 development (model, specs, theorems) + extracted OCaml model runner + Python differential harness'}],
        'checks': checks,
        'not_applicable': na,
        'notes': 'fix: commits in /repo (unguarded defect repairs): ' + '; '.join(commits),
    }
    json.dump(m, open('/verif/MANIFEST.json', 'w'), indent=1)


if __name__ == '__main__':
    main()
