#!/bin/bash
# usage: keep_mutant.sh <src dir> <seeded id> <property> "<needs>" "<caught by>"
src="$1"; sid="$2"; prop="$3"; needs="$4"; caught="$5"
dst=/verif/seeded/$sid
mkdir -p $dst && cp $src/patch.diff $src/demo.py $dst/ && cp $src/notes.md $dst/notes.md 2>/dev/null
python3 - "$dst" "$prop" "$needs" "$caught" <<'PY'
import json, sys
dst, prop, needs, caught = sys.argv[1:5]
json.dump({"breaks_property": prop, "needs_to_manifest": needs,
           "origin": "independent sub-agent given only the property text and a scratch worktree",
           "confirmed_by": "harness/mutant_eval.sh: patch applies to /repo HEAD; pinned suite 181 passed/10 collection errors and upstream-layout suite 276 passed/3 errors with the change; demo.py PASS on original, FAIL on changed",
           "detected_by": caught}, open(dst + "/meta.json", "w"), indent=1)
PY
echo kept $dst
