"""C11: threaded driver for a compiled multi-client shell, and a unit driver for the MutexWrapped header.

The shell driver reads commands from stdin:
  S <id> <progs> <labels>   replay one schedule of the interleaving model (Sem/Concurrent.v) on real threads.
                            progs: one word per client over c (claim) r (release) u (use), '-' for the empty program;
                            clients separated by '|'.  labels: s<c> d k<c> f<c> D o  (LStart, LDisp, LLock client, LFinish,
                            LLock dispatcher, LOut).  Client threads block in dzn::shell until `d`, and at the selector's
                            ILog callback ('Select/<id>', 'Deselect/<id>': issued before the lock is taken) until `k<c>`.
  T <nclients> <cycles> <outs> free-running stress: every client performs <cycles> claim/use/release cycles against a
                            conformant arbiter while another thread posts <outs> out-events; meant for -fsanitize=thread.
Output per schedule: one line `R <id> <observations...> | probe <client or -> | rets ...` or `R <id> STUCK <where>`.
"""
import gen_mockmodel as MM
from gen_driver import cap, shell_qname, enc_qname, arg_decls, arg_list


def _params(ev):
    return ', '.join(f'{f["type"]}{"" if f["dir"] == "in" else "&"} {f["name"]}_' for f in ev['formals'])


def _outs_assign(ev):
    return ' '.join(f'{f["name"]}_ = verif::Val<{f["type"]}>::make({700 + k});' for k, f in enumerate(ev['formals']) if f['dir'] != 'in')


def _ret_expr(ev, value):
    rt = MM.ret_type(ev)
    if rt == 'void':
        return ''
    if rt == 'bool':
        return f'return ({value}) != 0;'
    if rt == 'int':
        return f'return ({value});'
    return f'return static_cast<{rt}>({value});'


def _call(target, ev, base):
    """statement(s) calling in-event ev on `target` and leaving the reply as int in `reply` (-1 for void)"""
    rt = MM.ret_type(ev)
    call = f'{target}.in.{ev["name"]}({arg_list(ev)})'
    decl = arg_decls(ev, base)
    if rt == 'void':
        return f'{{ {decl} {call}; reply = -1; }}'
    return f'{{ {decl} reply = static_cast<int>({call}); }}'


def mc_info(plan):
    mcp = next(p for p in plan['ports'] if p['exposed'] and p['exposed']['mc'])
    mc = mcp['exposed']['mc']
    ins = [e for e in mcp['itf']['events'] if not e['out']]
    outs = [e for e in mcp['itf']['events'] if e['out']]
    claim = next(e for e in ins if e['name'] == mc['claim'])
    release = next(e for e in ins if e['name'] == mc['release'])
    others = [e for e in ins if e['name'] not in (mc['claim'], mc['release'])]
    fields = claim['ret'][1]['fields']
    grant = fields.index(mc['reply'][-1])
    refuse = next((k for k in range(len(fields)) if k != grant), None)
    return mcp, mc, claim, release, others, outs, grant, refuse


def usable(plan):
    """the replay needs a claim reply type with a non-granting value and at least one out-event"""
    try:
        mcp, mc, claim, release, others, outs, grant, refuse = mc_info(plan)
    except StopIteration:
        return False
    return refuse is not None and bool(outs)


def shell_driver(plan, cfg, shell_header, max_clients=3):
    shell_name = shell_header[:-3]
    q = shell_qname(plan, shell_name)
    sf = '::' + '::'.join((cfg.get('sf_prefix') or []) + ['Dzn'])
    create = cfg.get('fac', 'create') == 'create'
    mcp, mc, claim, release, others, outs, grant, refuse = mc_info(plan)
    itf = MM.cpp_fqn(mcp['itf']['fqn'])
    pn = mcp['name']
    use = others[0] if others else None
    out0 = outs[0]
    L = []
    A = L.append
    A(f'#include "{shell_header}"')
    A(r'''
#include <atomic>
#include <chrono>
#include <condition_variable>
#include <cstdlib>
#include <iostream>
#include <memory>
#include <mutex>
#include <sstream>
#include <thread>
#include <vector>

namespace mt
{
std::mutex G;                       // guards the harness state below (never the product's state)
std::condition_variable CV;
thread_local int my_client = -1;
std::atomic<bool> gating{false};
struct ClientState
{
    int cmd = -1;
    unsigned long started = 0, done = 0;
    int at_gate = 0;                // 1: inside Select's log callback, 2: inside Deselect's
    bool gate_open = false;
    bool quit = false;
    std::vector<std::string> rets;
};
std::vector<ClientState> cs;
std::vector<std::string> warnings;
int delivered_to = -2;
const int TIMEOUT = 4000;

void log_hook(int level, const std::string& msg)
{
    if (!gating.load()) return;
    int kind = msg.find("Deselect/") != std::string::npos ? 2 : msg.find("Select/") != std::string::npos ? 1 : 0;
    if (level == 0 && kind && my_client >= 0)
    {
        std::unique_lock<std::mutex> lk(G);
        auto& c = cs[my_client];
        c.at_gate = kind;
        CV.notify_all();
        CV.wait(lk, [&] { return c.gate_open; });
        c.gate_open = false;
        c.at_gate = 0;
        CV.notify_all();
    }
    else if (level > 0)
    {
        std::lock_guard<std::mutex> lk(G);
        warnings.push_back(msg);
    }
}
template <typename P>
bool wait_until(std::unique_lock<std::mutex>& lk, P pred, int ms = TIMEOUT) { return CV.wait_for(lk, std::chrono::milliseconds(ms), pred); }
} // namespace mt
''')
    A('struct World')
    A('{')
    A('    dzn::locator loc; std::unique_ptr<dzn::pump> own_pump; dzn::runtime rt; dzn::meta parent;')
    A(f'    {sf}::ILog log;')
    A(f'    std::unique_ptr<{q}> shell;')
    A(f'    {enc_qname(plan)}* enc = nullptr;')
    A('    dzn::pump* pump = nullptr;')
    A(f'    std::vector<{itf}*> cl;')
    A('    bool claimed = false;            // the component: a conformant arbiter (dispatcher thread only)')
    A('    bool raise_on_use = false;')
    A('    std::vector<std::string> enc_log; // dispatcher thread only')
    A('    std::vector<unsigned long> deliveries; // per client, written on the dispatcher thread only')
    A('    unsigned long raised = 0;')
    A('    explicit World(int nclients) : deliveries(nclients, 0)')
    A('    {')
    A('        log.Info = [](const std::string& m) { mt::log_hook(0, m); };')
    A('        log.Warning = [](const std::string& m) { mt::log_hook(1, m); };')
    A('        log.Error = [](const std::string& m) { mt::log_hook(2, m); };')
    if not create:
        A('        own_pump.reset(new dzn::pump()); loc.set(*own_pump).set(rt);')
    A(f'        shell.reset(new {q}(loc, log, "inst"));')
    A(f'        enc = static_cast<{enc_qname(plan)}*>(verif::the_component());')
    A('        pump = verif::the_pump();')
    A('        for (int c = 0; c < nclients; ++c)')
    A('        {')
    A(f'            auto* p = &shell->ProvidesMultiClient{cap(pn)}(std::string(1, char(\'A\' + c))).port;')
    A('            cl.push_back(p);')
    for e in outs:
        A(f'            p->out.{e["name"]} = [this, c]({_params(e)}) {{ ++deliveries[c]; std::lock_guard<std::mutex> lk(mt::G); mt::delivered_to = c; }};'
          if False else
          f'            p->out.{e["name"]} = [this, c]({_params(e)}) {{ ++deliveries[c]; if (mt::gating.load()) {{ std::lock_guard<std::mutex> lk(mt::G); mt::delivered_to = c; }} }};')
    A('        }')
    # user side of all other exposed ports, so that FinalConstruct succeeds
    for p in plan['ports']:
        if not p['exposed'] or p['exposed']['mc']:
            continue
        pre = 'Requires' if p['requires'] else 'Provides'
        A(f'        {{ auto& u = shell->{pre}{cap(p["name"])}().port;')
        for e in p['itf']['events']:
            if (not p['requires'] and e['out']) or (p['requires'] and not e['out']):
                lbl = 'out' if e['out'] else 'in'
                A(f'          u.{lbl}.{e["name"]} = {MM.handler(p["name"], e, "USER")};')
        A('        }')
    # the component: a conformant arbiter
    A(f'        enc->{pn}.in.{claim["name"]} = [this]({_params(claim)}) {{ {_outs_assign(claim)} bool g = !claimed; claimed = true; '
      f'enc_log.push_back(g ? "claim+" : "claim-"); {_ret_expr(claim, f"g ? {grant} : {refuse}")} }};')
    A(f'        enc->{pn}.in.{release["name"]} = [this]({_params(release)}) {{ {_outs_assign(release)} claimed = false; enc_log.push_back("release"); {_ret_expr(release, "1")} }};')
    for e in others:
        raise_stmt = f'if (raise_on_use) {{ {arg_decls(out0, 80)} ++raised; enc->{pn}.out.{out0["name"]}({arg_list(out0)}); }}' if e is use else ''
        A(f'        enc->{pn}.in.{e["name"]} = [this]({_params(e)}) {{ {_outs_assign(e)} enc_log.push_back("use"); {raise_stmt} {_ret_expr(e, "0")} }};')
    A('        shell->FinalConstruct(&parent);')
    A('    }')
    A('    void raise_out()')
    A('    {')
    A(f'        {arg_decls(out0, 60)} ++raised; enc->{pn}.out.{out0["name"]}({arg_list(out0)});')
    A('    }')
    A('    int do_op(int c, char op)')
    A('    {')
    A('        int reply = -2;')
    A(f'        if (op == \'c\') {_call("(*cl[c])", claim, 10)}')
    A(f'        else if (op == \'r\') {_call("(*cl[c])", release, 20)}')
    if use:
        A(f'        else if (op == \'u\') {_call("(*cl[c])", use, 30)}')
    A('        return reply;')
    A('    }')
    A('};')
    A(f'static const int GRANT = {grant};')
    A(f'static const bool HAS_USE = {"true" if use else "false"};')
    A(r'''
static void client_main(World& w, int c, const std::string& prog)
{
    mt::my_client = c;
    for (;;)
    {
        int cmd;
        {
            std::unique_lock<std::mutex> lk(mt::G);
            mt::CV.wait(lk, [&] { return mt::cs[c].cmd >= 0 || mt::cs[c].quit; });
            if (mt::cs[c].quit) return;
            cmd = mt::cs[c].cmd;
            mt::cs[c].cmd = -1;
            ++mt::cs[c].started;
            mt::CV.notify_all();
        }
        std::string ret;
        char op = prog[cmd];
        try { int r = w.do_op(c, op); ret = std::string(1, op) + (op == 'c' ? (r == GRANT ? "+" : "-") : ""); }
        catch (const std::exception& e) { ret = std::string(1, op) + "!EXC:" + e.what(); }
        {
            std::lock_guard<std::mutex> lk(mt::G);
            mt::cs[c].rets.push_back(ret);
            ++mt::cs[c].done;
            mt::CV.notify_all();
        }
    }
}

static std::vector<std::string> split(const std::string& s, char sep)
{
    std::vector<std::string> out; std::string cur;
    for (char ch : s) { if (ch == sep) { out.push_back(cur); cur.clear(); } else cur.push_back(ch); }
    out.push_back(cur);
    return out;
}

// replay one schedule; returns false when a thread got stuck (the process must then be abandoned)
static bool replay(const std::string& id, const std::string& progs_s, const std::string& labels_s, bool lenient)
{
    auto progs = split(progs_s, '|');
    for (auto& p : progs) if (p == "-") p.clear();
    int n = (int)progs.size();
    mt::cs.assign(n, mt::ClientState());
    mt::warnings.clear();
    mt::gating.store(true);
    std::ostringstream out;
    out << "R " << id;
    std::string stuck;
    {
        auto* w = new World(n);
        w->pump->set_controlled(true);
        std::vector<std::thread> threads;
        for (int c = 0; c < n; ++c) threads.emplace_back(client_main, std::ref(*w), c, progs[c]);
        std::vector<int> next(n, 0);
        size_t enc_seen = 0;
        auto deliver = [&](const char* tag) {
            { std::lock_guard<std::mutex> lk(mt::G); mt::delivered_to = -1; }
            w->pump->post_front([w] { w->raise_out(); });
            if (!w->pump->step(mt::TIMEOUT)) { stuck = std::string(tag) + ": the dispatcher did not finish delivering an out-event"; return; }
            std::lock_guard<std::mutex> lk(mt::G);
            out << " " << tag << ":" << (mt::delivered_to < 0 ? std::string("-") : std::string(1, char('A' + mt::delivered_to)));
        };
        std::istringstream ls(labels_s);
        std::string lab;
        int idx = 0;
        while (stuck.empty() && std::getline(ls, lab, ','))
        {
            ++idx;
            if (lab.empty()) continue;
            char k = lab[0];
            int c = lab.size() > 1 ? std::atoi(lab.c_str() + 1) : -1;
            std::string where = "label " + std::to_string(idx) + " (" + lab + ")";
            if (k == 's')
            {
                unsigned long before = w->pump->posted_now();
                unsigned long shells_before = w->pump->shell_calls_now();
                {
                    std::lock_guard<std::mutex> lk(mt::G);
                    if (next[c] >= (int)progs[c].size() || mt::cs[c].done != mt::cs[c].started) { stuck = where + ": client not ready"; break; }
                    mt::cs[c].cmd = next[c]++;
                    mt::CV.notify_all();
                }
                if (lenient && !w->pump->wait_posted(before + 1, 300))
                {
                    // lenient replay: a client that reached a Select/Deselect callback before posting is let through
                    std::unique_lock<std::mutex> lk(mt::G);
                    if (mt::cs[c].at_gate) { out << " xgate" << c << ":" << (mt::cs[c].at_gate == 1 ? "select" : "deselect") << "-before-post"; mt::cs[c].gate_open = true; mt::CV.notify_all(); }
                }
                if (!w->pump->wait_posted(before + 1, lenient ? 1000 : mt::TIMEOUT))
                {
                    std::lock_guard<std::mutex> lk(mt::G);
                    stuck = where + ": the client thread did not post a closure to the dispatcher" +
                            (mt::cs[c].at_gate ? " (it is at a Select/Deselect log callback instead)" : mt::cs[c].done == mt::cs[c].started ? " (its call returned without reaching the dispatcher)" : "");
                }
                else
                {
                    // the model's client is now Blocked until the dispatcher has run its closure: the client thread must be waiting
                    // inside dzn::shell, not past it
                    bool waiting = false, past = false;
                    for (int spin = 0; spin < mt::TIMEOUT * 10 && !waiting && !past; ++spin)
                    {
                        waiting = w->pump->shell_calls_now() > shells_before;
                        if (!waiting)
                        {
                            std::unique_lock<std::mutex> lk(mt::G);
                            past = mt::cs[c].at_gate != 0 || mt::cs[c].done == mt::cs[c].started;
                            if (!past) mt::CV.wait_for(lk, std::chrono::microseconds(100));
                        }
                    }
                    if (!waiting)
                    {
                        if (!lenient) stuck = where + ": the client thread went on without waiting for the dispatcher to run its closure";
                        else
                        {
                            std::unique_lock<std::mutex> lk(mt::G);
                            out << " early" << c;
                            if (mt::cs[c].at_gate) { out << " xgate" << c << ":" << (mt::cs[c].at_gate == 1 ? "select" : "deselect") << "-before-dispatch"; mt::cs[c].gate_open = true; mt::CV.notify_all();
                                                     mt::wait_until(lk, [&] { return mt::cs[c].done == mt::cs[c].started && !mt::cs[c].gate_open; }, 1000); }
                        }
                    }
                }
            }
            else if (k == 'd')
            {
                if (!w->pump->step(mt::TIMEOUT)) { stuck = where + ": the dispatcher did not complete a closure"; break; }
                for (; enc_seen < w->enc_log.size(); ++enc_seen) out << " enc:" << w->enc_log[enc_seen];
            }
            else if (k == 'k')
            {
                std::unique_lock<std::mutex> lk(mt::G);
                if (lenient)
                {
                    mt::wait_until(lk, [&] { return mt::cs[c].at_gate != 0 || mt::cs[c].done == mt::cs[c].started; }, 1000);
                    if (mt::cs[c].at_gate == 0) { out << " nogate" << c; continue; }
                }
                if (!mt::wait_until(lk, [&] { return mt::cs[c].at_gate != 0; })) { stuck = where + ": the client thread did not reach Select/Deselect"; break; }
                out << " gate" << c << ":" << (mt::cs[c].at_gate == 1 ? "select" : "deselect");
                mt::cs[c].gate_open = true;
                mt::CV.notify_all();
                if (!mt::wait_until(lk, [&] { return mt::cs[c].done == mt::cs[c].started && !mt::cs[c].gate_open; })) { stuck = where + ": the client thread did not return from Select/Deselect"; break; }
            }
            else if (k == 'f')
            {
                std::unique_lock<std::mutex> lk(mt::G);
                if (lenient)
                {
                    mt::wait_until(lk, [&] { return mt::cs[c].at_gate != 0 || mt::cs[c].done == mt::cs[c].started; }, 1000);
                    if (mt::cs[c].at_gate) { out << " xgate" << c << ":" << (mt::cs[c].at_gate == 1 ? "select" : "deselect"); mt::cs[c].gate_open = true; mt::CV.notify_all(); }
                }
                if (!mt::wait_until(lk, [&] { return mt::cs[c].done == mt::cs[c].started; }))
                { stuck = where + ": the client's call did not return" + (mt::cs[c].at_gate ? " (it is at an unexpected Select/Deselect)" : ""); break; }
            }
            else if (k == 'D') deliver("out");
            else if (k == 'o') {}
            else { stuck = where + ": bad label"; }
        }
        // quiesce: every client back from its call (gates still closed would mean the schedule was not maximal)
        if (stuck.empty())
        {
            std::unique_lock<std::mutex> lk(mt::G);
            for (int c = 0; c < n && stuck.empty(); ++c)
                if (!mt::wait_until(lk, [&] { return mt::cs[c].done == mt::cs[c].started; }, 1000)) stuck = "end: client " + std::to_string(c) + " still inside a call";
        }
        if (stuck.empty()) deliver("probe");
        if (!stuck.empty())
        {
            std::cout << out.str() << " STUCK " << stuck << std::endl;
            return false;
        }
        {
            std::lock_guard<std::mutex> lk(mt::G);
            for (int c = 0; c < n; ++c) { mt::cs[c].quit = true; }
            mt::CV.notify_all();
        }
        for (auto& t : threads) t.join();
        out << " |";
        for (int c = 0; c < n; ++c) { out << " rets" << c << ":"; for (auto& r : mt::cs[c].rets) out << r; }
        out << " | warnings:" << mt::warnings.size();
        delete w;
    }
    std::cout << out.str() << std::endl;
    return true;
}

// free-running stress (no harness synchronisation on the paths under test)
static bool stress(int n, int cycles, int outs)
{
    mt::gating.store(false);
    auto* w = new World(n);
    w->raise_on_use = true;
    std::vector<unsigned long> granted(n, 0), refused(n, 0);
    std::atomic<int> finished{0};
    std::vector<std::thread> threads;
    for (int c = 0; c < n; ++c)
        threads.emplace_back([&, c] {
            for (int i = 0; i < cycles; ++i)
            {
                int r = w->do_op(c, 'c');
                if (r == GRANT)
                {
                    ++granted[c];
                    if (HAS_USE) for (int u = 0; u < 1 + (i + c) % 3; ++u) w->do_op(c, 'u');
                    w->do_op(c, 'r');
                }
                else { ++refused[c]; std::this_thread::yield(); }
            }
            ++finished;
        });
    threads.emplace_back([&] {
        for (int i = 0; i < outs; ++i) { w->pump->operator()([w] { w->raise_out(); }); if (i % 8 == 0) std::this_thread::yield(); }
        ++finished;
    });
    auto t0 = std::chrono::steady_clock::now();
    while (finished.load() < n + 1)
    {
        if (std::chrono::steady_clock::now() - t0 > std::chrono::seconds(60)) { std::cout << "T DEADLOCK finished=" << finished.load() << " of " << n + 1 << std::endl; return false; }
        std::this_thread::sleep_for(std::chrono::milliseconds(2));
    }
    for (auto& t : threads) t.join();
    if (!w->pump->wait_idle(10000)) { std::cout << "T DEADLOCK dispatcher did not drain" << std::endl; return false; }
    unsigned long total = 0, g = 0;
    std::ostringstream out;
    out << "T ok raised=" << w->raised;
    for (int c = 0; c < n; ++c) { total += w->deliveries[c]; g += granted[c]; out << " client" << c << "=granted:" << granted[c] << ",refused:" << refused[c] << ",delivered:" << w->deliveries[c]; }
    out << " delivered=" << total << " grants=" << g;
    delete w;
    std::cout << out.str() << std::endl;
    return true;
}

int main()
{
    std::string line;
    while (std::getline(std::cin, line))
    {
        std::istringstream is(line);
        std::string cmd; is >> cmd;
        try
        {
            if (cmd == "S" || cmd == "L") { std::string id, progs, labels; is >> id >> progs >> labels; if (!replay(id, progs, labels, cmd == "L")) { std::cout.flush(); std::_Exit(0); } }
            else if (cmd == "T") { int n, cycles, outs; is >> n >> cycles >> outs; if (!stress(n, cycles, outs)) { std::cout.flush(); std::_Exit(3); } }
        }
        catch (const std::exception& e) { std::cout << "R ? EXC " << e.what() << std::endl; std::_Exit(0); }
    }
    return 0;
}
''')
    return '\n'.join(L) + '\n'


def mw_driver(header, sf_ns):
    """unit driver for <prefix>_MutexWrapped.hh. stdin: `H <threads> <ops>` with ops a<t> r<t> x<t> w<t>:<v> g<t> separated by ','
    (operator(), reset, scope exit, write, read), only executed when defined; after each op the mutex is probed with try_lock
    from the main thread.  `T <threads> <iters>`: free-running increments under the lock."""
    return ('#include <memory>\n#include <mutex>\n#include <optional>\n#include <thread>\n#include <vector>\n#include <iostream>\n#include <sstream>\n'
            '#include <functional>\n#include <future>\n#include <atomic>\n'
            '#define private public\n' + f'#include "{header}"\n' + '#undef private\n' + r'''
using MW = ''' + sf_ns + r'''::MutexWrapped<long>;
using Handle = decltype(std::declval<MW&>()());

struct Worker
{
    std::mutex m; std::condition_variable cv; std::function<void()> job; bool has = false, quit = false, done = false;
    std::optional<Handle> var;
    std::thread th;
    Worker() { th = std::thread([this] { for (;;) { std::function<void()> j; { std::unique_lock<std::mutex> lk(m); cv.wait(lk, [&] { return has || quit; }); if (quit) return; j = job; has = false; }
                                                   j(); { std::lock_guard<std::mutex> lk(m); done = true; } cv.notify_all(); } }); }
    void run(std::function<void()> j) { { std::lock_guard<std::mutex> lk(m); job = j; has = true; done = false; } cv.notify_all(); std::unique_lock<std::mutex> lk(m); cv.wait(lk, [&] { return done; }); }
    ~Worker() { { std::lock_guard<std::mutex> lk(m); quit = true; } cv.notify_all(); th.join(); }
};

int main()
{
    std::string line;
    while (std::getline(std::cin, line))
    {
        std::istringstream is(line); std::string cmd; is >> cmd;
        if (cmd == "H")
        {
            int n; std::string ops; is >> n >> ops;
            auto* mw = new MW();
            { auto h = (*mw)(); *h = 0; }
            std::vector<std::unique_ptr<Worker>> ws; for (int i = 0; i < n; ++i) ws.emplace_back(new Worker());
            auto held = [&] { bool ok = mw->m_mutex.try_lock(); if (ok) mw->m_mutex.unlock(); return !ok; };
            std::ostringstream out; out << "H";
            std::istringstream os(ops); std::string op;
            while (std::getline(os, op, ','))
            {
                if (op.empty()) continue;
                char k = op[0]; int t = std::atoi(op.c_str() + 1); long v = 0; auto colon = op.find(':'); if (colon != std::string::npos) v = std::atol(op.c_str() + colon + 1);
                auto& w = *ws[t]; std::string res = "skip";
                if (k == 'a') { if (w.var.has_value()) res = "skip"; else if (held()) res = "blocked"; else { w.run([&] { w.var.emplace((*mw)()); }); res = "ok"; } }
                else if (k == 'r') { if (!w.var.has_value()) res = "skip"; else { w.run([&] { w.var->reset(); }); res = "ok"; } }
                else if (k == 'x') { if (!w.var.has_value()) res = "skip"; else { w.run([&] { w.var.reset(); }); res = "ok"; } }
                else if (k == 'w') { if (!w.var.has_value() || !*w.var) res = "undef"; else { w.run([&] { **w.var = v; }); res = "ok"; } }
                else if (k == 'g') { if (!w.var.has_value() || !*w.var) res = "undef"; else { long got = -1; w.run([&] { got = **w.var; }); res = "val" + std::to_string(got); } }
                out << " " << res << "/" << (held() ? 1 : 0);
            }
            for (auto& w : ws) { auto* p = w.get(); if (p->var.has_value()) p->run([p] { p->var.reset(); }); }
            out << " end/" << (held() ? 1 : 0);
            ws.clear(); delete mw;
            std::cout << out.str() << std::endl;
        }
        else if (cmd == "T")
        {
            int n, iters; is >> n >> iters;
            MW mw; { auto h = mw(); *h = 0; }
            std::atomic<int> inside{0}; std::atomic<int> overlap{0};
            std::vector<std::thread> ts;
            for (int t = 0; t < n; ++t) ts.emplace_back([&, t] { for (int i = 0; i < iters; ++i) { auto h = mw(); if (inside.fetch_add(1, std::memory_order_relaxed) != 0) ++overlap; long v = *h; *h = v + 1;
                                                                   inside.fetch_sub(1, std::memory_order_relaxed); if ((i + t) % 2) h.reset(); } });
            for (auto& t : ts) t.join();
            long fin; { auto h = mw(); fin = *h; }
            std::cout << "T value=" << fin << " expected=" << (long)n * iters << " overlap=" << overlap.load() << std::endl;
        }
    }
    return 0;
}
''')
