"""Generator of buildable Dezyne models + configurations, and of single-fault variations of them."""
import copy

NS = ['My', 'Hal', 'Sub', 'A', 'B', 'Proj', 'MyLib', 'Su']     # some contain others
ITF = ['IApi', 'IHal', 'ICtl', 'IToaster', 'IApi2', 'Api', 'IHalt']
EXT = ['Str', 'Int', 'T', 'MilliSeconds', 'PIncident', 'Integer', 'St']
EXTV = ['std::string', 'int', 'size_t', '::Sub::MyLongNamedType', '::My::Data<int>', 'std::shared_ptr<::Incident>', 'const char*', '::Incident*']
PORTS = ['api', 'ctl', 'hal', 'hal2', 'cord', 'led', 'p1', 'x_y', 'Api2', 'q', 'dataIn', 'userApi', 'p1Out', 'UPPER', 'pass', 'from']
EVIN = ['Claim', 'Release', 'Drop', 'Use', 'Initialize', 'Go', 'Set', 'Cancel', 'TryClaim', 'ReleaseAll', 'UseUp']   # some contain others
EVOUT = ['Done', 'Fail', 'Went', 'Ok', 'Ready', 'DoneAll', 'Okay']
FORMALS = ['msg', 'n', 'a', 'b', 'value', 'incident', 'waitMs', 'val', 'n2']


def rand_scope(rng, maxlen=3):
    return [rng.choice(NS) for _ in range(rng.choice([0, 1, 1, 2, 2, maxlen]))]


def place(tree, scope, decl):
    """put decl into the namespace `scope` of tree (list of decls), creating/re-opening namespaces"""
    cur = tree
    i = 0
    while i < len(scope):
        # sometimes use a multi-identifier namespace element
        nxt = None
        for d in cur:
            if d[0] == 'ns' and scope[i:i + len(d[1])] == d[1]:
                nxt = d
                break
        if nxt is None:
            nxt = ['ns', [scope[i]], []]
            cur.append(nxt)
        i += len(nxt[1])
        cur = nxt[2]
    cur.append(decl)


def spell(rng, fqn, from_scope):
    """a spelling of `fqn` that resolves to it when looked up from `from_scope` (absent other candidates)"""
    opts = [fqn]
    for k in range(1, len(from_scope) + 1):
        pre = from_scope[:k]
        if fqn[:k] == pre and len(fqn) > k:
            opts.append(fqn[k:])
    return rng.choice(opts)


def gen_case(rng, rich=True):
    """-> dict(file=dfile, cfg=cfg json, info=...) for a VALID model and configuration"""
    tree = []
    comp_scope = rand_scope(rng)
    comp_name = rng.choice(['Toaster', 'Comp', 'Sys1', 'X'])
    # externs: each simple name may be declared in several scopes; the one used is the one on the interface's chain
    n_itf = rng.choice([1, 1, 2, 3])
    itfs = []
    used_names = set()
    itf_names = rng.sample(ITF, n_itf)
    for k in range(n_itf):
        name = itf_names[k]
        # visible from the component's parent scope: declared in a prefix of comp_scope, or anywhere when fully qualified
        if rng.random() < 0.7:
            scope = comp_scope[:rng.randint(0, len(comp_scope))]
        else:
            scope = rand_scope(rng)
        if (tuple(scope), name) in used_names:
            continue
        used_names.add((tuple(scope), name))
        fqn = scope + [name]
        itf_scope = fqn   # lookups of formals start at the interface itself
        ext_decl = {}
        def ext_ref(tname):
            # declare the extern somewhere on the interface's chain unless it exists already there
            key = tname
            if key not in ext_decl:
                s = itf_scope[:rng.randint(0, len(itf_scope) - 1)] if rng.random() < 0.8 else itf_scope[:-1]
                ext_decl[key] = s + [tname]
            return spell(rng, ext_decl[key], itf_scope)
        events = []
        names_in = rng.sample(EVIN, rng.choice([0, 1, 2, 3, 4]))
        names_out = rng.sample(EVOUT, rng.choice([0, 1, 2, 3]))
        enum_name = rng.choice(['Result', 'Status'])
        types = [['enum', [enum_name], rng.sample(['NotOk', 'Ok', 'Fail', 'Error', 'Busy', 'Ok2'], rng.randint(1, 4))]]   # field names containing each other on purpose
        if rng.random() < 0.4:
            types.append(['subint', ['Small'], 0, 7])
        for en in names_in:
            fs = [[f, ext_ref(rng.choice(EXT)), rng.choice(['in', 'in', 'out', 'inout'])]
                  for f in rng.sample(FORMALS, rng.choice([0, 0, 1, 2, 3]))]
            events.append([en, 'in', rng.choice([['void'], ['void'], [enum_name], ['bool']]), fs])
        for en in names_out:
            fs = [[f, ext_ref(rng.choice(EXT)), 'in'] for f in rng.sample(FORMALS, rng.choice([0, 0, 1, 2, 3]))]
            events.append([en, 'out', ['void'], fs])
        rng.shuffle(events)
        itfs.append({'fqn': fqn, 'scope': scope, 'name': name, 'events': events, 'types': types, 'enum': enum_name,
                     'externs': ext_decl})
    # place declarations
    externs_placed = {}
    for it in itfs:
        for tname, efqn in it['externs'].items():
            externs_placed[tuple(efqn)] = rng.choice(EXTV)
    for efqn, val in externs_placed.items():
        place(tree, list(efqn[:-1]), ['extern', [efqn[-1]], val])
    for it in itfs:
        place(tree, it['scope'], ['itf', [it['name']], it['types'], it['events']])
    # ports
    nports = rng.choice([0, 1, 2, 3, 4, 5]) if rich else rng.choice([1, 2, 3])
    pnames = rng.sample(PORTS, nports)
    ports = []
    for pn in pnames:
        it = rng.choice(itfs)
        d = rng.choice(['provides', 'requires', 'requires'])
        ports.append([pn, spell(rng, it['fqn'], comp_scope), d, d == 'requires' and rng.random() < 0.2, it])
    kind = rng.choice(['comp', 'comp', 'sys'])
    pj = [[p[0], p[1], p[2], p[3]] for p in ports]
    decl = ['comp', [comp_name], pj] if kind == 'comp' else ['sys', [comp_name], pj, [['c', ['Inner']]], [[['api', None], ['p', 'c']]]]
    place(tree, comp_scope, decl)
    # decoys: same simple names in unrelated places (never on a lookup chain in use)
    if rng.random() < 0.7:
        decoy_ns = ['Zz']
        for it in itfs:
            place(tree, decoy_ns + it['scope'], ['itf', [it['name']], [], []])
            for tname in it['externs']:
                place(tree, decoy_ns, ['extern', [tname], 'decoy_t'])
        place(tree, decoy_ns, ['comp', [comp_name], []])
        place(tree, comp_scope + [comp_name, 'Deeper'], ['extern', ['Str'], 'deeper_t'])
    if rng.random() < 0.5:
        tree.insert(0, ['import', 'other.dzn'])
        tree.append(['file', './x.dzn'])
    rng.shuffle(tree)
    # configuration
    prov = [p for p in ports if p[2] == 'provides']
    req = [p for p in ports if p[2] == 'requires']
    expo_req = [p[0] for p in req if not p[3]]
    k = rng.random()
    if k < 0.25:
        pc = {'p': [['w', 'none'], ['w', 'all']], 'r': [['w', 'none'], ['w', 'all']]}
    elif k < 0.4:
        pc = {'p': [['w', 'all'], ['w', 'none']], 'r': [['w', 'all'], ['w', 'none']]}
    elif k < 0.5:
        pc = {'p': [['w', 'all'], ['w', 'none']], 'r': [['w', 'none'], ['w', 'all']]}
    elif k < 0.6:
        pc = {'p': [['w', 'none'], ['w', 'remaining']], 'r': [['w', 'remaining'], ['w', 'none']]}
    else:
        psem = rng.choice(['sts', 'mts'])
        pnames_prov = [p[0] for p in prov]
        if pnames_prov and rng.random() < 0.5:
            sel = ['s', pnames_prov]
        else:
            sel = ['w', rng.choice(['all', 'remaining'])]
        p = [sel, ['w', 'none']] if psem == 'sts' else [['w', 'none'], sel]
        if expo_req and rng.random() < 0.8:
            cut = rng.randint(0, len(expo_req))
            a, b = expo_req[:cut], expo_req[cut:]
            inj = [x[0] for x in req if x[3]]
            if inj and rng.random() < 0.5:
                a = a + [rng.choice(inj)]       # naming an injected port is allowed
            if a and b:
                r = [['s', a], ['s', b]] if rng.random() < 0.5 else [['s', a], ['w', 'remaining']]
            elif a:
                r = [['s', a], ['w', rng.choice(['none', 'remaining'])]]
            else:
                r = [['w', 'none'], ['s', b]] if b else [['w', 'none'], ['w', 'all']]
            if rng.random() < 0.5:
                r = [r[1], r[0]]
        else:
            r = [['w', 'remaining'], ['w', 'none']] if rng.random() < 0.5 else [['w', 'none'], ['w', 'all']]
        pc = {'p': p, 'r': r}
    # multi-client on an MTS provides port whose interface has two in-events, one replying the enum
    mc = None
    mts_prov = prov if (pc['p'][0] == ['w', 'none'] and pc['p'][1][0] != 'w' or pc['p'][1] in (['w', 'all'], ['w', 'remaining'])) else []
    if pc['p'][0] != ['w', 'none']:
        mts_prov = []
    if mts_prov and rng.random() < 0.85:
        p = rng.choice(mts_prov)
        it = p[4]
        ins = [e for e in it['events'] if e[1] == 'in']
        if len(ins) >= 2:
            claim, release = rng.sample(ins, 2)      # any two distinct in-events, in any order
            claim[2] = [it['enum']]
            enum_fields = it['types'][0][2]
            mc = [p[0], claim[0], [rng.choice(enum_fields)], release[0]]
    pc['mc'] = mc
    cfg = {'file': rng.choice(['Toaster.dzn', 'dir/sub/Model.dzn', 'My.Model.dzn', comp_name + '.dzn', 'Garden.dzn', 'sub/Buzz.dzn', 'Fond.dzn',
                              'models/rev.3/Toaster.dzn', 'models/rev.3/Kettle', '../shared.models/Oven', 'Plain', './a.b/c.d/Model.dzn',
                              'Lamp.DZN', 'Kettle.dezyne', 'out/Oven.txt', 'models/.Hidden.dzn']),
           'suffix': rng.choice(['AdvShell', 'Shell', '_Impl']), 'enc': comp_scope + [comp_name], 'ports': pc,
           'fac': rng.choice(['create', 'import']), 'copyright': rng.choice(['Copyright (c) 2024 X', '(c) a\n(c) b', '', 'line\n\n  indented', 'Copyright \u00a9 2024 \u00dcn\u00efc\u00f6de \u20ac \U0001f600',
                                   'Cafe\u0301 Zu\u0308rich \u212b \u2126 \ufb01 (not NFC-normalised)']),
           'sf_prefix': rng.choice([None, None, ['Other', 'Project'], ['P_1']]),
           'creator': rng.choice([None, None, 'script.py', 'tool v1\nby me\n']),
           'verbose': rng.random() < 0.3}     # progress output only: never influences the result
    return {'file': tree, 'cfg': cfg,
            'info': {'comp_scope': comp_scope, 'itfs': [{k2: v for k2, v in it.items() if k2 != 'events'} for it in itfs],
                     'ports': [[p[0], p[1], p[2], p[3], p[4]['fqn']] for p in ports]}}


# ---------------------------------------------------------------- single faults

def wrap_ns(path, decl):
    for n in reversed(path):
        decl = ['ns', [n], [decl]]
    return decl


def find_decl(tree, pred):
    for d in tree:
        if pred(d):
            return d
        if d[0] == 'ns':
            r = find_decl(d[2], pred)
            if r is not None:
                return r
    return None


FORCE_KIND = None     # set by a caller that wants the 'other kind' faults with one particular kind of declaration
OTHER_KINDS = ['enum', 'extern', 'foreign', 'comp', 'sys', 'subint', 'itf']


def faults(rng, case):
    """-> list of (name, expected 'error', mutated case) single-fault variations of a valid case"""
    out = []

    def variant(name, fn):
        c = copy.deepcopy({'file': case['file'], 'cfg': case['cfg']})
        if fn(c) is not False:
            out.append((name, c))

    cfg = case['cfg']
    info = case['info']
    prov = [p for p in info['ports'] if p[2] == 'provides']
    req = [p for p in info['ports'] if p[2] == 'requires']
    def other_kind(name, exclude=()):
        """a declaration of some kind (not one of `exclude`) under the simple name `name`"""
        kinds = {'enum': ['enum', list(name), ['A', 'B']], 'extern': ['extern', list(name), 'int'], 'foreign': ['foreign', list(name), []],
                 'comp': ['comp', list(name), []], 'sys': ['sys', list(name), [], [], []], 'subint': ['subint', list(name), 0, 3],
                 'itf': ['itf', list(name), [], []]}
        if FORCE_KIND and FORCE_KIND not in exclude:
            return kinds[FORCE_KIND]
        return kinds[rng.choice(sorted(k for k in kinds if k not in exclude))]

    variant('encapsulee-unknown', lambda c: c['cfg'].__setitem__('enc', c['cfg']['enc'][:-1] + ['Nope']))
    # a name that is only a TAIL of the encapsulee's fully qualified name does not name it (lookup is from the global scope)
    variant('encapsulee-tail-of-fqn', lambda c: c['cfg'].__setitem__('enc', c['cfg']['enc'][1:]) if len(c['cfg']['enc']) >= 2 else False)
    variant('encapsulee-last-identifier-only', lambda c: c['cfg'].__setitem__('enc', c['cfg']['enc'][-1:]) if len(c['cfg']['enc']) >= 3 else False)
    variant('encapsulee-is-interface', lambda c: c['cfg'].__setitem__('enc', list(info['itfs'][0]['fqn'])))
    for kind, decl in (('foreign', ['foreign', ['NotAComp'], [['api', list(info['itfs'][0]['fqn']), 'provides', False]]]), ('enum', ['enum', ['NotAComp'], ['A']]),
                       ('extern', ['extern', ['NotAComp'], 'int']), ('subint', ['subint', ['NotAComp'], 0, 3])):
        # something that is not a component or system under the encapsulee name (a foreign component has ports, too)
        variant('encapsulee-is-' + kind, lambda c, decl=decl: (place(c['file'], c['cfg']['enc'][:-1], copy.deepcopy(decl)),
                                                               c['cfg'].__setitem__('enc', c['cfg']['enc'][:-1] + ['NotAComp'])))
    variant('encapsulee-duplicate', lambda c: place(c['file'], c['cfg']['enc'][:-1], ['extern', [c['cfg']['enc'][-1]], 'dup']))
    if info['ports']:
        p = rng.choice(info['ports'])

        def retype(c, newtype):
            comp = find_decl(c['file'], lambda d: d[0] in ('comp', 'sys') and d[1] == [cfg['enc'][-1]] and any(q[0] == p[0] for q in d[2]))
            for q in comp[2]:
                if q[0] == p[0]:
                    q[1] = newtype
        variant('port-type-unresolvable', lambda c: retype(c, ['NoSuchItf']))
        variant('port-type-wrong-kind', lambda c: (place(c['file'], [], other_kind(['JustAType'], exclude=('itf',))), retype(c, ['JustAType'])))
        variant('port-type-ambiguous', lambda c: (place(c['file'], [], ['itf', ['Amb'], [], []]),
                                                  place(c['file'], info['comp_scope'], ['itf', ['Amb'], [], []]) if info['comp_scope'] else place(c['file'], [], ['itf', ['Amb'], [], []]),
                                                  retype(c, ['Amb'])))
        def ambiguous_other_kind(c):
            # a declaration of ANOTHER kind under the port type's name, in the global scope: two declarations on the chain
            comp = find_decl(c['file'], lambda d: d[0] in ('comp', 'sys') and d[1] == [cfg['enc'][-1]] and any(q[0] == p[0] for q in d[2]))
            tname = next(q[1] for q in comp[2] if q[0] == p[0])
            if len(tname) != 1:
                return False
            place(c['file'], [], other_kind(tname, exclude=('itf',)))
        variant('port-type-ambiguous-other-kind', ambiguous_other_kind)
    def declared_twice(c, kind):
        # the very same declaration (same namespace, same name, same body) once more, in a re-opened namespace block: two
        # declarations on the chain, ambiguous like any other two
        hit = []

        def walk(ds, path):
            for d in ds:
                if d[0] == kind and not hit and (kind != 'itf' or any(p[4] == path + d[1] for p in info['ports'])):
                    hit.append((path, copy.deepcopy(d)))
                elif d[0] == 'ns':
                    walk(d[2], path + d[1])
        walk(c['file'], [])
        if not hit:
            return False
        c['file'].append(wrap_ns(hit[0][0], hit[0][1]))
    variant('interface-declared-twice-identically', lambda c: declared_twice(c, 'itf'))
    variant('extern-declared-twice-identically', lambda c: declared_twice(c, 'extern'))
    variant('select-unknown-port', lambda c: c['cfg']['ports'].__setitem__('r', [['s', ['ghost']], ['w', 'remaining']]))
    variant('select-both', lambda c: c['cfg']['ports'].__setitem__('r', [['s', ['hal']], ['s', ['hal']]]))
    variant('select-all-plus-set', lambda c: c['cfg']['ports'].__setitem__('r', [['w', 'all'], ['s', ['hal']]]))
    variant('select-all-plus-remaining', lambda c: c['cfg']['ports'].__setitem__('r', [['w', 'all'], ['w', 'remaining']]))
    variant('select-empty-set', lambda c: c['cfg']['ports'].__setitem__('p', [['s', []], ['w', 'none']]))
    variant('select-mixed-provides', lambda c: c['cfg']['ports'].__setitem__('p', [['w', 'remaining'], ['w', 'all']]) or
            c['cfg']['ports'].__setitem__('p', [['s', ['zz']], ['w', 'remaining']]))
    exposed_req = [q for q in req if not q[3]]
    if exposed_req:
        variant('port-unassigned', lambda c: c['cfg']['ports'].__setitem__('r', [['w', 'none'], ['w', 'none']]) if False else
                c['cfg']['ports'].__setitem__('r', [['s', [exposed_req[0][0]]], ['w', 'none']]) if len(exposed_req) > 1 else False)
    if prov:
        variant('provides-unassigned', lambda c: c['cfg']['ports'].__setitem__('p', [['w', 'none'], ['s', [prov[0][0]]]]) if len(prov) > 1 else False)
    mc = cfg['ports'].get('mc')
    if mc:
        def setmc(c, i, v):
            c['cfg']['ports']['mc'][i] = v
        variant('mc-unknown-port', lambda c: setmc(c, 0, 'ghost'))
        def mc_on_requires(c, injected):
            # the configured multi-client port is a REQUIRES port (exposed or injected) that has the very interface of the
            # provides port - claim and release events exist on it
            comp = find_decl(c['file'], lambda d: d[0] in ('comp', 'sys') and d[1] == [cfg['enc'][-1]] and any(q[0] == mc[0] for q in d[2]))
            mcp = next(q for q in comp[2] if q[0] == mc[0])
            cand = [q for q in comp[2] if q[2] == 'requires' and bool(q[3]) == injected]
            if cand:
                cand[0][1] = list(mcp[1])
                setmc(c, 0, cand[0][0])
            elif injected:
                comp[2].append(['injLike', list(mcp[1]), 'requires', True])
                setmc(c, 0, 'injLike')
            else:
                return False
        if req:
            variant('mc-requires-port', lambda c: setmc(c, 0, req[0][0]))
        variant('mc-requires-port-same-interface', lambda c: mc_on_requires(c, False))
        variant('mc-injected-port-same-interface', lambda c: mc_on_requires(c, True))
        variant('mc-unknown-claim', lambda c: setmc(c, 1, 'NoSuchEvent'))
        variant('mc-unknown-release', lambda c: setmc(c, 3, 'NoSuchEvent'))
        variant('mc-claim-equals-release', lambda c: setmc(c, 3, mc[1]))
        variant('mc-value-not-in-enum', lambda c: setmc(c, 2, ['Nope']))
        variant('mc-empty-port', lambda c: setmc(c, 0, ''))
        variant('mc-empty-claim', lambda c: setmc(c, 1, ''))
        variant('mc-empty-value', lambda c: setmc(c, 2, []))
        variant('mc-sts-port', lambda c: c['cfg']['ports'].__setitem__('p', [['w', 'all'], ['w', 'none']]))

        def claim_reply(c, newret):
            for it in info['itfs']:
                d = find_decl(c['file'], lambda d: d[0] == 'itf' and d[1] == [it['name']] and any(e[0] == mc[1] for e in d[3]))
                if d:
                    for e in d[3]:
                        if e[0] == mc[1]:
                            e[2] = newret
        def claim_reply_ambiguous(c):
            # a second enum under the claim reply's simple name further out on the interface's scope chain (global scope)
            for it in info['itfs']:
                d = find_decl(c['file'], lambda d: d[0] == 'itf' and d[1] == [it['name']] and any(e[0] == mc[1] for e in d[3]))
                if d:
                    ret = next(e[2] for e in d[3] if e[0] == mc[1])
                    if len(ret) != 1:
                        return False
                    place(c['file'], [], ['enum', list(ret), ['Busy', 'Ok', 'NotOk']])
                    return None
            return False
        variant('mc-claim-reply-ambiguous', claim_reply_ambiguous)
        # the claim reply names a declaration that exists but is no enum
        for kind in ('subint', 'extern', 'itf', 'foreign'):
            def reply_other_kind(c, kind=kind):
                global FORCE_KIND
                keep, FORCE_KIND = FORCE_KIND, kind
                try:
                    place(c['file'], [], other_kind(['NotAnEnum']))
                finally:
                    FORCE_KIND = keep
                claim_reply(c, ['NotAnEnum'])
            variant('mc-claim-reply-is-' + kind, reply_other_kind)
        # names are compared exactly: surrounding blanks make another name
        variant('mc-port-name-padded', lambda c: setmc(c, 0, mc[0] + ' '))
        variant('mc-port-name-padded-left', lambda c: setmc(c, 0, ' ' + mc[0]))
        variant('mc-claim-name-padded', lambda c: setmc(c, 1, mc[1] + ' '))
        variant('mc-release-name-padded', lambda c: setmc(c, 3, '\t' + mc[3]))
        variant('mc-value-padded', lambda c: setmc(c, 2, [mc[2][0] + ' ']))
        variant('mc-claim-reply-void', lambda c: claim_reply(c, ['void']))
        variant('mc-claim-reply-unresolvable', lambda c: claim_reply(c, ['NoEnumHere']))

        def out_event_as(c, idx):
            for it in info['itfs']:
                d = find_decl(c['file'], lambda d: d[0] == 'itf' and d[1] == [it['name']] and any(e[0] == mc[1] for e in d[3]))
                if d:
                    outs = [e for e in d[3] if e[1] == 'out']
                    if not outs:
                        d[3].append(['Emitted', 'out', ['void'], []])
                        outs = [d[3][-1]]
                    c['cfg']['ports']['mc'][idx] = outs[0][0]
        variant('mc-release-is-out-event', lambda c: out_event_as(c, 3))
        variant('mc-claim-is-out-event', lambda c: out_event_as(c, 1))
    # a formal whose type does not resolve / resolves to a non-extern / is ambiguous (only matters on MTS ports)
    def break_formal(c, how):
        hit = [False]

        def walk(ds):
            for d in ds:
                if d[0] == 'itf':
                    for e in d[3]:
                        for f in e[3]:
                            if not hit[0]:
                                if how == 'ambiguous':
                                    # a declaration of another kind under the formal type's simple name, on the interface's scope chain
                                    if len(f[1]) != 1:
                                        continue
                                    place(c['file'], [], other_kind(f[1], exclude=('extern',)))
                                else:
                                    f[1] = {'missing': ['NoSuchType'], 'enum': [d[2][0][1][0]] if d[2] else ['NoSuchType']}[how]
                                hit[0] = True
                elif d[0] == 'ns':
                    walk(d[2])
        walk(c['file'])
        return hit[0]
    variant('formal-type-unresolvable', lambda c: break_formal(c, 'missing'))
    variant('formal-type-is-enum', lambda c: break_formal(c, 'enum'))
    variant('formal-type-ambiguous-other-kind', lambda c: break_formal(c, 'ambiguous'))
    variant('suffix-and-name-empty', lambda c: (c['cfg'].__setitem__('file', '.dzn') or c['cfg'].__setitem__('suffix', '')))
    variant('prefix-invalid-id', lambda c: c['cfg'].__setitem__('sf_prefix', ['9x']))
    return out
