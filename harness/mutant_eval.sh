#!/bin/bash
# usage: mutant_eval.sh <dir with patch.diff demo.py> <property id> [more property ids...]
# 1. confirms the mutant in a scratch worktree (both suites green, demo PASS on original / FAIL on changed)
# 2. applies it to /repo, runs the quick checks named, reverts /repo.
d="$1"; shift
wt=/tmp/mutcheck.$$
git -C /repo worktree add -q --detach $wt HEAD || exit 2
trap 'git -C /repo worktree remove --force $wt 2>/dev/null; git -C /repo checkout -q -- . ' EXIT
echo "== demo on original:"; /venv/bin/python $d/demo.py $wt/src 2>&1 | tail -2; echo "rc=$?"
git -C $wt apply $d/patch.diff || { echo "PATCH DOES NOT APPLY"; exit 2; }
echo "== demo on changed:"; /venv/bin/python $d/demo.py $wt/src 2>&1 | tail -3
echo "== pinned suite:"; (cd $wt && /venv/bin/python -m pytest -q -p no:cacheprovider --continue-on-collection-errors 2>&1 | tail -1)
echo "== worktree suite:"; (cd $wt/test && PYTHONPATH=$wt/src:$wt/test /venv/bin/python -m pytest -q -p no:cacheprovider --continue-on-collection-errors 2>&1 | tail -1)
git -C /repo apply $d/patch.diff || exit 2
for id in "$@"; do
  echo "== check $id on mutated /repo:"
  (cd /verif && ./check $id quick 2>&1 | grep -E "VIOLATION|KNOWN|quick:|->" | head -6)
done
git -C /repo checkout -q -- .
git -C /repo status --short | head -3
