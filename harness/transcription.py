"""Tie between the hand-written semantics of the C++ support headers (Sem/Selector.v, Sem/Concurrent.v, Sem/MutexWrapped.v,
Sem/FinalConstruct.v) and the text they were transcribed from.

The bodies of the six support headers are inputs of the builder model, so a change of their C++ is not seen by Leg A. Leg B runs
them, but only along the paths its drivers take. This module records a fingerprint (sha256 of the body with // comments removed
and white space collapsed) of every body at the time the semantics was transcribed; a check that relies on a header reports a
broken correspondence when the fingerprint no longer matches (no-failing-input-found unless its Leg B finds one).

    python harness/transcription.py --record     re-record after re-reading the C++ and updating Sem/*.v
"""
import hashlib
import json
import os
import re
import sys

HERE = os.path.dirname(os.path.abspath(__file__))
FILE = os.path.join(HERE, 'transcribed_from.json')
NAMES = ['strict_port', 'ilog', 'misc_utils', 'meta_helpers', 'multi_client_selector', 'mutex_wrapped']
SEM = {'multi_client_selector': 'Sem/Selector.v, Sem/Concurrent.v, Sem/FinalConstruct.v', 'mutex_wrapped': 'Sem/MutexWrapped.v, Sem/Concurrent.v',
       'ilog': 'the ILog callbacks used as yield points (C11) and the log parameter of multi-client shells',
       'strict_port': 'the Sts<>/Mts<> accessor wrappers (C02)', 'meta_helpers': 'CreatePort<> used by InitializePort<P> (C04)',
       'misc_utils': 'no semantics modelled'}


def normalise(lines):
    text = '\n'.join(lines)
    text = re.sub(r'//[^\n]*', '', text)
    return re.sub(r'\s+', ' ', text).strip()


def fingerprints():
    from checks import buildcases as BC
    t = BC.templates_for(None)
    return {n: hashlib.sha256(normalise(t[2 + i][1]).encode()).hexdigest() for i, n in enumerate(NAMES)}


def changed(names):
    """the subset of `names` whose C++ body no longer is the text the semantics was transcribed from"""
    rec = json.load(open(FILE))
    cur = fingerprints()
    return [n for n in names if rec.get(n) != cur[n]]


def report(rep, names):
    for n in changed(names):
        rep.violation(f'correspondence transcription:{n} broken: the C++ body of the {n} support header differs (beyond comments and white '
                      f'space) from the text that {SEM[n]} was transcribed from; the theorems about it no longer speak about this code',
                      {'correspondence': f'transcription:{n}', 'header': n, 'recorded_in': 'harness/transcribed_from.json'}, failing_input=False)


if __name__ == '__main__':
    sys.path.insert(0, HERE)
    if '--record' in sys.argv:
        json.dump(fingerprints(), open(FILE, 'w'), indent=1)
        print('recorded', FILE)
    else:
        print(changed(NAMES))
