"""./check <Cxx> --replay <file>: show the recorded violation and re-run the check that produced it with the same seed and tier.
The replay file holds the concrete input (model, configuration, history, schedule ...) under 'replay'; the checks derive every
random choice from the seed, so re-running reproduces the same cases against /repo's current working tree."""
import json
import os
import subprocess
import sys


def main(argv):
    pid, path = argv[1], argv[2]
    d = json.load(open(path))
    print(f'property {d.get("property")}  seed {d.get("seed")}  tier {d.get("tier")}  failing input found: {d.get("failing_input_found")}')
    print('what:', d.get('what', '')[:2000])
    print('input:', json.dumps(d.get('replay'), ensure_ascii=False)[:4000])
    env = dict(os.environ)
    env['VERIF_SEED'] = str(d.get('seed', 1))
    here = os.path.dirname(os.path.dirname(os.path.abspath(__file__)))
    return subprocess.call([os.path.join(here, 'check'), pid, d.get('tier', 'quick')], env=env, cwd=here)


if __name__ == '__main__':
    sys.exit(main(sys.argv))
