"""Validate MANIFEST.json and all evidence files against the schemas (uses python3-vt's jsonschema)."""
import glob, json, sys
import jsonschema
ok = True
m = json.load(open('/verif/MANIFEST.json'))
jsonschema.validate(m, json.load(open('/root/.vp/MANIFEST.schema.json')))
sch = json.load(open('/root/.vp/EVIDENCE.schema.json'))
for p in sorted(glob.glob('/verif/evidence/*.json')):
    try:
        jsonschema.validate(json.load(open(p)), sch)
    except Exception as e:  # noqa
        ok = False
        print('INVALID', p, str(e)[:300])
ids = {c['property_id'] for c in m['checks']} | {c['property_id'] for c in m.get('not_applicable', [])}
missing = [f'C{i:02d}' for i in range(1, 21) if f'C{i:02d}' not in ids]
print('manifest ok; checks:', len(m['checks']), 'not_applicable:', len(m.get('not_applicable', [])), 'unlisted:', missing)
sys.exit(0 if ok else 1)
