"""C04 - Multi-client port delivers out-events only to the client holding the claim."""
import itertools
import os
import random
import subprocess
import sys

from lib import Report, proof_gate, tier_seed, run_model, load_known, ds
import gen_mockmodel as MM
import gen_driver as GD
import legb
from checks import shellrun as SR

TRUSTED = ['Coq 8.16.1 kernel (coqc), vm_compute', 'extraction (ExtrOcamlBasic only) + OCaml 4.13.1 + harness/ml/driver.ml',
           'g++ 12 -std=c++17 / libstdc++ / AddressSanitizer', 'mock Dezyne runtime, mock model header, `#pragma once` shim (K1); the component\'s replies are scripted by the driver']
ASSUME = ['sequential histories (one operation at a time); interleavings are C11',
          'partial: the selector semantics is transcribed from the C++ support-file text; its C++ meaning is validated by running, not proved']


def gen_history(rng, clients, others, outs, n):
    h = []
    for _ in range(n):
        k = rng.random()
        c = rng.choice(clients)
        if k < 0.3:
            h.append(['claim', c, rng.random() < 0.6])
        elif k < 0.5:
            h.append(['release', c])
        elif k < 0.65 and others:
            h.append(['other', c, rng.choice(others)])
        elif outs:
            h.append(['out', rng.choice(outs)])
    return h


def op_wire(o):
    if o[0] == 'claim':
        return [0, o[1], bool(o[2])]
    if o[0] == 'release':
        return [1, o[1]]
    if o[0] == 'other':
        return [2, o[1], o[2]]
    return [3, o[1]]


def dec_effects(v):
    out = []
    for e in v:
        if e[0] == 0:
            out.append(('fwd', ds(e[1]), ds(e[2])))
        else:
            out.append(('out', ds(e[1]), ds(e[2][0]) if e[2] else None))
    return out


def parse_run(text):
    """driver output -> per operation: (records, ret)"""
    ops = []
    for line in text.splitlines():
        if line.startswith('OP '):
            ops.append({'recs': [], 'ret': None, 'exc': None})
        elif not ops:
            if line.startswith('FINALCONSTRUCT-FAILED'):
                return line
        elif line.startswith('  REC ') or line.startswith('  LATE '):
            ops[-1]['recs'].append(line.split(' ', 3)[3])
        elif line.startswith('  RET '):
            ops[-1]['ret'] = line.split()[1]
        elif line.startswith('  EXC '):
            ops[-1]['exc'] = line[6:]
    return ops


def main(argv):
    tier, seed = tier_seed(argv)
    rep = Report('C04', tier, seed)
    rng = random.Random(seed)
    known = {k['id']: k for k in load_known()['known']}
    nshell = 5 if tier == 'quick' else 40
    cases = SR.usable_cases(rng, nshell, want=lambda c: bool(c['cfg']['ports'].get('mc')), maxtries=6000)
    # claim/release events with arbitrary names and formals, and the multi-client port not the last provides port
    file = [['extern', ['Int'], 'int'], ['extern', ['Str'], 'std::string'],
            ['ns', ['My'], [['itf', ['IArb'], [['enum', ['Verdict'], ['NotGranted', 'Granted', 'GrantedLater']]],
                             [['Acquire', 'in', ['Verdict'], [['who', ['Str'], 'in'], ['n', ['Int'], 'inout']]],
                              ['Relinquish', 'in', ['bool'], [['why', ['Int'], 'in']]], ['Poke', 'in', ['void'], [['x', ['Int'], 'out']]],
                              ['Done', 'out', ['void'], [['n', ['Int'], 'in']]], ['Gone', 'out', ['void'], []]]],
                            ['itf', ['ICtl'], [], [['Start', 'in', ['void'], []], ['Started', 'out', ['void'], []]]],
                            ['comp', ['Mixer'], [['api', ['IArb'], 'provides', False], ['ctrl', ['ICtl'], 'provides', False], ['hal', ['ICtl'], 'requires', False]]]]]]
    cases.append({'file': file, 'cfg': {'file': 'Mixer.dzn', 'enc': ['My', 'Mixer'], 'ports': {'p': [['w', 'none'], ['w', 'all']], 'r': [['w', 'none'], ['w', 'all']],
                                                                                           'mc': ['api', 'Acquire', ['Granted'], 'Relinquish']}}})
    # event names containing one another, in both declaration orders, either one configured as claim / release
    cases += SR.mc_name_containment_cases()[:2] if tier == 'quick' else SR.mc_name_containment_cases()
    cases += SR.case_only_cases()[:1] if tier == 'quick' else SR.case_only_cases()
    suspects, breadth = SR.leg_a_suspects(rng, 60 if tier == 'quick' else 1000, want=lambda c: bool(c['cfg']['ports'].get('mc')))
    rep.extra['cases_compared_with_the_model_only'] = breadth
    cases += suspects
    io, mo, plans = SR.tie_and_plans(cases)
    wd = legb.Workdir()
    nv = nfail = 0
    k3 = 0
    try:
        jobs = []
        for ci, (c, i, m, pl) in enumerate(zip(cases, io, mo, plans)):
            tp = SR.tie_problem(i, m)
            if i[0] != 'ok' or not MM.usable(pl):
                if tp and nv < 5:
                    nv += 1
                    rep.violation(f'correspondence legA:Builder.build broken: {tp}', {'file': c['file'], 'configuration': c['cfg']}, failing_input=False)
                continue
            jobs.append((ci, c, i[1], pl, tp))
        nclients = 3
        first_job = jobs[0][0] if jobs else -1

        def work(job):
            ci, c, files, pl, tp = job
            clients = ['A', 'B', 'C'][:nclients]
            mcp = next(p for p in pl['ports'] if p['exposed'] and p['exposed']['mc'])
            mc = mcp['exposed']['mc']
            claim = next(e for e in mcp['itf']['events'] if e['name'] == mc['claim'])
            fields = claim['ret'][1]['fields']
            grant = fields.index(mc['reply'][-1])
            other_reply = next((k for k in range(len(fields)) if k != grant), None)
            others = [e['name'] for e in mcp['itf']['events'] if not e['out'] and e['name'] not in (mc['claim'], mc['release'])]
            outs = [e['name'] for e in mcp['itf']['events'] if e['out']]
            hrng = random.Random(seed * 1000 + ci)
            hists = [gen_history(hrng, clients, others, outs, hrng.randint(5, 30)) for _ in range(12 if tier == 'quick' else 120)]
            if ci == first_job or tier == 'thorough':   # all sequences of length <= 4 over 2 clients (claim granted/refused, release, out)
                alpha = [['claim', 'A', True], ['claim', 'A', False], ['claim', 'B', True], ['release', 'A'], ['release', 'B']] + ([['out', outs[0]]] if outs else [])
                for n in range(1, 5):
                    for seq in itertools.product(alpha, repeat=n):
                        hists.append([list(x) for x in seq])
            if other_reply is None:   # an enum with the granting value only: every claim is granted
                for h in hists:
                    for o in h:
                        if o[0] == 'claim':
                            o[2] = True
            d = wd.sub(f'c{ci}')
            legb.materialize(d, files, pl, c['cfg'], shim=True)
            open(os.path.join(d, 'driver.cc'), 'w').write(GD.selector_driver(pl, c['cfg'], files[0][0], clients))
            rc, out = legb.gxx(['-fsanitize=address', '-fno-omit-frame-pointer', '-g', '-o', os.path.join(d, 'drv')] + legb.includes(d) + [os.path.join(d, 'driver.cc'), os.path.join(d, files[1][0])])
            if rc:
                return ci, tp, ('compile', out), None
            res = []
            for h in hists:
                text = ''.join((f'claim {o[1]} {grant if o[2] else other_reply}\n' if o[0] == 'claim' else ' '.join(str(x) for x in o) + '\n') for o in h)
                p = subprocess.run([os.path.join(d, 'drv')], input=text.encode(), stdout=subprocess.PIPE, stderr=subprocess.STDOUT, timeout=120,
                                   env=dict(os.environ, ASAN_OPTIONS='detect_stack_use_after_return=1:detect_leaks=0'))
                res.append((h, p.returncode, p.stdout.decode(errors='replace')))
            model = run_model([[700, clients, [op_wire(o) for o in h]] for h in hists])
            return ci, tp, ('ran', (mcp['name'], mc, grant, other_reply)), list(zip(res, model))
        results = legb.parallel(work, jobs, n=8)
        for ci, tp, (stage, info), runs in results:
            c = cases[ci]
            problem, failing, bad_h = None, True, None
            if stage == 'compile':
                problem = f'the generated multi-client shell does not compile: {info[:600]}'
            else:
                pname, mc, grant, other_reply = info
                for (h, rc, text), mv in runs:
                    rep.case({'cfg': c['cfg']['ports']['mc'], 'history': h}, shape=f'len {min(len(h), 30) // 5 * 5}+')
                    if problem:
                        continue
                    model_eff, spec_eff, conf = dec_effects(mv[0]), dec_effects(mv[1]), bool(mv[2])
                    obs = parse_run(text)
                    if rc != 0 or isinstance(obs, str):
                        problem, bad_h = f'multi-client shell failed at run time: {obs if isinstance(obs, str) else text[-300:]}', h
                        continue
                    if len(obs) != len(h):
                        problem, bad_h = f'driver produced {len(obs)} operation blocks for {len(h)} operations', h
                        continue
                    for k, (o, ob, me, se) in enumerate(zip(h, obs, model_eff, spec_eff)):
                        # what the compiled shell did, in the vocabulary of the model
                        if o[0] == 'out':
                            dels = [r.split(' ')[1].split('.out.')[0].split('@')[1] for r in ob['recs'] if r.startswith('USER ' + pname + '@') and f'.out.{o[1]}(' in r]
                            observed = ('out', o[1], dels[0] if len(dels) == 1 else (None if not dels else tuple(dels)))
                            extra = [r for r in ob['recs'] if not (r.startswith('USER ' + pname + '@') and f'.out.{o[1]}(' in r)]
                        else:
                            evname = mc['claim'] if o[0] == 'claim' else mc['release'] if o[0] == 'release' else o[2]
                            fw = [r for r in ob['recs'] if r.startswith(f'ENC {pname}.in.{evname}(') and r.endswith('ctx=D')]
                            observed = ('fwd', o[1], '<claim>' if o[0] == 'claim' else '<release>' if o[0] == 'release' else o[2]) if len(fw) == 1 else ('fwd-count', len(fw), ob['recs'])
                            extra = [r for r in ob['recs'] if r not in fw]
                            if o[0] == 'claim' and not ob['exc'] and ob['ret'] != str(grant if o[2] else other_reply):
                                extra.append(f'reply {ob["ret"]} returned to the client instead of {grant if o[2] else other_reply}')
                        if ob['exc']:
                            extra.append('exception: ' + ob['exc'])
                        if observed != me or extra:
                            if observed != se or extra:
                                problem = (f'operation {k} ({" ".join(str(x) for x in o)}): compiled shell did {observed}{" + " + str(extra[:2]) if extra else ""}; '
                                           f'the selector model says {me}, the property demands {se}')
                                failing = True
                            else:
                                problem, failing = f'correspondence legB:selector broken at operation {k}: compiled {observed} vs model {me}', False
                            bad_h = h
                            break
                        if me != se:
                            # the faithful model contradicts the specification: only after a release by a client that does not hold the claim (K3)
                            hold = None
                            nonholder_release = False
                            for o2 in h[:k]:
                                if o2[0] == 'claim' and o2[2]:
                                    hold = o2[1]
                                elif o2[0] == 'release':
                                    if hold == o2[1]:
                                        hold = None
                                    elif hold is not None:
                                        nonholder_release = True
                            if nonholder_release and not conf:
                                k3 += 1
                            else:
                                problem, bad_h = f'operation {k}: delivery {me} contradicts the holder {se} in a history where only the holder released', h
                            break
            if not problem and tp:
                problem, failing = f'correspondence legA:Builder.build broken (compiled behaviour still as demanded): {tp}', False
            if problem and (nv < 5 or (failing and nfail < 3)):
                nv += 1
                nfail += 1 if failing else 0
                rep.violation(problem, {'file': c['file'], 'configuration': c['cfg'], 'history': bad_h, 'clients': ['A', 'B', 'C']}, failing_input=failing)
        rep.extra['compiled_shells'] = len(results)
    finally:
        wd.cleanup()
    if k3:
        if 'K3' in known:
            rep.known_finding('K3', f'{known["K3"]["what"][:150]} ({k3} histories in this run)')
        else:
            rep.violation('a release by a client that does not hold the claim resets the selection (not a listed known finding)', {}, failing_input=True)
    import transcription
    transcription.report(rep, ['multi_client_selector', 'mutex_wrapped', 'meta_helpers', 'ilog'])
    gate = proof_gate('C04')
    return rep.finish(gate, 'compiled shells with a multi-client port (generated interfaces; one with claim/release events of unusual names, '
                      'formals and a valued release, multi-client port not last) and 3 registered clients; per shell random histories of '
                      '5-30 operations (claim granted/refused, release, other in-events, out-events) and all sequences of length <= 4 over '
                      '2 clients; each operation compared with the Gallina selector model and with the holder specification; distinct = distinct (configuration, history)',
                      TRUSTED, ASSUME)


if __name__ == '__main__':
    sys.exit(main(sys.argv))
