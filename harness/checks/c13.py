"""C13 - A build either returns a complete result or fails with a diagnosed error."""
import random
import sys

from lib import Report, proof_gate, tier_seed, run_impl, load_known
import gen_build as GB
import dznjson
from checks import buildcases as BC

TRUSTED = ['Coq 8.16.1 kernel (coqc), vm_compute', 'extraction (ExtrOcamlBasic only) + OCaml 4.13.1 + harness/ml/driver.ml',
           'harness: gen_build.py (models, configurations, single faults), dznjson.py, workers/build_worker.py + buildlib.py',
           'static template texts of the support files, VERSION and COPYRIGHT are read from /repo and passed to the model as inputs']
ASSUME = ['port, event and formal names are identifiers (guaranteed by Dezyne); the configuration is constructed through the public classes',
          'observable: complete file list (byte-exact vs the model) / library error class / any other exception; watchdog 20 s per batch',
          'interpreter recursion limit is outside the model (known finding K5, probed separately)']

EXPECTED_NAMES = ['StrictPort', 'ILog', 'MiscUtils', 'MetaHelpers', 'MultiClientSelector', 'MutexWrapped']


def main(argv):
    tier, seed = tier_seed(argv)
    rep = Report('C13', tier, seed)
    rng = random.Random(seed)
    nvalid = 60 if tier == 'quick' else 1500
    cases, labels = [], []
    used = {}
    want_mc = nvalid // 3          # a third of the bases have a multi-client port (half of the fault kinds concern it)
    nbase = tries = 0
    while nbase < nvalid and tries < 40 * nvalid:
        tries += 1
        base = GB.gen_case(rng)
        if nbase >= nvalid - want_mc and not base['cfg']['ports'].get('mc'):
            continue
        nbase += 1
        cases.append({'file': base['file'], 'cfg': base['cfg']})
        labels.append('valid')
        fl = GB.faults(rng, base)
        if tier == 'quick':
            # six faults per base, the kinds used least so far first: every kind of fault gets its share of the run
            rng.shuffle(fl)
            fl.sort(key=lambda f: used.get(f[0], 0))
            fl = fl[:10 if base['cfg']['ports'].get('mc') else 6]
            for f in fl:
                used[f[0]] = used.get(f[0], 0) + 1
        for name, c in fl:
            cases.append(c)
            labels.append('fault:' + name)
    # fixed valid shapes the random generator rarely produces: names containing one another or differing only in case around the
    # multi-client settings, shadowed externs, twelve ports, semantics alternating in declaration order
    from checks import shellrun as SR
    clash = SR.mixed_semantics_cases(('SM',))[0]
    clash = {'file': clash['file'], 'cfg': dict(clash['cfg'], file='models/Dzn_I.dzn', suffix='Log')}     # shell `Dzn_ILog`, like the ILog support file
    for c in [clash] + SR.case_only_cases() + SR.mc_name_containment_cases() + SR.shadowed_extern_cases()[:2] + SR.many_cases() + SR.mixed_semantics_cases(('MSM',)) + SR.prefix_name_cases()[:2]:
        cases.append(c)
        labels.append('valid')
    io, mo = BC.run_builds(cases, timeout=3000, twice=True)
    # a Dezyne file name as the operating system hands it out when it is not valid UTF-8 (surrogate-escaped byte): still a valid
    # input - the build returns its eight files (their text cannot be hashed, which nobody asks for here)
    from lib import run_impl
    from checks import shellrun as SR2
    sc = SR2.mixed_semantics_cases(('SM',))[0]
    sc = {'file': sc['file'], 'cfg': dict(sc['cfg'], file='models/Caf\udce9.dzn')}
    sr = run_impl('build_worker', {'cases': [{'op': 'count_files', 'file': sc['file'], 'cfg': sc['cfg']}]})['results'][0]
    rep.case({'cfg': sc['cfg'], 'file': sc['file']}, shape='valid/surrogate-escaped file name')
    if 'ok' not in sr or sr['ok'][0] != 0 or sr['ok'][1] != 8:
        rep.violation(f'a valid model and configuration whose Dezyne file name holds a surrogate-escaped byte does not build: {str(sr)[:300]}',
                      {'file': sc['file'], 'configuration': {k: (v if k != 'file' else 'models/Caf\\udce9.dzn') for k, v in sc['cfg'].items()}})
    nv = 0
    for c, lab, i, m in zip(cases, labels, io, mo):
        rep.case({'cfg': c['cfg'], 'file': c['file']}, shape=f'{lab.split(":")[0]}/{i[0]}')
        rep.hist[lab] = rep.hist.get(lab, 0) + 1
        problem = None
        failing = True
        if i[0] == 'unstable':
            problem = f'building the same parsed model with the same configuration twice gives different outcomes ({lab}): {i[1][:400]}'
        elif i[0] == 'internal':
            problem = f'build raised {i[1]}, which is not one of the library error types ({lab})'
        elif i[0] == 'ok':
            files = i[1]
            names = [f[0] for f in files]
            if len(files) != 8 or not names[0].endswith('.hh') or not names[1].endswith('.cc') or \
                    [n.split('_')[-1][:-3] for n in names[2:]] != EXPECTED_NAMES:
                problem = f'build returned an incomplete or unexpected file set {names}'
            elif m[0] != 'ok':
                problem = f'build succeeded on an input the model rejects with {m[1]} ({lab}): invalid inputs must fail'
            else:
                d = BC.first_diff([f[:2] + [f[3]] for f in files], m[1])
                if d:
                    problem, failing = f'correspondence legA:Builder.build broken ({lab}): {d}', False
        elif i[0] == 'lib' and m[0] == 'ok':
            problem = f'build failed with {i[1]} on an input the model accepts ({lab}): valid inputs must succeed'
        elif i[0] == 'parse' or m[0] == 'parse':
            if i[0] != m[0]:
                problem, failing = f'parser outcome differs: {i} vs {m}', False
        if problem and nv < 5:
            nv += 1
            rep.violation(problem, {'file': c['file'], 'configuration': c['cfg'], 'document': dznjson.to_json(c['file']),
                                    'impl': str(i)[:1500], 'model': str(m)[:600],
                                    'how': 'buildlib.build(configuration, DznJsonAst(json.dumps(document)).process())'},
                          failing_input=failing)
    # K5: deep namespace nesting
    known = {k['id']: k for k in load_known()['known']}
    deep = [['comp', ['C'], []]]
    for _ in range(505):
        deep = [['ns', ['N'], deep]]
    r = run_impl('build_worker', {'cases': [{'op': 'build', 'file': deep, 'order_seed': None,
                 'cfg': {'enc': ['N'] * 505 + ['C'], 'ports': {'p': [['w', 'none'], ['w', 'all']], 'r': [['w', 'none'], ['w', 'all']]}}}]})['results'][0]
    o = BC.impl_outcome(r)
    rep.extra['K5_probe'] = str(o)[:80]
    if o[0] in ('internal', 'parse') and ('Recursion' in str(o[1])):
        if 'K5' in known:
            rep.known_finding('K5', f'505 nested namespaces: parse/build raised {o[1]} (interpreter recursion limit)')
        else:
            rep.violation(f'deep nesting: {o}', {'nesting': 505})
    gate = proof_gate('C13')
    return rep.finish(gate, 'generated (model, configuration) pairs: valid ones and single-fault variations (unknown/non-component/'
                      'duplicate encapsulee; unresolvable/ambiguous/wrong-kind port type; unknown/unassigned/contradictory/mixed '
                      'selections; every multi-client fault; unresolvable or non-extern formal types; empty shell name; invalid '
                      'prefix); every build compared byte for byte with the model; distinct = distinct (model, configuration)',
                      TRUSTED, ASSUME)


if __name__ == '__main__':
    sys.exit(main(sys.argv))
