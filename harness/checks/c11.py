"""C11 - Generated multi-client support is correct under all thread interleavings.

Leg B of the interleaving model (Sem/Concurrent.v) and of the MutexWrapped model (Sem/MutexWrapped.v):
  * schedules produced by the Gallina generators (random samples, the refutation witnesses, and - thorough - every coarse
    schedule of a small configuration) are replayed on real threads against the compiled shell: client threads are held in
    dzn::shell until the scheduler lets the dispatcher run their closure, and at the selector's ILog callbacks until the
    scheduler lets them take the lock; what the component saw, what every client call returned and who received each
    out-event are compared with the model's observations;
  * the same shell free-running under ThreadSanitizer with a watchdog (data races, deadlock);
  * histories of MutexWrapped operations on real threads with a try_lock probe after every step, compared with the model;
    free-running increments under ThreadSanitizer.
"""
import os
import random
import subprocess
import sys

from lib import Report, proof_gate, tier_seed, run_model, load_known
import gen_driver_mt as GMT
import legb
from checks import shellrun as SR

MOCKMT = os.path.join(os.path.dirname(legb.MOCK), 'mockmt')

TRUSTED = ['Coq 8.16.1 kernel (coqc), vm_compute', 'extraction (ExtrOcamlBasic only) + OCaml 4.13.1 + harness/ml/driver.ml',
           'g++ 12 -std=c++17 / libstdc++ / ThreadSanitizer (-fsanitize=thread)',
           'threaded mock Dezyne runtime (harness/cpp/mockmt/dzn/pump.hh: one dispatcher thread, dzn::shell = post + future), mock model header, '
           '`#pragma once` shim (K1); the component is a conformant arbiter scripted by the driver',
           '`#define private public` around the MutexWrapped header in its unit driver (to probe the mutex with try_lock)']
ASSUME = ['partial: the interleaving semantics (atomic steps: post-and-block, dispatcher runs closure, lock, select/deselect+unlock, out-event under lock) '
          'is transcribed from the emitted C++; race freedom at the level of the C++ memory model and absence of deadlock in the binary are run-time facts: '
          'ThreadSanitizer and watchdog evidence, not theorems',
          'handlers bound by the user terminate and do not call back into the shell from the dispatcher thread']

OPS = 'cru'


def progs_word(progs):
    return '|'.join(''.join(OPS[o] for o in p) or '-' for p in progs)


def labels_word(ls):
    out = []
    for l in ls:
        out.append({0: 's%d', 1: 'd', 2: 'k%d', 3: 'D', 4: 'f%d', 5: 'o'}[l[0]] % tuple(l[1:]) if len(l) > 1 else {1: 'd', 3: 'D', 5: 'o'}[l[0]])
    return ','.join(out)


def expected_obs(reply, progs):
    """model observations in the vocabulary of the driver: (enc sequence, deliveries, per-client returns)"""
    ok, obs, sel, fin = reply[0], reply[1], reply[2], reply[3]
    enc, dels = [], []
    rets = [[] for _ in progs]
    for o in obs:
        if o[0] == 0:
            c, op, g = o[1], o[2], bool(o[3])
            enc.append('claim+' if op == 0 and g else 'claim-' if op == 0 else 'release' if op == 1 else 'use')
            rets[c].append('c+' if op == 0 and g else 'c-' if op == 0 else OPS[op])
        else:
            dels.append(chr(65 + o[1][0]) if o[1] else '-')
    return enc, dels, [''.join(r) for r in rets], (chr(65 + sel[0]) if sel else '-')


def parse_replay(line):
    """'R id tok tok | rets0:.. rets1:.. | warnings:n'"""
    parts = line.split(' | ')
    toks = parts[0].split()[2:]
    if 'STUCK' in toks:
        k = toks.index('STUCK')
        return {'stuck': ' '.join(toks[k + 1:]), 'toks': toks[:k]}
    enc = [t[4:] for t in toks if t.startswith('enc:')]
    dels = [t[4:] for t in toks if t.startswith('out:')]
    probe = next((t[6:] for t in toks if t.startswith('probe:')), None)
    gates = [t for t in toks if t.startswith('gate')]
    rets = [t.split(':', 1)[1] for t in parts[1].split()] if len(parts) > 1 else []
    return {'enc': enc, 'dels': dels, 'probe': probe, 'rets': rets, 'gates': gates}


def run_driver(exe, lines, env=None, timeout=300, cmd='S'):
    """feed schedules; the driver abandons the process on a stuck schedule, so restart with the remainder"""
    out = {}
    pending = list(lines)
    nstuck = 0
    while pending:
        if nstuck >= 4:          # enough evidence from this chunk; do not wait for a timeout per remaining schedule
            for x in pending:
                out[str(x[0])] = f'R {x[0]} SKIPPED'
            break
        text = ''.join(f'{cmd} {i} {p} {l}\n' for i, p, l in pending)
        try:
            p = subprocess.run([exe], input=text.encode(), stdout=subprocess.PIPE, stderr=subprocess.PIPE, timeout=timeout, env=env)
            so = p.stdout.decode(errors='replace')
        except subprocess.TimeoutExpired as e:
            so = (e.stdout or b'').decode(errors='replace')
        got = [l for l in so.splitlines() if l.startswith('R ')]
        seen = set()
        for l in got:
            sid = l.split()[1]
            out[sid] = l
            seen.add(sid)
        rest = [x for x in pending if str(x[0]) not in seen]
        if len(rest) == len(pending):       # no progress: the first pending schedule killed the process without a line
            out[str(pending[0][0])] = f'R {pending[0][0]} STUCK the driver died or hung without reporting (rc/timeout)'
            rest = pending[1:]
        nstuck += 1 if rest else 0
        pending = rest
    return out


# fixed models with a multi-client port (shapes of interfaces and configurations are C04's business; here: schedules)
def fixed_cases():
    mixer = [['extern', ['Int'], 'int'], ['extern', ['Str'], 'std::string'],
             ['ns', ['My'], [['itf', ['IArb'], [['enum', ['Verdict'], ['NotGranted', 'Granted', 'GrantedLater']]],
                              [['Acquire', 'in', ['Verdict'], [['who', ['Str'], 'in'], ['n', ['Int'], 'inout']]],
                               ['Relinquish', 'in', ['bool'], [['why', ['Int'], 'in']]], ['Poke', 'in', ['void'], [['x', ['Int'], 'out']]],
                               ['Done', 'out', ['void'], [['n', ['Int'], 'in']]], ['Gone', 'out', ['void'], []]]],
                             ['itf', ['ICtl'], [], [['Start', 'in', ['void'], []], ['Started', 'out', ['void'], []]]],
                             ['comp', ['Mixer'], [['api', ['IArb'], 'provides', False], ['ctrl', ['ICtl'], 'provides', False], ['hal', ['ICtl'], 'requires', False]]]]]]
    toaster = [['ns', ['My'], [['itf', ['IExclusive'], [['enum', ['Result'], ['Ok', 'Busy']]],
                                [['Claim', 'in', ['Result'], []], ['Release', 'in', ['void'], []], ['Toast', 'in', ['void'], []], ['Popped', 'out', ['void'], []]]],
                               ['comp', ['Toaster'], [['api', ['IExclusive'], 'provides', False]]]]]]
    pall = {'p': [['w', 'none'], ['w', 'all']], 'r': [['w', 'none'], ['w', 'all']]}
    return [
        {'file': toaster, 'cfg': {'file': 'Toaster.dzn', 'enc': ['My', 'Toaster'], 'fac': 'create', 'ports': dict(pall, mc=['api', 'Claim', ['Ok'], 'Release'])}},
        {'file': mixer, 'cfg': {'file': 'Mixer.dzn', 'enc': ['My', 'Mixer'], 'fac': 'import', 'sf_prefix': ['Other', 'Project'],
                                'ports': dict(pall, mc=['api', 'Acquire', ['Granted'], 'Relinquish'])}},
    ]


WITNESSES = [
    ('K3-late-deselect', [[0, 1], [0]], [[0, 0], [1], [2, 0], [4, 0], [0, 0], [1], [0, 1], [1], [2, 1], [4, 1], [2, 0], [4, 0], [3], [5]]),
    ('K4-grant-select-window', [[0]], [[0, 0], [1], [3], [5], [2, 0], [4, 0]]),
    ('K3-non-holder-release', [[0], [1]], [[0, 0], [1], [2, 0], [4, 0], [0, 1], [1], [2, 1], [4, 1], [3], [5]]),
    ('holder-receives', [[0, 1], [0]], [[0, 0], [1], [2, 0], [4, 0], [0, 1], [1], [4, 1], [3], [5]]),
]


def holder_expectation(progs, labels):
    """the property's demand for one schedule, computed from the component's point of view: the holder is the client whose
    claim the component granted most recently and whose release it has not yet executed; every out-event must reach it"""
    queue, holder, nxt, want = [], None, [0] * len(progs), []
    claimed = False
    for l in labels:
        if l[0] == 0:
            c = l[1]
            queue.append((c, progs[c][nxt[c]]))
            nxt[c] += 1
        elif l[0] == 1 and queue:
            c, op = queue.pop(0)
            if op == 0:
                if not claimed:
                    claimed, holder = True, c
            elif op == 1:
                claimed = False
                if holder == c:
                    holder = None
                # a release by a client that is not the holder: the component (a plain arbiter) frees the claim; the property
                # speaks of the granted client releasing "itself", so the holder keeps its right to the events
        elif l[0] == 3:
            want.append(holder)
    return want


def classify(progs, labels, dels, want):
    """why the holder did not get an out-event in this schedule: K4 when its own Select is still to come (grant..Select
    window), otherwise K3 (the selection was reset by a Deselect on behalf of another client: a release by a non-holder, or
    the delayed Deselect of the previous holder)"""
    reasons = set()
    queue, nxt = [], [0] * len(progs)
    claimed = False
    pending_select = set()
    k = 0
    for l in labels:
        if l[0] == 0:
            c = l[1]
            queue.append((c, progs[c][nxt[c]]))
            nxt[c] += 1
        elif l[0] == 1 and queue:
            c, op = queue.pop(0)
            if op == 0 and not claimed:
                claimed = True
                pending_select.add(c)
            elif op == 1:
                claimed = False
        elif l[0] == 4:
            pending_select.discard(l[1])
        elif l[0] == 3:
            if k < len(dels) and k < len(want) and want[k] is not None and dels[k] != chr(65 + want[k]):
                reasons.add('K4' if want[k] in pending_select else 'K3')
            k += 1
    return reasons


def missed(dels, want):
    return any(w is not None and d != chr(65 + w) for d, w in zip(dels, want))


def main(argv):
    tier, seed = tier_seed(argv)
    rep = Report('C11', tier, seed)
    rng = random.Random(seed)
    known = {k['id']: k for k in load_known()['known']}
    cases = fixed_cases()
    io, mo, plans = SR.tie_and_plans(cases)
    wd = legb.Workdir()
    nv = 0
    findings = {'K3': 0, 'K4': 0}
    stats = {'replayed': 0, 'stress_runs': 0, 'mw_histories': 0}

    def violation(what, replay, failing=True):
        nonlocal nv
        if nv < 6:
            nv += 1
            rep.violation(what, replay, failing_input=failing)

    try:
        # ---------- schedules from the model ----------
        scheds = []       # (name, progs, labels)
        for name, progs, labels in WITNESSES:
            scheds.append((name, progs, labels))
        nrandom = 150 if tier == 'quick' else 1500
        shapes = [[[0, 1], [0, 1]], [[0, 2, 1], [0, 2, 1]], [[0, 1], [0, 1], [0, 1]], [[0, 2, 1, 0], [0, 1], [2, 0, 1]], [[0, 1, 0, 1], [0, 1, 0, 1]],
                  [[0, 2, 2, 1], [1, 0], [0, 2]], [[0], [0], [0]], [[2, 2], [0, 1]]]
        reqs = []
        for k in range(nrandom):
            progs = rng.choice(shapes) if rng.random() < 0.7 else [[rng.randrange(3) for _ in range(rng.randint(1, 4))] for _ in range(rng.randint(2, 3))]
            outs = rng.randint(0, 3)
            rs = [rng.randrange(1 << 16) for _ in range(80)]
            reqs.append((progs, [711, progs, outs, rs]))
        sampled = run_model([r[1] for r in reqs])
        for k, ((progs, _), ls) in enumerate(zip(reqs, sampled)):
            scheds.append((f'sample{k}', progs, ls))
        if tier == 'thorough':
            # every coarse schedule of two clients running claim;release with one out-event, and of claim;use;release / claim with one
            for progs, outs in (([[0, 1], [0, 1]], 1), ([[0, 2, 1], [0]], 1), ([[0, 1], [0], [0]], 1)):
                allc = run_model([[712, progs, outs, 60, True]])[0]
                for k, ls in enumerate(allc):
                    scheds.append((f'all{len(progs)}c{k}', progs, ls))
        exp = run_model([[710, p, ls] for _, p, ls in scheds])
        rep.extra['schedules'] = len(scheds)
        rep.extra['schedule_length_histogram'] = {}
        for _, p, ls in scheds:
            b = f'{len(ls) // 10 * 10}+'
            rep.extra['schedule_length_histogram'][b] = rep.extra['schedule_length_histogram'].get(b, 0) + 1
        bad_model = [n for (n, _, _), e in zip(scheds, exp) if e[0] != 1]
        if bad_model:
            violation(f'the schedule generators produced schedules the model itself rejects: {bad_model[:3]}', {'schedules': bad_model[:3]}, failing=False)

        for ci, (c, i, m, pl) in enumerate(zip(cases, io, mo, plans)):
            tp = SR.tie_problem(i, m)
            if i[0] != 'ok' or not GMT.usable(pl):
                violation(f'correspondence legA:Builder.build broken for the fixed multi-client model {c["cfg"]["file"]}: {tp or i}', {'file': c['file'], 'configuration': c['cfg']}, failing=False)
                continue
            files = i[1]
            d = wd.sub(f'c{ci}')
            legb.materialize(d, files, pl, c['cfg'], shim=True)
            open(os.path.join(d, 'driver.cc'), 'w').write(GMT.shell_driver(pl, c['cfg'], files[0][0]))
            inc = ['-I' + MOCKMT] + legb.includes(d)
            srcs = [os.path.join(d, 'driver.cc'), os.path.join(d, files[1][0])]
            builds = legb.parallel(lambda a: legb.gxx(a), [
                ['-O1', '-pthread', '-o', os.path.join(d, 'drv')] + inc + srcs,
                ['-O1', '-g', '-fsanitize=thread', '-pthread', '-o', os.path.join(d, 'drv_tsan')] + inc + srcs], n=2)
            if builds[0][0] or builds[1][0]:
                violation(f'the generated multi-client shell does not compile against the threaded mock runtime: {(builds[0][1] or builds[1][1])[:600]}',
                          {'file': c['file'], 'configuration': c['cfg']})
                continue
            has_use = any(not e['out'] and e['name'] not in (pl_mc(pl)['claim'], pl_mc(pl)['release']) for e in pl_port(pl)['itf']['events'])
            # ----- deterministic replays -----
            chunks = [[] for _ in range(12)]
            for k, (name, progs, ls) in enumerate(scheds):
                chunks[k % 12].append((k, progs_word(progs), labels_word(ls)))
            results = {}
            for part in legb.parallel(lambda ch: run_driver(os.path.join(d, 'drv'), ch), [ch for ch in chunks if ch], n=12):
                results.update(part)
            stuck_list = []
            for k, ((name, progs, ls), e) in enumerate(zip(scheds, exp)):
                if e[0] != 1:
                    continue
                rep.case({'model': c['cfg']['file'], 'progs': progs, 'labels': ls}, shape=f'{len(progs)} clients')
                stats['replayed'] += 1
                line = results.get(str(k))
                replay = {'file': c['file'], 'configuration': c['cfg'], 'programs': [[OPS[o] for o in p] for p in progs], 'schedule': labels_word(ls), 'name': name}
                if line is None:
                    violation(f'no result for schedule {name}', replay, failing=False)
                    continue
                if line.endswith('SKIPPED'):
                    continue
                ob = parse_replay(line)
                enc, dels, rets, sel = expected_obs(e, progs)
                if 'stuck' in ob:
                    stuck_list.append((k, name, progs, ls, line, ob, dels, replay))
                    continue
                if ob['enc'] != enc or ob['rets'][:len(rets)] != rets:
                    violation(f'schedule {name}: the component saw {ob["enc"]} and the client calls returned {ob["rets"]}; the model says {enc} / {rets}', replay, failing=True)
                    continue
                if ob['dels'] != dels or ob['probe'] != sel:
                    want = holder_expectation(progs, ls)
                    wantw = [chr(65 + w) if w is not None else '*' for w in want]
                    if not missed(ob['dels'], want):
                        violation(f'correspondence legB:Concurrent broken on schedule {name}: compiled deliveries {ob["dels"]} (selection afterwards {ob["probe"]}) '
                                  f'vs model {dels} ({sel}); the compiled behaviour is what the property demands', replay, failing=False)
                    else:
                        violation(f'schedule {name}: out-events were delivered to {ob["dels"]} (selection afterwards {ob["probe"]}); the interleaving model says {dels} ({sel}), '
                                  f'the property demands {wantw}', replay, failing=True)
                    continue
                # compiled == model.  Does the model (= the code) meet the property's demand on this schedule?
                want = holder_expectation(progs, ls)
                if missed(dels, want):
                    for r in classify(progs, ls, dels, want):
                        findings[r] += 1
            if stuck_list:
                # the compiled shell cannot follow some schedules of the model (a thread blocked where the model lets it run, or ran
                # where the model blocks it): the correspondence is broken.  Search for a failing input: replay those schedules
                # leniently (unexpected Select/Deselect callbacks are let through) and compare the deliveries with the property's demand.
                todo = stuck_list[:96]
                chunks2 = [[] for _ in range(12)]
                for j, (k, name, progs, ls, line, ob, dels, replay) in enumerate(todo):
                    chunks2[j % 12].append((k, progs_word(progs), labels_word(ls)))
                len_res = {}
                for part in legb.parallel(lambda ch: run_driver(os.path.join(d, 'drv'), ch, cmd='L'), [ch for ch in chunks2 if ch], n=12):
                    len_res.update(part)
                graded = []
                for (k, name, progs, ls, line, ob, dels, replay) in todo:
                    l2 = len_res.get(str(k), '')
                    ob2 = parse_replay(l2) if l2 and not l2.endswith('SKIPPED') else None
                    want = holder_expectation(progs, ls)
                    wantw = [chr(65 + w) if w is not None else '*' for w in want]
                    replay['strict_replay'] = line
                    replay['lenient_replay'] = l2
                    if ob2 is None:
                        continue
                    if 'stuck' in ob2:
                        graded.append((0, f'schedule {name} of the interleaving model cannot be executed by the compiled shell, even when unexpected Select/Deselect '
                                       f'callbacks are let through: {ob2["stuck"]}: a thread is blocked where the model lets it run (deadlock)', replay, True))
                    elif missed(ob2['dels'], want) and not missed(dels, want):
                        graded.append((1, f'schedule {name}: the compiled shell leaves the model ({ob["stuck"]}); let run, it delivered the out-events to {ob2["dels"]} where the '
                                       f'model says {dels} and the property demands {wantw}', replay, True))
                    else:
                        graded.append((2, f'correspondence legB:Concurrent broken on schedule {name}: {ob["stuck"]} (observed so far: {" ".join(ob["toks"])}); '
                                       f'let run, it delivered to {ob2["dels"]} (model {dels}, demand {wantw}): no delivery worse than the modelled one on this schedule', replay, False))
                graded.sort(key=lambda g: g[0])
                failing_ones = [g for g in graded if g[3]]
                for g in (failing_ones[:3] or graded[:2]):
                    violation(g[1], g[2], failing=g[3])
                rep.extra['schedules_the_shell_could_not_follow'] = len(stuck_list)
            # ----- free-running stress under ThreadSanitizer -----
            env = dict(os.environ)
            env['TSAN_OPTIONS'] = 'exitcode=66 halt_on_error=0 report_signal_unsafe=0'
            runs = [(2, 200, 300), (3, 150, 300), (3, 40, 2000)] if tier == 'quick' else [(2, 2000, 3000), (3, 1500, 3000), (3, 400, 20000), (3, 3000, 100), (2, 5000, 5000)]

            # ... and, much faster, without the sanitizer (a fourth element marks these runs): narrow race windows need many rounds
            runs += [(3, 15000, 20000, 'plain'), (2, 20000, 30000, 'plain'), (3, 5000, 60000, 'plain'), (3, 15000, 20000, 'plain')] if tier == 'quick' else \
                    [(3, 40000, 60000, 'plain'), (2, 60000, 90000, 'plain'), (3, 15000, 200000, 'plain')]

            def stress(r):
                try:
                    p = subprocess.run([os.path.join(d, 'drv_tsan' if len(r) == 3 else 'drv')], input=f'T {r[0]} {r[1]} {r[2]}\n'.encode(), stdout=subprocess.PIPE, stderr=subprocess.PIPE, timeout=600, env=env)
                    return r, p.returncode, p.stdout.decode(errors='replace'), p.stderr.decode(errors='replace')
                except subprocess.TimeoutExpired:
                    return r, -9, '', 'TIMEOUT'
            for r, rc, so, se in legb.parallel(stress, runs, n=len(runs)):
                stats['stress_runs'] += 1
                rep.case({'model': c['cfg']['file'], 'stress': list(r)}, shape='stress')
                replay = {'file': c['file'], 'configuration': c['cfg'], 'stress': {'clients': r[0], 'cycles': r[1], 'out_events': r[2]}}
                if 'ThreadSanitizer' in se:
                    first = se[se.find('WARNING: ThreadSanitizer'):][:1500]
                    violation(f'ThreadSanitizer reports a problem in the free-running multi-client shell ({r[0]} clients): {first}', replay, failing=True)
                elif 'DEADLOCK' in so or rc == -9:
                    violation(f'the free-running multi-client shell did not finish ({r[0]} clients x {r[1]} cycles): {so.strip() or se[:200]}', replay, failing=True)
                elif rc != 0 or 'T ok' not in so:
                    violation(f'the free-running multi-client shell failed rc={rc}: {so[-300:]} {se[-300:]}', replay, failing=True)
                else:
                    kv = dict(t.split('=', 1) for t in so.split() if '=' in t and not t.startswith('client'))
                    if int(kv['delivered']) > int(kv['raised']):
                        violation(f'more deliveries than out-events raised: {so.strip()}', replay, failing=True)
                    rep.extra.setdefault('stress_summaries', []).append(so.strip()[:200])

            # ----- MutexWrapped unit -----
            mwh = next(f for f in files if f[0].endswith('_MutexWrapped.hh'))
            sf_ns = '::' + '::'.join((c['cfg'].get('sf_prefix') or []) + ['Dzn'])
            open(os.path.join(d, 'mw.cc'), 'w').write(GMT.mw_driver(mwh[0], sf_ns))
            b = legb.parallel(lambda a: legb.gxx(a), [['-O1', '-pthread', '-o', os.path.join(d, 'mw'), '-I' + d, os.path.join(d, 'mw.cc')],
                                                      ['-O1', '-g', '-fsanitize=thread', '-pthread', '-o', os.path.join(d, 'mw_tsan'), '-I' + d, os.path.join(d, 'mw.cc')]], n=2)
            if b[0][0] or b[1][0]:
                violation(f'the MutexWrapped header does not compile: {(b[0][1] or b[1][1])[:500]}', {'file': mwh[0]})
                continue
            hists = []
            nh = 200 if tier == 'quick' else 3000
            for _ in range(nh):
                n = rng.randint(1, 3)
                h = []
                for _ in range(rng.randint(3, 25)):
                    t = rng.randrange(n)
                    k = rng.choice('aaarxxwg')
                    h.append((k, t, rng.randrange(100)))
                hists.append((n, h))
            hists.append((2, [('a', 0, 0), ('a', 1, 0), ('w', 0, 7), ('r', 0, 0), ('a', 1, 0), ('g', 1, 0), ('x', 0, 0), ('w', 0, 9), ('x', 1, 0), ('a', 0, 0)]))
            wire = {'a': 0, 'r': 1, 'x': 2, 'w': 3, 'g': 4}
            mres = run_model([[720, n, [[wire[k], t] + ([v] if k == 'w' else []) for k, t, v in h]] for n, h in hists])
            text = ''.join(f'H {n} ' + ','.join(f'{k}{t}' + (f':{v}' if k == 'w' else '') for k, t, v in h) + '\n' for n, h in hists)
            p = subprocess.run([os.path.join(d, 'mw')], input=text.encode(), stdout=subprocess.PIPE, stderr=subprocess.STDOUT, timeout=300)
            lines = [l for l in p.stdout.decode(errors='replace').splitlines() if l.startswith('H')]
            if len(lines) != len(hists):
                violation(f'the MutexWrapped unit driver stopped after {len(lines)} of {len(hists)} histories (blocked or crashed): {p.stdout.decode(errors="replace")[-300:]}',
                          {'history': [list(x) for x in hists[len(lines)][1]] if len(lines) < len(hists) else None, 'threads': hists[min(len(lines), len(hists) - 1)][0]})
            else:
                for (n, h), mr, line in zip(hists, mres, lines):
                    stats['mw_histories'] += 1
                    rep.case({'mw': c['cfg']['file'], 'threads': n, 'history': h}, shape=f'mw {n} threads')
                    toks = line.split()[1:]
                    exp_t = []
                    for (k, t, v), r in zip(h, mr):
                        res, held = r[0], int(bool(r[1]))
                        if not res:      # model: blocked or undefined
                            exp_t.append(None if k in ('r', 'x') else (('blocked' if k == 'a' else 'undef') + f'/{held}'))
                        else:
                            val = res[0]
                            exp_t.append((f'val{val[0]}' if val else 'ok') + f'/{held}')
                    ok = True
                    for j, (et, ot) in enumerate(zip(exp_t, toks)):
                        if et is None:
                            et = f'skip/{int(bool(mr[j][1]))}'
                        # operator() of a thread whose variable is still in scope: the model treats it as not executable
                        # (second variable not modelled); the driver reports skip
                        if et.startswith('blocked') and ot.startswith('skip'):
                            continue
                        if et != ot:
                            ok = False
                            violation(f'MutexWrapped history, operation {j} ({h[j][0]} by thread {h[j][1]}): compiled header gave {ot}, the model says {et} '
                                      f'(result / mutex held afterwards)', {'header': mwh[0], 'threads': n, 'history': [list(x) for x in h], 'observed': line}, failing=True)
                            break
                    if ok and toks[-1] != 'end/0':
                        violation('MutexWrapped: the mutex is still held after every handle went out of scope', {'header': mwh[0], 'threads': n, 'history': [list(x) for x in h]}, failing=True)
            for n, iters in ((4, 20000), (8, 5000)) if tier == 'quick' else ((4, 400000), (8, 100000), (16, 50000)):
                p = subprocess.run([os.path.join(d, 'mw_tsan')], input=f'T {n} {iters}\n'.encode(), stdout=subprocess.PIPE, stderr=subprocess.PIPE, timeout=600, env=env)
                so, se = p.stdout.decode(errors='replace'), p.stderr.decode(errors='replace')
                stats['stress_runs'] += 1
                rep.case({'mw': c['cfg']['file'], 'stress': [n, iters]}, shape='mw stress')
                if 'ThreadSanitizer' in se or f'value={n * iters} expected={n * iters} overlap=0' not in so:
                    violation(f'MutexWrapped under {n} free-running threads: {so.strip()} {se[se.find("WARNING"):][:800]}', {'header': mwh[0], 'threads': n, 'iterations': iters}, failing=True)
            if tp:
                violation(f'correspondence legA:Builder.build broken (compiled behaviour still as modelled): {tp}', {'file': c['file'], 'configuration': c['cfg']}, failing=False)
        rep.extra.update(stats)
        rep.extra['schedules_where_holder_missed_events'] = dict(findings)
    finally:
        wd.cleanup()
    for kid in ('K3', 'K4'):
        if findings[kid]:
            if kid in known:
                rep.known_finding(kid, f'{known[kid]["what"][:160]} ({findings[kid]} schedules in this run)')
            else:
                rep.violation(f'{kid}: the granted client missed an out-event (not a listed known finding)', {}, failing_input=True)
    import transcription
    transcription.report(rep, ['multi_client_selector', 'mutex_wrapped', 'ilog'])
    gate = proof_gate('C11')
    return rep.finish(gate, 'two fixed multi-client models (plain Claim/Release/Toast and odd names/formals/valued release; facilities created and imported); '
                      'schedules from the Gallina generators (witnesses of the refutations, random samples over 2-3 clients with programs of claim/use/release, '
                      'thorough: every coarse schedule of three small configurations) replayed on real threads and compared with the model; '
                      'free-running stress under ThreadSanitizer with a watchdog; MutexWrapped histories on real threads with a try_lock probe after each step; '
                      'distinct = distinct (model, programs, schedule) / stress configuration / mutex history',
                      TRUSTED, ASSUME)


def pl_port(pl):
    return next(p for p in pl['ports'] if p['exposed'] and p['exposed']['mc'])


def pl_mc(pl):
    return pl_port(pl)['exposed']['mc']


if __name__ == '__main__':
    sys.exit(main(sys.argv))
