"""Shared by the builder-level checks: run builds through implementation and model and compare."""
import gen_model as G
import gen_text as T
import dznjson
from lib import run_impl, run_model, ds, dss

LIBRARY_ERRORS = {'AdvShellError': 3, 'MultiClientCfgError': 4, 'FindError': 5, 'NamespaceIdsTypeError': 2, 'CppGenError': 6}
ERRNAME = {2: 'NamespaceIdsTypeError', 3: 'AdvShellError', 4: 'MultiClientCfgError', 5: 'FindError', 6: 'CppGenError',
           7: 'TypeError', 8: 'ValueError', 9: '<internal>'}


def psx(p):
    return [{'remaining': 0, 'all': 1, 'none': 2}[p[1]]] if p[0] == 'w' else [3, list(p[1])]


def cfg_sx(c):
    pc = c['ports']
    return [c.get('file', 'Model.dzn'), c.get('suffix', 'AdvShell'), list(c['enc']),
            [psx(pc['p'][0]), psx(pc['p'][1]), psx(pc['r'][0]), psx(pc['r'][1]), [] if not pc.get('mc') else [pc['mc']]],
            c.get('fac', 'create') == 'create', T.content_sx(['s', c.get('copyright', 'Copyright (c) X')]),
            [] if c.get('sf_prefix') is None else [list(c['sf_prefix'])],
            T.content_sx(['n'] if c.get('creator') is None else ['s', c['creator']])]


_tp_cache = {}


def templates_for(prefix):
    key = None if prefix is None else tuple(prefix)
    if key not in _tp_cache:
        try:
            _tp_cache[key] = run_impl('build_worker', {'cases': [{'op': 'templates', 'prefix': prefix}]})['results'][0]['ok']
        except Exception:  # invalid prefix: templates irrelevant (the build is rejected before they are used)
            _tp_cache[key] = templates_for(None)
    return _tp_cache[key]


def impl_outcome(r):
    """('ok', files) | ('lib', name) | ('internal', name)"""
    if 'ok' not in r:
        return ('internal', r.get('exc', '?'))
    v = r['ok']
    if v[0] == 0:
        return ('ok', v[1])
    name = v[0]
    if name == 'UnstableAcrossBuilds':
        return ('unstable', f'first build: {v[1]} ... second build of the same parsed model and configuration: {v[2]}')
    if name.startswith('parse:'):
        return ('parse', name)
    if name in LIBRARY_ERRORS and len(v) > 1 and isinstance(v[1], str) and not v[1].strip():
        return ('internal', f'{name} raised without a message')      # "... one of the library's own error types with a message"
    return ('lib', name) if name in LIBRARY_ERRORS else ('internal', name)


def model_outcome(m):
    if m[0] == 0:
        return ('ok', [[ds(g[0]), ds(g[1]), None if not g[2] else dss(g[2][0])] for g in m[1]])
    if m[0] >= 100:
        return ('parse', m[0])
    return ('lib', ERRNAME.get(m[0], '?')) if m[0] in (2, 3, 4, 5, 6) else ('internal', m[0])


def run_builds(cases, hashseed=0, order_seed=None, timeout=1800, twice=False, cwd=None, extra_env=None):
    """cases: list of dict(file=, cfg=). Returns (impl outcomes, model outcomes)."""
    reqs = [{'op': 'build', 'file': c['file'], 'cfg': c['cfg'], 'order_seed': order_seed, 'twice': twice} for c in cases]
    impl = run_impl('build_worker', {'cases': reqs}, hashseed=hashseed, timeout=timeout, cwd=cwd, extra_env=extra_env)['results']
    reqs_model = [[601, templates_for(c['cfg'].get('sf_prefix')), G.json_sx(dznjson.to_json(c['file'])), cfg_sx(c['cfg'])] for c in cases]
    model = run_model(reqs_model, timeout=timeout)
    return [impl_outcome(r) for r in impl], [model_outcome(m) for m in model]





def first_diff(a, b):
    """describe the first difference between two file lists"""
    if len(a) != len(b):
        return f'{len(a)} files vs {len(b)} files'
    for x, y in zip(a, b):
        if x[0] != y[0]:
            return f'file name {x[0]!r} vs {y[0]!r}'
        if x[1] != y[1]:
            la, lb = x[1].splitlines(), y[1].splitlines()
            for i, (p, q) in enumerate(zip(la, lb)):
                if p != q:
                    return f'{x[0]} line {i + 1}: {p!r} vs {q!r}'
            return f'{x[0]}: {len(la)} lines vs {len(lb)} lines'
        if x[2:] and y[2:] and x[-1] != y[-1]:
            return f'{x[0]}: namespace {x[-1]} vs {y[-1]}'
    return None
