"""C08 - Output is a pure function of model and configuration."""
import hashlib
import random
import sys

from lib import Report, proof_gate, tier_seed, run_model, ds
import gen_build as GB
import dznjson
from checks import buildcases as BC

TRUSTED = ['Coq 8.16.1 kernel (coqc), vm_compute', 'extraction (ExtrOcamlBasic only) + OCaml 4.13.1 + harness/ml/driver.ml',
           'harness: gen_build.py, workers/build_worker.py + buildlib.py (sets are built by inserting the names in a permuted order)',
           'the reference for "MD5 of the UTF-8 contents" is the Gallina RFC 1321/UTF-8 model (Base/Md5.v, op 603); hashlib.md5 in the harness only cross-checks that model']
ASSUME = ['child interpreters with distinct PYTHONHASHSEED values stand for "all hash seeds"; the model has no hash seed at all '
          '(sets are consumed through membership and sorting only - theorem C08_build_permutation_invariant)']

CASE_PORTS = ['led', 'LED', 'Led', 'hal', 'hal2', 'zeta', 'alpha', 'Beta', 'b', 'a', 'B', 'x_1', 'X_1', 'api']


def search_seed_dependence(rng):
    """targeted search: components whose requires ports differ only in case / share prefixes, all named explicitly"""
    clusters = [['led', 'LED', 'Led'], ['b', 'B'], ['x_1', 'X_1'], ['hal', 'Hal', 'HAL'], ['a', 'A', 'aa', 'Aa']]
    cases = []
    for _ in range(24):
        names = list(rng.choice(clusters))
        if rng.random() < 0.5:
            names += rng.choice(clusters)
        names = list(dict.fromkeys(names))
        ports = [[n, ['IHal'], 'requires', False] for n in names] + [['api', ['IHal'], 'provides', False]]
        file = [['itf', ['IHal'], [], [['Go', 'in', ['void'], []], ['Went', 'out', ['void'], []]]], ['comp', ['Panel'], ports]]
        cut = rng.randint(1, len(names))
        cfg = {'file': 'Panel.dzn', 'enc': ['Panel'], 'ports': {'p': [['w', 'none'], ['w', 'all']],
               'r': [['s', names[:cut]], ['s', names[cut:]] if names[cut:] else ['w', 'remaining']]}}
        cases.append({'file': file, 'cfg': cfg})
    seeds = list(range(24))
    runs = [BC.run_builds(cases, hashseed=hs, order_seed=hs)[0] for hs in seeds]
    for ci, c in enumerate(cases):
        for k in range(1, len(seeds)):
            if runs[k][ci] != runs[0][ci]:
                d = BC.first_diff(runs[0][ci][1], runs[k][ci][1]) if runs[0][ci][0] == 'ok' == runs[k][ci][0] else 'different outcome'
                return (f'equal inputs give different output under PYTHONHASHSEED={seeds[0]} and {seeds[k]}: {d}',
                        {'file': c['file'], 'configuration': c['cfg'], 'document': dznjson.to_json(c['file']), 'hash_seeds': [seeds[0], seeds[k]]})
    return None


def main(argv):
    tier, seed = tier_seed(argv)
    rep = Report('C08', tier, seed)
    rng = random.Random(seed)
    n = 60 if tier == 'quick' else 1200
    seeds = [0, 1, 7, 1234] if tier == 'quick' else list(range(16))
    cases = []
    save = GB.PORTS
    try:
        for i in range(n):
            GB.PORTS = CASE_PORTS if i % 2 == 0 else save
            c = GB.gen_case(rng)
            # make sure port selections naming two or more ports occur: name every exposed requires port explicitly
            req = [p[0] for p in c['info']['ports'] if p[2] == 'requires' and not p[3]]
            if len(req) >= 2 and i % 3 != 2:
                cut = rng.randint(1, len(req) - 1) if rng.random() < 0.6 else len(req)
                a, b = req[:cut], req[cut:]
                c['cfg']['ports']['r'] = [['s', a], ['s', b] if b else ['w', rng.choice(['none', 'remaining'])]]
                if rng.random() < 0.5:
                    c['cfg']['ports']['r'].reverse()
            cases.append({'file': c['file'], 'cfg': c['cfg']})
    finally:
        GB.PORTS = save
    runs = []
    model = None
    # one process runs in a working directory in which every (relative) Dezyne file name of the configurations exists as a
    # symbolic link to a differently named file: the output must not depend on the state of the file system
    import tempfile, shutil, os
    fsdir = tempfile.mkdtemp(prefix='dznverif_fs_')
    for n, name in enumerate(sorted({c['cfg'].get('file', 'Model.dzn') for c in cases})):
        if not name or name.startswith('/') or '..' in name:
            continue
        path = os.path.join(fsdir, name)
        os.makedirs(os.path.dirname(path) or fsdir, exist_ok=True)
        blob = os.path.join(fsdir, f'store_{n}_blob.dzn')
        open(blob, 'w').write('// dezyne model\n')
        try:
            os.symlink(blob, path)
        except OSError:
            pass
    # the processes also differ in their idea of local time: two of the zones are 26 hours apart, so their local dates always
    # differ; and in locale settings
    clock = [{'TZ': 'UTC', 'LC_ALL': 'C'}, {'TZ': 'AAA-14', 'LC_ALL': 'C.UTF-8'}, {'TZ': 'BBB12', 'LANG': 'en_US.UTF-8'}]
    # ... in what else the environment says about user, host, paths and build time, and in the package metadata an interpreter
    # finds first on its path (a directory holding only dznpy-7.7.7.dist-info in front of the source tree)
    from lib import REPO, VERIF
    meta = os.path.join(fsdir, 'site_meta')
    os.makedirs(os.path.join(meta, 'dznpy-7.7.7.dist-info'))
    open(os.path.join(meta, 'dznpy-7.7.7.dist-info', 'METADATA'), 'w').write('Metadata-Version: 2.1\nName: dznpy\nVersion: 7.7.7\n')
    open(os.path.join(meta, 'dznpy-7.7.7.dist-info', 'RECORD'), 'w').write('')
    # ... one of them runs the interpreter with -OO (assert statements and docstrings stripped)
    clock[1].update({'PYTHONOPTIMIZE': '2', 'USER': 'alice', 'LOGNAME': 'alice', 'HOME': os.path.join(fsdir, 'home_alice'), 'HOSTNAME': 'build-17', 'SOURCE_DATE_EPOCH': '86400',
                     'PYTHONPATH': os.pathsep.join([meta, os.path.join(REPO, 'src'), os.path.join(VERIF, 'harness')])})
    # ... and one of them answers every environment variable the library itself reads with a made-up value
    clock[2].update({'VERIF_HOSTILE_ENV': '1', 'USER': 'bob', 'HOME': '/nonexistent', 'SOURCE_DATE_EPOCH': '1700000000', 'COLUMNS': '40', 'TMPDIR': fsdir})
    def env_words(e):
        return '{' + ', '.join(f'{a}={"<dir with dznpy-7.7.7.dist-info>:..." if a == "PYTHONPATH" else b}' for a, b in sorted(e.items())) + '}'
    for k, hs in enumerate(seeds):
        # every other process builds the cases in the opposite order: the output for a case must not depend on what the
        # process built before ("regardless of ... the process it runs in")
        if k % 2 == 1:
            io, mo = BC.run_builds(cases[::-1], hashseed=hs, order_seed=1000 + k, twice=True, cwd=fsdir, extra_env=clock[k % len(clock)])
            io, mo = io[::-1], mo[::-1]
        else:
            io, mo = BC.run_builds(cases, hashseed=hs, order_seed=1000 + k, twice=(k == 0), extra_env=clock[k % len(clock)])
        runs.append(io)
        model = mo
    # content hashes by the Gallina MD5/UTF-8 model (op 603), one evaluation per distinct file contents
    distinct_contents = sorted({f[1] for r in runs[0] if r[0] == 'ok' for f in r[1]})
    model_hash = dict(zip(distinct_contents, (ds(h) for h in run_model([[603, x] for x in distinct_contents]))))
    rep.extra['md5_evaluations_in_model'] = len(distinct_contents)
    shutil.rmtree(fsdir, ignore_errors=True)
    nv = 0
    broken = []
    for ci, c in enumerate(cases):
        names = [x for x in (c['cfg']['ports']['r'][0] + c['cfg']['ports']['r'][1]) if isinstance(x, list)]
        biggest = max([len(x) for x in names] + [0])
        rep.case({'cfg': c['cfg'], 'file': c['file']}, nontrivial=True, shape=f'largest explicit name set: {biggest}')
        outs = [r[ci] for r in runs]
        problem, failing = None, True
        for k, o in enumerate(outs):
            if o[0] == 'unstable':     # (in some processes every case is built twice from the same parsed model and an equal configuration)
                problem = f'equal inputs - the same parsed model, an equal configuration, the same process - give different results: {o[1][:400]}'
                break
        for k in range(1, len(outs)):
            if problem:
                break
            if outs[k] != outs[0]:
                d = BC.first_diff(outs[0][1], outs[k][1]) if outs[0][0] == 'ok' and outs[k][0] == 'ok' else f'{outs[0][0]} vs {outs[k][0]}'
                problem = (f'equal inputs give different output in two processes (PYTHONHASHSEED={seeds[0]} and {seeds[k]}, sets built in '
                           f'different insertion orders, cases built in {"opposite" if k % 2 else "the same"} order'
                           + (', the second one in a directory where the Dezyne file names are symbolic links' if k % 2 else '')
                           + f'; environments {env_words(clock[0])} and {env_words(clock[k % len(clock)])}): {d}')
                break
        if not problem and outs[0][0] == 'ok':
            for f in outs[0][1]:
                ref = model_hash[f[1]]
                if f[2] != ref:
                    problem = f'content hash of {f[0]} is {f[2]}, MD5 of its UTF-8 contents is {ref}'
                    break
                if ref != hashlib.md5(f[1].encode('utf-8')).hexdigest():
                    problem, failing = f'correspondence legA:Md5.content_hash broken: the model gives {ref} for {f[0]}, hashlib another value', False
                    break
        if not problem:
            i, m = outs[0], model[ci]
            if i[0] != m[0]:
                problem, failing = f'correspondence legA:Builder.build broken: implementation {i[0]} vs model {m[0]}', False
            elif i[0] == 'ok':
                d = BC.first_diff([f[:2] + [f[3]] for f in i[1]], m[1])
                if d:
                    problem, failing = f'correspondence legA:Builder.build broken: {d}', False
        if problem and not failing:
            broken.append(ci)
        if problem and nv < 5:
            nv += 1
            rep.violation(problem, {'file': c['file'], 'configuration': c['cfg'], 'document': dznjson.to_json(c['file']),
                                    'hash_seeds': seeds, 'how': 'PYTHONHASHSEED=<s> buildlib.build(...) with set insertion order shuffled'},
                          failing_input=failing)
    if nv and not any(not nf for _, nf in rep.violations):
        # the correspondence broke but no seed-dependence was seen yet: search for a failing input with name sets
        # that are likely to collide under whatever ordering the implementation now uses
        found = search_seed_dependence(rng)
        if found:
            rep.violation(found[0], found[1])
        else:
            # ... or the output depends on what the process built before: build a few of the disagreeing cases alone, each in a
            # fresh interpreter with a fresh Builder, and compare with what the same inputs gave inside the batch
            for ci in broken[:4]:
                alone = BC.run_builds([cases[ci]], hashseed=seeds[0], order_seed=1000)[0][0]
                if alone != runs[0][ci]:
                    d = BC.first_diff(alone[1], runs[0][ci][1]) if alone[0] == 'ok' and runs[0][ci][0] == 'ok' else f'{alone[0]} vs {runs[0][ci][0]}'
                    rep.violation('equal inputs give different output when built as the first build of a process and after other builds of the '
                                  f'same process (same hash seed, same Builder object): {d}',
                                  {'file': cases[ci]['file'], 'configuration': cases[ci]['cfg'], 'built_before': [c2['cfg'] for c2 in cases[:ci]][-3:]})
                    break
    rep.extra['hash_seeds'] = seeds
    rep.extra['builds'] = len(cases) * len(seeds)
    gate = proof_gate('C08')
    return rep.finish(gate, 'generated (model, configuration) pairs with explicit port name sets of 1-5 names (incl. names differing only '
                      'in case), each built in one child interpreter per hash seed with every set constructed in a shuffled insertion '
                      'order; outputs compared across seeds byte for byte (names, contents, hashes), hashes against MD5(UTF-8), and '
                      'with the model; distinct = distinct (model, configuration)', TRUSTED, ASSUME)


if __name__ == '__main__':
    sys.exit(main(sys.argv))
