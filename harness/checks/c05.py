"""C05 - Parsing preserves every declaration of the Dezyne JSON AST with correct names."""
import random
import sys

from lib import Report, proof_gate, tier_seed, run_impl, run_model
import gen_model as G
import dznjson
from checks.parsecases import impl_outcome, model_outcome, agree

TRUSTED = ['Coq 8.16.1 kernel (coqc), vm_compute', 'extraction (ExtrOcamlBasic only) + OCaml 4.13.1 + harness/ml/driver.ml',
           'harness: gen_model.py; dznjson.py (checked against the Gallina to_json on every case); workers/json_worker.py '
           '(independent unparser of FileContents)', 'orjson']
ASSUME = ['the JSON shapes of Dezyne output are those documented in test/unit_tests/testdata_json_ast.py (no dzn tool in the sandbox)',
          'well-formed file: non-empty valid identifiers; out events return void and have no out parameter (wf_file)']


def main(argv):
    tier, seed = tier_seed(argv)
    rep = Report('C05', tier, seed)
    rng = random.Random(seed)
    n = 400 if tier == 'quick' else 8000
    files = []
    for i in range(n):
        if i % 10 == 0:   # large files
            f = G.dfile(rng, n=rng.choice([20, 40]), maxdepth=6)
        else:
            f = G.dfile(rng)
        files.append((f, rng.random() < 0.5, rng.random() < 0.7))
    # deep nesting, re-opened namespaces, reused names
    for depth in (8, 16, 32):
        inner = [['comp', ['C'], [['p', ['I'], 'provides', False]]], ['itf', ['I'], [['enum', ['R'], ['Ok']]], []]]
        for k in range(depth):
            inner = [['ns', ['N', 'M'] if k % 3 == 0 else ['N'], inner], ['extern', ['T'], 'int']]
        files.append((inner + inner, False, True))
    docs = [dznjson.to_json(f, extras=ex, comment=wc) for f, ex, wc in files]
    impl = run_impl('json_worker', {'cases': [{'op': 'process', 'doc': d} for d in docs]}, timeout=1800)['results']
    model = run_model([[400, G.json_sx(d)] for d in docs], timeout=1800)
    spec = run_model([[403, ex, wc, [G.decl_sx(d) for d in f]] for f, ex, wc in files], timeout=1800)
    # every tenth document also through the other entry point, load_file(path)
    pick = list(range(0, len(docs), 10))
    via_file = run_impl('json_worker', {'cases': [{'op': 'process', 'doc': docs[k], 'via': 'file', 'raw_utf8': k % 20 == 0} for k in pick]}, timeout=1800)['results']
    nvf = 0
    for k, rf in zip(pick, via_file):
        if impl_outcome(rf) != impl_outcome(impl[k]) and nvf < 3:
            nvf += 1
            rep.violation(f'load_file(path).process() does not yield what the same document yields when given as a string: {str(impl_outcome(rf))[:200]}',
                          {'file': files[k][0], 'document': docs[k], 'how': 'file reached as <dir>/link/../doc.json, `link` a symbolic link to <dir>/real/sub'})
    nv = 0
    for (f, ex, wc), d, r, m, s in zip(files, docs, impl, model, spec):
        nd = G.count_decls(f)
        rep.case(f, nontrivial=nd > 0, shape=f'{min(nd, 50) // 10 * 10}+ decls')
        if s[0] != G.canon(G.json_sx(d)):
            if nv < 4:
                nv += 1
                rep.violation('harness fault: dznjson.py renders a different JSON document than the Gallina to_json',
                              {'correspondence': 'dznjson.to_json vs Spec/DznFile.to_json', 'file': f}, failing_input=False)
            continue
        io, mo = impl_outcome(r), model_outcome(m)
        wf = bool(s[2])
        if wf:
            # the property's own oracle: the declarations of the file (theorem C05_parse_roundtrip)
            if io != ('ok', s[1]):
                if nv < 4:
                    nv += 1
                    rep.violation(f'parsing a well-formed Dezyne file does not yield its declarations: {describe(io, s[1])}',
                                  {'file': f, 'extras': ex, 'document': d, 'impl': str(io)[:3000], 'declared': str(s[1])[:3000],
                                   'how': 'DznJsonAst(json.dumps(document)).process(), unparsed field by field'})
                continue
        if io[0] == 'internal':
            if nv < 4:
                nv += 1
                rep.violation(f'parser raised undocumented {io[1]}', {'file': f, 'document': d})
        elif not agree(io, mo):
            if nv < 4:
                nv += 1
                rep.violation('correspondence legA:process broken on a generated file that is not well-formed',
                              {'correspondence': 'legA:json_ast.process', 'file': f, 'impl': str(io)[:1500], 'model': str(mo)[:1500]},
                              failing_input=False)
    gate = proof_gate('C05')
    return rep.finish(gate, 'generated Dezyne files: namespaces nested to depth 6 (and 8/16/32), multi-identifier and re-opened '
                      'namespaces, interfaces with nested enums/subints, components/foreigns/systems, externs, imports, file '
                      'names, unknown classes and non-dict junk, same simple names reused across scopes; with/without the extra '
                      'keys of real dzn output; each parsed by the implementation and compared with flatten_decls (spec) and the '
                      'model parser; non-trivial = at least one declaration; distinct = distinct file', TRUSTED, ASSUME)


def describe(io, declared):
    if io[0] != 'ok':
        return f'implementation outcome {io}'
    names = ['components', 'enums', 'externs', 'filenames', 'foreigns', 'imports', 'interfaces', 'subints', 'systems']
    for nme, a, b in zip(names, io[1], declared):
        if a != b:
            return f'{nme} differ: {len(a)} parsed vs {len(b)} declared; first parsed {str(a[:1])[:150]} first declared {str(b[:1])[:150]}'
    return 'contents differ'


if __name__ == '__main__':
    sys.exit(main(sys.argv))
