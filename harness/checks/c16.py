"""C16 - Parses are isolated and repeatable."""
import random
import sys

from lib import Report, proof_gate, tier_seed, run_impl, run_model
import gen_model as G
import dznjson
import mutate_json as M
from checks.parsecases import impl_outcome, model_outcome, agree

TRUSTED = ['Coq 8.16.1 kernel (coqc), vm_compute', 'extraction (ExtrOcamlBasic only) + OCaml 4.13.1 + harness/ml/driver.ml',
           'harness: gen_model.py, dznjson.py, workers/json_worker.py (load_file through temporary files)', 'orjson']
ASSUME = ['a parse result is compared through an independent unparser, at return time and again at the end of the history']


def doc_pool(rng, n):
    pool = []
    for i in range(n):
        k = rng.random()
        if k < 0.15:
            pool.append({'<class>': 'root', 'elements': [], 'working-directory': '/'})      # valid, empty
        elif k < 0.75:
            pool.append(dznjson.to_json(G.dfile(rng, n=rng.choice([1, 2, 3, 5]), maxdepth=3), comment=rng.random() < 0.5))
        else:   # a document that fails somewhere in the middle
            base = dznjson.to_json(G.dfile(rng, n=rng.choice([3, 5]), maxdepth=2))
            pool.append(M.random_fault(rng, base)[1])
    return pool


def main(argv):
    tier, seed = tier_seed(argv)
    rep = Report('C16', tier, seed)
    rng = random.Random(seed)
    nh = 150 if tier == 'quick' else 4000
    hist, wire = [], []
    for _ in range(nh):
        pool = doc_pool(rng, rng.randint(2, 4))
        ninst = 0
        ops, w = [], []
        held = {}
        for _ in range(rng.randint(3, 12)):
            k = rng.random()
            if ninst == 0 or (k < 0.2 and ninst < 4):
                d = rng.choice(pool + [None])
                ops.append(['new', d])
                w.append([0, [] if d is None else [G.json_sx(d)]])
                held[ninst] = d
                ninst += 1
            elif k < 0.45:
                i, d = rng.randrange(ninst), rng.choice(pool)
                ops.append(['load', i, d])
                w.append([1, i, G.json_sx(d)])
                held[i] = d
            elif k < 0.50 and any(v is not None for v in held.values()):
                # a file that cannot be decoded: load_file raises, the parser stays as it was (for the model: its document re-loaded)
                i = rng.choice([j for j, v in held.items() if v is not None])
                ops.append(['load_bad', i, rng.choice(['{"<class>": "root", "elements": [', '', '{"<class>": "ro', 'not json', '[1, 2'])])
                w.append([1, i, G.json_sx(held[i])])
            elif k < 0.56 and any(isinstance(v, dict) and isinstance(v.get('elements'), list) for v in held.values()):
                # the caller trims the document ITS parser holds; in the model that parser now holds the trimmed document,
                # every other parser (even one constructed from equal contents) is unaffected
                i = rng.choice([j for j, v in held.items() if isinstance(v, dict) and isinstance(v.get('elements'), list)])
                trimmed = dict(held[i], elements=list(held[i]['elements'][:1]))
                ops.append(['edit', i, trimmed])
                w.append([1, i, G.json_sx(trimmed)])
                held[i] = trimmed
            else:
                i = rng.randrange(ninst)
                ops.append(['process', i])
                w.append([2, i])
        hist.append(ops)
        wire.append([401, w])
    impl = run_impl('json_worker', {'cases': [{'op': 'history', 'ops': h} for h in hist]}, timeout=1800)['results']
    model = run_model(wire, timeout=1800)
    # oracle independent of the model: every process() must equal a parse of that instance's current document alone
    alone_docs, alone_idx = [], []
    for hi, h in enumerate(hist):
        cur = {}
        n = 0
        for oi, op in enumerate(h):
            if op[0] == 'new':
                cur[n] = op[1]
                n += 1
            elif op[0] in ('load', 'edit'):
                cur[op[1]] = op[2]
            elif op[0] == 'load_bad':
                pass
            else:
                alone_idx.append((hi, oi))
                alone_docs.append(cur[op[1]])
    alone = run_impl('json_worker', {'cases': [{'op': 'history', 'ops': [['new', d], ['process', 0]]} for d in alone_docs]},
                     timeout=1800)['results']
    alone_map = {k: a['ok']['results'][1] for k, a in zip(alone_idx, alone) if 'ok' in a}
    nv = 0
    for hi, (h, r, m) in enumerate(zip(hist, impl, model)):
        rep.case(h, shape=f'{sum(1 for o in h if o[0] == "new")} instances/{sum(1 for o in h if o[0] == "process")} process')
        if 'ok' not in r:
            if nv < 4:
                nv += 1
                rep.violation(f'history crashed the worker: {r}', {'history': h})
            continue
        res, late = r['ok']['results'], r['ok']['changed_later']
        neq = r['ok'].get('same_declarations_but_not_equal')
        if neq and nv < 4:
            nv += 1
            rep.violation(f'two process() results with the same declarations compare unequal (==): results {neq[0]} of the history',
                          {'history': h, 'pairs': neq})
            continue
        if r['ok'].get('files_left_open') and nv < 4:
            nv += 1
            rep.violation(f'{r["ok"]["files_left_open"]} file(s) are still open after a history with {r["ok"]["failed_loads_kept"]} failed load(s) whose errors the caller kept: '
                          'every further failure uses up a file descriptor, until a later, unrelated parse fails for lack of them', {'history': h})
            continue
        bad_loads = [oi for oi, op in enumerate(h) if op[0] == 'load_bad' and res[oi] and res[oi][0] != 'load-raised']
        if bad_loads and nv < 4:
            nv += 1
            rep.violation(f'load_file of a file that is not JSON returned normally (operation {bad_loads[0]}): the parser goes on with its previous document as if '
                          'it were the file\'s, so the result for that file depends on the earlier parse', {'history': h, 'op_index': bad_loads[0]})
            continue
        if late and nv < 4:
            nv += 1
            rep.violation(f'an earlier process() result changed after later operations (indices {list(late)})',
                          {'history': h, 'changed': late})
            continue
        for oi, op in enumerate(h):
            if op[0] != 'process':
                continue
            io = impl_outcome({'ok': res[oi]})
            ao = impl_outcome({'ok': alone_map[(hi, oi)]})
            mo = model_outcome(m[oi][0]) if m[oi] else ('internal', 'model has no result')
            if not agree(io, ao):
                if nv < 4:
                    nv += 1
                    rep.violation(f'process() #{oi} of a history differs from parsing the same document alone: {str(io)[:150]} vs {str(ao)[:150]}',
                                  {'history': h, 'op_index': oi, 'in_history': str(io)[:2000], 'alone': str(ao)[:2000]})
                break
            if io[0] == 'internal':
                continue   # C15's business
            if not agree(io, mo):
                if nv < 4:
                    nv += 1
                    # Is it the history (C16) or the parser as such (C05)?  Parse the same document alone in a FRESH interpreter
                    # (the in-process "alone" reference above shares the interpreter with every other document of this run).
                    doc = None
                    cur = {}
                    n = 0
                    for op2 in h[:oi + 1]:
                        if op2[0] == 'new':
                            cur[n] = op2[1]
                            n += 1
                        elif op2[0] in ('load', 'edit'):
                            cur[op2[1]] = op2[2]
                    doc = cur.get(op[1])
                    fresh = run_impl('json_worker', {'cases': [{'op': 'history', 'ops': [['new', doc], ['process', 0]]}]}, timeout=600)['results'][0]
                    fo = impl_outcome({'ok': fresh['ok']['results'][1]}) if 'ok' in fresh else ('internal', str(fresh))
                    if not agree(io, fo):
                        rep.violation(f'process() #{oi} of a history differs from parsing the same document alone in a fresh interpreter '
                                      f'(state shared between parser instances or parses): {str(io)[:150]} vs {str(fo)[:150]}',
                                      {'history': h, 'op_index': oi, 'in_history': str(io)[:2000], 'alone_in_fresh_interpreter': str(fo)[:2000]})
                    else:
                        rep.violation(f'correspondence legA:ParserObj broken at op {oi}', {'correspondence': 'legA:ParserObj.run_history',
                                      'history': h, 'impl': str(io)[:1500], 'model': str(mo)[:1500]}, failing_input=False)
                break
    gate = proof_gate('C16')
    return rep.finish(gate, 'histories of 3-12 operations over 1-4 parser instances (construct with/without document, load_file, '
                      'process) over shared documents: well-formed, empty-elements, failing in the middle; every process() compared '
                      'with the model, with a parse of the same document alone in a fresh instance, and re-read at the end of the '
                      'history; distinct = distinct history', TRUSTED, ASSUME)


if __name__ == '__main__':
    sys.exit(main(sys.argv))
