"""C15 - Parser rejects malformed input only with its documented errors."""
import json
import random
import sys

from lib import Report, proof_gate, tier_seed, run_impl, run_model, load_known
import gen_model as G
import dznjson
import mutate_json as M
from checks.parsecases import impl_outcome, model_outcome, agree

TRUSTED = ['Coq 8.16.1 kernel (coqc), vm_compute', 'extraction (ExtrOcamlBasic only) + OCaml 4.13.1 + harness/ml/driver.ml',
           'harness: gen_model.py, dznjson.py, mutate_json.py, workers/json_worker.py', 'orjson (decoding happens before the modelled function)']
ASSUME = ['documents are JSON values orjson accepts; dict keys unique', 'observable: accepted / documented error / other exception '
          '(which of the two documented errors is raised is not compared)',
          'interpreter recursion limit is outside the model (known finding K5, probed separately)']


def out_event_docs(rng, n):
    """events with direction out and a non-void reply and/or an out/inout... parameter, in otherwise arbitrary shape"""
    docs = []
    for _ in range(n):
        ev = G.event(rng)
        ev[1] = 'out'
        kind = rng.choice(['reply', 'outparam', 'both', 'legal'])
        # non-void reply types: ordinary names, and names that look like `void` (parts of it, other case, qualified)
        ev[2] = ['void'] if kind in ('outparam', 'legal') else rng.choice([['Result'], ['bool'], ['My', 'T'], ['id'], ['v'], ['oid'], ['vo'], ['o'], ['d'],
                                                                             ['Void'], ['VOID'], ['void_'], ['voidx'], ['My', 'void'], ['void', 'T'], ['i']])
        fs = [G.formal(rng, allow_out=False) for _ in range(rng.choice([0, 1, 3]))]
        if kind in ('outparam', 'both'):
            fs.insert(rng.randint(0, len(fs)), [rng.choice(['o', 'x']), G.ids(rng, 1, 2), 'out'])
        ev[3] = fs
        docs.append((kind, dznjson.j_event(ev, rng.random() < 0.5)))
    return docs


def main(argv):
    tier, seed = tier_seed(argv)
    rep = Report('C15', tier, seed)
    rng = random.Random(seed)
    docs = []   # (description, doc)
    nbase = 6 if tier == 'quick' else 50
    per_path_all = tier == 'thorough'
    for b in range(nbase):
        base = dznjson.to_json(G.dfile(rng, n=rng.choice([3, 5, 8]), maxdepth=3), extras=(b % 2 == 0), comment=(b % 3 != 0))
        docs.append(('wellformed', base))
        ps = M.paths(base)
        for p in ps:
            faults = M.single_faults(base, p)
            hostile = [f for f in faults if f[0].startswith('hostile-str')]
            if not per_path_all:
                faults = rng.sample(faults, min(len(faults), 3)) + ([rng.choice(hostile)] if hostile else [])
            else:     # every structural fault at every node, two of the format-directive strings
                faults = [f for f in faults if not f[0].startswith('hostile-str')] + rng.sample(hostile, min(len(hostile), 2))
            for desc, d in faults:
                docs.append((f'single:{desc.split(":")[0]}', d))
        for _ in range(100 if tier == 'quick' else 400):   # 2-3 faults
            d = base
            for _ in range(rng.choice([2, 3])):
                d = M.random_fault(rng, d)[1]
            docs.append(('multi', d))
    # arbitrary JSON values as whole documents
    for v in M.RETYPES + [{'<class>': 'root'}, {'<class>': 'root', 'elements': [], 'working-directory': 3},
                          {'<class>': 'root', 'elements': [1, 'x', None, [], {}], 'working-directory': '/'},
                          {'<class>': ['root'], 'elements': [], 'working-directory': '/'}]:
        docs.append(('toplevel', v))
    cases = [{'op': 'process', 'doc': d} for _, d in docs]
    impl = run_impl('json_worker', {'cases': cases}, timeout=1800)['results']
    model = run_model([[400, G.json_sx(d)] for _, d in docs], timeout=1800)
    n_internal = n_corr = 0
    for (desc, d), r, m in zip(docs, impl, model):
        io, mo = impl_outcome(r), model_outcome(m)
        rep.case(d, shape=desc + '/' + io[0])
        if io[0] == 'internal':
            n_internal += 1
            if n_internal <= 3:
                rep.violation(f'parser raised an undocumented exception {io[1]} on a malformed document ({desc})',
                              {'document': d, 'exception': io[1], 'how': 'DznJsonAst(json.dumps(document)).process()'})
        elif not agree(io, mo):
            n_corr += 1
            if n_corr <= 3:
                rep.violation(f'correspondence legA:process broken ({desc}): implementation {io[0]} vs model {mo[0]}; '
                              'no undocumented exception observed on this input',
                              {'correspondence': 'legA:json_ast.process', 'document': d, 'impl': str(io)[:1500], 'model': str(mo)[:1500]},
                              failing_input=False)
    # the same documents through the other entry point, load_file(path).process(): same outcome class as through the constructor
    pick = list(range(0, len(docs), max(1, len(docs) // (400 if tier == 'quick' else 6000))))
    impl_f = run_impl('json_worker', {'cases': [{'op': 'process', 'doc': docs[k][1], 'via': 'file', 'verbose': k % 2 == 0} for k in pick]}, timeout=1800)['results']
    # ... and once more from files holding raw UTF-8, read by an interpreter whose default text encoding is ASCII (C locale,
    # UTF-8 mode off): how a file is decoded is the parser's business, not the locale's
    nonascii = [k for k in range(len(docs)) if not json.dumps(docs[k][1], ensure_ascii=False).isascii()]
    pick_c = nonascii[::max(1, len(nonascii) // (150 if tier == 'quick' else 2000))]
    impl_c = run_impl('json_worker', {'cases': [{'op': 'process', 'doc': docs[k][1], 'via': 'file', 'raw_utf8': True} for k in pick_c]},
                      timeout=1800, utf8=False)['results'] if pick_c else []
    rep.extra['documents_with_non_ascii_text_loaded_under_the_C_locale'] = len(pick_c)
    n_loc = 0
    for k, r in zip(pick_c, impl_c):
        io, io0 = impl_outcome(r), impl_outcome(impl[k])
        rep.case({'via': 'file/C-locale', 'doc': docs[k][1]}, shape='via load_file, C locale/' + io[0])
        if (io[0] == 'internal' or not agree(io, io0)) and n_loc < 3:
            n_loc += 1
            rep.violation(f'load_file(path).process() on a UTF-8 file under the C locale: {io[0]} {io[1] if io[0] == "internal" else ""} where the same document '
                          f'given as a string yields {io0[0]} ({docs[k][0]})',
                          {'document': docs[k][1], 'how': 'file written as raw UTF-8; interpreter started with LC_ALL=C PYTHONUTF8=0 PYTHONCOERCECLOCALE=0'})
    n_file = 0
    for k, r in zip(pick, impl_f):
        io, io0 = impl_outcome(r), impl_outcome(impl[k])
        rep.case({'via': 'file', 'doc': docs[k][1]}, shape='via load_file/' + io[0])
        if io[0] == 'internal' and n_file < 3:
            n_file += 1
            rep.violation(f'load_file(path).process() raised an undocumented exception {io[1]} on a malformed document ({docs[k][0]})',
                          {'document': docs[k][1], 'exception': io[1], 'how': 'DznJsonAst().load_file(<file holding the document>).process()'})
        elif io[0] != 'internal' and not agree(io, io0) and n_file < 3:
            n_file += 1
            rep.violation(f'load_file(path).process() and DznJsonAst(contents).process() disagree on the same document ({docs[k][0]}): {io[0]} vs {io0[0]}',
                          {'document': docs[k][1]})
    # out-events with a non-void reply or an out parameter are always refused
    evs = out_event_docs(rng, 300 if tier == 'quick' else 5000)
    impl_e = run_impl('json_worker', {'cases': [{'op': 'parse_event', 'doc': d} for _, d in evs]})['results']
    model_e = run_model([[402, G.json_sx(d)] for _, d in evs])
    nbad = 0
    for (kind, d), r, m in zip(evs, impl_e, model_e):
        io, mo = impl_outcome(r), model_outcome(m)
        rep.case(d, shape='out_event/' + kind)
        refused = io[0] == 'doc'
        if kind != 'legal' and not refused and nbad < 3:
            nbad += 1
            rep.violation(f'out event with {kind} was not refused: outcome {io}', {'event': d, 'how': 'dznpy.json_ast.parse_event(event)'})
        elif io[0] == 'internal' and nbad < 3:
            nbad += 1
            rep.violation(f'parse_event raised undocumented {io[1]}', {'event': d})
        elif io[0] != mo[0] and nbad < 3:
            nbad += 1
            rep.violation('correspondence legA:parse_event broken', {'correspondence': 'legA:parse_event', 'event': d,
                                                                     'impl': str(io)[:500], 'model': str(mo)[:500]}, failing_input=False)
    # K5 probe: deep namespace nesting exhausts the interpreter stack (outside the Gallina model)
    known = {k['id']: k for k in load_known()['known']}
    deep = {'<class>': 'root', 'elements': [], 'working-directory': '/'}
    cur = deep['elements']
    for _ in range(505):
        ns = {'<class>': 'namespace', 'name': dznjson.scope_name(['N']), 'elements': []}
        cur.append(ns)
        cur = ns['elements']
    cur.append(dznjson.j_decl(['extern', ['T'], 'int']))
    r = run_impl('json_worker', {'cases': [{'op': 'process', 'doc': deep}]})['results'][0]
    io = impl_outcome(r)
    rep.extra['K5_probe'] = str(io)[:80]
    if io[0] == 'internal':
        if 'K5' in known:
            rep.known_finding('K5', f'505 nested namespaces: process() raised {io[1]} (interpreter recursion limit; identified by namespace nesting depth >= ~490)')
        else:
            rep.violation(f'deeply nested namespaces: undocumented {io[1]}', {"nesting_depth": 505, "document": "root > 505 x namespace N"})
    # ... the finding is identified by a depth of about 490: a document nested 350 deep (each namespace with a second element, so
    # that nothing about it is degenerate) parses, in a fresh interpreter with nothing else on its stack
    mid = {'<class>': 'root', 'elements': [], 'working-directory': '/'}
    cur = mid['elements']
    for k in range(350):
        ns = {'<class>': 'namespace', 'name': dznjson.scope_name(['N']), 'elements': []}
        cur.append(ns)
        if k % 50 == 0:
            cur.append(dznjson.j_decl(['extern', [f'T{k}'], 'int']))
        cur = ns['elements']
    cur.append(dznjson.j_decl(['extern', ['T'], 'int']))
    r = run_impl('json_worker', {'cases': [{'op': 'process', 'doc': mid}]})['results'][0]
    io = impl_outcome(r)
    rep.case({'nesting_depth': 350}, shape='deep nesting 350/' + io[0])
    if io[0] != 'ok':
        rep.violation(f'350 nested namespaces (well below the depth of known finding K5): process() did not return file contents: {str(io)[:200]}',
                      {"nesting_depth": 350, "document": "root > 350 x namespace N (+ an extern every 50 levels)"})
    gate = proof_gate('C15')
    return rep.finish(gate, 'well-formed generated documents; every single fault (delete / retype to each JSON type / retag <class> / '
                      'empty or invalid ids / directions) at every node (all per node in thorough, 3 sampled per node in quick); '
                      '2-3 random faults; arbitrary JSON values as documents; out-events with non-void reply / out parameter; '
                      'distinct = distinct document', TRUSTED, ASSUME)


if __name__ == '__main__':
    sys.exit(main(sys.argv))
