"""C03 - Port configuration gives every exposed port exactly one semantics or is rejected."""
import itertools
import random
import sys

from lib import Report, proof_gate, tier_seed, ds
from checks.textcases import run_cases

TRUSTED = ['Coq 8.16.1 kernel (coqc), vm_compute', 'extraction (ExtrOcamlBasic only) + OCaml 4.13.1 + harness/ml/driver.ml',
           'harness: this generator, workers/ports_worker.py + buildlib.py (JSON model rendering, header regex for accessors)']
ASSUME = ['port names of one component are distinct and non-empty (guaranteed by Dezyne)',
          'observable of a rejected configuration: exception class (AdvShellError) and no result object']

ERRNAME = {2: 'NamespaceIdsTypeError', 3: 'AdvShellError', 4: 'MultiClientCfgError', 5: 'FindError', 6: 'CppGenError',
           7: 'TypeError', 8: 'ValueError', 9: '<internal>'}
UNIVERSE = ['a', 'b', 'c']
UNKNOWN = 'zz'


def selections():
    sels = [['w', 'all'], ['w', 'remaining'], ['w', 'none']]
    names = UNIVERSE + [UNKNOWN]
    for k in range(1, 5):
        for comb in itertools.combinations(names, k):
            sels.append(['s', list(comb)])
    return sels


def psel_sx(p):
    if p[0] == 'w':
        return [{'remaining': 0, 'all': 1, 'none': 2}[p[1]]]
    return [3, list(p[1])]


def dec_res_dict(v):
    if v[0] != 0:
        return [ERRNAME.get(v[0], '?')]
    return [0, sorted([ds(k), s] for k, s in v[1])]


def dec_res_unit(v):
    return [0] if v[0] == 0 else [ERRNAME.get(v[0], '?')]


def cap(n):
    return n[0].upper() + n[1:]


def main(argv):
    tier, seed = tier_seed(argv)
    rep = Report('C03', tier, seed)
    rng = random.Random(seed)
    sels = selections()   # 3 wildcards + 15 non-empty name sets over {a,b,c,zz}
    cases = []
    # PortSelect construction incl. its two rejections
    for p in sels + [['s', []], ['s', ['']], ['s', ['a', '']]]:
        cases.append(({'op': 'psel', 'p': p}, [300, psel_sx(p)], dec_res_unit))
    # per side, exhaustively: all selection pairs x all expected port sets
    subsets = [list(c) for k in range(0, 4) for c in itertools.combinations(UNIVERSE, k)]
    for s in sels:
        for m in sels:
            cases.append(({'op': 'semcfg', 's': s, 'm': m}, [301, psel_sx(s), psel_sx(m)], dec_res_unit))
            for e in subsets:
                cases.append(({'op': 'side_match', 's': s, 'm': m, 'e': e}, [302, psel_sx(s), psel_sx(m), e], dec_res_dict))
    exhaustive_side = len(sels) ** 2 * len(subsets)
    # requires side with injected ports: each name absent / requires / injected, through the full builder (sampled
    # over selection pairs in quick, complete in thorough) with an all-MTS provides side
    partitions = list(itertools.product([0, 1, 2], repeat=3))   # 0 absent, 1 requires, 2 injected
    pairs = [(s, m) for s in sels for m in sels]
    build_pairs = pairs if tier == 'thorough' else rng.sample(pairs, 40)
    nb = 0
    for s, m in build_pairs:
        for part in (partitions if tier == 'thorough' else rng.sample(partitions, 6)):
            ports = [['api', False, False]] + [[n, True, k == 2] for n, k in zip(UNIVERSE, part) if k]
            pm, ps = (['w', 'all'], ['w', 'none']) if rng.random() < 0.5 else (['w', 'none'], ['w', 'all'])
            req = [304, psel_sx(ps), psel_sx(pm), psel_sx(s), psel_sx(m), [[p[0], p[1], p[2]] for p in ports]]
            def dec(v, ports=ports):
                if v[0] != 0:
                    return [ERRNAME.get(v[0], '?')]
                dirs = {p[0]: ('R' if p[1] else 'P') for p in ports}
                return [0, sorted([dirs[ds(k)] + ':' + cap(ds(k)), sm] for k, sm in v[1])]
            breq = {'op': 'build', 'p': [ps, pm], 'r': [s, m], 'ports': ports}
            if pm == ['w', 'all'] and nb % 2 == 0:
                breq['mc'] = 'api'        # the provides port as multi-client port: ProvidesMultiClientApi(id), still Mts<>
            cases.append((breq, req, dec))
            nb += 1
    # cross product provides x requires through PortsCfg (sampled) and through the builder (sampled)
    n = 1500 if tier == 'quick' else 60000
    bigger = ['p1', 'p2', 'hal', 'hal2', 'zeta', 'Alpha', '_x', 'x9', 'pass', 'from', 'with', 'lambda', 'None']   # Python's reserved words are ordinary port names
    for i in range(n):
        if i % 3:
            ps, pm, rs, rm = (rng.choice(sels) for _ in range(4))
            if i % 7 == 1:
                rs, rm = ps, pm          # the same selection on both sides: each side is still matched against its own ports only
            pp = rng.choice(subsets)
            rp = [x + '_r' for x in rng.choice(subsets)] if rng.random() < 0.5 else rng.choice(subsets)
        else:   # name sets of 4-8 beyond the small scope
            def rsel():
                k = rng.random()
                if k < 0.45:
                    return ['w', rng.choice(['all', 'remaining', 'none'])]
                return ['s', rng.sample(bigger, rng.randint(1, 6))]
            ps, pm, rs, rm = rsel(), rsel(), rsel(), rsel()
            pp = rng.sample(bigger, rng.randint(0, 5))
            rp = [x for x in rng.sample(bigger, rng.randint(0, 6)) if x not in pp]
        if set(pp) & set(rp):
            rp = [x for x in rp if x not in pp]
        cases.append(({'op': 'cfg_match', 'p': [ps, pm], 'r': [rs, rm], 'pp': pp, 'rp': rp},
                      [303, psel_sx(ps), psel_sx(pm), psel_sx(rs), psel_sx(rm), pp, rp], dec_res_dict))
        if i % 10 == 0:
            ports = [[x, False, False] for x in pp] + [[x, True, rng.random() < 0.3] for x in rp]
            rng.shuffle(ports)
            req = [304, psel_sx(ps), psel_sx(pm), psel_sx(rs), psel_sx(rm), [[p[0], p[1], p[2]] for p in ports]]
            def dec(v, ports=ports):
                if v[0] != 0:
                    return [ERRNAME.get(v[0], '?')]
                dirs = {p[0]: ('R' if p[1] else 'P') for p in ports}
                return [0, sorted([dirs[ds(k)] + ':' + cap(ds(k)), sm] for k, sm in v[1])]
            breq = {'op': 'build', 'p': [ps, pm], 'r': [rs, rm], 'ports': ports}
            if ps == ['w', 'none'] and pm in (['w', 'all'], ['w', 'remaining']) and pp and i % 20 == 0:
                breq['mc'] = pp[0]        # a multi-client port: exposed through ProvidesMultiClient<Port>(id), still Mts<>
            cases.append((breq, req, dec))
            nb += 1
    # the multi-client port is an exposed provides port like any other: it needs a semantics from the selection (and that MTS)
    from checks import buildcases as BC
    mfile = [['ns', ['My'], [['itf', ['IArb'], [['enum', ['Result'], ['Ok', 'No']]],
                               [['Claim', 'in', ['Result'], []], ['Release', 'in', ['void'], []], ['Done', 'out', ['void'], []]]],
                              ['comp', ['Desk'], [['ctrl', ['IArb'], 'provides', False], ['excl', ['IArb'], 'provides', False], ['dev', ['IArb'], 'requires', False]]]]]]
    mcases = []
    for psel in ([['w', 'none'], ['s', ['ctrl']]], [['s', ['ctrl']], ['w', 'none']], [['w', 'none'], ['s', ['ctrl', 'excl']]], [['w', 'none'], ['s', ['excl']]],
                 [['s', ['ctrl']], ['s', ['excl']]], [['w', 'none'], ['w', 'all']], [['w', 'remaining'], ['s', ['ctrl']]], [['s', ['excl']], ['w', 'remaining']],
                 [['w', 'none'], ['w', 'remaining']], [['s', ['ctrl', 'excl']], ['w', 'none']]):
        for mcp in ('excl', 'ctrl'):
            mcases.append({'file': mfile, 'cfg': {'file': 'Desk.dzn', 'enc': ['My', 'Desk'], 'ports': {'p': psel, 'r': [['w', 'all'], ['w', 'none']], 'mc': [mcp, 'Claim', ['Ok'], 'Release']}}})
    mio, mmo = BC.run_builds(mcases)
    nmc = 0
    for c, i, m in zip(mcases, mio, mmo):
        rep.case({'multiclient_selection': c['cfg']['ports']}, shape='multi-client port selection/' + m[0])
        if (i[0] != m[0] or (i[0] != 'ok' and i[1] != m[1])) and nmc < 3:
            nmc += 1
            rep.violation(f'selection for a component with provides ports ctrl, excl and multi-client port {c["cfg"]["ports"]["mc"][0]}: provides {c["cfg"]["ports"]["p"]} '
                          f'gives {i[0]} {i[1] if i[0] != "ok" else ""}; required: {m[0]} {m[1] if m[0] != "ok" else ""}',
                          {'file': mfile, 'configuration': c['cfg'], 'theorems': 'Properties/C03.v, Properties/C13.v (build Ok <-> valid_input)'})
    bad = run_cases(cases, rep, worker='ports_worker', vm_sample=(60 if tier == 'quick' else 400), vm_name='c03')
    for i, r, mv in bad[:5]:
        rep.violation(f'port configuration: implementation differs from the proven model on case {i}: '
                      f'{cases[i][0]} impl={str(r)[:200]} required={str(mv)[:200]}'[:700],
                      {'case': cases[i][0], 'impl': r, 'required_by_model': mv, 'theorems': 'Properties/C03.v'})
    rep.extra['exhaustive_small_scope'] = (f'{exhaustive_side} per-side cases: 18 x 18 selection pairs (3 wildcards + 15 non-empty name '
                                           f'sets over {{a,b,c}} + one unknown name) x 8 port sets; the two sides are independent '
                                           f'(theorem C03_sides_independent)')
    rep.extra['full_builds'] = nb
    gate = proof_gate('C03')
    return rep.finish(gate, 'exhaustive per-side enumeration as stated; provides x requires cross product sampled through '
                      'PortsCfg.match and through full Builder.build on generated components with provides/requires/injected '
                      'ports (observable: error class or accessor -> Sts/Mts map parsed from the header); name sets of 4-8 '
                      'sampled; distinct = distinct canonical request', TRUSTED, ASSUME)


if __name__ == '__main__':
    sys.exit(main(sys.argv))
