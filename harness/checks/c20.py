"""C20 - C++ building blocks render matching declarations and definitions."""
import os
import random
import shutil
import subprocess
import sys
import tempfile
from concurrent.futures import ThreadPoolExecutor

from lib import Report, proof_gate, tier_seed, ds, run_impl, run_model
import gen_text as T
from checks.textcases import run_cases

TRUSTED = ['Coq 8.16.1 kernel (coqc), vm_compute', 'extraction (ExtrOcamlBasic only) + OCaml 4.13.1 + harness/ml/driver.ml',
           'harness: this generator, workers/cpp_worker.py', 'g++ 12 -std=c++17 -fsyntax-only for the "accepted by a compiler" clause']
ASSUME = ['names are C++ identifiers; type, default-value, qualifier and initialisation texts contain no line break',
          '"any composition is accepted by a C++ compiler" has no Gallina counterpart: validated by compiling sampled compositions (partial)']

IDS = ['My', 'Data', 'std', 'string', 'T1', '_x', 'Hal', 'IHeater', 'int', 'Z9']
NAMES = ['Calculate', 'f', 'Get_1', 'operatorX', 'm_value', 'x', 'MyToaster', 'operator==', 'operator()', 'operator[]', 'operator<<', 'operator bool', '~X', 'pass', 'lambda']   # any C++ function name, operators among them


def r_fqn(rng, allow_empty=True):
    k = rng.random()
    ids = [] if (allow_empty and k < 0.08) else [rng.choice(IDS) for _ in range(rng.choice([1, 1, 2, 3]))]
    return [ids, rng.random() < 0.3]


def r_type(rng):
    return [r_fqn(rng), r_fqn(rng, False) if rng.random() < 0.25 else None, rng.choice([0, 0, 1, 2]), rng.random() < 0.3,
            rng.choice([None, None, '', '123u', '""', '{}', 'nullptr', 'a + b'])]


def r_param(rng):
    return [r_type(rng), rng.choice(NAMES)]


def r_body(rng):
    k = rng.random()
    if k < 0.3:
        return ['s', '']
    if k < 0.6:
        return ['s', rng.choice(['return x;', 'a();\nb();', '// c\n\n  d;', ' \n'])]
    if k < 0.8:
        return ['b', [], [T.rand_line(rng) for _ in range(rng.choice([0, 1, 3]))]]
    return T.rand_content(rng, 2, wf=True)


def fqn_sx(f):
    return [list(f[0]), bool(f[1])]


def type_sx(t):
    return [fqn_sx(t[0]), [] if t[1] is None else [fqn_sx(t[1])], t[2], bool(t[3]), [] if t[4] is None else [t[4]]]


def param_sx(p):
    return [type_sx(p[0]), p[1]]


def dec_pair(v):
    return [ds(v[0]), ds(v[1])]


def twice(x):
    return [x, x]


def gen_compile_unit(rng):
    """a composition of blocks that is valid C++ by construction (types exist, qualifiers consistent)"""
    types = [[[['int'], False], None, 0, False, None], [[['double'], False], None, 0, False, None],
             [[['std', 'string'], True], None, 1, True, None], [[['std', 'string'], False], None, 0, False, None],
             [[['Data'], False], None, 2, False, None], [[['std', 'vector'], False], [['int'], False], 1, True, None],
             [[['My', 'Ns', 'Data'], True], None, 1, False, None]]
    void = [[['void'], False], None, 0, False, None]
    fns = []
    for i in range(rng.randint(1, 5)):
        ret = rng.choice(types[:2] + [void, void])
        params = []
        for j in range(rng.randint(0, 3)):
            t = list(rng.choice(types))
            if rng.random() < 0.4 and all(p[0][4] is None for p in params[j:]):
                t[4] = {('int',): '3', ('double',): '1.5'}.get(tuple(t[0][0]), None) if t[2] == 0 else ('nullptr' if t[2] == 2 else None)
            params.append([t, f'p{j}'])
        # defaults must be trailing
        seen = False
        for p in params:
            if p[0][4] is not None:
                seen = True
            elif seen:
                for q in params:
                    q[0] = list(q[0]); q[0][4] = None
                break
        pf = rng.choice([0, 0, 1, 2])
        cav = '' if pf == 2 else rng.choice(['', 'const', 'const noexcept'])
        ini = rng.choice(['', '', '0']) if pf == 1 else rng.choice(['', '', 'delete'])
        body = ['s', ''] if ret is not void else rng.choice([['s', ''], ['s', 'int a = 1;\n(void)a;'], ['b', [], ['// nothing', '']]])
        if ret is not void and rng.random() < 0.7:
            body = ['s', 'return {};']
        fns.append([ret, f'fn{i}', params, pf, cav, 0, ini, body, 'S'])
    ctor = ['S', rng.random() < 0.5, [[rng.choice(types[:2]), 'a'], None, [types[0], 'b']][:rng.randint(0, 3)],
            rng.choice(['', '', 'default']), [], ['s', rng.choice(['', '(void)0;'])]]
    if ctor[3] == 'default':
        ctor[2] = []
    dtor = ['S', 0, rng.choice(['', 'default']), ['s', '']]
    return {'ns': rng.choice([[], ['A'], ['A', 'B']]), 'fns': fns, 'ctor': ctor, 'dtor': dtor}


def main(argv):
    tier, seed = tier_seed(argv)
    rep = Report('C20', tier, seed)
    rng = random.Random(seed)
    n = 1200 if tier == 'quick' else 25000
    cases = []
    for _ in range(n):
        k = rng.random()
        if k < 0.08:
            f = r_fqn(rng)
            cases.append(({'op': 'fqn', 'f': f}, [500, fqn_sx(f)], lambda v: twice(ds(v))))
        elif k < 0.2:
            t = r_type(rng)
            cases.append(({'op': 'type', 't': t}, [501, type_sx(t)], lambda v: twice(ds(v))))
        elif k < 0.3:
            p = r_param(rng)
            cases.append(({'op': 'param', 'p': p}, [502, param_sx(p)], lambda v: twice(dec_pair(v))))
        elif k < 0.6:
            f = [r_type(rng), rng.choice(NAMES + ['']), [r_param(rng) for _ in range(rng.choice([0, 1, 2, 4]))], rng.choice([0, 0, 1, 2]),
                 rng.choice(['', '', 'const', 'const noexcept']), rng.random() < 0.2, rng.choice(['', '', '', 'default', '0', 'delete', '0 ']),
                 r_body(rng), rng.choice([None, 'MyStruct', 'MyStruct'])]
            wire = [type_sx(f[0]), f[1], [param_sx(p) for p in f[2]], f[3], f[4], bool(f[5]), f[6], T.content_sx(f[7]), [] if f[8] is None else [f[8]]]
            cases.append(({'op': 'function', 'f': f}, [503, wire],
                          lambda v: ['CppGenError'] if v[0] != 0 else [0] + twice(dec_pair(v[1]))))
        elif k < 0.75:
            c = [rng.choice(['MyToaster', 'S']), rng.random() < 0.4, [r_param(rng) if rng.random() < 0.85 else None for _ in range(rng.choice([0, 1, 2, 3]))],
                 rng.choice(['', '', 'default', 'delete']), rng.choice([[], [], ['m_a(1)'], ['m_number(1)', 'm_two{2 }', 'm_xyz ("Two")']]), r_body(rng)]
            wire = [c[0], bool(c[1]), [[] if p is None else [param_sx(p)] for p in c[2]], c[3], c[4], T.content_sx(c[5])]
            cases.append(({'op': 'constructor', 'c': c}, [504, wire],
                          lambda v: ['CppGenError'] if v[0] != 0 else [0] + twice(dec_pair(v[1]))))
        elif k < 0.82:
            d = [rng.choice(['MyToaster', 'S']), rng.random() < 0.4, rng.choice(['', '', 'default']), r_body(rng)]
            cases.append(({'op': 'destructor', 'd': d}, [505, [d[0], bool(d[1]), d[2], T.content_sx(d[3])]], lambda v: twice(dec_pair(v))))
        elif k < 0.86:
            t, nm = r_type(rng), rng.choice(NAMES)
            cases.append(({'op': 'member_var', 't': t, 'n': nm}, [506, type_sx(t), nm], lambda v: twice(ds(v))))
        else:
            tb = [[T.rand_line(rng) for _ in range(rng.choice([0, 0, 1]))], [T.rand_line(rng) for _ in range(rng.choice([0, 1, 2, 4]))]]
            j = rng.random()
            if j < 0.3:
                cls, nm = rng.random() < 0.5, rng.choice(NAMES)
                cases.append(({'op': 'struct', 'cls': cls, 'n': nm, 'tb': tb}, [507, cls, nm, tb], lambda v: twice(ds(v))))
            elif j < 0.6:
                ids = [rng.choice(IDS) for _ in range(rng.choice([0, 1, 2, 3]))]
                cases.append(({'op': 'namespace', 'ids': ids, 'tb': tb}, [508, ids, tb], lambda v: twice(ds(v))))
            elif j < 0.8:
                a = rng.randrange(4)
                cases.append(({'op': 'access', 'a': a, 'tb': tb}, [509, a, tb], lambda v: twice(ds(v))))
            else:
                sy, l = rng.random() < 0.5, [rng.choice(['string', 'dzn/pump.hh', 'IToaster.h', 'a/b.hh', '../common/Types.hh', './x.hh', '.hidden.hh', '/abs/y.hh', '..hh', 'a b.hh', '']) for _ in range(rng.choice([0, 1, 2, 3]))]
                cases.append(({'op': 'includes', 'sys': sy, 'l': l}, [510, sy, l], lambda v: twice(ds(v))))
    bad = run_cases(cases, rep, worker='cpp_worker', vm_sample=(40 if tier == 'quick' else 300), vm_name='c20')
    for i, r, mv in bad[:5]:
        rep.violation(f'cpp_gen: implementation differs from the proven model on case {i} (each block is rendered twice): '
                      f'{cases[i][0]} impl={str(r)[:300]} required={str(mv)[:300]}'[:900],
                      {'case': cases[i][0], 'impl': r, 'required_by_model': mv, 'theorems': 'Properties/C20.v'})
    # ---- Leg B: compositions are accepted by a C++ compiler
    ncomp = 24 if tier == 'quick' else 400
    units = [gen_compile_unit(rng) for _ in range(ncomp)]
    reqs = []
    for u in units:
        for f in u['fns']:
            reqs.append({'op': 'function', 'f': f})
        reqs.append({'op': 'constructor', 'c': u['ctor']})
        reqs.append({'op': 'destructor', 'd': u['dtor']})
    res = run_impl('cpp_worker', {'cases': reqs})['results']
    tmp = tempfile.mkdtemp(prefix='dznverif_c20_')
    try:
        srcs, k = [], 0
        for ui, u in enumerate(units):
            decls, defs = [], []
            for _ in range(len(u['fns']) + 2):
                r = res[k]['ok']
                k += 1
                pair = r[1] if r and r[0] == 0 else r[0]
                decls.append(pair[0])
                defs.append(pair[1])
            body = ''.join('    ' + l + '\n' for d in decls for l in d.splitlines())
            nsh = f'namespace {"::".join(u["ns"])} {{\n' if u['ns'] else ''
            nst = '}\n' if u['ns'] else ''
            text = ('#include <string>\n#include <vector>\nstruct Data {};\nnamespace My::Ns { struct Data {}; }\n' + nsh +
                    'struct S\n{\n' + body + '};\n' + ''.join(defs) + nst)
            path = os.path.join(tmp, f'u{ui}.cc')
            open(path, 'w').write(text)
            srcs.append((path, text, u))

        def compile_one(item):
            p = subprocess.run(['g++', '-std=c++17', '-fsyntax-only', '-w', item[0]], stdout=subprocess.PIPE, stderr=subprocess.STDOUT)
            return p.returncode, p.stdout.decode()[:1500]
        with ThreadPoolExecutor(16) as ex:
            outs = list(ex.map(compile_one, srcs))
        ncerr = 0
        for (path, text, u), (rc, out) in zip(srcs, outs):
            rep.case(u, shape='compiled composition')
            if rc != 0 and ncerr < 3:
                ncerr += 1
                rep.violation('a composition of rendered declarations and definitions is rejected by g++ -std=c++17 -fsyntax-only',
                              {'blocks': u, 'translation_unit': text, 'compiler_output': out})
        rep.extra['compiled_compositions'] = len(srcs)
    finally:
        shutil.rmtree(tmp, ignore_errors=True)
    gate = proof_gate('C20')
    return rep.finish(gate, 'seeded random Fqn/TypeDesc/Param/Function/Constructor/Destructor/MemberVariable/Struct/Class/Namespace/'
                      'AccessSpecifiedSection/includes with all prefix/qualifier/initialisation/default/contents/scope combinations '
                      '(incl. rejected ones), each rendered twice; plus compositions compiled with g++; distinct = distinct request',
                      TRUSTED, ASSUME)


if __name__ == '__main__':
    sys.exit(main(sys.argv))
