"""Shared by C05/C15/C16: comparing parser outcomes of implementation and model."""
from gen_model import canon

DOCUMENTED = {'DznJsonError': 1, 'NamespaceIdsTypeError': 2}


def impl_outcome(r):
    """('ok', canon fc) | ('doc', name) | ('internal', name)"""
    if 'ok' not in r:
        return ('internal', r.get('exc', '?'))
    v = r['ok']
    if v[0] == 0:
        return ('ok', canon(v[1]))
    return ('doc', v[0]) if v[0] in DOCUMENTED else ('internal', v[0])


def model_outcome(m):
    if m[0] == 0:
        return ('ok', m[1])
    return ('doc', m[0]) if m[0] in (1, 2) else ('internal', m[0])


def agree(io, mo):
    """same acceptance; equal contents when accepted; both documented errors when rejected"""
    if io[0] != mo[0]:
        return False
    return io[1] == mo[1] if io[0] == 'ok' else True
