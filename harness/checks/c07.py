"""C07 - Names in generated code denote the declaration Dezyne's scoping rules select."""
import copy
import random
import re
import sys

from lib import Report, proof_gate, tier_seed
import gen_build as GB
import dznjson
from checks import buildcases as BC

TRUSTED = ['Coq 8.16.1 kernel (coqc), vm_compute', 'extraction (ExtrOcamlBasic only) + OCaml 4.13.1 + harness/ml/driver.ml',
           'harness: gen_build.py (same simple names in sibling/nested/global namespaces; simple, partially and fully qualified spellings)']
ASSUME = ['extern data values are opaque C++ text copied verbatim: that the text denotes the same C++ type inside the shell namespace '
          'as inside the interface namespace is outside the model (holds for global / fully qualified spellings)']


def scoping_case(rng):
    """a model built around name reuse: interface I and extern T exist in several namespaces; the component refers to them
    from a nested scope with a random spelling. Returns (case, expectations)"""
    outer = rng.choice([['A'], ['A', 'B'], ['P']])
    comp_scope = outer + rng.choice([[], ['In'], ['In', 'Deep']])
    spots = [[], outer[:1], outer, comp_scope, ['Z'], ['Z'] + outer, comp_scope + ['Lower']]
    spots = [list(x) for x in dict.fromkeys(tuple(s) for s in spots)]
    itf_spots = rng.sample(spots, rng.randint(1, min(4, len(spots))))
    ext_spots = rng.sample(spots, rng.randint(1, min(4, len(spots))))
    tree = []
    vals = {}
    for k, s in enumerate(ext_spots):
        vals[tuple(s)] = f'type_{k}_t'
        GB.place(tree, s, ['extern', ['T'], vals[tuple(s)]])
    for s in itf_spots:
        # each interface refers to T by its simple name: resolves from the interface's own scope outward
        GB.place(tree, s, ['itf', ['I'], [], [['Do', 'in', ['void'], [['x', ['T'], 'in']]], ['Done', 'out', ['void'], [['y', ['T'], 'in']]]]])
    if rng.random() < 0.4:   # a same-named declaration of another kind on the chain: wrong kind / ambiguity
        GB.place(tree, rng.choice(spots), [rng.choice(['enum', 'extern']), ['I'], ['a']] if rng.random() < 0.5 else ['extern', ['I'], 'int'])
    # reference spelling from comp_scope
    target = rng.choice(itf_spots)
    k = rng.random()
    if k < 0.4:
        ref = ['I']
    elif k < 0.7:
        ref = target + ['I']
    else:
        cut = rng.randint(0, len(target))
        ref = target[cut:] + ['I']
    ports = [['p', ref, 'provides', False], ['r', ref, 'requires', False]]
    GB.place(tree, comp_scope, ['comp', ['C'], ports])
    rng.shuffle(tree)
    cfg = {'file': 'C.dzn', 'enc': comp_scope + ['C'], 'ports': {'p': [['w', 'none'], ['w', 'all']], 'r': [['w', 'none'], ['w', 'all']]}}
    return {'file': tree, 'cfg': cfg}, {'comp_scope': comp_scope, 'ref': ref}


def decoys_for(case, info, rng):
    """declarations that are on no lookup chain the build consults: namespaces whose first identifier is fresh"""
    extra = []
    for _ in range(rng.randint(1, 4)):
        ns = [rng.choice(['Q1', 'Q2', 'Unrelated'])] + rng.choice([[], ['A'], ['In']])
        GB.place(extra, ns, rng.choice([['itf', ['I'], [], []], ['extern', ['T'], 'decoy_t'], ['enum', ['I'], ['x']], ['comp', ['C'], []],
                                       ['extern', ['Str'], 'decoy_t'], ['itf', ['IApi'], [], []], ['enum', ['Result'], ['Ok']]]))
    return extra


def capture_search(case, impl_files, model_files):
    """the implementation emits a qualified name where the model emits the same name anchored at the root (`X::..` vs `::X::..`):
    look for a program in which C++ name lookup gives the unanchored spelling another meaning - a namespace X declared inside the
    shell's own namespace (as another Dezyne model of the same program may do) - by compiling the implementation's files with and
    without such a declaration in front"""
    import os
    import legb
    import gen_mockmodel as MM
    lost = None
    for fi, fm in zip(impl_files, model_files):
        for a, b in zip(fi[1].splitlines(), fm[1].splitlines()):
            if a != b:
                mm = re.search(r'::([A-Za-z_]\w*)::', b)
                if mm and a == b.replace('::' + mm.group(1) + '::', mm.group(1) + '::', 1):
                    lost = mm.group(1)
                break
        if lost:
            break
    if not lost:
        return None
    plan = legb.plans_for([case])[0]
    if not isinstance(plan, dict) or not MM.usable(plan) or not plan['scope']:
        return None
    wd = legb.Workdir()
    try:
        d = wd.sub('cap')
        legb.materialize(d, impl_files, plan, case['cfg'], shim=True)
        ns_open = ' '.join(f'namespace {x} {{' for x in plan['scope'])
        ns_close = '}' * len(plan['scope'])
        open(os.path.join(d, 'capture.hh'), 'w').write(f'{ns_open} namespace {lost} {{ struct only_here {{}}; }} {ns_close}\n')
        cc = os.path.join(d, impl_files[1][0])
        rc0, out0 = legb.gxx(['-fsyntax-only'] + legb.includes(d) + [cc])
        rc1, out1 = legb.gxx(['-fsyntax-only', '-include', os.path.join(d, 'capture.hh')] + legb.includes(d) + [cc])
        if rc0 == 0 and rc1 != 0:
            err = next((l for l in out1.splitlines() if 'error' in l), out1[:200])
            return (f'FAILING PROGRAM: with a namespace `{"::".join(plan["scope"] + [lost])}` in the translation unit the unanchored name `{lost}::...` '
                    f'no longer denotes `::{lost}::...` and the generated source does not compile ({err[:200]}); the root-anchored spelling is unaffected')
    finally:
        wd.cleanup()
    return None


def main(argv):
    tier, seed = tier_seed(argv)
    rep = Report('C07', tier, seed)
    rng = random.Random(seed)
    n = 150 if tier == 'quick' else 3000
    cases, kinds = [], []
    for i in range(n):
        if i % 3 == 0:
            b = GB.gen_case(rng)
            c, info = {'file': b['file'], 'cfg': b['cfg']}, None
            if i % 2 == 0:
                # single-fault variations that concern WHICH declaration a name denotes: ambiguity (also across kinds), wrong kind
                named = [f for f in GB.faults(rng, b) if any(x in f[0] for x in ('ambiguous', 'wrong-kind', 'unresolvable', 'duplicate', 'twice'))]
                if named:
                    c = {'file': named[i // 2 % len(named)][1]['file'], 'cfg': named[i // 2 % len(named)][1]['cfg']}
        else:
            c, info = scoping_case(rng)
        cases.append(c)
        kinds.append('general' if info is None else 'name-reuse')
        # metamorphic partner: the same model plus unrelated same-named declarations
        d = copy.deepcopy(c)
        extra = decoys_for(c, info, rng)
        pos = rng.randint(0, len(d['file']))
        d['file'] = d['file'][:pos] + extra + d['file'][pos:]
        cases.append(d)
        kinds.append('with-unrelated')
    # multi-client configurations whose claim reply type is ambiguous / fine, as pairs like the others
    found, tries = 0, 0
    while found < (4 if tier == 'quick' else 40) and tries < 4000:
        tries += 1
        b = GB.gen_case(rng)
        if not b['cfg']['ports'].get('mc'):
            continue
        amb = [f for f in GB.faults(rng, b) if f[0] == 'mc-claim-reply-ambiguous']
        if not amb:
            continue
        found += 1
        for c in ({'file': amb[0][1]['file'], 'cfg': amb[0][1]['cfg']}, {'file': b['file'], 'cfg': b['cfg']}):
            cases.append(c)
            kinds.append('claim-reply')
            d = copy.deepcopy(c)
            d['file'] = d['file'] + decoys_for(c, None, rng)
            cases.append(d)
            kinds.append('with-unrelated')
    # a declaration of EVERY other kind under the name of a port type or of a formal's type (ambiguity across kinds, wrong kind)
    found, tries = 0, 0
    while found < (3 if tier == 'quick' else 30) and tries < 4000:
        tries += 1
        b = GB.gen_case(rng)
        got = []
        for kind in GB.OTHER_KINDS:
            GB.FORCE_KIND = kind
            try:
                got += [(kind, f) for f in GB.faults(rng, b) if f[0].endswith('other-kind') or f[0] == 'port-type-wrong-kind']
            finally:
                GB.FORCE_KIND = None
        if len(got) < 2 * len(GB.OTHER_KINDS):
            continue
        # ... and the very same declaration a second time (re-opened namespace): two declarations on the chain, too
        got += [('same', f) for f in GB.faults(rng, b) if f[0].endswith('twice-identically')]
        found += 1
        for kind, f in got:
            c = {'file': f[1]['file'], 'cfg': f[1]['cfg']}
            cases.append(c)
            kinds.append('other-kind:' + kind)
            d = copy.deepcopy(c)
            d['file'] = d['file'] + decoys_for(c, None, rng)
            cases.append(d)
            kinds.append('with-unrelated')
    # lookups whose scope and name concatenate to the same dotted name but split differently, built one after the other in one
    # process: (name A.B.I from the global scope) then (name I from scope A.B), and the other way round with P.Q
    def split_case(itfs, comp_scope, ref, tag):
        tree = []
        for s in itfs:
            GB.place(tree, s[:-1], ['extern', ['T'], f'type_{len(s) % 4}_t']) if not any(d[0] == 'extern' for d in tree) else None
            GB.place(tree, s, ['itf', ['I'], [], [['Do', 'in', ['void'], []], ['Done', 'out', ['void'], []]]])
        GB.place(tree, comp_scope, ['comp', ['C'], [['p', ref, 'provides', False], ['r', ref, 'requires', False]]])
        return {'file': tree, 'cfg': {'file': 'C.dzn', 'enc': comp_scope + ['C'], 'ports': {'p': [['w', 'none'], ['w', 'all']], 'r': [['w', 'none'], ['w', 'all']]}}}
    for c in (split_case([['A', 'B']], [], ['A', 'B', 'I'], 'full'), split_case([['A']], ['A', 'B'], ['I'], 'simple'),
              split_case([['P']], ['P', 'Q'], ['I'], 'simple'), split_case([['P', 'Q'], ['P']], [], ['P', 'Q', 'I'], 'full')):
        cases.append(c)
        kinds.append('split-coincidence')
        d = copy.deepcopy(c)
        d['file'] = d['file'] + decoys_for(c, None, rng)
        cases.append(d)
        kinds.append('with-unrelated')
    io, mo = BC.run_builds(cases, timeout=3000)
    nv = nfail = 0
    text_only, any_failing = [], False
    for k in range(0, len(cases), 2):
        for j in (k, k + 1):
            rep.case({'cfg': cases[j]['cfg'], 'file': cases[j]['file']}, shape=f'{kinds[j]}/{io[j][0]}')
        problem, failing, which = None, True, k
        a, b = io[k], io[k + 1]
        if a[0] == 'internal' or b[0] == 'internal':
            problem = f'build raised {a[1] if a[0] == "internal" else b[1]} instead of a library error'
            which = k if a[0] == 'internal' else k + 1
        elif a[0] != b[0] or (a[0] == 'ok' and BC.first_diff(a[1], b[1])):
            d = BC.first_diff(a[1], b[1]) if a[0] == 'ok' == b[0] else f'{a[0]}:{str(a[1])[:60]} vs {b[0]}:{str(b[1])[:60]}'
            problem = f'adding same-named declarations in unrelated namespaces changed the result: {d}'
            which = k + 1
        else:
            for j in (k, k + 1):
                i, m = io[j], mo[j]
                if i[0] != m[0]:
                    problem = (f'resolution outcome differs from the scope-chain model: implementation {i[0]} ({str(i[1])[:80]}), '
                               f'model {m[0]} ({str(m[1])[:80]})')
                    which = j
                elif i[0] == 'ok':
                    d = BC.first_diff([f[:2] + [f[3]] for f in i[1]], m[1])
                    if d:
                        # a differing type/interface name in the generated code is a resolution failure; anything else only breaks the tie
                        problem, which = f'generated code differs from the scope-chain model: {d}', j
                        failing = bool(re.search(r'type_\d_t|::I\b|decoy_t|deeper_t', d))
                        if not failing:
                            cap = capture_search(cases[j], i[1], m[1])
                            if cap:
                                problem, failing = problem + '; ' + cap, True
                if problem:
                    break
        if problem and not failing:
            text_only.append(which)
        if problem and (nv < 5 or (failing and nfail < 3)):
            nv += 1
            nfail += 1 if failing else 0
            any_failing = any_failing or failing
            c = cases[which]
            rep.violation(problem, {'file': c['file'], 'configuration': c['cfg'], 'document': dznjson.to_json(c['file']),
                                    'without_unrelated_declarations': cases[k]['file']}, failing_input=failing)
    if text_only and not any_failing:
        # only text differences so far: keep searching the other disagreeing cases for a program the difference breaks
        for j in text_only[:25]:
            if io[j][0] == 'ok' and mo[j][0] == 'ok':
                cap = capture_search(cases[j], io[j][1], mo[j][1])
                if cap:
                    rep.violation('generated code differs from the scope-chain model; ' + cap,
                                  {'file': cases[j]['file'], 'configuration': cases[j]['cfg'], 'document': dznjson.to_json(cases[j]['file'])}, failing_input=True)
                    break
    gate = proof_gate('C07')
    return rep.finish(gate, 'models in which interface I, extern T (and other kinds) share simple names across sibling, nested, global '
                      'and unrelated namespaces, referenced by simple / partially / fully qualified names from nested scopes; every '
                      'case also built with added same-named declarations in unrelated namespaces (must be byte-identical); all '
                      'outcomes and files compared with the model; distinct = distinct (model, configuration)', TRUSTED, ASSUME)


if __name__ == '__main__':
    sys.exit(main(sys.argv))
