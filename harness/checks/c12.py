"""C12 - Building never alters its inputs and is independent of earlier builds."""
import random
import sys

from lib import Report, proof_gate, tier_seed, run_impl, run_model
import gen_build as GB
import gen_model as G
import dznjson
from checks import buildcases as BC

TRUSTED = ['Coq 8.16.1 kernel (coqc), vm_compute', 'extraction (ExtrOcamlBasic only) + OCaml 4.13.1 + harness/ml/driver.ml',
           'harness: gen_build.py, workers/build_worker.py (deep structural snapshots of FileContents and Configuration)']
ASSUME = ['"observably unchanged" = equal deep structural snapshot (all dataclass fields, containers, TextBlocks, NamespaceTree chains)',
          'modelled, not verified: that the real build only mutates objects it created is checked by snapshots, not proved (no heap model of adv_shell)']


def main(argv):
    tier, seed = tier_seed(argv)
    rep = Report('C12', tier, seed)
    rng = random.Random(seed)
    nh = 40 if tier == 'quick' else 800
    hists = []
    for _ in range(nh):
        bases = [GB.gen_case(rng) for _ in range(rng.randint(1, 3))]
        models = [b['file'] for b in bases]
        steps = []
        for _ in range(rng.randint(2, 6)):
            mi = rng.randrange(len(bases))
            b = bases[mi]
            k = rng.random()
            if k < 0.55:
                cfg = b['cfg']
            elif k < 0.8:      # a faulty configuration on the same model
                fl = [f for f in GB.faults(rng, b) if f[1]['file'] == b['file']]
                cfg = rng.choice(fl)[1]['cfg'] if fl else b['cfg']
            else:              # another valid configuration variant
                cfg = dict(b['cfg'])
                cfg['fac'] = 'import' if cfg.get('fac') == 'create' else 'create'
                cfg['sf_prefix'] = rng.choice([None, ['Zed'], ['My', 'Lib'], ['My_Lib'], ['My', 'Lib']])   # the last two give the same file names (K10) but other namespaces
            steps.append([mi, cfg])
        # every third history keeps ONE Configuration object alive and edits its fields between builds
        hists.append({'models': models, 'steps': steps, 'share_builder': len(hists) % 2 == 1, 'reuse_cfg': len(hists) % 3 == 1})
    # revisions of one model (same names, altered signatures) parsed afresh for every build and dropped afterwards, and one
    # Builder reused with alternating facilities origin: whatever is remembered under a name, an object identity or in the
    # builder instance across builds shows here
    from checks.shellrun import sibling
    for k in range(nh // 4):
        b = GB.gen_case(rng)
        rev = sibling({'file': b['file'], 'cfg': b['cfg']})
        steps = []
        for s in range(rng.randint(6, 10)):
            cfg = dict(b['cfg'])
            cfg['fac'] = 'create' if (s + k) % 2 == 0 else 'import'
            steps.append([s % 2 if rng.random() < 0.8 else rng.randrange(2), cfg])
        hists.append({'models': [b['file'], rev['file']], 'steps': steps, 'share_builder': True, 'drop': k % 2 == 0})
    impl = run_impl('build_worker', {'cases': [dict(op='history', **h) for h in hists]}, timeout=3000)['results']
    flat = [(hi, si, h['models'][s[0]], s[1]) for hi, h in enumerate(hists) for si, s in enumerate(h['steps'])]
    model = run_model([[601, BC.templates_for(cfg.get('sf_prefix')), G.json_sx(dznjson.to_json(f)), BC.cfg_sx(cfg)] for _, _, f, cfg in flat],
                      timeout=3000)
    mo = {(hi, si): BC.model_outcome(m) for (hi, si, _, _), m in zip(flat, model)}
    # stand-alone support files
    prefixes = [None, ['Zed'], ['Other', 'Project'], ['P_1']]
    standalone = {tuple(p) if p else None: run_impl('build_worker', {'cases': [{'op': 'standalone', 'prefix': p}]})['results'][0]['ok'] for p in prefixes}
    nv = 0
    for hi, (h, r) in enumerate(zip(hists, impl)):
        rep.case(h, shape=f'{len(h["models"])} models/{len(h["steps"])} builds')
        if 'ok' not in r:
            if nv < 5:
                nv += 1
                rep.violation(f'history crashed: {r}', {'history': h})
            continue
        for si, (step, res) in enumerate(zip(h['steps'], r['ok'])):
            problem, failing = None, True
            io = BC.impl_outcome({'ok': res['res']})
            m = mo[(hi, si)]
            if res['changed']:
                problem = f'build #{si} of a history altered its inputs (parsed model or configuration): ...{res["changed"]["before"][100:220]}... became ...{res["changed"]["after"][100:220]}...'
            elif io[0] == 'internal':
                problem = f'build #{si} raised {io[1]}'
            elif io[0] != m[0]:
                problem = (f'build #{si} of a history gives {io[0]} ({str(io[1])[:80]}) where a build from a fresh state gives {m[0]} '
                           f'({str(m[1])[:80]})')
            elif io[0] == 'ok':
                d = BC.first_diff([f[:2] + [f[3]] for f in io[1]], m[1])
                if d:
                    problem = f'build #{si} of a history differs from the build from a fresh state: {d}'
                else:
                    pre = step[1].get('sf_prefix')
                    sa = standalone.get(tuple(pre) if pre else None)
                    if sa is not None and [f[:2] + [f[3]] for f in io[1][2:]] != sa:
                        problem = 'the support files in the build result differ from those generated stand-alone with the same prefix'
            if problem:
                if nv < 5:
                    nv += 1
                    rep.violation(problem, {'history': h, 'step': si, 'changed': res['changed']}, failing_input=failing)
                break
    # ---- identity collisions: model B presented in an object at the address a dropped model A had
    def revision(case):
        import copy
        r = copy.deepcopy(case)

        def walk(ds):
            for d in ds:
                if d[0] == 'itf':
                    for e in d[3]:
                        e[0] = e[0] + 'Rev'
                elif d[0] in ('comp', 'sys') and d[1] == [case['cfg']['enc'][-1]] and d[2]:
                    # the revised component has its ports in the opposite order and one more requires port
                    d[2].reverse()
                    d[2].append(['revOnly', list(d[2][0][1]), 'requires', False])
                elif d[0] == 'ns':
                    walk(d[2])
        walk(r['file'])
        mc = r['cfg']['ports'].get('mc')
        if mc:
            r['cfg'] = dict(r['cfg'])
            r['cfg']['ports'] = dict(r['cfg']['ports'], mc=[mc[0], mc[1] + 'Rev', mc[2], mc[3] + 'Rev'])
        return r
    probes = []
    while len(probes) < (20 if tier == 'quick' else 120):
        a = GB.gen_case(rng)
        if not a['info']['ports']:
            continue          # nothing to revise in a component without ports
        b = revision({'file': a['file'], 'cfg': a['cfg']})
        probes.append({'models': [a['file'], b['file']], 'cfg_a': a['cfg'], 'cfg_b': b['cfg']})
    pres = run_impl('build_worker', {'cases': [dict(op='collide', **p) for p in probes]}, timeout=3000)['results']
    pmodel = run_model([[601, BC.templates_for(p['cfg_b'].get('sf_prefix')), G.json_sx(dznjson.to_json(p['models'][1])), BC.cfg_sx(p['cfg_b'])] for p in probes])
    collided = 0
    for p, r, m in zip(probes, pres, pmodel):
        if 'ok' not in r:
            if nv < 5:
                nv += 1
                rep.violation(f'identity-collision probe crashed: {r}', {'probe': p})
            continue
        if not r['ok']['collided']:
            continue
        collided += 1
        rep.case(p, shape='identity collision')
        io, mm = BC.impl_outcome({'ok': r['ok']['res']}), BC.model_outcome(m)
        d = None
        if io[0] != mm[0]:
            d = f'{io[0]} ({str(io[1])[:80]}) vs {mm[0]} ({str(mm[1])[:80]})'
        elif io[0] == 'ok':
            d = BC.first_diff([f[:2] + [f[3]] for f in io[1]], mm[1])
        if d and nv < 5:
            nv += 1
            rep.violation('a build whose parsed model occupies the memory address of an earlier, dropped model differs from the build from a fresh '
                          f'state: {d}', {'probe': p, 'how': 'op collide in harness/workers/build_worker.py: build A, drop it, gc, wrap B in new FileContents objects until id() equals A\'s'})
    rep.extra['identity_collisions_achieved'] = f'{collided}/{len(probes)}'
    gate = proof_gate('C12')
    return rep.finish(gate, 'histories of 2-6 builds in one interpreter over 1-3 shared parsed models with valid, variant and faulty '
                      'configurations; deep snapshots of model and configuration before/after every build; every result compared '
                      'with the (stateless) model = build from a fresh state; support files compared with stand-alone generation; '
                      'distinct = distinct history', TRUSTED, ASSUME)


if __name__ == '__main__':
    sys.exit(main(sys.argv))
