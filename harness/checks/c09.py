"""C09 - Facility ownership follows the configured origin."""
import os
import random
import subprocess
import sys

from lib import Report, proof_gate, tier_seed
import gen_mockmodel as MM
import gen_driver as GD
import legb
from checks import shellrun as SR

TRUSTED = ['Coq 8.16.1 kernel (coqc), vm_compute', 'extraction (ExtrOcamlBasic only) + OCaml 4.13.1 + harness/ml/driver.ml',
           'g++ 12 -std=c++17 / libstdc++', 'mock dzn::locator (type-indexed map of references, clone/set/get/try_get), dzn::pump, dzn::runtime; `#pragma once` shim (K1)']
ASSUME = ['C++ initialises members in declaration order whatever the order of the mem-initialiser list',
          'partial: the meaning of the emitted constructor/FacilitiesCheck text is validated by running it, not proved']


def init_order_problem(hh, cc):
    """C++ initialises members in declaration order: every mem-initialiser of the generated constructor may only use members
    declared earlier in the generated struct (theorem C09_facility_members_initialised_in_dependency_order, here applied to the
    implementation's own text)"""
    import re
    if 'private:' not in hh:
        return None
    decl = re.findall(r'^\s+[^()\n/]*?\b(m_\w+);\s*$', hh[hh.index('private:'):], re.M)
    m = re.search(r'^\s*:\s(.*?)^\{', cc, re.M | re.S)
    if not m:
        return None
    for ini in re.split(r'\n\s*,\s', m.group(1)):
        mm = re.match(r'\s*(m_\w+)\((.*)\)\s*$', ini, re.S)
        if not mm or mm.group(1) not in decl:
            continue
        for dep in re.findall(r'\bm_\w+', mm.group(2)):
            if dep in decl and decl.index(dep) >= decl.index(mm.group(1)):
                return f'member {mm.group(1)} is initialised from {dep}, which is declared after it (declaration order {decl})'
    return None



def main(argv):
    tier, seed = tier_seed(argv)
    rep = Report('C09', tier, seed)
    rng = random.Random(seed)
    n = 8 if tier == 'quick' else 120
    cases = []
    for origin in ('create', 'import'):
        cs = SR.usable_cases(rng, n // 2)
        for c in cs:
            c['cfg']['fac'] = origin
        cases += cs
    suspects, breadth = SR.leg_a_suspects(rng, 100 if tier == 'quick' else 1000, want=None)
    rep.extra['cases_compared_with_the_model_only'] = breadth
    cases += suspects
    io, mo, plans = SR.tie_and_plans(cases)
    wd = legb.Workdir()
    nv = nfail = 0
    try:
        jobs = []
        for ci, (c, i, m, pl) in enumerate(zip(cases, io, mo, plans)):
            tp = SR.tie_problem(i, m)
            if i[0] != 'ok' or not MM.usable(pl):
                if tp and nv < 5:
                    nv += 1
                    rep.violation(f'correspondence legA:Builder.build broken: {tp}', {'file': c['file'], 'configuration': c['cfg']}, failing_input=False)
                continue
            iop = init_order_problem(i[1][0][1], i[1][1][1])
            if iop and nv < 5:
                nv += 1
                rep.violation(f'initialisation order of the generated shell: {iop}: the member is used before it is constructed',
                              {'file': c['file'], 'configuration': c['cfg']})
            jobs.append((ci, c, i[1], pl, tp))

        def work(job):
            ci, c, files, pl, tp = job
            d = wd.sub(f'c{ci}')
            legb.materialize(d, files, pl, c['cfg'], shim=True)
            open(os.path.join(d, 'driver.cc'), 'w').write(GD.facilities_driver(pl, c['cfg'], files[0][0]))
            rc, out = legb.gxx(['-o', os.path.join(d, 'drv')] + legb.includes(d) + [os.path.join(d, 'driver.cc'), os.path.join(d, files[1][0])])
            if rc:
                return ci, tp, ('compile', out), []
            runs = []
            for mask in range(8):
                p = subprocess.run([os.path.join(d, 'drv'), str(mask)], stdout=subprocess.PIPE, stderr=subprocess.STDOUT, timeout=60)
                runs.append((mask, p.returncode, p.stdout.decode(errors='replace').splitlines()))
            return ci, tp, ('ran', ''), runs
        results = legb.parallel(work, jobs)
        for ci, tp, (stage, out), runs in results:
            c = cases[ci]
            pl = plans[ci]
            problem, failing = None, True
            if stage == 'compile':
                problem = f'the generated shell (or the facilities driver) does not compile: {out[:600]}'
            for mask, rc, lines in runs:
                rep.case({'cfg': c['cfg'], 'locator': mask}, shape=f'{c["cfg"]["fac"]}/pump={mask & 1}/runtime={(mask >> 1) & 1}/extra={(mask >> 2) & 1}')
                if problem:
                    continue
                exp = GD.facilities_expected(pl, c['cfg'], mask)
                obs = [l if not l.startswith('THROWS') else 'THROWS' for l in lines]
                if rc != 0:
                    problem = f'facilities driver crashed (rc={rc}) for locator mask {mask}: {lines[-2:]}'
                elif obs != exp:
                    k = next((j for j, (a, b) in enumerate(zip(obs, exp)) if a != b), min(len(obs), len(exp)))
                    problem = (f'facilities origin {c["cfg"]["fac"]}, user locator with pump={mask & 1} runtime={(mask >> 1) & 1} extra={(mask >> 2) & 1}: '
                               f'observed "{(obs + ["<end>"])[k]}" where the property demands "{(exp + ["<end>"])[k]}"')
            if not problem and tp:
                problem, failing = f'correspondence legA:Builder.build broken (compiled behaviour still as demanded): {tp}', False
            if problem and (nv < 5 or (failing and nfail < 3)):
                nv += 1
                nfail += 1 if failing else 0
                rep.violation(problem, {'file': c['file'], 'configuration': c['cfg']}, failing_input=failing)
        rep.extra['compiled'] = len(results)
    finally:
        wd.cleanup()
    gate = proof_gate('C09')
    return rep.finish(gate, 'generated shells for both facility origins x every combination of dispatcher / runtime / another service present '
                      'or absent in the user\'s locator: what the component received (identity of locator, pump, runtime, extra service), '
                      'whether the user\'s locator was modified, which pump MTS events use, presence of the Locator() accessor (SFINAE); '
                      'distinct = distinct (configuration, locator contents)', TRUSTED, ASSUME)


if __name__ == '__main__':
    sys.exit(main(sys.argv))
