"""C02 - Each port runs under exactly the runtime semantics it was configured with (same machinery as C01; the expected
trace carries the dispatcher-context, blocking/queued and pass-through facts)."""
import sys

from checks import c01

if __name__ == '__main__':
    sys.exit(c01.run('C02', sys.argv))
