"""C19 - User text rendered as a comment can never become code."""
import random
import sys

from lib import Report, proof_gate, tier_seed
import gen_text as G
from checks import textcases as T

TRUSTED = ['Coq 8.16.1 kernel (coqc), vm_compute', 'extraction (ExtrOcamlBasic only) + OCaml 4.13.1 + harness/ml/driver.ml',
           'harness: gen_text.py, workers/text_worker.py', 'CPython 3.12 str tables (validated exhaustively in C17/C18 runs)']
ASSUME = ['a Comment is built through its constructor/append (never via the lines setter with embedded line breaks)']

ALL_BREAKS = ['\r\n', '\n', '\r', '\x0b', '\x0c', '\x1c', '\x1d', '\x1e', '\x85', ' ', ' ']


def physical_lines(text):
    """split at every character any tool could take for a line end (superset of str.splitlines)"""
    out, cur, i = [], '', 0
    while i < len(text):
        if text.startswith('\r\n', i):
            out.append(cur); cur = ''; i += 2
        elif text[i] in '\n\r\x0b\x0c\x1c\x1d\x1e\x85  ':
            out.append(cur); cur = ''; i += 1
        else:
            cur += text[i]; i += 1
    if cur:
        out.append(cur)
    return out


def main(argv):
    tier, seed = tier_seed(argv)
    rep = Report('C19', tier, seed)
    rng = random.Random(seed)
    n = 1200 if tier == 'quick' else 30000
    cases = []
    for _ in range(n):
        k = rng.random()
        if k < 0.5:
            c = ['s', G.rand_str(rng) + rng.choice(['', '\\', ' \\', '*/', '\\\n']) + G.rand_str(rng)]
        else:
            c = G.rand_content(rng, 1, wf=True)
        cases.append(T.c_comment(c, G.rand_str(rng)))
    from lib import run_impl
    bad = T.run_cases(cases, rep, vm_sample=(40 if tier == 'quick' else 300), vm_name='c19')
    # the property's own oracle, directly on the implementation's output
    impl = run_impl('text_worker', {'cases': [c[0] for c in cases]})['results']
    direct_bad = []
    for i, r in enumerate(impl):
        if 'ok' not in r:
            direct_bad.append((i, 'exception ' + str(r)))
            continue
        o = r['ok']
        for key in ('r1', 'r3', 'in_list', 'r3_iadd', 'r3_alias'):
            for pl in physical_lines(o[key]):
                if not pl.startswith('//'):
                    direct_bad.append((i, f'{key}: physical line {pl!r} does not start with //'))
        inner = physical_lines(o['in_namespace'])[1:-1]
        for pl in inner:
            if not pl.startswith('//'):
                direct_bad.append((i, f'in_namespace: physical line {pl!r} inside the namespace does not start with //'))
        if o['lines'] != o['lines_after']:
            direct_bad.append((i, 'rendering changed the lines buffer'))
        if o['r1'] != o['r2']:
            direct_bad.append((i, 'second rendering differs from the first'))
    seen = set()
    for i, what in direct_bad[:5]:
        seen.add(i)
        rep.violation(f'comment rendering violates C19 on case {i}: {what}'[:500],
                      {'case': cases[i][0], 'impl': impl[i], 'oracle': 'every physical line starts with //; rendering leaves the object unchanged'})
    for i, r, mv in [b for b in bad if b[0] not in seen][:5]:
        rep.violation(f'comment rendering: implementation differs from the proven model on case {i}: '
                      f'impl={str(r)[:200]} model={str(mv)[:200]}',
                      {'case': cases[i][0], 'impl': r, 'required_by_model': mv,
                       'theorems': 'Properties/C19.v (C19_lines_carry_text)'})
    # ---- builder level: changing only copyright / creator information changes nothing but comment lines
    import gen_build as GB
    from checks import buildcases as BC
    nb = 25 if tier == 'quick' else 500
    bcases, pairs = [], []
    for _ in range(nb):
        b = GB.gen_case(rng)
        variants = []
        for _ in range(3):
            cfg = dict(b['cfg'])
            cfg['copyright'] = G.rand_str(rng) + rng.choice(['', '\\', '*/', '\rint injected = 1;', '\x0cstatic int x;', '\u2028#define Y'])
            cfg['creator'] = rng.choice([None, G.rand_str(rng), 'tool\x85int z;', G.rand_line(rng)])
            variants.append(len(bcases))
            bcases.append({'file': b['file'], 'cfg': cfg})
        pairs.append(variants)
    bio, bmo = BC.run_builds(bcases, timeout=3000)
    # what the proven Comment model renders for each copyright text alone (op 108): both shell files must begin with exactly that
    from lib import run_model
    cps = sorted({c['cfg']['copyright'] for c in bcases})
    cp_render = dict(zip(cps, (T.ds(v[1]) for v in run_model([[108, G.content_sx(['s', x]), ''] for x in cps]))))

    def carries_copyright(files, cp):
        want = cp_render[cp].split('\n')[:-1] if cp_render[cp] else []
        for f in files[:2]:
            got = f[1].split('\n')
            if got[:len(want)] != want or got[len(want):len(want) + 2] != ['//', '// Advanced Shell']:
                k = next((n for n, (a, b) in enumerate(zip(got, want)) if a != b), len(want))
                return f'{f[0]} line {k + 1}: {got[k] if k < len(got) else None!r} where the text demands {(want + ["//", "// Advanced Shell"])[k]!r}'
        return None

    def noncomment(files):
        return [[f[0], [l for l in physical_lines(f[1]) if not l.startswith('//')]] for f in files]
    nvb = nfailb = 0
    for variants in pairs:
        for j in variants:
            rep.case({'cfg': bcases[j]['cfg']}, shape='build/' + bio[j][0])
        outs = [bio[j] for j in variants]
        problem, failing, j = None, True, variants[0]
        if any(o[0] == 'internal' for o in outs):
            j = variants[[o[0] for o in outs].index('internal')]
            problem = f'build raised {bio[j][1]}'
        elif len({o[0] for o in outs}) > 1:
            problem = f'changing only copyright/creator information changed the build outcome: {[o[0] for o in outs]}'
        elif outs[0][0] == 'ok':
            base = noncomment(outs[0][1])
            for v, o in zip(variants[1:], outs[1:]):
                nc = noncomment(o[1])
                if nc != base:
                    fn = next(a[0] for a, b2 in zip(base, nc) if a != b2)
                    la, lb = next((a[1], b2[1]) for a, b2 in zip(base, nc) if a != b2)
                    extra = [x for x in lb if x not in la][:2] + [x for x in la if x not in lb][:2]
                    problem, j = f'changing only copyright/creator information changed non-comment lines of {fn}: {extra}', v
                    break
        if not problem and outs[0][0] == 'ok':
            for v, o in zip(variants, outs):
                bad_cp = carries_copyright(o[1], bcases[v]['cfg']['copyright'])
                if bad_cp:
                    problem, j = f'the leading comment of the shell files does not carry the configured copyright text: {bad_cp}', v
                    break
        if not problem:
            for v in variants:
                i, m = bio[v], bmo[v]
                if i[0] != m[0] or (i[0] == 'ok' and BC.first_diff([f[:2] + [f[3]] for f in i[1]], m[1])):
                    d = BC.first_diff([f[:2] + [f[3]] for f in i[1]], m[1]) if i[0] == 'ok' == m[0] else f'{i[0]} vs {m[0]}'
                    problem, failing, j = f'correspondence legA:Builder.build broken: {d}', False, v
                    break
        if problem and (nvb < 4 or (failing and nfailb < 3)):
            nvb += 1
            nfailb += 1 if failing else 0
            rep.violation(problem, {'file': bcases[j]['file'], 'configuration': bcases[j]['cfg'],
                                    'other_variants': [bcases[v]['cfg'] for v in variants]}, failing_input=failing)
    rep.extra['builds_varying_only_copyright_creator'] = len(bcases)
    gate = proof_gate('C19')
    return rep.finish(gate, 'hostile strings (all line-break code points, trailing backslashes, */, blank lines, leading '
                      'whitespace) and nested content as Comment text; each case: render, render again, extend, render, '
                      'use nested in a TextBlock and directly; distinct = distinct canonical input', TRUSTED, ASSUME)


if __name__ == '__main__':
    sys.exit(main(sys.argv))
