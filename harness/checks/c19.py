"""C19 - User text rendered as a comment can never become code."""
import random
import sys

from lib import Report, proof_gate, tier_seed
import gen_text as G
from checks import textcases as T

TRUSTED = ['Coq 8.16.1 kernel (coqc), vm_compute', 'extraction (ExtrOcamlBasic only) + OCaml 4.13.1 + harness/ml/driver.ml',
           'harness: gen_text.py, workers/text_worker.py', 'CPython 3.12 str tables (validated exhaustively in C17/C18 runs)']
ASSUME = ['a Comment is built through its constructor/append (never via the lines setter with embedded line breaks)']

ALL_BREAKS = ['\r\n', '\n', '\r', '\x0b', '\x0c', '\x1c', '\x1d', '\x1e', '\x85', ' ', ' ']


def physical_lines(text):
    """split at every character any tool could take for a line end (superset of str.splitlines)"""
    out, cur, i = [], '', 0
    while i < len(text):
        if text.startswith('\r\n', i):
            out.append(cur); cur = ''; i += 2
        elif text[i] in '\n\r\x0b\x0c\x1c\x1d\x1e\x85  ':
            out.append(cur); cur = ''; i += 1
        else:
            cur += text[i]; i += 1
    if cur:
        out.append(cur)
    return out


def main(argv):
    tier, seed = tier_seed(argv)
    rep = Report('C19', tier, seed)
    rng = random.Random(seed)
    n = 1200 if tier == 'quick' else 30000
    cases = []
    for _ in range(n):
        k = rng.random()
        if k < 0.5:
            c = ['s', G.rand_str(rng) + rng.choice(['', '\\', ' \\', '*/', '\\\n']) + G.rand_str(rng)]
        else:
            c = G.rand_content(rng, 1, wf=True)
        cases.append(T.c_comment(c, G.rand_str(rng)))
    from lib import run_impl
    bad = T.run_cases(cases, rep, vm_sample=(40 if tier == 'quick' else 300), vm_name='c19')
    # the property's own oracle, directly on the implementation's output
    impl = run_impl('text_worker', {'cases': [c[0] for c in cases]})['results']
    direct_bad = []
    for i, r in enumerate(impl):
        if 'ok' not in r:
            direct_bad.append((i, 'exception ' + str(r)))
            continue
        o = r['ok']
        for key in ('r1', 'r3', 'in_list'):
            for pl in physical_lines(o[key]):
                if not pl.startswith('//'):
                    direct_bad.append((i, f'{key}: physical line {pl!r} does not start with //'))
        if o['lines'] != o['lines_after']:
            direct_bad.append((i, 'rendering changed the lines buffer'))
        if o['r1'] != o['r2']:
            direct_bad.append((i, 'second rendering differs from the first'))
    seen = set()
    for i, what in direct_bad[:5]:
        seen.add(i)
        rep.violation(f'comment rendering violates C19 on case {i}: {what}'[:500],
                      {'case': cases[i][0], 'impl': impl[i], 'oracle': 'every physical line starts with //; rendering leaves the object unchanged'})
    for i, r, mv in [b for b in bad if b[0] not in seen][:5]:
        rep.violation(f'comment rendering: implementation differs from the proven model on case {i}: '
                      f'impl={str(r)[:200]} model={str(mv)[:200]}',
                      {'case': cases[i][0], 'impl': r, 'required_by_model': mv,
                       'theorems': 'Properties/C19.v (C19_lines_carry_text)'})
    gate = proof_gate('C19')
    return rep.finish(gate, 'hostile strings (all line-break code points, trailing backslashes, */, blank lines, leading '
                      'whitespace) and nested content as Comment text; each case: render, render again, extend, render, '
                      'use nested in a TextBlock and directly; distinct = distinct canonical input', TRUSTED, ASSUME)


if __name__ == '__main__':
    sys.exit(main(sys.argv))
