"""Case builders for the text kernel: each case = (impl_request, model_request, decode(model_reply) -> value
comparable with the implementation's result)."""
from lib import ds, dss
from gen_text import content_sx, indcfg_sx


def dec_tb(v):
    return [dss(v[0]), dss(v[1]), ds(v[2])]


def dec_otb(v):
    return None if not v else dec_tb(v[0])


def c_flatten(c, skip):
    return ({'op': 'flatten', 'c': c, 'skip': skip}, [100, bool(skip), content_sx(c)], dss)


def c_mk(c, h):
    return ({'op': 'mk', 'c': c, 'h': h}, [101, content_sx(c), content_sx(h)], dec_tb)


def op_sx(op):
    k = op[0]
    if k in ('append', 'iadd'):
        return [1, content_sx(op[1])]
    if k == 'add':
        return [2, content_sx(op[1])]
    if k == 'trim':
        return [3, bool(op[1])]
    if k == 'indent':
        return [4, indcfg_sx(op[1])]
    if k == 'setlines':
        return [5, list(op[1])]
    raise ValueError(k)


DEFAULT_INDCFG = [False, 4, None]     # TextBlock's own Indentizer(): four spaces, no bullets


def c_hist(c, h, ops):
    # `indent_again` = indent() without argument: the block applies the indentation options it was last given
    # (indent(ind) = set_indentor(ind).indent()); a block created by `+` starts with the default options again
    wire, last = [], None
    for o in ops:
        if o[0] == 'indent':
            last = o[1]
        if o[0] == 'add':
            last = None
        wire.append([4, indcfg_sx(last or DEFAULT_INDCFG)] if o[0] == 'indent_again' else op_sx(o))
    return ({'op': 'hist', 'c': c, 'h': h, 'ops': ops},
            [102, content_sx(c), content_sx(h), wire],
            lambda v: [dec_tb(x) for x in v])


def c_to_list(cfg, c):
    return ({'op': 'to_list', 'cfg': cfg, 'c': c}, [103, indcfg_sx(cfg), content_sx(c)], dss)


def c_to_str(cfg, c):
    return ({'op': 'to_str', 'cfg': cfg, 'c': c}, [104, indcfg_sx(cfg), content_sx(c)], ds)


def c_helper(which, arg, c, form):
    """all_dashes_t / initial_dash_t: two spaces (or a tab), dash bullets on all lines / the first line only; None means spaces"""
    cfg = [arg == 'tab', 2, [which == 'first', '-']]
    return ({'op': 'helper', 'helper': which, 'arg': arg, 'c': c, 'form': form},
            [103 if form == 'list' else 104, indcfg_sx(cfg), content_sx(c)], dss if form == 'list' else ds)


def c_chunk(c, a, default=False):
    aa = ['s', '\n'] if default else a
    return ({'op': 'chunk', 'c': c, 'a': aa, 'default_appendix': default}, [105, content_sx(c), content_sx(aa)], dec_otb)


def c_cond_chunk(p, c, e, a, aon):
    return ({'op': 'cond_chunk', 'p': p, 'c': c, 'e': e, 'a': a, 'aon': aon},
            [106, content_sx(p), content_sx(c), content_sx(e), content_sx(a), bool(aon)], dec_otb)


def c_splitlines(s):
    return ({'op': 'splitlines', 's': s}, [110, s], dss)


def c_strip(s):
    return ({'op': 'strip', 's': s}, [113, s], ds)


def c_table(which, lo, n):
    return ({'op': 'table', 'which': which, 'lo': lo, 'n': n}, [111 if which == 'space' else 112, lo, n], list)


def run_cases(cases, rep, worker='text_worker', label=None, shape=None, vm_sample=0, vm_name='text'):
    """Run cases through implementation and model; returns list of (index, impl_result, model_value)."""
    from lib import run_impl, run_model, run_model_vm
    if not cases:
        return []
    impl = run_impl(worker, {'cases': [c[0] for c in cases]})['results']
    model = run_model([c[1] for c in cases])
    bad = []
    for i, (c, r, m) in enumerate(zip(cases, impl, model)):
        mv = c[2](m) if m != [-1] and m != [-2] else {'model_error': m}
        rep.case(c[0], shape=(shape(c[0]) if shape else c[0]['op']))
        if 'ok' not in r or r['ok'] != mv:
            bad.append((i, r, mv))
    if vm_sample:
        # re-check a slice of the same cases inside coqc (vm_compute), without extraction/OCaml
        step = max(1, len(cases) // vm_sample)
        idx = list(range(0, len(cases), step))[:vm_sample]
        reqs = [cases[i][1] for i in idx]
        exps = [model[i] for i in idx]
        mism = run_model_vm(reqs, exps, vm_name)
        rep.extra['vm_compute_rechecked'] = rep.extra.get('vm_compute_rechecked', 0) + len(idx)
        if mism:
            rep.violation('extracted model and vm_compute disagree (extraction/driver fault)',
                          {'correspondence': 'extraction-vs-vm_compute', 'requests': [reqs[i] for i in mism[:3]]},
                          failing_input=False)
    return bad


def c_comment(c, more):
    def dec(v):
        return {'lines': dss(v[0]), 'r1': ds(v[1]), 'lines_after': dss(v[0]), 'r2': ds(v[1]),
                'lines_ext': dss(v[2]), 'r3': ds(v[3]), 'plus_lines': dss(v[2]), 'in_list': ds(v[4]), 'direct': dss(v[5]),
                # (`comment + x`: concatenation of the lines, like append)
                # `+=` is append on the same object (TextGen.iadd = append in the model)
                # a comment as the whole contents of a namespace: head line, the rendered comment, tail line (or the one-liner)
                'in_namespace': ('namespace My::Reserved {\n' + ds(v[1]) + '} // namespace My::Reserved\n') if dss(v[0]) else 'namespace My::Reserved {}\n',
                'iadd_same_object': True, 'iadd_type': 'Comment', 'r3_iadd': ds(v[3]), 'r3_alias': ds(v[3])}
    return ({'op': 'comment', 'c': c, 'more': more}, [108, content_sx(c), more], dec)
