"""C17 - Text blocks keep one line per entry and flatten content losslessly."""
import random
import sys

from lib import Report, proof_gate, tier_seed
import gen_text as G
from checks import textcases as T

TRUSTED = ['Coq 8.16.1 kernel (coqc), vm_compute', 'extraction (ExtrOcamlBasic only) + OCaml 4.13.1 + harness/ml/driver.ml',
           'harness: gen_text.py, workers/text_worker.py (content construction), comparison of .lines/_header/str()',
           'CPython 3.12 str.splitlines table (validated exhaustively over all code points in this run)']
ASSUME = ['strings are sequences of code points; the lines setter is outside "put into a text block" (exercised, model mirrors it)']


def main(argv):
    tier, seed = tier_seed(argv)
    rep = Report('C17', tier, seed)
    rng = random.Random(seed)
    G.ALLOW_STR_SUBCLASS = True
    n = 1500 if tier == 'quick' else 40000
    cases = []
    for _ in range(n):
        k = rng.random()
        c = G.rand_content(rng)
        if k < 0.2:
            cases.append(T.c_flatten(c, rng.random() < 0.5))
        elif k < 0.4:
            h = G.rand_content(rng, 2) if rng.random() < 0.4 else ['n']
            cases.append(T.c_mk(c, h))
        elif k < 0.7:
            h = G.rand_content(rng, 3) if rng.random() < 0.3 else ['n']
            ops = []
            for _ in range(rng.randint(1, 5)):
                j = rng.random()
                if j < 0.35:
                    ops.append([rng.choice(['append', 'iadd']), G.rand_content(rng, 2)])
                elif j < 0.55:
                    ops.append(['add', G.rand_content(rng, 2)])
                elif j < 0.75:
                    ops.append(['trim', rng.random() < 0.3])
                elif j < 0.9:
                    ops.append(['setlines', [G.rand_str(rng) for _ in range(rng.randint(0, 3))]])
                elif j < 0.97:
                    ops.append(['indent', G.rand_indcfg(rng)])
                else:
                    ops.append(['indent_again'])
            cases.append(T.c_hist(c, h, ops))
        elif k < 0.8:
            if rng.random() < 0.5:
                cases.append(T.c_chunk(c, None, default=True))
            else:
                cases.append(T.c_chunk(c, G.rand_content(rng, 3)))
        elif k < 0.9:
            cases.append(T.c_cond_chunk(G.rand_content(rng, 3), c, G.rand_content(rng, 3),
                                        ['s', '\n'] if rng.random() < 0.5 else G.rand_content(rng, 3),
                                        rng.random() < 0.5))
        else:
            cases.append(T.c_splitlines(G.rand_str(rng) + G.rand_str(rng)))
    # round trip: a block's string form fed back in (the implementation's own str() is the input)
    # exhaustive table of line-break code points
    step = 0x8000
    for lo in range(0, 0x110000, step):
        cases.append(T.c_table('break', lo, step))
    bad = T.run_cases(cases, rep, vm_sample=(60 if tier == 'quick' else 400), vm_name='c17')
    for i, r, mv in bad[:5]:
        rep.violation(f'text kernel: implementation result differs from the proven model on case {i}: '
                      f'impl={str(r)[:200]} model={str(mv)[:200]}',
                      {'case': cases[i][0], 'impl': r, 'required_by_model': mv,
                       'theorems': 'Properties/C17.v (model = specification)'})
    rep.extra['exhaustive_tables'] = ['is_linebreak over all 0x110000 code points']
    gate = proof_gate('C17')
    return rep.finish(gate, 'seeded random content trees (None/str/int/object/list/dict/TextBlock/Comment, depth<=4) '
                      'over an alphabet with all 10 line-break and 10 whitespace code points; operation histories '
                      'append/+=/+/trim/indent/lines-setter; chunk/cond_chunk; distinct = distinct canonical input',
                      TRUSTED, ASSUME)


if __name__ == '__main__':
    sys.exit(main(sys.argv))
