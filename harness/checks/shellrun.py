"""Shared by the C++-level checks (C01, C02, C09, C10): build, tie to the model, compile against the mock runtime, run a driver."""
import os

import gen_build as GB
import gen_mockmodel as MM
import gen_driver as GD
import legb
from checks import buildcases as BC


def usable_cases(rng, n, want=None, maxtries=None):
    """generated valid cases whose plan can be laid out by the mock header generator and that compile as C++
    (identifier-safe file name; no capitalisation collisions among port names - known finding K6)"""
    out = []
    tries = 0
    while len(out) < n and tries < (maxtries or 30 * n):
        tries += 1
        c = GB.gen_case(rng)
        c['cfg']['file'] = c['cfg']['file'].replace('My.Model', 'MyModel')
        import re
        stem = os.path.splitext(os.path.basename(c['cfg']['file']))[0] + c['cfg'].get('suffix', 'AdvShell')
        if not re.match(r'^[A-Za-z_][A-Za-z0-9_]*$', stem):
            continue                      # K8: the shell struct is named after the file; not a C++ identifier here
        if len(c['cfg']['enc']) == 1:
            continue                      # K2: global-namespace encapsulee cannot be used from the driver's translation unit
        names = [p[0] for p in c['info']['ports']]
        if len({x[0].upper() + x[1:] for x in names}) != len(names):
            continue
        if want and not want(c):
            continue
        out.append({'file': c['file'], 'cfg': c['cfg']})
    return out


def sibling(case):
    """the same model with every event signature altered (directions flipped, a parameter dropped): built in the same
    interpreter right before the case itself, so that anything remembered across builds under a name would leak"""
    import copy
    s = copy.deepcopy(case)

    def walk(ds):
        for d in ds:
            if d[0] == 'itf':
                for e in d[3]:
                    if e[1] == 'in':
                        for f in e[3]:
                            f[2] = {'in': 'inout', 'inout': 'in', 'out': 'in'}[f[2]]
                    e[3] = e[3][1:] if len(e[3]) > 1 else e[3]
            elif d[0] == 'ns':
                walk(d[2])
    walk(s['file'])
    # ... under the opposite runtime semantics (no multi-client port: it needs MTS)
    pc = s['cfg']['ports']
    flip = lambda pair: [pair[1], pair[0]]   # noqa: E731
    s['cfg'] = dict(s['cfg'], ports={'p': flip(pc['p']), 'r': flip(pc['r'])})
    return s


def mixed_semantics_cases(patterns=('MSM', 'SMS', 'MMS', 'SSM', 'SM', 'MS')):
    """provides and requires ports whose configured semantics alternate in declaration order (explicit name sets),
    so that anything that groups, sorts or partitions the ports by semantics shows"""
    out = []
    for pat in patterns:
        for flip in (False, True):
            pp = [f'p{k}' for k in range(len(pat))]
            rp = [f'r{k}' for k in range(len(pat))]
            ports = [[n, ['ICtl'], 'provides', False] for n in pp] + [[n, ['ICtl'], 'requires', False] for n in rp] + [['log', ['ILog'], 'requires', True]]
            file = [['extern', ['Int'], 'int'],
                    ['ns', ['My'], [['itf', ['ICtl'], [], [['Start', 'in', ['void'], [['n', ['Int'], 'in']]], ['Started', 'out', ['void'], [['n', ['Int'], 'in']]]]],
                                    ['itf', ['ILog'], [], [['Write', 'in', ['void'], []]]],
                                    ['comp', ['Mixed'], ports]]]]
            rpat = pat if not flip else pat[::-1].replace('M', 'x').replace('S', 'M').replace('x', 'S')

            def sel(names, pattern):
                s = [n for n, k in zip(names, pattern) if k == 'S']
                m = [n for n, k in zip(names, pattern) if k == 'M']
                return [['s', s] if s else ['w', 'none'], ['s', m] if m else ['w', 'none']]
            # (mixed STS/MTS *provides* ports are refused by the library: the provides side is uniform)
            out.append({'file': file, 'cfg': {'file': 'Mixed.dzn', 'enc': ['My', 'Mixed'], 'fac': 'create' if flip else 'import',
                                               'ports': {'p': sel(pp, ('S' if flip else 'M') * len(pp)), 'r': sel(rp, rpat)}}})
    return out


def prefix_name_cases():
    """port names that are prefixes of each other, with the multi-client port the longer, the shorter and the middle one"""
    out = []
    names = ['toast', 'toaster', 'toasterExclusive']
    for mcname, same in [(n, False) for n in names] + [('toaster', True), ('toasterExclusive', True)]:
        # same=True: every provides port has the multi-client interface (claim/release events exist on all of them)
        ports = [[n, ['IArb'] if (n == mcname or same) else ['ICtl'], 'provides', False] for n in names] + \
                [['hal', ['ICtl'], 'requires', False], ['hal2', ['ICtl'], 'requires', False]]
        file = [['extern', ['Int'], 'int'],
                ['ns', ['My'], [['itf', ['IArb'], [['enum', ['Result'], ['Ok', 'No']]],
                                 [['Claim', 'in', ['Result'], [['n', ['Int'], 'in']]], ['Release', 'in', ['void'], []], ['Use', 'in', ['void'], []],
                                  ['Done', 'out', ['void'], [['n', ['Int'], 'in']]]]],
                                ['itf', ['ICtl'], [], [['Start', 'in', ['void'], []], ['Started', 'out', ['void'], []]]],
                                ['comp', ['Kitchen'], ports]]]]
        out.append({'file': file, 'cfg': {'file': 'Kitchen.dzn', 'enc': ['My', 'Kitchen'], 'fac': 'create',
                                           'ports': {'p': [['w', 'none'], ['w', 'all']], 'r': [['s', ['hal']], ['s', ['hal2']]],
                                                     'mc': [mcname, 'Claim', ['Ok'], 'Release']}}})
    return out


def shadowed_extern_cases():
    """the same extern name bound to different C++ types in the interface's namespace and in the component's namespace (each scope
    chain sees exactly one of them): the formals of an event are typed as seen from the interface that declares the event"""
    out = []
    for k, (itf_path, comp_path, comp_type) in enumerate([(['Lib'], ['App'], 'int'), (['Lib', 'Deep'], ['App'], 'std::string'), (['Lib'], ['App', 'Inner'], 'int')]):
        dev = ['itf', ['IDev'], [], [['Poke', 'in', ['void'], [['v', ['Val'], 'in']]], ['Level', 'out', ['void'], [['v', ['Val'], 'in'], ['w', ['Val'], 'in']]]]]
        inner = [['extern', ['Val'], 'double'], dev]
        lib = ['ns', [itf_path[0]], inner if len(itf_path) == 1 else [['ns', [itf_path[1]], inner]]]
        ctl = ['itf', ['ICtl'], [], [['Go', 'in', ['void'], [['n', ['Val'], 'in']]], ['Went', 'out', ['void'], [['n', ['Val'], 'in']]]]]
        comp = ['comp', ['Box'], [['ctl', ['ICtl'], 'provides', False], ['dev', itf_path + ['IDev'], 'requires', False], ['dev2', itf_path + ['IDev'], 'requires', False]]]
        body = [['extern', ['Val'], comp_type], ctl] + ([comp] if len(comp_path) == 1 else [['ns', [comp_path[1]], [comp]]])
        file = [lib, ['ns', [comp_path[0]], body]]
        for pc in ({'p': [['w', 'none'], ['w', 'all']], 'r': [['w', 'none'], ['w', 'all']]}, {'p': [['w', 'all'], ['w', 'none']], 'r': [['s', ['dev2']], ['s', ['dev']]]}):
            out.append({'file': file, 'cfg': {'file': 'Box.dzn', 'enc': comp_path + ['Box'], 'fac': 'import' if k % 2 else 'create', 'ports': pc}})
    return out


def mc_name_containment_cases():
    """multi-client interfaces whose event names contain one another (TryClaim/Claim, ReleaseAll/Release, Use/UseUp), declared in
    both orders, with either of each pair configured as the claim / release event"""
    out = []
    pairs = [('TryClaim', 'Claim'), ('ReleaseAll', 'Release')]
    for k, (order, pick) in enumerate([(0, 1), (0, 0), (1, 1), (1, 0)]):
        cl = list(pairs[0]) if order == 0 else list(pairs[0])[::-1]
        rl = list(pairs[1]) if order == 0 else list(pairs[1])[::-1]
        events = [[cl[0], 'in', ['Result'], [['n', ['Int'], 'in']]], ['UseUp', 'in', ['void'], []], [cl[1], 'in', ['Result'], [['n', ['Int'], 'in']]],
                  [rl[0], 'in', ['void'], []], ['Use', 'in', ['Result'], []], [rl[1], 'in', ['void'], []],
                  ['Done', 'out', ['void'], [['n', ['Int'], 'in']]], ['DoneAll', 'out', ['void'], []]]
        file = [['extern', ['Int'], 'int'],
                ['ns', ['My'], [['itf', ['IArb'], [['enum', ['Result'], ['NotOk', 'Ok']]], events],
                                ['comp', ['Desk'], [['api', ['IArb'], 'provides', False], ['api2', ['IArb'], 'provides', False]]]]]]
        out.append({'file': file, 'cfg': {'file': 'Desk.dzn', 'enc': ['My', 'Desk'], 'fac': 'create' if k % 2 else 'import',
                                           'ports': {'p': [['w', 'none'], ['w', 'all']], 'r': [['w', 'none'], ['w', 'all']],
                                                     'mc': ['api', pairs[0][pick], ['Ok'], pairs[1][pick]]}}})
    return out


def many_cases():
    """twelve ports, eleven events per direction and eleven parameters, declared in an order that is neither numeric nor
    alphabetical: anything that orders by string, assumes single digits or stops early shows"""
    order = [10, 2, 1, 11, 3, 9, 4, 12, 5, 8, 6, 7]
    ev_in = [[f'e{k}', 'in', ['void'] if k % 3 else ['Result'], [[f'a{j}', ['Int'], 'in'] for j in ([3, 1, 2] if k == 2 else [])]] for k in order[:11]]
    ev_in[0][3] = [[f'a{j}', ['Int'] if j % 2 else ['Str'], 'in' if j % 3 else 'inout'] for j in order[:11]]
    ev_out = [[f'o{k}', 'out', ['void'], [[f'b{j}', ['Int'], 'in'] for j in ([2, 10, 1] if k == 10 else [])]] for k in order[:11]]
    itf = ['itf', ['IMany'], [['enum', ['Result'], ['R10', 'R2', 'R1']]], ev_in + ev_out]
    ports = [[f'p{k}', ['IMany'], 'provides' if n < 6 else 'requires', False] for n, k in enumerate(order)]
    file = [['extern', ['Int'], 'int'], ['extern', ['Str'], 'std::string'], ['ns', ['My'], [itf, ['comp', ['Many'], ports]]]]
    req = [p[0] for p in ports if p[2] == 'requires']
    out = []
    for pc in ({'p': [['w', 'none'], ['w', 'all']], 'r': [['s', req[::2]], ['s', req[1::2]]]},
               {'p': [['w', 'all'], ['w', 'none']], 'r': [['w', 'none'], ['w', 'all']]}):
        out.append({'file': file, 'cfg': {'file': 'Many.dzn', 'enc': ['My', 'Many'], 'fac': 'create', 'ports': pc}})
    mc = {'p': [['w', 'none'], ['w', 'all']], 'r': [['w', 'none'], ['w', 'all']], 'mc': ['p11', 'e9', ['R1'], 'e10']}
    out.append({'file': file, 'cfg': {'file': 'Many.dzn', 'enc': ['My', 'Many'], 'fac': 'import', 'ports': mc}})
    return out


def case_only_cases():
    """events (and enum fields) whose names differ only in letter case; either one configured as claim / release"""
    out = []
    events = [['Reserve', 'in', ['Result'], []], ['reserve', 'in', ['void'], []], ['RESERVE', 'in', ['Result'], []], ['Use', 'in', ['void'], []],
              ['Done', 'out', ['void'], []], ['done', 'out', ['void'], []]]
    file = [['ns', ['My'], [['itf', ['IArb'], [['enum', ['Result'], ['ok', 'Ok', 'OK']]], events],
                            ['comp', ['Desk'], [['api', ['IArb'], 'provides', False], ['dev', ['IArb'], 'requires', False]]]]]]
    for claim, grant, release in (('Reserve', 'Ok', 'reserve'), ('RESERVE', 'ok', 'reserve'), ('Reserve', 'OK', 'Use')):
        out.append({'file': file, 'cfg': {'file': 'Desk.dzn', 'enc': ['My', 'Desk'], 'fac': 'create',
                                           'ports': {'p': [['w', 'none'], ['w', 'all']], 'r': [['w', 'none'], ['w', 'all']], 'mc': ['api', claim, [grant], release]}}})
    return out


def pointer_extern_cases():
    """externs whose C++ type is a pointer (to const, to non-const), as parameters in every direction on MTS and STS ports"""
    itf = ['itf', ['IDev'], [['enum', ['Result'], ['Ok', 'No']]],
           [['Poke', 'in', ['Result'], [['name', ['PStr'], 'in'], ['inc', ['PInc'], 'inout'], ['got', ['PStr'], 'out']]],
            ['Level', 'out', ['void'], [['name', ['PStr'], 'in'], ['inc', ['PInc'], 'in']]]]]
    file = [['extern', ['PStr'], 'const char*'], ['extern', ['PInc'], '::Incident*'],
            ['ns', ['My'], [itf, ['comp', ['Box'], [['ctl', ['IDev'], 'provides', False], ['dev', ['IDev'], 'requires', False], ['dev2', ['IDev'], 'requires', False]]]]]]
    out = []
    for pc in ({'p': [['w', 'none'], ['w', 'all']], 'r': [['w', 'none'], ['w', 'all']]}, {'p': [['w', 'all'], ['w', 'none']], 'r': [['s', ['dev2']], ['s', ['dev']]]}):
        out.append({'file': file, 'cfg': {'file': 'Box.dzn', 'enc': ['My', 'Box'], 'fac': 'create', 'ports': pc}})
    return out


def tie_and_plans(cases):
    """(impl outcomes, model outcomes, plans); a case is 'tied' when the implementation's files equal the model's byte for byte.
    Every case is preceded, in the same interpreter, by a build of its sibling."""
    mixed = []
    for c in cases:
        mixed.append(sibling(c))
        mixed.append(c)
    io, mo = BC.run_builds(mixed)
    plans = legb.plans_for(cases)
    return io[1::2], mo[1::2], plans


def leg_a_suspects(rng, n, want=None, limit=6):
    """breadth without compiling: n more generated cases are only compared byte for byte with the model (Leg A); those that
    disagree are returned so that the caller compiles and runs exactly them in its search for a failing input"""
    extra = usable_cases(rng, n, want=want, maxtries=40 * n)
    if not extra:
        return [], 0
    mixed = []
    for c in extra:
        mixed.append(sibling(c))
        mixed.append(c)
    io, mo = BC.run_builds(mixed)
    sus = [c for c, i, m in zip(extra, io[1::2], mo[1::2]) if tie_problem(i, m)]
    return sus[:limit], len(extra)


def tie_problem(i, m):
    if i[0] != m[0]:
        return f'implementation {i[0]} ({str(i[1])[:80]}) vs model {m[0]} ({str(m[1])[:80]})'
    if i[0] == 'ok':
        return BC.first_diff([f[:2] + [f[3]] for f in i[1]], m[1])
    return None


def compile_and_run(wd, tag, case, files, plan, driver_text, sanitize=False):
    """-> (stage, rc, output): stage in compile-shell / compile-driver / link / run"""
    d = wd.sub(tag)
    legb.materialize(d, files, plan, case['cfg'], shim=True)
    shell_cc = files[1][0]
    san = ['-fsanitize=address', '-fno-omit-frame-pointer', '-g'] if sanitize else []
    rc, out = legb.gxx(san + ['-c', '-o', os.path.join(d, 'shell.o')] + legb.includes(d) + [os.path.join(d, shell_cc)])
    if rc:
        return 'compile-shell', rc, out
    open(os.path.join(d, 'driver.cc'), 'w').write(driver_text)
    rc, out = legb.gxx(san + ['-c', '-o', os.path.join(d, 'driver.o')] + legb.includes(d) + [os.path.join(d, 'driver.cc')])
    if rc:
        return 'compile-driver', rc, out
    rc, out = legb.gxx(san + ['-o', os.path.join(d, 'driver'), os.path.join(d, 'driver.o'), os.path.join(d, 'shell.o')])
    if rc:
        return 'link', rc, out
    env = dict(os.environ)
    env['ASAN_OPTIONS'] = 'detect_stack_use_after_return=1:detect_leaks=0'
    import subprocess
    try:
        p = subprocess.run([os.path.join(d, 'driver')], stdout=subprocess.PIPE, stderr=subprocess.STDOUT, timeout=60, env=env)
    except subprocess.TimeoutExpired:
        return 'run', -9, 'TIMEOUT (deadlock or endless loop)'
    return 'run', p.returncode, p.stdout.decode(errors='replace')


def trace_diff(observed_text, expected_lines):
    obs = [l.rstrip() for l in observed_text.splitlines() if l.strip()]
    exp = [l.rstrip() for l in expected_lines]
    for k, (a, b) in enumerate(zip(obs, exp)):
        if a != b:
            step = next((x for x in reversed(exp[:k + 1]) if x.startswith('STEP')), '?')
            return f'at "{step}": observed "{a}" where the property demands "{b}"'
    if len(obs) != len(exp):
        return f'observed {len(obs)} trace lines, expected {len(exp)}; first extra/missing: {(obs + [""])[len(exp):len(exp) + 1] or exp[len(obs):len(obs) + 1]}'
    return None
