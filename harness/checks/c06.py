"""C06 - Generated files form valid, self-contained C++ for every model and configuration."""
import os
import random
import sys

from lib import Report, proof_gate, tier_seed, load_known
import gen_build as GB
import gen_mockmodel as MM
import legb
from checks import buildcases as BC

TRUSTED = ['Coq 8.16.1 kernel (coqc), vm_compute', 'extraction (ExtrOcamlBasic only) + OCaml 4.13.1 + harness/ml/driver.ml',
           'g++ 12 -std=c++17 and libstdc++', 'mock Dezyne runtime harness/cpp/mock/dzn/*.hh and the mock model header generated from the '
           'model-resolved plan (gen_mockmodel.py): stand-ins for the real Dezyne runtime/generated code, which are not in the sandbox']
ASSUME = ['"compiles as C++17" is a fact about a compiler: validated by compiling the UNMODIFIED generated files (partial)',
          'sub-checks are reported separately so that the known findings K1/K2/K8 do not mask other C06 violations; where a later '
          'sub-check needs a compilable unit the documented `#pragma once` shim is applied']

CXX_ID = __import__('re').compile(r'^[A-Za-z_][A-Za-z0-9_]*$')


def main(argv):
    tier, seed = tier_seed(argv)
    rep = Report('C06', tier, seed)
    rng = random.Random(seed)
    known = {k['id']: k for k in load_known()['known']}
    n = 16 if tier == 'quick' else 300
    cases = []
    tries = 0
    while len(cases) < n and tries < 20 * n:
        tries += 1
        c = GB.gen_case(rng)
        if len(cases) % 4 != 0:
            # a file name that is not a C++ identifier is one finding (K8) and hides everything else about the case:
            # keep it in a quarter of the cases only
            c['cfg']['file'] = c['cfg']['file'].replace('My.Model', 'MyModel')
        cases.append({'file': c['file'], 'cfg': c['cfg']})
    # make sure a global-namespace encapsulee, an empty interface and a component without ports occur
    cases.append({'file': [['itf', ['IEmpty'], [], []], ['comp', ['G'], [['p', ['IEmpty'], 'provides', False]]]],
                  'cfg': {'file': 'G.dzn', 'enc': ['G'], 'ports': {'p': [['w', 'none'], ['w', 'all']], 'r': [['w', 'none'], ['w', 'all']]}}})
    cases.append({'file': [['ns', ['N'], [['comp', ['NoPorts'], []]]]],
                  'cfg': {'file': 'NoPorts.dzn', 'enc': ['N', 'NoPorts'], 'sf_prefix': ['Pre'],
                          'ports': {'p': [['w', 'all'], ['w', 'none']], 'r': [['w', 'all'], ['w', 'none']]}}})
    # names that collide under unqualified C++ lookup: a component named like its enclosing namespace, an interface named like
    # the component, a namespace named like an extern's C++ namespace
    cases.append({'file': [['extern', ['PInt'], 'int'],
                           ['ns', ['Toaster'], [['itf', ['IApi'], [], [['Start', 'in', ['void'], [['n', ['PInt'], 'in']]], ['Done', 'out', ['void'], []]]],
                                                ['comp', ['Toaster'], [['api', ['IApi'], 'provides', False], ['hal', ['IApi'], 'requires', False]]]]]],
                  'cfg': {'file': 'Toaster.dzn', 'enc': ['Toaster', 'Toaster'], 'fac': 'create',
                          'ports': {'p': [['w', 'none'], ['w', 'all']], 'r': [['w', 'none'], ['w', 'all']]}}})
    cases.append({'file': [['extern', ['PInt'], 'int'],
                           ['ns', ['Toaster'], [['itf', ['IApi'], [], [['Start', 'in', ['void'], [['n', ['PInt'], 'in']]], ['Done', 'out', ['void'], []]]],
                                                ['comp', ['Toaster'], [['api', ['IApi'], 'provides', False], ['hal', ['IApi'], 'requires', False]]]]]],
                  'cfg': {'file': 'Toaster.dzn', 'enc': ['Toaster', 'Toaster'], 'fac': 'import', 'sf_prefix': ['Toaster'],
                          'ports': {'p': [['w', 'all'], ['w', 'none']], 'r': [['w', 'all'], ['w', 'none']]}}})
    # multi-client shells with and without a support-file prefix, created and imported facilities, odd event names
    from checks.c11 import fixed_cases
    for fc in fixed_cases():
        cases.append(fc)
        alt = {'file': fc['file'], 'cfg': dict(fc['cfg'])}
        alt['cfg']['sf_prefix'] = None if fc['cfg'].get('sf_prefix') else ['Acme', 'Lib']
        alt['cfg']['fac'] = 'import' if fc['cfg'].get('fac') == 'create' else 'create'
        cases.append(alt)
    # the multi-client port declared after / between other provides ports; twelve ports
    from checks import shellrun as SR
    cases += SR.pointer_extern_cases()
    cases += SR.prefix_name_cases()[1:3] + SR.many_cases()[2:] if tier == 'quick' else SR.prefix_name_cases() + SR.many_cases() + SR.mc_name_containment_cases()
    io, mo = BC.run_builds(cases)
    plans = legb.plans_for(cases)
    ties = []
    wd = legb.Workdir()
    found = {'K1': 0, 'K2': 0, 'K8': 0, 'K9': 0, 'K10': 0}
    viol = []
    try:
        jobs = []
        for ci, (c, i, m, pl) in enumerate(zip(cases, io, mo, plans)):
            from checks.shellrun import tie_problem
            tp = tie_problem(i, m)
            if tp:
                ties.append((ci, tp))
            if i[0] != 'ok' or not MM.usable(pl):
                continue
            files = i[1]
            rep.case({'cfg': c['cfg'], 'file': c['file']}, shape=('mc' if c['cfg']['ports'].get('mc') else 'plain') +
                     ('/global-ns' if len(c['cfg']['enc']) == 1 else ''))
            names = {f[0] for f in files}
            orig = legb.orig_basename(c['cfg'])
            # (a) include closure: every quoted include names a returned file or the Dezyne-generated header of the model
            for f in files:
                for inc in legb.quoted_includes(f[1]):
                    if inc not in names and inc != orig + '.hh':
                        viol.append((ci, f'{f[0]} includes "{inc}", which is neither a returned file nor {orig}.hh'))
            jobs.append((ci, c, files, pl))

        def work(job):
            ci, c, files, pl = job
            res = []
            raw = wd.sub(f'raw{ci}')
            shim = wd.sub(f'shim{ci}')
            legb.materialize(raw, files, pl, c['cfg'], shim=False)
            legb.materialize(shim, files, pl, c['cfg'], shim=True)
            shell_h, shell_cc = files[0][0], files[1][0]
            ident_ok = bool(CXX_ID.match(shell_h[:-3]))
            # (b) each header compiles on its own (unmodified)
            for f in files:
                if f[0].endswith('.hh'):
                    rc, out = legb.gxx(['-fsyntax-only', '-x', 'c++'] + legb.includes(raw) + [os.path.join(raw, f[0])])
                    res.append(('alone', f[0], rc, out))
            # (c) each header may be included twice (unmodified)
            for f in files:
                if f[0].endswith('.hh'):
                    tu = os.path.join(raw, f'twice_{f[0]}.cc')
                    open(tu, 'w').write(f'#include "{f[0]}"\n#include "{f[0]}"\nint main() {{ return 0; }}\n')
                    rc, out = legb.gxx(['-fsyntax-only'] + legb.includes(raw) + [tu])
                    res.append(('twice', f[0], rc, out))
            # (d) the shell source compiles (unmodified), then with the shim
            rc, out = legb.gxx(['-c', '-o', os.path.join(raw, 'shell.o')] + legb.includes(raw) + [os.path.join(raw, shell_cc)])
            res.append(('source-unmodified', shell_cc, rc, out))
            rc, out = legb.gxx(['-c', '-o', os.path.join(shim, 'shell.o')] + legb.includes(shim) + [os.path.join(shim, shell_cc)])
            res.append(('source-shim', shell_cc, rc, out))
            # (d') ... and against a LEAN model header (declarations only, runtime facilities merely forward-declared): the shell
            # files bring their own includes for everything they use
            if rc == 0:
                lean = wd.sub(f'lean{ci}')
                legb.materialize(lean, files, pl, c['cfg'], shim=True)
                open(os.path.join(lean, legb.orig_basename(c['cfg']) + '.hh'), 'w').write(MM.model_header_lean(pl))
                rcl, outl = legb.gxx(['-fsyntax-only'] + legb.includes(lean) + [os.path.join(lean, shell_cc)])
                res.append(('source-with-lean-model-header', shell_cc, rcl, outl))
            # (e) construct and use the shell from another translation unit; declared members are defined (link)
            if rc == 0:
                drv = os.path.join(shim, 'use.cc')
                open(drv, 'w').write(use_driver(c, files, pl))
                rc2, out2 = legb.gxx(['-c', '-o', os.path.join(shim, 'use.o')] + legb.includes(shim) + [drv])
                res.append(('second-tu-compile', 'use.cc', rc2, out2))
                if rc2 == 0:
                    rc3, out3 = legb.gxx(['-o', os.path.join(shim, 'use')] + [os.path.join(shim, 'use.o'), os.path.join(shim, 'shell.o')])
                    res.append(('second-tu-link', 'use', rc3, out3))
            # (f) support headers generated with a different prefix coexist in one translation unit
            other = wd.sub(f'other{ci}')
            return ci, ident_ok, res
        results = legb.parallel(work, jobs)
        # (f) prefixes coexist: one TU including the support sets of two prefixes
        from lib import run_impl
        # ... among them prefixes that are prefixes of each other and prefixes that end in / consist of the library's own `Dzn`
        prefixes = (None, ['Other'], ['A', 'B'], ['A'], ['Dzn'], ['A', 'B', 'Dzn'], ['Other', 'Dzn'], ['A_B'], ['dzn'])
        sets = [run_impl('build_worker', {'cases': [{'op': 'support', 'prefix': p}]})['results'][0]['ok'] for p in prefixes]
        co = wd.sub('coexist')
        tu = ''
        seen_names = {}
        for p, s in zip(prefixes, sets):
            for f in s:
                if f[0] in seen_names and '_'.join(seen_names[f[0]] or []) == '_'.join(p or []):
                    found['K10'] += 1      # different identifier lists, same '_'-joined string: known finding K10
                elif f[0] in seen_names:
                    viol.append((None, f'support headers generated with the namespace prefixes {seen_names[f[0]]} and {p} have the same file name {f[0]}: '
                                       'the two sets cannot coexist in one program'))
                seen_names.setdefault(f[0], p)
                open(os.path.join(co, f[0]), 'w').write('#pragma once\n' + f[1])
                tu += f'#include "{f[0]}"\n'
        open(os.path.join(co, 'all.cc'), 'w').write('#include <dzn/meta.hh>\n' + tu + 'int main() { return 0; }\n')
        rc, out = legb.gxx(['-fsyntax-only'] + legb.includes(co) + [os.path.join(co, 'all.cc')])
        if rc != 0:
            viol.append((None, 'support headers generated with different namespace prefixes do not coexist in one translation unit: ' + out[:600]))
        rep.extra['compiled_units'] = sum(len(r[2]) for r in results) + 1
        for ci, ident_ok, res in results:
            c = cases[ci]
            mc = bool(c['cfg']['ports'].get('mc'))
            global_ns = len(c['cfg']['enc']) == 1
            for kind, fname, rc, out in res:
                if rc == 0:
                    continue
                if not ident_ok:
                    found['K8'] += 1
                    continue
                if kind == 'twice' or (kind in ('source-unmodified',) and mc) or (kind == 'alone' and mc and fname == res[0][1] and 'redefinition' in out):
                    if 'redefinition' in out or 'redeclared' in out or 'previous' in out:
                        found['K1'] += 1
                        continue
                errs = [l for l in out.splitlines() if 'error:' in l]
                if kind == 'alone' and (fname.endswith('_ILog.hh') or fname.endswith('_MultiClientSelector.hh')) and \
                        errs and all('runtime_error' in l for l in errs):
                    found['K9'] += 1
                    continue
                if kind == 'second-tu-link' and global_ns and 'anonymous namespace' in out:
                    found['K2'] += 1
                    continue
                if kind == 'second-tu-compile' and global_ns:
                    found['K2'] += 1
                    continue
                viol.append((ci, f'{kind} of {fname} fails: {out[:700]}'))
    finally:
        wd.cleanup()
    for kid, cnt in found.items():
        if cnt:
            if kid in known:
                rep.known_finding(kid, f'{known[kid]["what"][:140]} ({cnt} occurrence(s) in this run)')
            else:
                viol.append((None, f'{kid} observed {cnt} time(s) but is not a listed known finding'))
    for ci, what in viol[:5]:
        c = cases[ci] if ci is not None else None
        rep.violation('generated C++: ' + what, {'file': c['file'] if c else None, 'configuration': c['cfg'] if c else None})
    for ci, tp in ties[:3]:
        if not any(v[0] == ci for v in viol[:5]):
            rep.violation(f'correspondence legA:Builder.build broken: {tp}', {'file': cases[ci]['file'], 'configuration': cases[ci]['cfg']}, failing_input=False)
    gate = proof_gate('C06')
    return rep.finish(gate, 'generated (model, configuration) pairs incl. a global-namespace encapsulee, an empty interface, a component '
                      'without ports, prefixes; per case: include closure, every header alone, every header twice, shell source, use '
                      'from a second translation unit + link (all declared members used); support sets of nine prefixes in one TU; '
                      'distinct = distinct (model, configuration)', TRUSTED, ASSUME)


def use_driver(c, files, pl):
    """a second translation unit that constructs the shell and uses every public member"""
    shell_h = files[0][0]
    name = shell_h[:-3]
    ns = '::'.join(pl['scope'])
    q = ('::' + ns + '::' if ns else '::') + name
    sf = '::' + '::'.join((c['cfg'].get('sf_prefix') or []) + ['Dzn'])
    mc = c['cfg']['ports'].get('mc')
    create = c['cfg'].get('fac', 'create') == 'create'
    lines = [f'#include "{shell_h}"', 'int main()', '{', '    dzn::locator loc; dzn::pump pump; dzn::runtime rt;']
    if not create:
        lines.append('    loc.set(pump).set(rt);')
    lines.append(f'    {sf}::ILog log;') if mc else None
    args = 'loc' + (', log' if mc else '') + ', "inst"'
    lines.append(f'    {q} shell({args});')
    if create:
        lines.append('    (void)shell.Locator();')
    for p in pl['ports']:
        if not p['exposed']:
            continue
        cap = p['name'][0].upper() + p['name'][1:]
        pre = 'Requires' if p['requires'] else 'Provides'
        if p['exposed']['mc']:
            lines.append(f'    (void)shell.{pre}MultiClient{cap}("A");')
            lines.append(f'    (void)shell.Get{cap}ClientIdentifiers();')
        else:
            lines.append(f'    (void)shell.{pre}{cap}();')
    lines.append('    try { shell.FinalConstruct(); } catch (const std::exception&) {}')
    lines.append('    return 0;')
    lines.append('}')
    return '\n'.join(l for l in lines if l) + '\n'


if __name__ == '__main__':
    sys.exit(main(sys.argv))
