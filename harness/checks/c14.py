"""C14 - Name lookup returns exactly the declarations on the scope chain."""
import itertools
import random
import sys

from lib import Report, proof_gate, tier_seed, ds, dss
from checks.textcases import run_cases

TRUSTED = ['Coq 8.16.1 kernel (coqc), vm_compute', 'extraction (ExtrOcamlBasic only) + OCaml 4.13.1 + harness/ml/driver.ml',
           'harness: this generator, workers/scope_worker.py (direct construction of ast objects, identity -> uid mapping)',
           'CPython 3.12 `re` ASCII classes for the identifier pattern']
ASSUME = ['declarations are compared by identity (uid); Import and Filename entries are present in every FileContents and never returned']

ERR = {'NamespaceIdsTypeError': 2, 'TypeError': 7, 'ValueError': 8}
ALPHA = ['a', 'b', 'c']
KINDS = 7


def all_names(maxdepth=3):
    return [list(p) for k in range(1, maxdepth + 1) for p in itertools.product(ALPHA, repeat=k)]


def fc_sx(cont):
    return [[[uid, list(f)] for uid, f in decls] for decls in cont]


def dec_ns_t(v):
    return [0, dss(v[1])] if v[0] == 0 else [next(k for k, c in ERR.items() if c == v[0])]


def main(argv):
    tier, seed = tier_seed(argv)
    rep = Report('C14', tier, seed)
    rng = random.Random(seed)
    cases = []
    names = all_names(3)
    scopes = [[]] + names
    # --- exhaustive: every single declaration (fqn depth<=3) x every searched name x every calling scope
    qs = [[n, s] for n in names for s in scopes]
    for di, f in enumerate(names):
        cont = [[] for _ in range(KINDS)]
        cont[di % KINDS].append([di, f])
        cases.append(({'op': 'find_fqn_batch', 'fc': cont, 'qs': qs}, [208, fc_sx(cont), qs],
                      lambda v: [list(x) for x in v]))
    exhaustive_lookups = len(names) * len(qs)
    # exhaustive resolution orders
    cases.append(({'op': 'sro_batch', 'qs': qs}, [210, qs], lambda v: [[dss(i) for i in x] for x in v]))
    cases.append(({'op': 'sro_batch', 'qs': [[n, []] for n in names], 'explicit_empty': True}, [210, [[n, []] for n in names]],
                  lambda v: [[dss(i) for i in x] for x in v]))
    # --- sets of declarations (reused simple names in sibling/nested/global scopes, duplicates, all kinds)
    nsets = 150 if tier == 'quick' else 4000
    long_ids = ['Acme', 'Toaster', 'IApi', '_x', 'T1', 'a', 'b', 'c', 'IToaster', 'MyToaster', 'ab', 'bc', 'cme', 'x', 'Api', 'aT1']   # some are textual suffixes of others
    for k in range(nsets):
        cont = [[] for _ in range(KINDS)]
        uid = 0
        pool = names if k % 2 == 0 else [[rng.choice(long_ids) for _ in range(rng.randint(1, 5))] for _ in range(12)]
        for _ in range(rng.randint(2, 4) if k % 3 else rng.randint(5, 12)):
            cont[rng.randrange(KINDS)].append([uid, rng.choice(pool)])
            uid += 1
        q2 = []
        for _ in range(60):
            d = rng.choice([x for c in cont for x in c])[1]
            j = rng.random()
            if j < 0.5:   # a reference that can resolve: suffix of a declared fqn from a scope sharing its prefix
                cut = rng.randint(0, len(d) - 1)
                nm, sc = d[cut:], d[:cut] + [rng.choice(pool)[0] for _ in range(rng.choice([0, 0, 1, 2]))]
            else:
                nm, sc = rng.choice(pool), rng.choice([[]] + pool)
            q2.append([nm, sc[:rng.randint(0, len(sc))] if rng.random() < 0.3 else sc])
        cases.append(({'op': 'find_fqn_batch', 'fc': cont, 'qs': q2}, [208, fc_sx(cont), q2], lambda v: [list(x) for x in v]))
        # suffix search: names of 1..n identifiers (the property's domain), among them names that are a *textual* tail of a declared
        # name without being a tail of its identifier list
        q3 = [q[0] for q in q2 if q[0]]
        for x in [x for c in cont for x in c]:
            d = x[1]
            cut = rng.randint(0, len(d) - 1)
            tail = d[cut][rng.randint(1, len(d[cut]) - 1):] if len(d[cut]) > 1 else ''
            if tail and (tail[0].isalpha() or tail[0] == '_'):
                q3.append([tail] + d[cut + 1:])
        cases.append(({'op': 'find_any_batch', 'fc': cont, 'qs': q3}, [209, fc_sx(cont), q3], lambda v: [list(x) for x in v]))
    # --- identifier candidates: every single code point up to 0x2FF plus samples, and structured strings
    cands = [chr(c) for c in range(0, 0x300)] + ['', '_', '__', 'a1', '1a', 'a-b', 'a b', ' a', 'a ', 'a\n', '\na', 'é', 'aé',
                                                  'a.b', 'a::b', '٣', 'a٣', 'ª', 'A_9', 'a\x00']
    cands += [chr(rng.randrange(0x300, 0x110000)) for _ in range(200 if tier == 'quick' else 5000) if True]
    cands = [c for c in cands if not ('\ud800' <= c <= '\udfff')]
    for c in cands:
        cases.append(({'op': 'valid_id', 's': c}, [200, c], lambda v: bool(v)))
    # --- namespaceids_t on strings/lists/others; notation round trips
    args = []
    for c in ['', 'My', 'My.Project', 'My::Project', 'My.', '.My', 'My::', '::My', 'My:Project', 'My . Ns', 'a.b::c', 'a::b.c',
              'a..b', 'a::::b', 'a:::b', '.', '::', ':', 'My_Project', '_My_', '9a', 'a.9']:
        args.append(['str', c])
    for n in names[:39:4]:
        args += [['str', '.'.join(n)], ['str', '::'.join(n)], ['list', n], ['ids', n]]
    args += [['list', []], ['list', ['a', '']], ['list', ['a', 'b c']], ['other', 'none'], ['other', 'int'], ['other', 'float'],
             ['other', 'mixed'], ['other', 'tuple'], ['other', 'dict']]
    for a in args:
        sxa = {'ids': [0, a[1]], 'list': [1, a[1]], 'str': [2, a[1]], 'other': [3]}[a[0]]
        cases.append(({'op': 'ns_t', 'a': a}, [201, sxa], dec_ns_t))
    for n in names[::3] + [[]] + [['Acme', 'Toaster_1', '_x']]:
        cases.append(({'op': 'render', 'ids': n}, [205, n], lambda v: [ds(v[0]), ds(v[1])]))
    for _ in range(60 if tier == 'quick' else 1000):
        tree = [rng.choice(names) for _ in range(rng.randint(0, 4))]
        m = rng.choice(names)
        cases.append(({'op': 'tree', 'tree': tree, 'm': m}, [206, tree, m], lambda v: [dss(v[0]), dss(v[1])]))
        l = [rng.choice(names + [[]]) for _ in range(rng.randint(0, 4))]
        cases.append(({'op': 'sum', 'l': l}, [207, l], dss))
    bad = run_cases(cases, rep, worker='scope_worker', vm_sample=(12 if tier == 'quick' else 60), vm_name='c14')
    for i, r, mv in bad[:5]:
        detail = ''
        if 'ok' in r and isinstance(r['ok'], list) and isinstance(mv, list) and len(r['ok']) == len(mv) and 'qs' in cases[i][0]:
            j = next(k for k in range(len(mv)) if r['ok'][k] != mv[k])
            detail = f' first differing query {cases[i][0]["qs"][j]}: impl={r["ok"][j]} required={mv[j]}'
            cases[i][0]['first_differing_query'] = cases[i][0]['qs'][j]
        rep.violation(f'lookup/scoping: implementation differs from the proven model on case {i} ({cases[i][0]["op"]}).{detail}'[:600],
                      {'case': {k: v for k, v in cases[i][0].items() if k != 'qs' or len(str(v)) < 3000}, 'impl': str(r)[:3000],
                       'required_by_model': str(mv)[:3000], 'theorems': 'Properties/C14.v'})
    rep.extra['exhaustive_small_scope'] = (f'{exhaustive_lookups} lookups: every single declaration with fqn over {{a,b,c}} to depth 3 '
                                           f'x every searched name (1..3 ids) x every calling scope (depth 0..3); find_fqn is a '
                                           f'per-declaration filter (theorem C14_find_fqn_sound_complete), so singletons decide it')
    rep.evaluations += exhaustive_lookups
    gate = proof_gate('C14')
    return rep.finish(gate, 'exhaustive small scope as stated + sampled declaration sets (2-12 declarations, all 7 kinds, reused '
                      'simple names, repeated identifiers in scopes, duplicates) with resolvable and unresolvable references; '
                      'identifier candidates: every code point < 0x300 + samples; namespaceids_t on str/list/other; notation '
                      'round trips; distinct = distinct canonical request', TRUSTED, ASSUME)


if __name__ == '__main__':
    sys.exit(main(sys.argv))
