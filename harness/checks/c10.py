"""C10 - Final construction detects every unbound boundary event."""
import os
import random
import subprocess
import sys

from lib import Report, proof_gate, tier_seed
import gen_mockmodel as MM
import gen_driver as GD
import legb
from checks import shellrun as SR

TRUSTED = ['Coq 8.16.1 kernel (coqc), vm_compute', 'extraction (ExtrOcamlBasic only) + OCaml 4.13.1 + harness/ml/driver.ml',
           'g++ 12 -std=c++17 / libstdc++', 'mock Dezyne runtime and mock model header whose check_bindings() tests every event of a port (the '
           'contract of Dezyne\'s own code generator - part of the trusted base); `#pragma once` shim (K1)']
ASSUME = ['a slot holding std::ref(other slot) counts as bound even if the other slot is empty (that is C++)',
          'partial: the meaning of the emitted FinalConstruct() text is validated by running it, not proved']


def main(argv):
    tier, seed = tier_seed(argv)
    rep = Report('C10', tier, seed)
    rng = random.Random(seed)
    n = 8 if tier == 'quick' else 150
    half = SR.usable_cases(rng, n // 2) + SR.usable_cases(rng, n - n // 2, want=lambda c: bool(c['cfg']['ports'].get('mc')), maxtries=4000)
    cases = half
    # the multi-client port in every position among several provides ports (and requires ports around it)
    for order in (['api', 'ctrl', 'aux'], ['ctrl', 'api', 'aux'], ['ctrl', 'aux', 'api']):
        for rsem in ('all', 'none'):
            ports = [[n, ['IArb'] if n == 'api' else ['ICtl'], 'provides', False] for n in order] + [['hal', ['ICtl'], 'requires', False]]
            file = [['extern', ['Int'], 'int'],
                    ['ns', ['My'], [['itf', ['IArb'], [['enum', ['Result'], ['Ok', 'No']]],
                                     [['Claim', 'in', ['Result'], [['n', ['Int'], 'in']]], ['Release', 'in', ['void'], []], ['Use', 'in', ['void'], []],
                                      ['Done', 'out', ['void'], [['n', ['Int'], 'in']]]]],
                                    ['itf', ['ICtl'], [], [['Start', 'in', ['void'], []], ['Started', 'out', ['void'], []]]],
                                    ['comp', ['Mixer'], ports]]]]
            cases.append({'file': file, 'cfg': {'file': 'Mixer.dzn', 'enc': ['My', 'Mixer'], 'fac': rng.choice(['create', 'import']),
                                               'ports': {'p': [['w', 'none'], ['w', 'all']], 'r': [['w', 'none' if rsem == 'all' else 'all'], ['w', rsem]],
                                                         'mc': ['api', 'Claim', ['Ok'], 'Release']}}})
    cases += SR.prefix_name_cases()       # port names that are prefixes of each other around the multi-client port
    cases += SR.many_cases()[1:]          # twelve ports, eleven events per direction
    cases += SR.mixed_semantics_cases()   # semantics alternating in declaration order; an injected port that needs no semantics
    suspects, breadth = SR.leg_a_suspects(rng, 100 if tier == 'quick' else 1000, want=None)
    rep.extra['cases_compared_with_the_model_only'] = breadth
    cases += suspects
    io, mo, plans = SR.tie_and_plans(cases)
    wd = legb.Workdir()
    nv = nfail = 0
    try:
        jobs = []
        for ci, (c, i, m, pl) in enumerate(zip(cases, io, mo, plans)):
            tp = SR.tie_problem(i, m)
            if i[0] != 'ok' or not MM.usable(pl):
                if tp and nv < 5:
                    nv += 1
                    rep.violation(f'correspondence legA:Builder.build broken: {tp}', {'file': c['file'], 'configuration': c['cfg']}, failing_input=False)
                continue
            jobs.append((ci, c, i[1], pl, tp))

        def work(job):
            ci, c, files, pl, tp = job
            drv, index = GD.fc_driver(pl, c['cfg'], files[0][0])
            d = wd.sub(f'c{ci}')
            legb.materialize(d, files, pl, c['cfg'], shim=True)
            rc, out = legb.gxx(['-o', os.path.join(d, 'drv')] + legb.includes(d) + ['-x', 'c++', '-'] , cwd=d) if False else (0, '')
            open(os.path.join(d, 'driver.cc'), 'w').write(drv)
            rc, out = legb.gxx(['-o', os.path.join(d, 'drv')] + legb.includes(d) + [os.path.join(d, 'driver.cc'), os.path.join(d, files[1][0])])
            if rc:
                return ci, tp, ('compile', out), index, []
            runs = []

            def run(args):
                p = subprocess.run([os.path.join(d, 'drv')] + args, stdout=subprocess.PIPE, stderr=subprocess.STDOUT, timeout=60)
                return p.returncode, p.stdout.decode(errors='replace').splitlines()
            runs.append((('none', -1, 'all bound'), run(['none', '0'])))
            if c['cfg']['ports'].get('mc'):
                runs.append((('zero', -1, 'all bound, no client registered'), run(['zero', '0'])))
            for k, label in index:
                runs.append((('user', k, label), run(['user', str(k)])))
            for k, p, e in MM.enc_handler_count(pl):
                if p['injected']:
                    continue      # an injected port is obtained from the locator: its bindings are the provider's business (the mock runtime does not check them)
                runs.append((('enc', k, f'component side of {p["name"]}.{"out" if e["out"] else "in"}.{e["name"]}'), run(['enc', str(k)])))
            return ci, tp, ('ran', ''), index, runs
        results = legb.parallel(work, jobs)
        for ci, tp, (stage, out), index, runs in results:
            c = cases[ci]
            mc = bool(c['cfg']['ports'].get('mc'))
            problem, failing = None, True
            if stage == 'compile':
                problem = f'the generated shell does not compile: {out[:500]}'
            for (who, k, label), (rc, lines) in runs:
                rep.case({'cfg': c['cfg'], 'unbound': [who, label]}, shape=f'{who}{"/mc" if mc else ""}')
                if problem:
                    continue
                if rc != 0:
                    problem = f'driver crashed (rc={rc}) with {label} unbound: {lines[-3:]}'
                elif who == 'zero':
                    # final construction with no registered client: it still closes the registration
                    if not lines or not lines[0].startswith('OK parent=parent'):
                        problem = f'all events bound and no client registered, but FinalConstruct did not succeed: {lines[:2]}'
                    elif 'LATE-REGISTRATION-REFUSED' not in lines:
                        problem = f'a client could be registered after a final construction that found no registered client: {lines[1:3]}'
                elif who == 'none':
                    if not lines or not lines[0].startswith('OK parent=parent'):
                        problem = f'all events bound, but FinalConstruct did not succeed and record the parent: {lines[:2]}'
                    elif mc and [l for l in lines[1:] if not l.startswith('AGAIN')] != ['LATE-REGISTRATION-REFUSED', 'KNOWN-CLIENT-OK']:
                        problem = f'after final construction of a multi-client port: {lines[1:]} (a new client must be refused, a registered one still served)'
                    else:
                        for l in lines[1:]:
                            if l.startswith('AGAIN given='):
                                given, recorded = l.split()[1].split('=')[1], l.split()[2].split('=')[1]
                                if given != recorded:
                                    problem = f'a repeated FinalConstruct({given if given != "null" else "nullptr"}) returned normally but the recorded parent is {recorded}'
                else:
                    if not lines or not lines[0].startswith('EXC'):
                        problem = f'{label} was left unbound, but FinalConstruct returned normally: {lines[:2]}'
            if not problem and tp:
                problem, failing = f'correspondence legA:Builder.build broken (compiled behaviour still as demanded): {tp}', False
            if problem and (nv < 5 or (failing and nfail < 3)):
                nv += 1
                nfail += 1 if failing else 0
                rep.violation(problem, {'file': c['file'], 'configuration': c['cfg']}, failing_input=failing)
        rep.extra['compiled'] = len(results)
    finally:
        wd.cleanup()
    import transcription
    transcription.report(rep, ['multi_client_selector'])
    gate = proof_gate('C10')
    return rep.finish(gate, 'generated shells (half of them with a multi-client port and two registered clients); per shell: all events '
                      'bound, then each single user-side event of every exposed port left unbound (every direction, every client), then '
                      'each single component-side handler left unbound; distinct = distinct (configuration, unbound event)', TRUSTED, ASSUME)


if __name__ == '__main__':
    sys.exit(main(sys.argv))
