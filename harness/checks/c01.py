"""C01 - Shell forwards every port event to its counterpart exactly once, intact   (also run as C02 with the same machinery)."""
import random
import sys

from lib import Report, proof_gate, tier_seed
import gen_mockmodel as MM
import gen_driver as GD
import legb
from checks import shellrun as SR

TRUSTED = ['Coq 8.16.1 kernel (coqc), vm_compute', 'extraction (ExtrOcamlBasic only) + OCaml 4.13.1 + harness/ml/driver.ml',
           'g++ 12 -std=c++17 / libstdc++ / AddressSanitizer', 'mock Dezyne runtime (dzn::pump/shell/locator/meta: single-threaded, deterministic) and '
           'mock model header generated from the model-resolved plan; `#pragma once` shim on generated headers (known finding K1)',
           'harness: gen_build.py, gen_driver.py (driver + expected trace = the property statement spelled out per (port, event))']
ASSUME = ['that g++ gives the emitted text the meaning the Gallina semantics gives the statements is validated by running it, not proved (partial)',
          'well-formed Dezyne: distinct port/event/formal names; formal names avoid the generator\'s own identifiers and port names stay '
          'distinct after capitalisation (known finding K6 otherwise)']


def run(pid, argv, want=None):
    tier, seed = tier_seed(argv)
    rep = Report(pid, tier, seed)
    rng = random.Random(seed + (1 if pid == 'C02' else 0))
    n = 14 if tier == 'quick' else 300
    cases = SR.usable_cases(rng, n, want=want)
    # fixed shapes the random generator rarely produces: a multi-client port declared before other provides ports (odd event
    # names, valued release), requires ports whose semantics alternate in declaration order, an injected port
    from checks.c11 import fixed_cases
    cases += fixed_cases() + SR.mixed_semantics_cases(('MSM', 'SMS')) + (SR.prefix_name_cases()[:1] + SR.prefix_name_cases()[3:4] if tier == 'quick' else SR.prefix_name_cases())
    cases += SR.shadowed_extern_cases()[:3] if tier == 'quick' else SR.shadowed_extern_cases()
    cases += SR.mc_name_containment_cases()[2:3] if tier == 'quick' else SR.mc_name_containment_cases()
    cases += SR.many_cases()[:1] + SR.many_cases()[2:] if tier == 'quick' else SR.many_cases()
    cases += SR.pointer_extern_cases()[:1] if tier == 'quick' else SR.pointer_extern_cases()
    suspects, breadth = SR.leg_a_suspects(rng, 100 if tier == 'quick' else 1500, want=want)
    rep.extra['cases_compared_with_the_model_only'] = breadth
    cases += suspects
    io, mo, plans = SR.tie_and_plans(cases)
    wd = legb.Workdir()
    nv = nfail = 0
    try:
        jobs = []
        for ci, (c, i, m, pl) in enumerate(zip(cases, io, mo, plans)):
            nports = 0 if pl is None else sum(1 for p in pl['ports'] if p['exposed'])
            nev = 0 if pl is None else sum(len(p['itf']['events']) for p in pl['ports'] if p['exposed'] and p['itf'])
            rep.case({'cfg': c['cfg'], 'file': c['file']}, nontrivial=nev > 0, shape=f'{nports} exposed ports/{min(nev, 20) // 5 * 5}+ events')
            tp = SR.tie_problem(i, m)
            if i[0] != 'ok' or not MM.usable(pl):
                if tp and nv < 5:
                    nv += 1
                    rep.violation(f'correspondence legA:Builder.build broken: {tp}', {'file': c['file'], 'configuration': c['cfg']}, failing_input=False)
                continue
            jobs.append((ci, c, i[1], pl, tp))

        def work(job):
            ci, c, files, pl, tp = job
            drv = GD.driver(pl, c['cfg'], files[0][0])
            return ci, tp, SR.compile_and_run(wd, f'c{ci}', c, files, pl, drv, sanitize=True), GD.expected_trace(pl, c['cfg'])
        results = legb.parallel(work, jobs)
        rep.extra['compiled_and_run'] = len(results)
        for ci, tp, (stage, rc, out), exp in results:
            c = cases[ci]
            problem, failing = None, True
            if stage != 'run':
                problem = f'the generated shell does not {stage}: {out[:600]}'
            elif rc != 0:
                problem = f'the compiled shell crashed or was flagged by AddressSanitizer (rc={rc}): {out[-700:]}'
            else:
                d = SR.trace_diff(out, exp)
                if d:
                    problem = f'event routing of the compiled shell: {d}'
            if not problem and tp:
                problem, failing = f'correspondence legA:Builder.build broken (compiled behaviour still as demanded on this case): {tp}', False
            if problem and (nv < 5 or (failing and nfail < 3)):
                nv += 1
                nfail += 1 if failing else 0
                rep.violation(problem, {'file': c['file'], 'configuration': c['cfg'],
                                        'how': 'build, compile shell + harness/gen_driver.py driver against harness/cpp/mock, run'},
                              failing_input=failing)
    finally:
        wd.cleanup()
    if pid == 'C02':
        import transcription
        transcription.report(rep, ['strict_port'])
    gate = proof_gate(pid)
    return rep.finish(gate, 'generated valid (model, configuration) pairs (ports sharing interfaces, in/out/inout formals, replies, all '
                      'presets and explicit selections, both facility origins); files compared byte for byte with the model; each shell '
                      'compiled with the mock runtime under AddressSanitizer and driven through every (port, event) in all four '
                      'directions; observed trace compared with the trace the property demands; non-trivial = at least one event',
                      TRUSTED, ASSUME)


if __name__ == '__main__':
    sys.exit(run('C01', sys.argv))
