"""C18 - Indentation shifts text without changing it."""
import itertools
import random
import sys

from lib import Report, proof_gate, tier_seed
import gen_text as G
from checks import textcases as T

TRUSTED = ['Coq 8.16.1 kernel (coqc), vm_compute', 'extraction (ExtrOcamlBasic only) + OCaml 4.13.1 + harness/ml/driver.ml',
           'harness: gen_text.py, workers/text_worker.py',
           'CPython 3.12 str.isspace/strip table (validated exhaustively over all code points in this run)']
ASSUME = ['"text preserved" in bullet rows = text and leading whitespace kept, trailing whitespace dropped (DESIGN §5 C18)',
          'spaces_count >= 0 (a negative width is rejected by Python\'s format spec)']


def main(argv):
    tier, seed = tier_seed(argv)
    rep = Report('C18', tier, seed)
    rng = random.Random(seed)
    cases = []
    # small-scope exhaustive enumeration
    cfgs = []
    for tab, n in [(False, k) for k in range(6)] + [(True, 2)]:
        cfgs.append([tab, n, None])
        for first in (False, True):
            for g in ['-', '//', '-->', '*']:
                cfgs.append([tab, n, [first, g]])
    alphabet = ['', ' ', 'a', ' b ', 'c\t']
    seqs = [list(p) for k in range(0, 4) for p in itertools.product(alphabet, repeat=k)]
    for cfg in cfgs:
        for sq in seqs:
            cases.append(T.c_to_list(cfg, ['l', [['s', x] for x in sq]]))
    exhaustive_n = len(cases)
    for cfg in cfgs:
        for sq in seqs[::7]:
            cases.append(T.c_to_str(cfg, ['l', [['s', x] for x in sq]]))
    n = 1500 if tier == 'quick' else 60000
    for _ in range(n):
        k = rng.random()
        cfg = G.rand_indcfg(rng)
        if k < 0.35:
            cases.append(T.c_to_list(cfg, G.rand_content(rng, 1)))
        elif k < 0.55:
            cases.append(T.c_to_str(cfg, G.rand_content(rng, 1)))
        else:
            lines = [G.rand_line(rng) for _ in range(rng.randint(0, 5))]
            hdr = ['l', [['s', G.rand_line(rng)] for _ in range(rng.choice([0, 0, 1, 2]))]]
            ops = [['indent', cfg]]
            if rng.random() < 0.5:
                ops.append(['indent', cfg if rng.random() < 0.6 else G.rand_indcfg(rng)])
            if rng.random() < 0.4:
                ops.append(['indent_again'])      # indent() without argument re-applies the options last given
            if rng.random() < 0.3:
                ops.append(['append', G.rand_content(rng, 2)])
                ops.append(['indent', G.rand_indcfg(rng)])
            if rng.random() < 0.1:
                ops.insert(0, ['indent_again'])   # ... and the default options when none were given yet
            cases.append(T.c_hist(['l', [['s', x] for x in lines]], hdr, ops))
    # the ready-made indentizers, with the indentor argument omitted, SPACES, TAB and None ("spaces by default")
    for which in ('all', 'first'):
        for arg in ('omit', 'spaces', 'tab', 'none'):
            for form in ('list', 'str'):
                for _ in range(3):
                    cases.append(T.c_helper(which, arg, G.rand_content(rng, 1), form))
    step = 0x8000
    for lo in range(0, 0x110000, step):
        cases.append(T.c_table('space', lo, step))
    bad = T.run_cases(cases, rep, vm_sample=(60 if tier == 'quick' else 400), vm_name='c18',
                      shape=lambda c: c['op'] + ('' if 'cfg' not in c else
                                                 ('/tab' if c['cfg'][0] else '/sp') +
                                                 ('/none' if c['cfg'][2] is None else ('/first' if c['cfg'][2][0] else '/all'))))
    for i, r, mv in bad[:5]:
        rep.violation(f'indentation: implementation differs from the proven model on case {i}: '
                      f'impl={str(r)[:200]} model={str(mv)[:200]}',
                      {'case': cases[i][0], 'impl': r, 'required_by_model': mv,
                       'theorems': 'Properties/C18.v (C18_pointwise: line k = line_spec cfg k)'})
    rep.extra['exhaustive_small_scope'] = f'{exhaustive_n} cases: {len(cfgs)} configurations x {len(seqs)} line sequences (length<=3 over 5 strings)'
    rep.extra['exhaustive_tables'] = ['is_space over all 0x110000 code points']
    gate = proof_gate('C18')
    return rep.finish(gate, 'exhaustive small scope (63 indenter configurations x 156 line sequences) through to_list, '
                      'a slice through to_str; seeded random configurations (incl. empty/blank/wide/non-ASCII glyphs, '
                      'tab) x random content; TextBlock.indent histories with headers and repeated indentation; '
                      'distinct = distinct canonical input', TRUSTED, ASSUME)


if __name__ == '__main__':
    sys.exit(main(sys.argv))
