#!/bin/bash
# Build the Coq development (full .vo build), extract the model to OCaml and compile the driver.
# Everything lands under /verif/_build and /verif/coq; nothing outside /verif is needed afterwards.
set -e
cd "$(dirname "$0")"
mkdir -p _build/ml _build/cases evidence replays
cd coq
coq_makefile -f _CoqProject -o Makefile > /dev/null
timeout 3000 make -j16 2>&1 | grep -v '^Closed under' | tail -5
[ ${PIPESTATUS[0]} -eq 0 ] || { echo 'setup FAILED: coq build'; exit 1; }
cd ../_build/ml
coqc -Q ../../coq/theories Dznpy ../../coq/theories/Extract/Extract.v > /dev/null
cp ../../harness/ml/driver.ml .
rm -f dznmodel.new
ocamlfind ocamlopt -O3 -w -a model.mli model.ml driver.ml -o dznmodel.new 2>&1 | grep -v 'options -O3' || true
[ -x dznmodel.new ] || { rm -f dznmodel; echo 'setup FAILED: OCaml model driver did not compile'; exit 1; }
mv -f dznmodel.new dznmodel      # atomic: a check running concurrently never sees a missing binary
echo '(110 (97 10 98))' | ./dznmodel | grep -q '((97) (98))' && echo "setup ok"
