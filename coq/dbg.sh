#!/bin/bash
# usage: dbg.sh <file.v> <line>  : show the goal just before <line>
f=$1; n=$2
head -n $((n-1)) $f > /tmp/dbg_tmp.v
echo "Show. Abort All." >> /tmp/dbg_tmp.v
cd /verif/coq && coqc -Q theories Dznpy /tmp/dbg_tmp.v 2>&1 | grep -v "^Closed" | tail -${3:-40}
