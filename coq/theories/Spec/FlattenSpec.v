(* Independent specification of what a text block holds (C17): the depth-first, left-to-right
   sequence of pieces split at line breaks. Written without reference to flatten_to_strlist. *)
From Coq Require Import List NArith Bool String.
From Dznpy Require Import Base.PyStr Model.TextGen.
Import ListNotations.

(* an empty string is one blank line; any other string is split at Python's line boundaries *)
Definition split_text (x : str) : list str := if is_nil x then [[]] else splitlines x.

(* what one line of a rendered C++ comment looks like *)
Definition comment_line (l : str) : str := strip (lit "// "%string ++ l).

Fixpoint pieces (c : content) : list str :=
  match c with
  | CNone => []
  | CStr x => split_text x
  | COther x _ => splitlines x                 (* an object whose str() is empty contributes nothing *)
  | CList l => flat_map pieces l
  | CDict l => flat_map pieces l
  | CBlock t => hdr t ++ lns t                 (* a nested block contributes its header and lines *)
  | CComment ls => map comment_line ls         (* a nested comment contributes its rendered lines *)
  end.

(* a block or comment handed over directly (not inside a container) contributes its lines buffer *)
Definition pieces_top (c : content) : list str :=
  match c with
  | CBlock t => lns t
  | CComment ls => ls
  | _ => pieces c
  end.

(* well-formed content: every text block occurring in it holds break-free lines, which is what
   every block built through the API (lines setter excluded) satisfies - see wf_invariant *)
Definition no_breakb (x : str) : bool := List.forallb (fun c => negb (is_linebreak c)) x.
Definition wf_lines (ls : list str) : bool := forallb no_breakb ls.
Definition wf (t : tblock) : bool := wf_lines (hdr t ++ lns t).

Fixpoint wfc (c : content) : bool :=
  match c with
  | CList l => forallb wfc l
  | CDict l => forallb wfc l
  | CBlock t => wf t
  | CComment ls => wf_lines ls
  | _ => true
  end.

(* the leaf texts of a content tree, depth-first, left to right (str() of every leaf) *)
Fixpoint texts (c : content) : list str :=
  match c with
  | CNone => []
  | CStr x => [x]
  | COther x _ => [x]
  | CList l => flat_map texts l
  | CDict l => flat_map texts l
  | CBlock t => [str_tb t]
  | CComment ls => [str_comment ls]
  end.

(* "empty content": no leaf has any text *)
Definition empty_content (c : content) : bool := forallb is_nil (texts c).

(* trimming: only blank entries at the two ends are removed *)
Definition blank_lines (ls : list str) : Prop := Forall (fun l => l = []) ls.
Definition starts_nonblank (ls : list str) : Prop := match ls with [] => True | l :: _ => l <> [] end.
