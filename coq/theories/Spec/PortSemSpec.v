(* Specification of runtime-semantics assignment (C03). *)
From Coq Require Import List NArith Bool.
From Dznpy Require Import Base.PyStr Base.Result Model.PortSelection.
Import ListNotations.

(* "the one under which it is explicitly named, otherwise the one whose all/remaining wildcard covers it" *)
Inductive assigned (sts mts : psel) (p : str) : semantics -> Prop :=
| A_named_sts : In p (strset sts) -> assigned sts mts p STS
| A_named_mts : In p (strset mts) -> assigned sts mts p MTS
| A_wild_sts : ~ In p (strset sts) -> ~ In p (strset mts) -> is_wild sts = true -> assigned sts mts p STS
| A_wild_mts : ~ In p (strset sts) -> ~ In p (strset mts) -> is_wild mts = true -> assigned sts mts p MTS.

(* the documented rejections of one side *)
Definition side_valid (sts mts : psel) : Prop :=
  psel_eqb sts mts = false /\
  (forall x, In x (strset sts) -> ~ In x (strset mts)) /\
  ~ (is_all sts = true /\ not_empty mts = true) /\
  ~ (not_empty sts = true /\ is_all mts = true).

Definition names_unknown (sts mts : psel) (expected : list str) : Prop :=
  exists x, In x (strset sts ++ strset mts) /\ ~ In x expected.
