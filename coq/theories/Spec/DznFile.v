(* Specification side of C05: the tree the Dezyne grammar produces, its JSON rendering (what `dzn`
   emits, with or without the extra keys real files carry) and the declarations a file declares. *)
From Coq Require Import List NArith ZArith Bool String.
From Dznpy Require Import Base.PyStr Base.Result Base.Json Model.Scoping Model.Ast.
Import ListNotations.

Definition k (x : string) : str := lit x.

Inductive dtype := DEnum (name : ids) (fields : list str) | DSubInt (name : ids) (lo hi : Z).
(* an item of an interface's `types` list: an enum or subint, or an item of a class the parser does not know *)
Inductive ditype := ITType (t : dtype) | ITOther (cls : str).
Definition types_of (ts : list ditype) : list dtype := flat_map (fun i => match i with ITType t => [t] | ITOther _ => [] end) ts.
Record dformal := { df_name : str; df_type : ids; df_dir : fdir }.
Record devent := { de_name : str; de_dir : edir; de_ret : ids; de_formals : list dformal }.
Record dport := { dp_name : str; dp_type : ids; dp_dir : portdir; dp_injected : bool }.
Definition dendpoint := (str * option str)%type.

Inductive ddecl :=
| DNs (name : ids) (body : list ddecl)
| DItf (name : ids) (types : list ditype) (events : list devent)
| DComp (name : ids) (ports : list dport)
| DForeign (name : ids) (ports : list dport)
| DSys (name : ids) (ports : list dport) (instances : list (str * ids)) (bindings : list (dendpoint * dendpoint))
| DType (t : dtype)
| DExtern (name : ids) (value : str)
| DImport (name : str)
| DFile (name : str)
| DUnknown (cls : str)
| DJunk (j : json).

Definition dfile := list ddecl.

(* ---------- JSON rendering (mirrors harness/dznjson.py key for key) ---------- *)

Definition jcls (c : string) : (str * json) := (k "<class>", JStr (k c)).
Definition j_scope (i : ids) : json := JObj [jcls "scope_name"; (k "ids", JArr (map JStr i))].

Definition fdir_str (d : fdir) : str := match d with FIn => k "in" | FOut => k "out" | FInOut => k "inout" end.
Definition edir_str (d : edir) : str := match d with EIn => k "in" | EOut => k "out" end.
Definition pdir_str (d : portdir) : str := match d with PProvides => k "provides" | PRequires => k "requires" end.

Definition j_formal (extras : bool) (f : dformal) : json :=
  JObj ([jcls "formal"; (k "name", JStr (df_name f)); (k "type_name", j_scope (df_type f));
         (k "direction", JStr (fdir_str (df_dir f)))] ++
        (if extras then [(k "expression", JStr (k "undefined"))] else [])).
Definition j_formals (extras : bool) (fs : list dformal) : json :=
  JObj [jcls "formals"; (k "elements", JArr (map (j_formal extras) fs))].
Definition j_event (extras : bool) (e : devent) : json :=
  JObj [jcls "event"; (k "name", JStr (de_name e)); (k "direction", JStr (edir_str (de_dir e)));
        (k "signature", JObj [jcls "signature"; (k "type_name", j_scope (de_ret e));
                              (k "formals", j_formals extras (de_formals e))])].
Definition j_port (extras : bool) (p : dport) : json :=
  JObj ([jcls "port"; (k "name", JStr (dp_name p)); (k "type_name", j_scope (dp_type p));
         (k "direction", JStr (pdir_str (dp_dir p))); (k "formals", j_formals extras [])] ++
        (if dp_injected p then [(k "injected?", JStr (k "injected"))] else []) ++
        (if extras then [(k "external?", JNull)] else [])).
Definition j_ports (extras : bool) (ps : list dport) : json :=
  JObj [jcls "ports"; (k "elements", JArr (map (j_port extras) ps))].
Definition j_type (t : dtype) : json :=
  match t with
  | DEnum n fs => JObj [jcls "enum"; (k "name", j_scope n);
                        (k "fields", JObj [jcls "fields"; (k "elements", JArr (map JStr fs))])]
  | DSubInt n lo hi => JObj [jcls "subint"; (k "name", j_scope n);
                             (k "range", JObj [jcls "range"; (k "from", JInt lo); (k "to", JInt hi)])]
  end.
Definition j_itype (i : ditype) : json :=
  match i with
  | ITType t => j_type t
  | ITOther c => JObj [(k "<class>", JStr c); (k "name", j_scope [k "Alias"]); (k "whatever", JArr [JInt 1])]
  end.
Definition j_endpoint (e : dendpoint) : json :=
  JObj ([jcls "end-point"; (k "port_name", JStr (fst e))] ++
        match snd e with Some i => [(k "instance_name", JStr i)] | None => [] end).

Fixpoint j_decl (extras : bool) (d : ddecl) : json :=
  match d with
  | DNs n body => JObj [jcls "namespace"; (k "name", j_scope n); (k "elements", JArr (map (j_decl extras) body))]
  | DItf n ts es =>
    JObj ([jcls "interface"; (k "name", j_scope n);
           (k "types", JObj [jcls "types"; (k "elements", JArr (map j_itype ts))]);
           (k "events", JObj [jcls "events"; (k "elements", JArr (map (j_event extras) es))])] ++
          (if extras then [(k "behavior", JObj [jcls "behavior"; (k "statement", JObj [])])] else []))
  | DComp n ps =>
    JObj ([jcls "component"; (k "name", j_scope n); (k "ports", j_ports extras ps)] ++
          (if extras then [(k "behavior", JObj [jcls "behavior"])] else []))
  | DForeign n ps => JObj [jcls "foreign"; (k "name", j_scope n); (k "ports", j_ports extras ps)]
  | DSys n ps is_ bs =>
    JObj [jcls "system"; (k "name", j_scope n); (k "ports", j_ports extras ps);
          (k "instances", JObj [jcls "instances";
             (k "elements", JArr (map (fun i => JObj [jcls "instance"; (k "name", JStr (fst i)); (k "type_name", j_scope (snd i))]) is_))]);
          (k "bindings", JObj [jcls "bindings";
             (k "elements", JArr (map (fun b => JObj [jcls "binding"; (k "left", j_endpoint (fst b)); (k "right", j_endpoint (snd b))]) bs))])]
  | DType t => j_type t
  | DExtern n v => JObj [jcls "extern"; (k "name", j_scope n); (k "value", JObj [jcls "data"; (k "value", JStr v)])]
  | DImport n => JObj [jcls "import"; (k "name", JStr n)]
  | DFile n => JObj [jcls "file-name"; (k "name", JStr n)]
  | DUnknown c => JObj [(k "<class>", JStr c); (k "whatever", JArr [JInt 1; JInt 2; JObj [jcls "interface"]])]
  | DJunk j => j
  end.

Definition to_json (extras with_comment : bool) (f : dfile) : json :=
  JObj ([jcls "root"; (k "elements", JArr (map (j_decl extras) f)); (k "working-directory", JStr (k "/w"))] ++
        (if with_comment then [(k "comment", JObj [jcls "comment"; (k "string", JStr (k "// generated" ++ [LF]))])] else [])).

(* ---------- the declarations of a file, per kind, in document order ---------- *)

Definition formal_of (f : dformal) : formal := {| f_name := df_name f; f_type := df_type f; f_dir := df_dir f |}.
Definition event_of (e : devent) : event :=
  {| e_name := de_name e; e_ret := de_ret e; e_formals := map formal_of (de_formals e); e_dir := de_dir e |}.
Definition port_of (p : dport) : aport :=
  {| po_name := dp_name p; po_type := dp_type p; po_dir := dp_dir p; po_formals := []; po_injected := dp_injected p |}.

(* a declaration named `name` inside the namespace path `path` *)
Definition enum_at (path : ids) (n : ids) (fs : list str) : enum_d :=
  {| en_fqn := path ++ n; en_parent := path; en_name := n; en_fields := map JStr fs |}.
Definition subint_at (path : ids) (n : ids) (lo hi : Z) : subint_d :=
  {| su_fqn := path ++ n; su_parent := path; su_name := n; su_from := JInt lo; su_to := JInt hi |}.
Definition type_at (path : ids) (t : dtype) : type_d :=
  match t with DEnum n fs => TEnum (enum_at path n fs) | DSubInt n lo hi => TSubInt (subint_at path n lo hi) end.

Definition enums_of_types (path : ids) (ts : list dtype) : list enum_d :=
  flat_map (fun t => match t with DEnum n fs => [enum_at path n fs] | _ => [] end) ts.
Definition subints_of_types (path : ids) (ts : list dtype) : list subint_d :=
  flat_map (fun t => match t with DSubInt n lo hi => [subint_at path n lo hi] | _ => [] end) ts.

Definition interface_at (path n : ids) (ts : list ditype) (es : list devent) : interface_d :=
  {| it_fqn := path ++ n; it_parent := path; it_name := n; it_types := map (type_at (path ++ n)) (types_of ts);
     it_events := map event_of es |}.
Definition component_at (path n : ids) (ps : list dport) : component_d :=
  {| co_fqn := path ++ n; co_parent := path; co_name := n; co_ports := map port_of ps |}.
Definition system_at (path n : ids) (ps : list dport) (is_ : list (str * ids)) (bs : list (dendpoint * dendpoint)) : system_d :=
  {| sy_fqn := path ++ n; sy_parent := path; sy_name := n; sy_ports := map port_of ps;
     sy_instances := map (fun i => {| i_name := fst i; i_type := snd i |}) is_;
     sy_bindings := map (fun b => {| b_left := {| ep_port := fst (fst b); ep_instance := snd (fst b) |};
                                    b_right := {| ep_port := fst (snd b); ep_instance := snd (snd b) |} |}) bs |}.

(* the contribution of one declaration, as a FileContents; namespaces contribute their bodies with the path extended *)
Definition fc_app (a b : file_contents) : file_contents :=
  {| fc_components := fc_components a ++ fc_components b; fc_enums := fc_enums a ++ fc_enums b;
     fc_externs := fc_externs a ++ fc_externs b; fc_filenames := fc_filenames a ++ fc_filenames b;
     fc_foreigns := fc_foreigns a ++ fc_foreigns b; fc_imports := fc_imports a ++ fc_imports b;
     fc_interfaces := fc_interfaces a ++ fc_interfaces b; fc_subints := fc_subints a ++ fc_subints b;
     fc_systems := fc_systems a ++ fc_systems b |}.

Definition only_components l := {| fc_components := l; fc_enums := []; fc_externs := []; fc_filenames := []; fc_foreigns := [];
  fc_imports := []; fc_interfaces := []; fc_subints := []; fc_systems := [] |}.

Fixpoint declared (path : ids) (d : ddecl) : file_contents :=
  match d with
  | DNs n body => fold_right (fun x acc => fc_app (declared (path ++ n) x) acc) empty_fc body
  | DItf n ts es =>
    {| fc_components := []; fc_enums := enums_of_types (path ++ n) (types_of ts); fc_externs := []; fc_filenames := []; fc_foreigns := [];
       fc_imports := []; fc_interfaces := [interface_at path n ts es]; fc_subints := subints_of_types (path ++ n) (types_of ts); fc_systems := [] |}
  | DComp n ps => only_components [component_at path n ps]
  | DForeign n ps =>
    {| fc_components := []; fc_enums := []; fc_externs := []; fc_filenames := []; fc_foreigns := [component_at path n ps];
       fc_imports := []; fc_interfaces := []; fc_subints := []; fc_systems := [] |}
  | DSys n ps is_ bs =>
    {| fc_components := []; fc_enums := []; fc_externs := []; fc_filenames := []; fc_foreigns := [];
       fc_imports := []; fc_interfaces := []; fc_subints := []; fc_systems := [system_at path n ps is_ bs] |}
  | DType (DEnum n fs) =>
    {| fc_components := []; fc_enums := [enum_at path n fs]; fc_externs := []; fc_filenames := []; fc_foreigns := [];
       fc_imports := []; fc_interfaces := []; fc_subints := []; fc_systems := [] |}
  | DType (DSubInt n lo hi) =>
    {| fc_components := []; fc_enums := []; fc_externs := []; fc_filenames := []; fc_foreigns := [];
       fc_imports := []; fc_interfaces := []; fc_subints := [subint_at path n lo hi]; fc_systems := [] |}
  | DExtern n v =>
    {| fc_components := []; fc_enums := []; fc_externs := [{| ex_fqn := path ++ n; ex_parent := path; ex_name := n; ex_value := v |}];
       fc_filenames := []; fc_foreigns := []; fc_imports := []; fc_interfaces := []; fc_subints := []; fc_systems := [] |}
  | DImport n =>
    {| fc_components := []; fc_enums := []; fc_externs := []; fc_filenames := []; fc_foreigns := [];
       fc_imports := [n]; fc_interfaces := []; fc_subints := []; fc_systems := [] |}
  | DFile n =>
    {| fc_components := []; fc_enums := []; fc_externs := []; fc_filenames := [n]; fc_foreigns := [];
       fc_imports := []; fc_interfaces := []; fc_subints := []; fc_systems := [] |}
  | DUnknown _ => empty_fc
  | DJunk _ => empty_fc
  end.

Definition flatten_decls (f : dfile) : file_contents :=
  fold_right (fun x acc => fc_app (declared [] x) acc) empty_fc f.

(* ---------- well-formedness: what the Dezyne grammar guarantees ---------- *)

Definition ids_ok (i : ids) : bool := negb (is_nil i) && forallb valid_id i.
Definition known_class (c : str) : bool :=
  existsb (str_eqb c) [k "component"; k "enum"; k "extern"; k "foreign"; k "file-name"; k "import"; k "interface";
                       k "namespace"; k "system"; k "subint"].

Definition wf_type (t : dtype) : bool := match t with DEnum n _ => ids_ok n | DSubInt n _ _ => ids_ok n end.
Definition wf_itype (i : ditype) : bool :=
  match i with ITType t => wf_type t | ITOther c => negb (str_eqb c (k "enum")) && negb (str_eqb c (k "subint")) end.
Definition wf_formal (f : dformal) : bool := ids_ok (df_type f).
(* out events return void and have no out parameter (the parser refuses anything else, see C15) *)
Definition wf_event (e : devent) : bool :=
  ids_ok (de_ret e) && forallb wf_formal (de_formals e) &&
  match de_dir e with
  | EIn => true
  | EOut => ids_eqb (de_ret e) [k "void"] && forallb (fun f => match df_dir f with FOut => false | _ => true end) (de_formals e)
  end.
Definition wf_port (p : dport) : bool := ids_ok (dp_type p).

Fixpoint wf_decl (d : ddecl) : bool :=
  match d with
  | DNs n body => ids_ok n && forallb wf_decl body
  | DItf n ts es => ids_ok n && forallb wf_itype ts && forallb wf_event es
  | DComp n ps => ids_ok n && forallb wf_port ps
  | DForeign n ps => ids_ok n && forallb wf_port ps
  | DSys n ps is_ _ => ids_ok n && forallb wf_port ps && forallb (fun i => ids_ok (snd i)) is_
  | DType t => wf_type t
  | DExtern n _ => ids_ok n
  | DImport _ | DFile _ => true
  | DUnknown c => negb (known_class c)
  | DJunk j => match j with JObj _ => false | _ => true end
  end.
Definition wf_file (f : dfile) : bool := forallb wf_decl f.

(* nesting depth of namespaces *)
Fixpoint ns_depth (d : ddecl) : nat :=
  match d with DNs _ body => S (fold_right (fun x acc => Nat.max (ns_depth x) acc) O body) | _ => O end.
