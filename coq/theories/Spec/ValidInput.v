(* What "a valid input" of Builder.build is, stated on the parsed model and the configuration alone (no reference to the
   generator's intermediate steps): C13 says valid inputs always succeed and invalid ones always fail. *)
From Coq Require Import List NArith Bool String.
From Dznpy Require Import Base.PyStr Base.Result Base.Json Model.TextGen Model.Scoping Model.PortSelection Model.CppGen Model.Ast
  Model.SupportFiles Model.Builder.
Import ListNotations.

(* the events of an interface in one direction *)
Definition itf_events (d : edir) (itf : interface_d) : list event :=
  filter (fun e => match e_dir e, d with EIn, EIn | EOut, EOut => true | _, _ => false end) (it_events itf).

(* every parameter type of the event names exactly one declaration on the scope chain of the interface, and it is an extern type *)
Definition formal_resolves (fc : file_contents) (itf : interface_d) (f : formal) : Prop :=
  exists x, lookup_fqn fc (f_type f) (it_fqn itf) = [FExtern x].
Definition event_resolves (fc : file_contents) (itf : interface_d) (e : event) : Prop := Forall (formal_resolves fc itf) (e_formals e).
Definition events_resolve (fc : file_contents) (itf : interface_d) (d : edir) : Prop := Forall (event_resolves fc itf) (itf_events d itf).

(* the multi-client settings fit the interface of the port they name: distinct claim and release in-events exist, the claim
   event's reply type names exactly one enum, and the granting value is one of its fields *)
Definition mc_valid (fc : file_contents) (c : mc_cfg) (itf : interface_d) : Prop :=
  str_eqb (mcc_claim c) (mcc_release c) = false /\
  exists claim crest en release rrest,
    filter (fun e => event_eqb_name e (mcc_claim c) && is_in e) (it_events itf) = claim :: crest /\
    lookup_fqn fc (e_ret claim) (it_fqn itf) = [FEnum en] /\
    existsb (fun j => jstr_is j (hd [] (mcc_reply c))) (en_fields en) = true /\
    filter (fun e => event_eqb_name e (mcc_release c) && is_in e) (it_events itf) = release :: rrest.

Definition is_mc_port (pc : ports_cfg) (port : aport) : bool :=
  match pc_mc pc with Some c => str_eqb (po_name port) (mcc_port c) | None => false end.

(* one port of the encapsulee: its type names exactly one interface; an exposed port has a semantics; where the generator has
   to spell out parameter types (events rerouted through the dispatcher) they resolve; the multi-client port is MTS and fits *)
Definition port_ok (fc : file_contents) (pc : ports_cfg) (matched : list (str * semantics)) (parent : ids) (port : aport) : Prop :=
  exists itf, lookup_fqn fc (po_type port) parent = [FInterface itf] /\
    if aport_is_provides port then
      exists s, lookup matched (po_name port) = Some s /\
        (s = MTS -> events_resolve fc itf EIn) /\
        (is_mc_port pc port = true -> s = MTS /\ events_resolve fc itf EOut /\ exists c, pc_mc pc = Some c /\ mc_valid fc c itf)
    else po_injected port = true \/
         exists s, lookup matched (po_name port) = Some s /\ (s = MTS -> events_resolve fc itf EOut).

Definition valid_input (fc : file_contents) (cfg : config) : Prop :=
  let pc := cf_ports cfg in
  exists f enc_fqn parent enc_name ports matched,
    (* the encapsulee names exactly one declaration, a component or a system *)
    lookup_fqn fc (cf_encapsulee cfg) [] = [f] /\ encapsulee_of f = Ok (enc_fqn, parent, enc_name, ports) /\
    (* the port selection is consistent and covers the ports it names (characterised by the theorems of C03) *)
    cfg_match (pc_psts pc) (pc_pmts pc) (pc_rsts pc) (pc_rmts pc)
              (dedup (port_names PProvides ports)) (dedup (port_names PRequires ports)) = Ok matched /\
    Forall (port_ok fc pc matched parent) ports /\
    (* a multi-client configuration names a provides port of the encapsulee *)
    (forall c, pc_mc pc = Some c -> exists port, In port ports /\ aport_is_provides port = true /\ str_eqb (po_name port) (mcc_port c) = true) /\
    (* the shell gets a name *)
    is_nil (get_basename (cf_filename cfg) ++ cf_suffix cfg) = false.
