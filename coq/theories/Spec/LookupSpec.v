(* Specification of name lookup (C14): the scope chain and the declarations on it. *)
From Coq Require Import List NArith Bool Arith.
From Dznpy Require Import Base.PyStr Model.Scoping.
Import ListNotations.
Open Scope nat_scope.

(* the calling scope and its enclosing scopes, innermost first, down to the global scope [] *)
Definition enclosing_scopes (sc : ids) : list ids :=
  map (fun k => firstn k sc) (rev (seq 0 (S (List.length sc)))).

(* the candidate fully qualified names for `name` looked up from `sc`, innermost first *)
Definition chain (sc name : ids) : list ids := map (fun p => p ++ name) (enclosing_scopes sc).

(* every searchable declaration, in the order the seven containers are visited *)
Definition all_decls (c : containers) : list decl := concat (all_containers c).

(* d's fully qualified name is the searched name prefixed by the calling scope or an enclosing scope *)
Definition on_chain (sc name : ids) (d : decl) : Prop :=
  exists k, k <= List.length sc /\ d_fqn d = firstn k sc ++ name.
Definition on_chainb (sc name : ids) (d : decl) : bool := existsb (ids_eqb (d_fqn d)) (chain sc name).

(* d's fully qualified name ends with the given identifiers *)
Definition ends_with (e : ids) (d : decl) : Prop := exists p, d_fqn d = p ++ e.
Definition ends_withb (e : ids) (d : decl) : bool := ids_eqb (lastn (List.length e) (d_fqn d)) e.

Definition valid_ids (i : ids) : Prop := Forall (fun x => valid_id x = true) i.

(* identifiers contain none of the characters of a separator *)
Definition sep_free (sep : str) (i : ids) : Prop := Forall (fun x => Forall (fun c => ~ In c sep) x) i.
