(* Specification of indentation (C18), per line. *)
From Coq Require Import List NArith Bool.
From Dznpy Require Import Base.PyStr Model.TextGen.
Import ListNotations.
Open Scope nat_scope.

(* the indentation whitespace: n spaces, widened to the bullet prefix if that is wider; or one tab *)
Definition spec_ws (cfg : indcfg) : str :=
  match i_indentor cfg with
  | Tab => [TABc]
  | Spaces =>
    match i_bullet cfg with
    | None => repeat SP (i_spaces cfg)
    | Some (_, g) => repeat SP (Nat.max (i_spaces cfg) (List.length g + 1))
    end
  end.

(* the bullet prefix: glyph, then padding up to the indentation width (at least one blank), or a tab *)
Definition spec_bprefix (cfg : indcfg) (g : str) : str :=
  match i_indentor cfg with
  | Tab => g ++ [TABc]
  | Spaces => g ++ repeat SP (Nat.max (i_spaces cfg) (List.length g + 1) - List.length g)
  end.

(* a line that only shifts: blank lines stay empty, others get the whitespace in front *)
Definition shifted (cfg : indcfg) (l : str) : str := if blank l then [] else spec_ws cfg ++ l.

(* a bullet row: the prefix in front, trailing whitespace gone *)
Definition bulleted (cfg : indcfg) (g l : str) : str := strip (spec_bprefix cfg g ++ l).

Definition line_spec (cfg : indcfg) (i : nat) (l : str) : str :=
  match i_bullet cfg with
  | None => shifted cfg l
  | Some (BAll, g) => bulleted cfg g l
  | Some (BFirst, g) => match i with O => bulleted cfg g l | S _ => shifted cfg l end
  end.

Fixpoint map_i {A B} (f : nat -> A -> B) (i : nat) (l : list A) : list B :=
  match l with [] => [] | a :: t => f i a :: map_i f (S i) t end.

(* a glyph a user would call a glyph: non-empty, no surrounding whitespace *)
Definition glyph_ok (g : str) : bool :=
  match g, rev g with
  | a :: _, z :: _ => negb (is_space a) && negb (is_space z)
  | _, _ => false
  end.

(* a string without trailing whitespace *)
Definition rstrip_fixed (x : str) : bool :=
  match rev x with [] => true | c :: _ => negb (is_space c) end.
