(* dznpy.ast as records. NamespaceTree-valued fields are represented by the fully qualified
   scope they denote (parent_ns.fqn); everything else is field by field. *)
From Coq Require Import List NArith ZArith Bool.
From Dznpy Require Import Base.PyStr Base.Json Model.Scoping.
Import ListNotations.

Inductive fdir := FIn | FOut | FInOut.
Inductive edir := EIn | EOut.
Inductive portdir := PProvides | PRequires.

Record formal := { f_name : str; f_type : ids; f_dir : fdir }.
Record event := { e_name : str; e_ret : ids; e_formals : list formal; e_dir : edir }.
Record aport := { po_name : str; po_type : ids; po_dir : portdir; po_formals : list formal; po_injected : bool }.
Record endpoint := { ep_port : str; ep_instance : option str }.
Record binding := { b_left : endpoint; b_right : endpoint }.
Record instance := { i_name : str; i_type : ids }.

Record enum_d := { en_fqn : ids; en_parent : ids; en_name : ids; en_fields : list json }.  (* fields are stored unchecked *)
Record subint_d := { su_fqn : ids; su_parent : ids; su_name : ids; su_from : json; su_to : json }. (* int or bool *)
Record extern_d := { ex_fqn : ids; ex_parent : ids; ex_name : ids; ex_value : str }.
Inductive type_d := TEnum (e : enum_d) | TSubInt (s : subint_d).
Record interface_d := { it_fqn : ids; it_parent : ids; it_name : ids; it_types : list type_d; it_events : list event }.
Record component_d := { co_fqn : ids; co_parent : ids; co_name : ids; co_ports : list aport }.
Record system_d := { sy_fqn : ids; sy_parent : ids; sy_name : ids; sy_ports : list aport;
                     sy_instances : list instance; sy_bindings : list binding }.

Record file_contents := {
  fc_components : list component_d; fc_enums : list enum_d; fc_externs : list extern_d;
  fc_filenames : list str; fc_foreigns : list component_d; fc_imports : list str;
  fc_interfaces : list interface_d; fc_subints : list subint_d; fc_systems : list system_d }.

Definition empty_fc : file_contents :=
  {| fc_components := []; fc_enums := []; fc_externs := []; fc_filenames := []; fc_foreigns := [];
     fc_imports := []; fc_interfaces := []; fc_subints := []; fc_systems := [] |}.

Definition type_enums (l : list type_d) : list enum_d :=
  flat_map (fun t => match t with TEnum e => [e] | TSubInt _ => [] end) l.
Definition type_subints (l : list type_d) : list subint_d :=
  flat_map (fun t => match t with TSubInt s => [s] | TEnum _ => [] end) l.
