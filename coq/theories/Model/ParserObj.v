(* DznJsonAst as an object with state: the loaded document and the FileContents field that
   process() fills and returns (C16). *)
From Coq Require Import List NArith Bool.
From Dznpy Require Import Base.PyStr Base.Result Base.Json Model.Ast Model.JsonAst.
Import ListNotations.

Record parser := { p_ast : json;               (* None is represented by JNull: parse_root rejects both alike *)
                   p_fc : file_contents }.     (* self._file_contents *)

Definition new_parser (doc : option json) : parser :=
  {| p_ast := match doc with Some j => j | None => JNull end; p_fc := empty_fc |}.

Definition load (p : parser) (doc : json) : parser := {| p_ast := doc; p_fc := p_fc p |}.

(* what is left in self._file_contents when parsing stops with an exception is not observable through
   process(); the model keeps the old field value in that case *)
Definition process_obj (p : parser) : parser * result file_contents :=
  match parse_root (p_ast p) with
  | Err e => (p, Err e)
  | Ok l =>
    (* self._file_contents = FileContents(); then the elements are appended into it *)
    match process_elements (jdepth (p_ast p)) l with
    | Ok fc => ({| p_ast := p_ast p; p_fc := fc |}, Ok fc)
    | Err e => ({| p_ast := p_ast p; p_fc := empty_fc |}, Err e)
    end
  end.

(* histories over several parser instances *)
Inductive pop := PNew (doc : option json) | PLoad (i : nat) (doc : json) | PProcess (i : nat).

Definition world := list parser.

Fixpoint set_nth {A} (i : nat) (x : A) (l : list A) : list A :=
  match i, l with
  | O, _ :: t => x :: t
  | S k, a :: t => a :: set_nth k x t
  | _, [] => []
  end.

Definition pstep (w : world) (o : pop) : world * option (result file_contents) :=
  match o with
  | PNew d => (w ++ [new_parser d], None)
  | PLoad i d => match nth_error w i with Some p => (set_nth i (load p d) w, None) | None => (w, None) end
  | PProcess i => match nth_error w i with
                  | Some p => let '(p', r) := process_obj p in (set_nth i p' w, Some r)
                  | None => (w, None)
                  end
  end.

Fixpoint run_history (w : world) (ops : list pop) : list (option (result file_contents)) :=
  match ops with
  | [] => []
  | o :: t => let '(w', r) := pstep w o in r :: run_history w' t
  end.
