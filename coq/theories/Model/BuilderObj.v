(* The Builder object across builds: a state machine over the one piece of state it keeps. *)
From Coq Require Import List NArith Bool String.
From Dznpy Require Import Base.PyStr Base.Result Model.TextGen Model.Scoping Model.PortSelection Model.CppGen Model.Ast
  Model.SupportFiles Model.Builder.
Import ListNotations.

(* The Builder object keeps exactly one piece of state between builds: the recipe of the last build. *)
Definition bstate := option config.
Definition bstep (tp : templates) (s : bstate) (i : file_contents * config) : bstate * result (list gfile) :=
  match configure_and_build tp (fst i) (snd i) with
  | Ok fs => (Some (snd i), Ok fs)      (* self._recipe = Recipe(cfg, ...) *)
  | Err e => (s, Err e)
  end.
Fixpoint brun (tp : templates) (s : bstate) (h : list (file_contents * config)) : list (result (list gfile)) :=
  match h with [] => [] | i :: t => let '(s', r) := bstep tp s i in r :: brun tp s' t end.

