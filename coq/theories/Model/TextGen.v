(* Model of dznpy.misc_utils (flatten_to_strlist, trim_list) and dznpy.text_gen
   (Indentizer, TextBlock, chunk, cond_chunk) and of cpp_gen.Comment's rendering.
   Transcribed from /repo/src/dznpy/{misc_utils,text_gen,cpp_gen}.py; tied to it by Leg A. *)
From Coq Require Import List NArith Bool String.
From Dznpy Require Import Base.PyStr.
Import ListNotations.
Open Scope N_scope.

(* ---------- Indentizer ---------- *)

Inductive indentor := Spaces | Tab.
Inductive bmode := BAll | BFirst.
Record indcfg := { i_indentor : indentor; i_spaces : nat; i_bullet : option (bmode * str) }.

Definition default_ind : indcfg := {| i_indentor := Spaces; i_spaces := 4; i_bullet := None |}.
Definition comment_ind : indcfg :=
  {| i_indentor := Spaces; i_spaces := 3; i_bullet := Some (BAll, lit "//") |}.

(* Indentizer.__post_init__: (_whitespace, _bulletized_indent) *)
Definition bprefix (cfg : indcfg) (g : str) : str :=
  match i_indentor cfg with
  | Spaces => ljust (i_spaces cfg) (g ++ [SP])
  | Tab => g ++ [TABc]
  end.

Definition ws (cfg : indcfg) : str :=
  match i_indentor cfg, i_bullet cfg with
  | Tab, _ => [TABc]
  | Spaces, None => repeat SP (i_spaces cfg)
  | Spaces, Some (_, g) => repeat SP (List.length (bprefix cfg g))
  end.

Definition only_indent (cfg : indcfg) (l : str) : str :=
  if blank l then [] else ws cfg ++ l.

Definition bullet_line (cfg : indcfg) (g l : str) : str := strip (bprefix cfg g ++ l).

(* Indentizer.to_list on an already flattened list of strings *)
Definition indent_lines (cfg : indcfg) (ls : list str) : list str :=
  match ls with
  | [] => []
  | l0 :: rest =>
    match i_bullet cfg with
    | Some (BAll, g) => map (bullet_line cfg g) ls
    | Some (BFirst, g) => bullet_line cfg g l0 :: map (only_indent cfg) rest
    | None => map (only_indent cfg) ls
    end
  end.

(* ---------- content ---------- *)

Record tblock := { hdr : list str; lns : list str }.

(* TextBlock.__str__ *)
Definition str_lines (ls : list str) : str :=
  match ls with [] => [] | _ => join [LF] ls ++ [LF] end.
Definition str_tb (t : tblock) : str := str_lines (hdr t ++ lns t).

(* Comment.__str__ : str(TextBlock(deepcopy(self).indent())) - the header is not carried over *)
Definition str_comment (ls : list str) : str := str_lines (indent_lines comment_ind ls).

Inductive content :=
| CNone
| CStr (x : str)
| COther (x : str) (truthy : bool)   (* any other object: x = str(obj), truthy = bool(obj) *)
| CList (l : list content)
| CDict (l : list content)            (* values in insertion order *)
| CBlock (t : tblock)                 (* a TextBlock instance *)
| CComment (ls : list str).           (* a cpp_gen.Comment instance (never has a header) *)

Definition nonempty_singleton (x : str) : list str := if is_nil x then [] else [x].

(* misc_utils.flatten_to_strlist *)
Fixpoint flatten (skip : bool) (c : content) : list str :=
  match c with
  | CNone => []
  | CStr x => if skip && is_nil x then [] else [x]
  | COther x _ => nonempty_singleton x
  | CList l => flat_map (flatten skip) l
  | CDict l => flat_map (flatten skip) l
  | CBlock t => nonempty_singleton (str_tb t)
  | CComment ls => nonempty_singleton (str_comment ls)
  end.

(* bool(value) as Python evaluates it *)
Definition truthy (c : content) : bool :=
  match c with
  | CNone => false
  | CStr x => negb (is_nil x)
  | COther _ b => b
  | CList l | CDict l => negb (is_nil l)
  | CBlock _ | CComment _ => true
  end.

(* Indentizer.to_list / to_str *)
Definition to_list (cfg : indcfg) (c : content) : list str := indent_lines cfg (flatten false c).
Definition to_str (cfg : indcfg) (c : content) : str := join [LF] (to_list cfg c) ++ [LF].

(* ---------- TextBlock ---------- *)

Definition split_piece (x : str) : list str := if is_nil x then [x] else splitlines x.

(* what TextBlock.append adds to self.lines *)
Definition appended (c : content) : list str :=
  match c with
  | CBlock t => lns t
  | CComment ls => ls
  | _ => flat_map split_piece (flatten false c)
  end.

Definition append (t : tblock) (c : content) : tblock :=
  {| hdr := hdr t; lns := lns t ++ appended c |}.

(* TextBlock(content, header) *)
Definition mk (c h : content) : tblock :=
  {| hdr := if truthy h then appended h else []; lns := appended c |}.
Definition mk1 (c : content) : tblock := mk c CNone.

(* __add__ : a new block from self.lines + TextBlock(other).lines; header dropped *)
Definition add (t : tblock) (other : content) : tblock :=
  mk1 (CList (map CStr (lns t ++ appended other))).

(* trim_list on a list of strings *)
Fixpoint ltrim (ls : list str) : list str :=
  match ls with
  | [] => []
  | l :: t => if is_nil l then ltrim t else ls
  end.
Definition rtrim (ls : list str) : list str := rev (ltrim (rev ls)).
Definition trim_list (end_only : bool) (ls : list str) : list str :=
  rtrim (if end_only then ls else ltrim ls).

Definition trim (end_only : bool) (t : tblock) : tblock :=
  {| hdr := hdr t; lns := trim_list end_only (lns t) |}.

Definition indent (cfg : indcfg) (t : tblock) : tblock :=
  {| hdr := hdr t; lns := indent_lines cfg (lns t) |}.

(* lines setter: stores the argument as is (deep copy) *)
Definition set_lines (t : tblock) (ls : list str) : tblock := {| hdr := hdr t; lns := ls |}.

(* ---------- chunk / cond_chunk ---------- *)

Definition strs (l : list str) : content := CList (map CStr l).

Definition chunk (c a : content) : option tblock :=
  match flatten true c with
  | [] => None
  | _ => Some (mk1 (CList [c; strs (flatten true a)]))
  end.

Definition blank_line : content := CStr [LF].

Definition cond_chunk (preamble c empty_response a : content) (all_or_nothing : bool) : option tblock :=
  let tp := flatten true preamble in
  let tc := flatten true c in
  let te := flatten true empty_response in
  if all_or_nothing && is_nil tc
  then (if truthy empty_response then Some (mk1 empty_response) else None)
  else if negb (is_nil tc)
       then chunk (CList [strs tp; c]) a
       else chunk (CList [strs tp; strs te]) a.

(* an Optional[TextBlock] used as content *)
Definition opt_block (o : option tblock) : content :=
  match o with None => CNone | Some t => CBlock t end.
