(* Model of dznpy.adv_shell.port_selection and of the per-port semantics lookup of
   processing.create_dzn_elements. Sets of port names are duplicate-free lists; only membership is used. *)
From Coq Require Import List NArith Bool.
From Dznpy Require Import Base.PyStr Base.Result.
Import ListNotations.

Inductive wildcard := WRemaining | WAll | WNone.
Inductive psel := PW (w : wildcard) | PS (names : list str).
Inductive semantics := STS | MTS.

Definition mem (x : str) (l : list str) : bool := existsb (str_eqb x) l.
Definition subset (a b : list str) : bool := forallb (fun x => mem x b) a.
Definition set_eqb (a b : list str) : bool := subset a b && subset b a.

(* PortSelect.__post_init__ *)
Definition psel_ok (p : psel) : result unit :=
  match p with
  | PW _ => Ok tt
  | PS l => if is_nil l then Err AdvShellError else if mem [] l then Err AdvShellError else Ok tt
  end.

Definition strset (p : psel) : list str := match p with PS l => l | PW _ => [] end.
Definition is_all (p : psel) : bool := match p with PW WAll => true | _ => false end.
Definition not_empty (p : psel) : bool := match p with PS _ => true | PW WNone => false | PW _ => true end.
Definition is_wild (p : psel) : bool := match p with PW WNone => false | PW _ => true | PS _ => false end.

(* dataclass equality of two PortSelect values *)
Definition wildcard_eqb (a b : wildcard) : bool :=
  match a, b with WRemaining, WRemaining | WAll, WAll | WNone, WNone => true | _, _ => false end.
Definition psel_eqb (a b : psel) : bool :=
  match a, b with
  | PW x, PW y => wildcard_eqb x y
  | PS x, PS y => set_eqb x y
  | _, _ => false
  end.

(* PortsSemanticsCfg.__post_init__ *)
Definition semcfg_ok (sts mts : psel) : result unit :=
  if psel_eqb sts mts then Err AdvShellError
  else if existsb (fun x => mem x (strset mts)) (strset sts) then Err AdvShellError
  else if (is_all sts && not_empty mts) || (not_empty sts && is_all mts) then Err AdvShellError
  else Ok tt.

(* constructing PortSelect(sts), PortSelect(mts), then PortsSemanticsCfg, as a caller does *)
Definition mk_semcfg (sts mts : psel) : result unit :=
  do _ <- psel_ok sts; do _ <- psel_ok mts; semcfg_ok sts mts.

(* the per-port decision inside PortsSemanticsCfg.match *)
Definition sem_of (sts mts : psel) (p : str) : option semantics :=
  if mem p (strset sts) then Some STS
  else if mem p (strset mts) then Some MTS
  else if is_wild sts then Some STS
  else if is_wild mts then Some MTS
  else None.

Definition unmatched (sts mts : psel) (expected : list str) : list str :=
  filter (fun x => negb (mem x expected)) (strset sts ++ strset mts).

(* PortsSemanticsCfg.match: error or the dictionary port -> semantics (ports without entry omitted) *)
Definition side_match (sts mts : psel) (expected : list str) : result (list (str * semantics)) :=
  if negb (is_nil (unmatched sts mts expected)) then Err AdvShellError
  else Ok (flat_map (fun p => match sem_of sts mts p with Some s => [(p, s)] | None => [] end) expected).

(* PortsCfg.__post_init__ *)
Definition portscfg_ok (psts pmts : psel) : result unit :=
  if not_empty psts && not_empty pmts then Err AdvShellError else Ok tt.

Fixpoint lookup (d : list (str * semantics)) (p : str) : option semantics :=
  match d with [] => None | (k, v) :: t => if str_eqb k p then Some v else lookup t p end.

(* PortsCfg.match: provides dictionary updated with the requires dictionary *)
Definition cfg_match (psts pmts rsts rmts : psel) (pp rp : list str) : result (list (str * semantics)) :=
  do a <- side_match psts pmts pp;
  do b <- side_match rsts rmts rp;
  Ok (b ++ a).   (* lookups find the requires entry first, as dict.update overrides *)

(* ---------- the port loop of create_dzn_elements, semantics only ---------- *)

Inductive pdir := Provides | Requires.
Record port := { p_name : str; p_dir : pdir; p_injected : bool }.

Definition names_of (d : pdir) (ports : list port) : list str :=
  map p_name (filter (fun p => match p_dir p, d with Provides, Provides | Requires, Requires => true | _, _ => false end) ports).

Definition exposed (p : port) : bool := match p_dir p with Provides => true | Requires => negb (p_injected p) end.

Definition assign_ports (psts pmts rsts rmts : psel) (ports : list port) : result (list (port * semantics)) :=
  do d <- cfg_match psts pmts rsts rmts (names_of Provides ports) (names_of Requires ports);
  mapM (fun p => match lookup d (p_name p) with
                 | Some s => Ok (p, s)
                 | None => Err AdvShellError
                 end) (filter exposed ports).

(* the whole user-visible pipeline: build the configuration objects, then assign *)
Definition configure (psts pmts rsts rmts : psel) (ports : list port) : result (list (port * semantics)) :=
  do _ <- mk_semcfg psts pmts;
  do _ <- mk_semcfg rsts rmts;
  do _ <- portscfg_ok psts pmts;
  assign_ports psts pmts rsts rmts ports.
