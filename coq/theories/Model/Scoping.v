(* Model of dznpy.scoping and of the lookup functions of dznpy.ast_view. *)
From Coq Require Import List NArith Bool.
From Dznpy Require Import Base.PyStr Base.Result.
Import ListNotations.
Open Scope N_scope.

(* re.fullmatch('^[a-zA-Z_][a-zA-Z0-9_]*$', identifier) *)
Definition is_alpha_ (c : char) : bool :=
  (N.leb 65 c && N.leb c 90) || (N.leb 97 c && N.leb c 122) || N.eqb c 95.
Definition is_alnum_ (c : char) : bool := is_alpha_ c || (N.leb 48 c && N.leb c 57).
Definition valid_id (x : str) : bool :=
  match x with [] => false | c :: t => is_alpha_ c && forallb is_alnum_ t end.

Definition ids := list str.

(* NamespaceIds(items=...) with a list of strings: __post_init__ *)
Definition mk_ids (items : list str) : result ids :=
  if forallb valid_id items then Ok items else Err NamespaceIdsTypeError.

(* argument of namespaceids_t, as far as its behaviour depends on it *)
Inductive idarg :=
| AIds (i : ids)            (* already a NamespaceIds: passed through *)
| AStrList (l : list str)   (* a list of strings *)
| AStr (x : str)
| AOtherArg.                (* anything else: None, numbers, lists with non-strings, ... *)

Definition dot : str := [46].
Definition colons : str := [58; 58].

Definition namespaceids_t (a : idarg) : result ids :=
  match a with
  | AIds i => Ok i
  | AStrList l => mk_ids l
  | AOtherArg => Err NamespaceIdsTypeError
  | AStr x =>
    if is_nil x then mk_ids []
    else if contains dot x then mk_ids (split dot x)
    else if contains colons x then mk_ids (split colons x)
    else mk_ids [x]
  end.

(* str(NamespaceIds) and the C++ rendering used by cpp_gen.Fqn *)
Definition ids_dotted (i : ids) : str := join dot i.
Definition ids_colons (i : ids) : str := join colons i.

(* __add__, sum_namespaceids_items *)
Definition ids_add (a b : ids) : ids := a ++ b.
Definition ids_sum (l : list ids) : ids := fold_left ids_add l [].

(* NamespaceTree: the scope names from the root down to this node *)
Definition nstree := list ids.
Definition tree_fqn (t : nstree) : ids := ids_sum t.
Definition fqn_member_name (t : nstree) (member : ids) : ids := ids_add (tree_fqn t) member.

(* scope_resolution_order: current_scope.items.pop() until empty *)
Fixpoint sro_aux (fuel : nat) (cur searchable : ids) : list ids :=
  ids_add cur searchable ::
  match fuel with
  | O => []
  | S f => if is_nil cur then [] else sro_aux f (removelast cur) searchable
  end.
Definition scope_resolution_order (searchable : ids) (calling_scope : ids) : list ids :=
  sro_aux (List.length calling_scope) calling_scope searchable.

Definition ids_eqb (a b : ids) : bool := strs_eqb a b.

(* ---------- ast_view ---------- *)

Inductive dkind := KComponent | KEnum | KExtern | KForeign | KInterface | KSubInt | KSystem.

Record decl := { d_kind : dkind; d_fqn : ids; d_uid : N }.

(* the seven searchable containers of FileContents, in the order find_fqn visits them *)
Record containers := {
  c_components : list decl; c_enums : list decl; c_externs : list decl; c_foreigns : list decl;
  c_interfaces : list decl; c_subints : list decl; c_systems : list decl }.

Definition all_containers (c : containers) : list (list decl) :=
  [c_components c; c_enums c; c_externs c; c_foreigns c; c_interfaces c; c_subints c; c_systems c].

Definition find_fqn (c : containers) (name : ids) (as_of_inner_scope : ids) : list decl :=
  let order := scope_resolution_order name as_of_inner_scope in
  flat_map (fun container =>
    flat_map (fun e => if existsb (ids_eqb (d_fqn e)) order then [e] else []) container)
    (all_containers c).

(* items[-n:] *)
Definition lastn {A} (n : nat) (l : list A) : list A :=
  match n with O => l | _ => skipn (List.length l - n) l end.

Definition find_any (c : containers) (endswith : ids) : list decl :=
  let n := List.length endswith in
  flat_map (fun container =>
    flat_map (fun e => if ids_eqb (lastn n (d_fqn e)) endswith then [e] else []) container)
    (all_containers c).
