(* Model of dznpy.json_ast: the element parsers in Python's evaluation order, and DznJsonAst.process. *)
From Coq Require Import List NArith ZArith Bool String.
From Dznpy Require Import Base.PyStr Base.Result Base.Json Model.Scoping Model.Ast.
Import ListNotations.

Definition E {A} : result A := Err DznJsonError.
Definition k (x : string) : str := lit x.

(* ---------- ElementHelper ---------- *)

(* ElementHelper(element, ctx): the element must be a dict *)
Definition as_obj (j : json) : result (list (str * json)) :=
  match j with JObj l => Ok l | _ => E end.

Definition tryget_str (o : list (str * json)) (key : str) : result (option str) :=
  match assoc key o with
  | None => Ok None
  | Some (JStr x) => Ok (Some x)
  | Some _ => E
  end.
Definition get_str (o : list (str * json)) (key : str) : result str :=
  do r <- tryget_str o key; match r with Some x => Ok x | None => E end.

Definition tryget_dict (o : list (str * json)) (key : str) : result (option json) :=
  match assoc key o with
  | None => Ok None
  | Some (JObj l) => Ok (Some (JObj l))
  | Some _ => E
  end.
Definition get_dict (o : list (str * json)) (key : str) : result json :=
  do r <- tryget_dict o key; match r with Some x => Ok x | None => E end.

(* isinstance(x, int) holds for JSON integers and for true/false *)
Definition get_int (o : list (str * json)) (key : str) : result json :=
  match assoc key o with
  | Some (JInt z) => Ok (JInt z)
  | Some (JBool b) => Ok (JBool b)
  | _ => E
  end.

Definition get_list (o : list (str * json)) (key : str) : result (list json) :=
  match assoc key o with Some (JArr l) => Ok l | _ => E end.

Definition assert_class (o : list (str * json)) (cls : str) : result unit :=
  match assoc (k "<class>") o with
  | Some v => if jstr_is v cls then Ok tt else E
  | None => E
  end.

(* get_class_value: the raw value of <class> *)
Definition get_class_value (j : json) : result json :=
  match j with
  | JObj l => match assoc (k "<class>") l with Some v => Ok v | None => E end
  | _ => E
  end.

Definition helper (j : json) (cls : str) : result (list (str * json)) :=
  do o <- as_obj j; do _ <- assert_class o cls; Ok o.

(* ---------- leaf parsers ---------- *)

(* ns_ids_t applied to a JSON list *)
Definition json_strs (l : list json) : option (list str) :=
  fold_right (fun j acc => match j, acc with JStr x, Some t => Some (x :: t) | _, _ => None end) (Some []) l.

Definition parse_scope_name (j : json) : result ids :=
  do o <- helper j (k "scope_name");
  do l <- get_list o (k "ids");
  if is_nil l then E
  else match json_strs l with
       | Some items => mk_ids items
       | None => Err NamespaceIdsTypeError
       end.

Definition parse_formal_direction (x : str) : result fdir :=
  if str_eqb x (k "in") then Ok FIn else if str_eqb x (k "out") then Ok FOut
  else if str_eqb x (k "inout") then Ok FInOut else E.

Definition parse_formal (j : json) : result formal :=
  do o <- helper j (k "formal");
  do name <- get_str o (k "name");
  do tn <- get_dict o (k "type_name");
  do ty <- parse_scope_name tn;
  do d <- get_str o (k "direction");
  do dir <- parse_formal_direction d;
  Ok {| f_name := name; f_type := ty; f_dir := dir |}.

Definition parse_formals (j : json) : result (list formal) :=
  do o <- helper j (k "formals");
  do l <- get_list o (k "elements");
  mapM parse_formal l.

Definition parse_event_direction (x : str) : result edir :=
  if str_eqb x (k "in") then Ok EIn else if str_eqb x (k "out") then Ok EOut else E.

Definition parse_signature (j : json) : result (ids * list formal) :=
  do o <- helper j (k "signature");
  do tn <- get_dict o (k "type_name");
  do ty <- parse_scope_name tn;
  do fj <- get_dict o (k "formals");
  do fs <- parse_formals fj;
  Ok (ty, fs).

Definition void_ids : ids := [k "void"].

Definition parse_event (j : json) : result event :=
  do o <- helper j (k "event");
  do name <- get_str o (k "name");
  do sj <- get_dict o (k "signature");
  do sg <- parse_signature sj;
  do d <- get_str o (k "direction");
  do dir <- parse_event_direction d;
  match dir with
  | EOut =>
    if negb (ids_eqb (fst sg) void_ids) then E
    else if existsb (fun f => match f_dir f with FOut => true | _ => false end) (snd sg) then E
    else Ok {| e_name := name; e_ret := fst sg; e_formals := snd sg; e_dir := dir |}
  | EIn => Ok {| e_name := name; e_ret := fst sg; e_formals := snd sg; e_dir := dir |}
  end.

Definition parse_events (j : json) : result (list event) :=
  do o <- helper j (k "events");
  do l <- get_list o (k "elements");
  mapM parse_event l.

Definition parse_port_direction (x : str) : result portdir :=
  if str_eqb x (k "requires") then Ok PRequires else if str_eqb x (k "provides") then Ok PProvides else E.

Definition parse_injected (j : json) : result bool :=
  do o <- helper j (k "port");
  do r <- tryget_str o (k "injected?");
  match r with
  | None => Ok false
  | Some x => if str_eqb x (k "injected") then Ok true else E
  end.

Definition parse_port (j : json) : result aport :=
  do o <- helper j (k "port");
  do name <- get_str o (k "name");
  do tn <- get_dict o (k "type_name");
  do ty <- parse_scope_name tn;
  do d <- get_str o (k "direction");
  do dir <- parse_port_direction d;
  do fj <- get_dict o (k "formals");
  do fs <- parse_formals fj;
  do inj <- parse_injected j;
  Ok {| po_name := name; po_type := ty; po_dir := dir; po_formals := fs; po_injected := inj |}.

Definition parse_ports (j : json) : result (list aport) :=
  do o <- helper j (k "ports");
  do l <- get_list o (k "elements");
  mapM parse_port l.

Definition parse_fields (j : json) : result (list json) :=
  do o <- helper j (k "fields");
  get_list o (k "elements").

Definition parse_range (j : json) : result (json * json) :=
  do o <- helper j (k "range");
  do a <- get_int o (k "from");
  do b <- get_int o (k "to");
  Ok (a, b).

Definition parse_data (j : json) : result str :=
  do o <- helper j (k "data");
  get_str o (k "value").

Definition parse_endpoint (j : json) : result endpoint :=
  do o <- helper j (k "end-point");
  do p <- get_str o (k "port_name");
  do i <- tryget_str o (k "instance_name");
  Ok {| ep_port := p; ep_instance := i |}.

Definition parse_binding (j : json) : result binding :=
  do o <- helper j (k "binding");
  do lj <- get_dict o (k "left");
  do l <- parse_endpoint lj;
  do rj <- get_dict o (k "right");
  do r <- parse_endpoint rj;
  Ok {| b_left := l; b_right := r |}.

Definition parse_bindings (j : json) : result (list binding) :=
  do o <- helper j (k "bindings");
  do l <- get_list o (k "elements");
  mapM parse_binding l.

Definition parse_instance (j : json) : result instance :=
  do o <- helper j (k "instance");
  do name <- get_str o (k "name");
  do tn <- get_dict o (k "type_name");
  do ty <- parse_scope_name tn;
  Ok {| i_name := name; i_type := ty |}.

Definition parse_instances (j : json) : result (list instance) :=
  do o <- helper j (k "instances");
  do l <- get_list o (k "elements");
  mapM parse_instance l.

(* ---------- declarations; `parent` is the NamespaceTree the element is parsed under ---------- *)

Definition named (o : list (str * json)) : result ids :=
  do nj <- get_dict o (k "name"); parse_scope_name nj.

Definition parse_enum (j : json) (parent : nstree) : result enum_d :=
  do o <- helper j (k "enum");
  do name <- named o;
  do fj <- get_dict o (k "fields");
  do fs <- parse_fields fj;
  Ok {| en_fqn := fqn_member_name parent name; en_parent := tree_fqn parent; en_name := name; en_fields := fs |}.

Definition parse_subint (j : json) (parent : nstree) : result subint_d :=
  do o <- helper j (k "subint");
  do name <- named o;
  do rj <- get_dict o (k "range");
  do r <- parse_range rj;
  Ok {| su_fqn := fqn_member_name parent name; su_parent := tree_fqn parent; su_name := name;
        su_from := fst r; su_to := snd r |}.

Definition parse_extern (j : json) (parent : nstree) : result extern_d :=
  do o <- helper j (k "extern");
  do name <- named o;
  do vj <- get_dict o (k "value");
  do v <- parse_data vj;
  Ok {| ex_fqn := fqn_member_name parent name; ex_parent := tree_fqn parent; ex_name := name; ex_value := v |}.

Definition parse_component_like (cls : str) (j : json) (parent : nstree) : result component_d :=
  do o <- helper j cls;
  do name <- named o;
  do pj <- get_dict o (k "ports");
  do ps <- parse_ports pj;
  Ok {| co_fqn := fqn_member_name parent name; co_parent := tree_fqn parent; co_name := name; co_ports := ps |}.

Definition parse_system (j : json) (parent : nstree) : result system_d :=
  do o <- helper j (k "system");
  do name <- named o;
  do pj <- get_dict o (k "ports");
  do ps <- parse_ports pj;
  do ij <- get_dict o (k "instances");
  do is_ <- parse_instances ij;
  do bj <- get_dict o (k "bindings");
  do bs <- parse_bindings bj;
  Ok {| sy_fqn := fqn_member_name parent name; sy_parent := tree_fqn parent; sy_name := name; sy_ports := ps;
        sy_instances := is_; sy_bindings := bs |}.

Definition parse_type_item (parent : nstree) (j : json) : result (list type_d) :=
  do cls <- get_class_value j;
  if jstr_is cls (k "enum") then do e <- parse_enum j parent; Ok [TEnum e]
  else if jstr_is cls (k "subint") then do s <- parse_subint j parent; Ok [TSubInt s]
  else Ok [].

Fixpoint concatM {A B} (f : A -> result (list B)) (l : list A) : result (list B) :=
  match l with
  | [] => Ok []
  | a :: t => do b <- f a; do bs <- concatM f t; Ok (b ++ bs)
  end.

Definition parse_types (j : json) (parent : nstree) : result (list type_d) :=
  do o <- helper j (k "types");
  do l <- get_list o (k "elements");
  concatM (parse_type_item parent) l.

Definition parse_interface (j : json) (parent : nstree) : result interface_d :=
  do o <- helper j (k "interface");
  do name <- named o;
  do tj <- get_dict o (k "types");
  do ts <- parse_types tj (parent ++ [name]);
  do ej <- get_dict o (k "events");
  do es <- parse_events ej;
  Ok {| it_fqn := fqn_member_name parent name; it_parent := tree_fqn parent; it_name := name;
        it_types := ts; it_events := es |}.

Definition parse_namespace (j : json) : result (ids * list json) :=
  do o <- helper j (k "namespace");
  do name <- named o;
  do l <- get_list o (k "elements");
  Ok (name, l).

Definition parse_import (j : json) : result str := do o <- helper j (k "import"); get_str o (k "name").
Definition parse_filename (j : json) : result str := do o <- helper j (k "file-name"); get_str o (k "name").

Definition parse_comment (j : json) : result str := do o <- helper j (k "comment"); get_str o (k "string").

Definition parse_root (j : json) : result (list json) :=
  do o <- helper j (k "root");
  do c <- tryget_dict o (k "comment");
  do _ <- match c with None => Ok [] | Some cj => parse_comment cj end;
  do l <- get_list o (k "elements");
  do _ <- get_str o (k "working-directory");
  Ok l.

(* ---------- DznJsonAst.parse_element: appends to the FileContents being built ---------- *)

Definition add_component fc x := {| fc_components := fc_components fc ++ [x]; fc_enums := fc_enums fc; fc_externs := fc_externs fc;
  fc_filenames := fc_filenames fc; fc_foreigns := fc_foreigns fc; fc_imports := fc_imports fc; fc_interfaces := fc_interfaces fc;
  fc_subints := fc_subints fc; fc_systems := fc_systems fc |}.
Definition add_enums fc x := {| fc_components := fc_components fc; fc_enums := fc_enums fc ++ x; fc_externs := fc_externs fc;
  fc_filenames := fc_filenames fc; fc_foreigns := fc_foreigns fc; fc_imports := fc_imports fc; fc_interfaces := fc_interfaces fc;
  fc_subints := fc_subints fc; fc_systems := fc_systems fc |}.
Definition add_extern fc x := {| fc_components := fc_components fc; fc_enums := fc_enums fc; fc_externs := fc_externs fc ++ [x];
  fc_filenames := fc_filenames fc; fc_foreigns := fc_foreigns fc; fc_imports := fc_imports fc; fc_interfaces := fc_interfaces fc;
  fc_subints := fc_subints fc; fc_systems := fc_systems fc |}.
Definition add_filename fc x := {| fc_components := fc_components fc; fc_enums := fc_enums fc; fc_externs := fc_externs fc;
  fc_filenames := fc_filenames fc ++ [x]; fc_foreigns := fc_foreigns fc; fc_imports := fc_imports fc; fc_interfaces := fc_interfaces fc;
  fc_subints := fc_subints fc; fc_systems := fc_systems fc |}.
Definition add_foreign fc x := {| fc_components := fc_components fc; fc_enums := fc_enums fc; fc_externs := fc_externs fc;
  fc_filenames := fc_filenames fc; fc_foreigns := fc_foreigns fc ++ [x]; fc_imports := fc_imports fc; fc_interfaces := fc_interfaces fc;
  fc_subints := fc_subints fc; fc_systems := fc_systems fc |}.
Definition add_import fc x := {| fc_components := fc_components fc; fc_enums := fc_enums fc; fc_externs := fc_externs fc;
  fc_filenames := fc_filenames fc; fc_foreigns := fc_foreigns fc; fc_imports := fc_imports fc ++ [x]; fc_interfaces := fc_interfaces fc;
  fc_subints := fc_subints fc; fc_systems := fc_systems fc |}.
Definition add_interface fc x := {| fc_components := fc_components fc; fc_enums := fc_enums fc; fc_externs := fc_externs fc;
  fc_filenames := fc_filenames fc; fc_foreigns := fc_foreigns fc; fc_imports := fc_imports fc; fc_interfaces := fc_interfaces fc ++ [x];
  fc_subints := fc_subints fc; fc_systems := fc_systems fc |}.
Definition add_subints fc x := {| fc_components := fc_components fc; fc_enums := fc_enums fc; fc_externs := fc_externs fc;
  fc_filenames := fc_filenames fc; fc_foreigns := fc_foreigns fc; fc_imports := fc_imports fc; fc_interfaces := fc_interfaces fc;
  fc_subints := fc_subints fc ++ x; fc_systems := fc_systems fc |}.
Definition add_system fc x := {| fc_components := fc_components fc; fc_enums := fc_enums fc; fc_externs := fc_externs fc;
  fc_filenames := fc_filenames fc; fc_foreigns := fc_foreigns fc; fc_imports := fc_imports fc; fc_interfaces := fc_interfaces fc;
  fc_subints := fc_subints fc; fc_systems := fc_systems fc ++ [x] |}.

(* one element; `rec` parses the elements nested in a namespace *)
Definition parse_element_with (rec : nstree -> file_contents -> json -> result file_contents)
           (parent : nstree) (fc : file_contents) (j : json) : result file_contents :=
  match j with
  | JObj _ =>
    do cls <- get_class_value j;
    if jstr_is cls (k "component") then do x <- parse_component_like (k "component") j parent; Ok (add_component fc x)
    else if jstr_is cls (k "enum") then do x <- parse_enum j parent; Ok (add_enums fc [x])
    else if jstr_is cls (k "extern") then do x <- parse_extern j parent; Ok (add_extern fc x)
    else if jstr_is cls (k "foreign") then do x <- parse_component_like (k "foreign") j parent; Ok (add_foreign fc x)
    else if jstr_is cls (k "file-name") then do x <- parse_filename j; Ok (add_filename fc x)
    else if jstr_is cls (k "import") then do x <- parse_import j; Ok (add_import fc x)
    else if jstr_is cls (k "interface") then
      do x <- parse_interface j parent;
      Ok (add_subints (add_enums (add_interface fc x) (type_enums (it_types x))) (type_subints (it_types x)))
    else if jstr_is cls (k "namespace") then
      do ns <- parse_namespace j;
      fold_left (fun acc sub => do fc' <- acc; rec (parent ++ [fst ns]) fc' sub) (snd ns) (Ok fc)
    else if jstr_is cls (k "system") then do x <- parse_system j parent; Ok (add_system fc x)
    else if jstr_is cls (k "subint") then do x <- parse_subint j parent; Ok (add_subints fc [x])
    else Ok fc
  | _ => Ok fc      (* non-dict elements are skipped *)
  end.

(* fuel bounds the namespace nesting; process supplies jdepth ast, which always suffices *)
Definition out_of_fuel : nstree -> file_contents -> json -> result file_contents := fun _ _ _ => Err Internal.

Fixpoint parse_element (fuel : nat) : nstree -> file_contents -> json -> result file_contents :=
  parse_element_with (match fuel with O => out_of_fuel | S f => parse_element f end).

Definition process_elements (fuel : nat) (l : list json) : result file_contents :=
  fold_left (fun acc sub => do fc' <- acc; parse_element fuel [] fc' sub) l (Ok empty_fc).

(* DznJsonAst.process() on a freshly constructed instance *)
Definition process (ast : json) : result file_contents :=
  do l <- parse_root ast; process_elements (jdepth ast) l.
