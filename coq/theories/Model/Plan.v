(* The resolved view of a build: which ports are exposed with which semantics, interface, events and C++ parameter
   types. Computed with the same functions the builder model uses (create_dzn_elements, lookup_fqn). The harness
   derives the mock Dezyne model header and the expected traces of the compiled shell from it. *)
From Coq Require Import List NArith ZArith Bool String.
From Dznpy Require Import Base.PyStr Base.Result Base.Json Model.TextGen Model.Scoping Model.PortSelection Model.CppGen
  Model.Ast Model.SupportFiles Model.Builder.
Import ListNotations.

Inductive rkind := RVoid | RBool | REnum (e : enum_d) | RInt | ROther.

Definition ret_kind (fc : file_contents) (itf : interface_d) (e : event) : rkind :=
  if ids_eqb (e_ret e) [L "void"] then RVoid
  else if ids_eqb (e_ret e) [L "bool"] then RBool
  else match lookup_fqn fc (e_ret e) (it_fqn itf) with
       | [FEnum en] => REnum en
       | [FSubInt _] => RInt
       | _ => ROther
       end.

(* C++ type text of a formal: the data value of the unique extern on the interface's chain *)
Definition formal_type (fc : file_contents) (itf : interface_d) (f : formal) : option str :=
  match single as_extern (lookup_fqn fc (f_type f) (it_fqn itf)) with Ok ext => Some (ex_value ext) | Err _ => None end.

Record port_info := {
  pi_port : aport; pi_itf : option interface_d;   (* for every port of the encapsulee, injected ones included *)
  pi_exposed : option (semantics * option mcfix) }.

Record plan := { pl_enc_fqn : ids; pl_scope : ids; pl_ports : list port_info }.

Definition find_dznport (name : str) (l : list dznport) : option dznport :=
  find (fun z => str_eqb (po_name (zp_port z)) name) l.

Definition make_plan (fc : file_contents) (cfg : config) : result plan :=
  match lookup_fqn fc (cf_encapsulee cfg) [] with
  | [f] =>
    do enc <- encapsulee_of f;
    let '(enc_fqn, parent, enc_name, ports) := enc in
    do ze <- create_dzn_elements cfg fc parent ports;
    Ok {| pl_enc_fqn := enc_fqn; pl_scope := parent;
          pl_ports := map (fun p =>
            {| pi_port := p;
               pi_itf := match single as_interface (lookup_fqn fc (po_type p) parent) with Ok i => Some i | Err _ => None end;
               pi_exposed := match find_dznport (po_name p) (ze_provides ze ++ ze_requires ze) with
                             | Some z => Some (zp_sem z, zp_mc z)
                             | None => None
                             end |}) ports |}
  | [] => Err AdvShellError
  | _ => Err FindError
  end.
