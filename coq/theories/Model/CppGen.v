(* Model of dznpy.cpp_gen: C++ building blocks rendered through TextBlock. *)
From Coq Require Import List NArith Bool String.
From Dznpy Require Import Base.PyStr Base.Result Model.TextGen Model.Scoping.
Import ListNotations.


(* Fqn.__str__ *)
Record fqn := { q_ids : ids; q_root : bool }.
Definition str_fqn (f : fqn) : str :=
  match q_ids f with
  | [] => []
  | _ => if q_root f then colons ++ ids_colons (q_ids f) else ids_colons (q_ids f)
  end.

Inductive postfix := PNone | PRef | PPtr.
Definition str_postfix (p : postfix) : str := match p with PNone => [] | PRef => L "&" | PPtr => L "*" end.

Record typedesc := { t_fqn : fqn; t_targ : option fqn; t_postfix : postfix; t_const : bool; t_default : option str }.

(* TypeDesc.__str__ *)
Definition str_type (t : typedesc) : str :=
  let targ := match t_targ t with Some a => L "<" ++ str_fqn a ++ L ">" | None => [] end in
  let mandatory := str_fqn (t_fqn t) ++ targ ++ str_postfix (t_postfix t) in
  if t_const t then L "const " ++ mandatory else mandatory.

Record param := { pa_type : typedesc; pa_name : str }.

Definition param_def (p : param) : str := str_type (pa_type p) ++ L " " ++ pa_name p.
Definition param_decl (p : param) : str :=
  match t_default (pa_type p) with
  | Some d => if is_nil d then param_def p else param_def p ++ L " = " ++ d
  | None => param_def p
  end.

Inductive fprefix := FMember | FVirtual | FStatic.

(* str(TB(text)): one string rendered through a text block *)
Definition tb_str (x : str) : str := str_tb (mk1 (CStr x)).

Record function := {
  fn_ret : typedesc; fn_name : str; fn_params : list param; fn_prefix : fprefix; fn_cav : str; fn_override : bool;
  fn_init : str; fn_contents : content;   (* a str or a TextBlock *)
  fn_scope : option str }.                (* name of the owning struct/class *)

(* Function.__post_init__ *)
Definition function_ok (f : function) : result unit :=
  if is_nil (fn_name f) then Err CppGenError
  else if (match fn_prefix f with FVirtual => true | _ => false end) && (match fn_scope f with None => true | Some _ => false end)
       then Err CppGenError
  else if startswith (L "0") (fn_init f) && negb (match fn_prefix f with FVirtual => true | _ => false end) then Err CppGenError
  else Ok tt.

Definition sp_if (x : str) : str := if is_nil x then [] else L " " ++ x.
Definition init_if (x : str) : str := if is_nil x then [] else L " = " ++ x.

Definition fn_decl_line (f : function) : str :=
  (match fn_prefix f with FMember => [] | FVirtual => L "virtual " | FStatic => L "static " end) ++
  str_type (fn_ret f) ++ L " " ++ fn_name f ++ L "(" ++ join (L ", ") (map param_decl (fn_params f)) ++ L ")" ++
  sp_if (fn_cav f) ++ (if fn_override f then L " override" else []) ++ init_if (fn_init f) ++ L ";".

Definition fn_as_decl (f : function) : str := tb_str (fn_decl_line f).

Definition fn_def_sig (f : function) : str :=
  str_type (fn_ret f) ++ L " " ++ (match fn_scope f with Some s => s ++ L "::" | None => [] end) ++ fn_name f ++
  L "(" ++ join (L ", ") (map param_def (fn_params f)) ++ L ")" ++ sp_if (fn_cav f).

(* a body: [signature, '{', TB(contents).indent(), '}'] *)
Definition body_block (sig : str) (contents : content) : str :=
  str_tb (mk1 (CList [CStr sig; CStr (L "{"); CBlock (indent default_ind (mk1 contents)); CStr (L "}")])).

Definition fn_as_def (f : function) : str :=
  if negb (is_nil (fn_init f)) then []
  else if negb (truthy (fn_contents f)) then tb_str (fn_def_sig f ++ L " {}")
  else body_block (fn_def_sig f) (fn_contents f).

(* ---------- constructor / destructor ---------- *)

Record constructor := {
  c_scope : str; c_explicit : bool; c_params : list (option param);  (* None entries are filtered out *)
  c_init : str; c_mil : list str; c_contents : content }.

Definition constructor_ok (c : constructor) : result unit :=
  if negb (is_nil (c_init c)) && negb (is_nil (c_mil c)) then Err CppGenError else Ok tt.

Definition some_params (l : list (option param)) : list param :=
  flat_map (fun o => match o with Some p => [p] | None => [] end) l.

Definition ctor_decl_line (c : constructor) : str :=
  (if c_explicit c then L "explicit " else []) ++ c_scope c ++ L "(" ++
  join (L ", ") (map param_decl (some_params (c_params c))) ++ L ")" ++ init_if (c_init c) ++ L ";".
Definition ctor_as_decl (c : constructor) : str := tb_str (ctor_decl_line c).

Definition ctor_def_sig (c : constructor) : str :=
  c_scope c ++ L "::" ++ c_scope c ++ L "(" ++ join (L ", ") (map param_def (some_params (c_params c))) ++ L ")".

Definition opt_content (o : option tblock) : content := match o with Some t => CBlock t | None => CNone end.

Definition ctor_as_def (c : constructor) : str :=
  if negb (is_nil (c_init c)) then []
  else
    let mil := if is_nil (c_mil c) then None
               else Some (indent default_ind (mk1 (CList [CStr (L ": " ++ join ([LF] ++ L ", ") (c_mil c))]))) in
    let content := if truthy (c_contents c) then Some (indent default_ind (mk1 (c_contents c))) else None in
    match mil, content with
    | None, None => tb_str (ctor_def_sig c ++ L " {}")
    | _, _ => str_tb (mk1 (CList [CStr (ctor_def_sig c); opt_content mil; CStr (L "{"); opt_content content; CStr (L "}")]))
    end.

Record destructor := { d_scope : str; d_override : bool; d_init : str; d_contents : content }.

Definition dtor_decl_line (d : destructor) : str :=
  L "~" ++ d_scope d ++ L "()" ++ (if d_override d then L " override" else []) ++ init_if (d_init d) ++ L ";".
Definition dtor_as_decl (d : destructor) : str := tb_str (dtor_decl_line d).
Definition dtor_def_sig (d : destructor) : str := d_scope d ++ L "::~" ++ d_scope d ++ L "()".
Definition dtor_as_def (d : destructor) : str :=
  if negb (is_nil (d_init d)) then []
  else if negb (truthy (d_contents d)) then tb_str (dtor_def_sig d ++ L " {}")
  else body_block (dtor_def_sig d) (d_contents d).

(* ---------- member variables, blocks, includes ---------- *)

Definition str_member_var (t : typedesc) (name : str) : str := str_type t ++ L " " ++ name ++ L ";".

(* Struct / Class *)
Definition str_struct (is_class : bool) (name : str) (contents : tblock) : str :=
  let head := (if is_class then L "class " else L "struct ") ++ name in
  if is_nil (lns contents)
  then str_tb (mk1 (CList [CStr head; CStr (L "{"); CStr (L "};")]))
  else str_tb (mk1 (CList [CStr head; CStr (L "{"); CBlock contents; CStr (L "};")])).

(* Namespace *)
Definition ns_suffix (i : ids) : str := if is_nil i then [] else L " " ++ ids_colons i.
Definition ns_head (i : ids) : str := L "namespace" ++ ns_suffix i ++ L " {".
Definition ns_tail (i : ids) : str := L "} // namespace" ++ ns_suffix i.
Definition str_namespace (i : ids) (contents : tblock) : str :=
  if is_nil (lns contents)
  then str_tb (mk1 (CList [CStr (ns_head i ++ L "}")]))
  else str_tb (mk1 (CList [CStr (ns_head i); CBlock contents; CStr (ns_tail i)])).

(* AccessSpecifiedSection: str(TB(spec) + TB(contents).indent()) *)
Inductive access := APublic | AProtected | APrivate | AAnonymous.
Definition access_content (a : access) : content :=
  match a with APublic => CStr (L "public:") | AProtected => CStr (L "protected:") | APrivate => CStr (L "private:") | AAnonymous => CNone end.
Definition str_access_section (a : access) (contents : tblock) : str :=
  str_tb (add (mk1 (access_content a)) (CBlock (indent default_ind (mk1 (CBlock contents))))).

(* plural(noun, collection) for nouns not ending in s/x/z/ss/sh/ch *)
Definition plural_s (noun : str) (n : nat) : str := match n with O | S O => noun | _ => noun ++ L "s" end.

Definition str_includes (system : bool) (includes : list str) : str :=
  str_tb (mk1 (CList [CComment (appended (CStr ((if system then L "System " else L "Project ") ++ plural_s (L "include") (List.length includes))));
                      CList (map (fun x => CStr (if system then L "#include <" ++ x ++ L ">"
                                                 else L "#include """ ++ x ++ L """")) includes)])).
