(* Model of dznpy.adv_shell (Builder.build, common.py, core/processing.py): from a parsed model and a
   configuration to the eight generated files, byte for byte. Transcribed function by function. *)
From Coq Require Import List NArith ZArith Bool String.
From Dznpy Require Import Base.PyStr Base.Result Base.Json Model.TextGen Model.Scoping Model.PortSelection Model.CppGen
  Model.Ast Model.SupportFiles Sem.ShellSem.
Import ListNotations.

(* ---------- lookups over the typed FileContents (ast_view.find_fqn) ---------- *)

Inductive found :=
| FComponent (c : component_d) | FEnum (e : enum_d) | FExtern (e : extern_d) | FForeign (c : component_d)
| FInterface (i : interface_d) | FSubInt (s : subint_d) | FSystem (s : system_d).

Definition found_fqn (f : found) : ids :=
  match f with
  | FComponent c | FForeign c => co_fqn c | FEnum e => en_fqn e | FExtern e => ex_fqn e
  | FInterface i => it_fqn i | FSubInt s => su_fqn s | FSystem s => sy_fqn s
  end.

(* the seven searchable containers, in find_fqn's order *)
Definition all_found (fc : file_contents) : list found :=
  map FComponent (fc_components fc) ++ map FEnum (fc_enums fc) ++ map FExtern (fc_externs fc) ++
  map FForeign (fc_foreigns fc) ++ map FInterface (fc_interfaces fc) ++ map FSubInt (fc_subints fc) ++
  map FSystem (fc_systems fc).

Definition lookup_fqn (fc : file_contents) (name : ids) (scope : ids) : list found :=
  let order := scope_resolution_order name scope in
  filter (fun f => existsb (ids_eqb (found_fqn f)) order) (all_found fc).

(* FindResult.get_single_instance(typehint) *)
Definition single {A} (pick : found -> option A) (l : list found) : result A :=
  match l with
  | [] => Err FindError
  | [f] => match pick f with Some a => Ok a | None => Err FindError end
  | _ => Err FindError
  end.
Definition as_interface (f : found) := match f with FInterface i => Some i | _ => None end.
Definition as_enum (f : found) := match f with FEnum e => Some e | _ => None end.
Definition as_extern (f : found) := match f with FExtern e => Some e | _ => None end.

(* ---------- configuration ---------- *)

Record mc_cfg := { mcc_port : str; mcc_claim : str; mcc_reply : ids; mcc_release : str }.

(* MultiClientPortCfg.__post_init__ *)
Definition mc_cfg_ok (m : mc_cfg) : result unit :=
  if is_nil (mcc_port m) then Err MultiClientCfgError
  else if is_nil (mcc_claim m) then Err MultiClientCfgError
  else if is_nil (mcc_reply m) then Err MultiClientCfgError
  else if is_nil (mcc_release m) then Err MultiClientCfgError
  else Ok tt.

Record ports_cfg := { pc_psts : psel; pc_pmts : psel; pc_rsts : psel; pc_rmts : psel; pc_mc : option mc_cfg }.

Inductive origin := OImport | OCreate.

Record config := {
  cf_filename : str; cf_suffix : str; cf_encapsulee : ids; cf_ports : ports_cfg; cf_origin : origin;
  cf_copyright : content;        (* a str; None/other are accepted by the text kernel as well *)
  cf_sf_prefix : option ids; cf_creator : content }.

(* ---------- Dezyne elements ---------- *)

Record mcfix := { mx_claim : event; mx_reply : ids; mx_release : event }.
Record dznport := { zp_port : aport; zp_itf : interface_d; zp_sem : semantics; zp_mc : option mcfix }.

Definition event_eqb_name (e : event) (n : str) : bool := str_eqb (e_name e) n.
Definition is_in (e : event) : bool := match e_dir e with EIn => true | EOut => false end.

(* check_multiclient_cfg (after the fixes F7) *)
Definition check_multiclient (m : option mc_cfg) (port_name : str) (itf : interface_d) (fc : file_contents) : result (option mcfix) :=
  match m with
  | None => Ok None
  | Some c =>
    if negb (str_eqb port_name (mcc_port c)) then Ok None
    else if str_eqb (mcc_claim c) (mcc_release c) then Err MultiClientCfgError
    else match filter (fun e => event_eqb_name e (mcc_claim c) && is_in e) (it_events itf) with
         | [] => Err MultiClientCfgError
         | claim :: _ =>
           match single as_enum (lookup_fqn fc (e_ret claim) (it_fqn itf)) with
           | Err _ => Err MultiClientCfgError
           | Ok en =>
             let value := hd [] (mcc_reply c) in
             if negb (existsb (fun j => jstr_is j value) (en_fields en)) then Err MultiClientCfgError
             else match filter (fun e => event_eqb_name e (mcc_release c) && is_in e) (it_events itf) with
                  | [] => Err MultiClientCfgError
                  | release :: _ => Ok (Some {| mx_claim := claim; mx_reply := en_fqn en ++ [value]; mx_release := release |})
                  end
           end
         end
  end.

Definition aport_is_provides (p : aport) : bool := match po_dir p with PProvides => true | PRequires => false end.

Definition port_names (d : portdir) (ports : list aport) : list str :=
  map po_name (filter (fun p => match po_dir p, d with PProvides, PProvides | PRequires, PRequires => true | _, _ => false end) ports).

(* set semantics of portnames_t: duplicates collapse *)
Fixpoint dedup (l : list str) : list str :=
  match l with [] => [] | x :: t => if mem x t then dedup t else x :: dedup t end.

Record dzn_elements := { ze_scope : ids; ze_provides : list dznport; ze_requires : list dznport }.

(* create_dzn_elements; `ports`, `fqn`, `parent` are those of the encapsulee *)
Definition create_dzn_elements (cfg : config) (fc : file_contents) (parent : ids) (ports : list aport) : result dzn_elements :=
  let pc := cf_ports cfg in
  do matched <- cfg_match (pc_psts pc) (pc_pmts pc) (pc_rsts pc) (pc_rmts pc)
                          (dedup (port_names PProvides ports)) (dedup (port_names PRequires ports));
  let semantics_of (n : str) : result semantics :=
      match lookup matched n with Some s => Ok s | None => Err AdvShellError end in
  do pr <- fold_left (fun acc port =>
             do st <- acc;
             do itf <- single as_interface (lookup_fqn fc (po_type port) parent);
             if aport_is_provides port then
               do mcf <- check_multiclient (pc_mc pc) (po_name port) itf fc;
               do _ <- match mcf with
                       | Some _ => do s <- semantics_of (po_name port);
                                   match s with MTS => Ok tt | STS => Err MultiClientCfgError end
                       | None => Ok tt
                       end;
               do s <- semantics_of (po_name port);
               Ok (fst st ++ [{| zp_port := port; zp_itf := itf; zp_sem := s; zp_mc := mcf |}], snd st)
             else if po_injected port then Ok st
             else do s <- semantics_of (po_name port);
                  Ok (fst st, snd st ++ [{| zp_port := port; zp_itf := itf; zp_sem := s; zp_mc := None |}]))
           ports (Ok ([], []));
  match pc_mc pc with
  | Some _ => if existsb (fun p => match zp_mc p with Some _ => true | None => false end) (fst pr)
              then Ok {| ze_scope := parent; ze_provides := fst pr; ze_requires := snd pr |}
              else Err AdvShellError
  | None => Ok {| ze_scope := parent; ze_provides := fst pr; ze_requires := snd pr |}
  end.

(* ---------- C++ elements ---------- *)

Definition root_fqn (i : ids) : fqn := {| q_ids := i; q_root := true |}.
Definition plain_fqn (i : ids) : fqn := {| q_ids := i; q_root := false |}.
Definition simple_type (f : fqn) : typedesc := {| t_fqn := f; t_targ := None; t_postfix := PNone; t_const := false; t_default := None |}.
(* const_param_ref_t(fqn, name, default_value) *)
Definition const_ref_param (f : fqn) (name : str) (default : str) : param :=
  {| pa_type := {| t_fqn := f; t_targ := None; t_postfix := PRef; t_const := true; t_default := Some default |}; pa_name := name |}.
Definition const_ptr_param (f : fqn) (name : str) (default : str) : param :=
  {| pa_type := {| t_fqn := f; t_targ := None; t_postfix := PPtr; t_const := true; t_default := Some default |}; pa_name := name |}.

Definition mk_fn (ret : typedesc) (name : str) (params : list param) (prefix : fprefix) (cav : str) (contents : content) (scope : str) : function :=
  {| fn_ret := ret; fn_name := name; fn_params := params; fn_prefix := prefix; fn_cav := cav; fn_override := false;
     fn_init := []; fn_contents := contents; fn_scope := Some scope |}.

Record cppport := {
  cp_dzn : dznport; cp_itf_fqn : fqn; cp_accessor : function; cp_target : str;
  cp_member : option (typedesc * str) }.

Definition cp_name (p : cppport) : str := po_name (zp_port (cp_dzn p)).
Definition cp_cap (p : cppport) : str := cap_first (cp_name p).
Definition cp_is_mc (p : cppport) : bool := match zp_mc (cp_dzn p) with Some _ => true | None => false end.
Definition cp_is_mts (p : cppport) : bool := match zp_sem (cp_dzn p) with MTS => true | STS => false end.

Definition dir_value (d : portdir) : str := match d with PProvides => L "Provides" | PRequires => L "Requires" end.

Definition m_encapsulee : str := L "m_encapsulee".

(* create_cpp_portitf *)
Definition create_cpp_portitf (scope : str) (sfns : ids) (z : dznport) : cppport :=
  let itf_fqn := root_fqn (it_fqn (zp_itf z)) in
  let typ := simple_type itf_fqn in
  let pname := po_name (zp_port z) in
  let cap := cap_first pname in
  let fn_prefix := dir_value (po_dir (zp_port z)) in
  let strict (which : string) := {| t_fqn := root_fqn (sfns ++ [L which]); t_targ := Some itf_fqn; t_postfix := PNone;
                                    t_const := false; t_default := None |} in
  match zp_sem z, zp_mc z with
  | STS, _ =>
    let target := m_encapsulee ++ L "." ++ pname in
    {| cp_dzn := z; cp_itf_fqn := itf_fqn; cp_target := target; cp_member := None;
       cp_accessor := mk_fn (strict "Sts"%string) (fn_prefix ++ cap) [] FMember [] (CStr (L "return {" ++ target ++ L "};")) scope |}
  | MTS, None =>
    let mv_name := (match po_dir (zp_port z) with PProvides => L "m_pp" | PRequires => L "m_rp" end) ++ cap in
    {| cp_dzn := z; cp_itf_fqn := itf_fqn; cp_target := mv_name; cp_member := Some (typ, mv_name);
       cp_accessor := mk_fn (strict "Mts"%string) (fn_prefix ++ cap) [] FMember [] (CStr (L "return {" ++ mv_name ++ L "};")) scope |}
  | MTS, Some _ =>
    let mc_t := {| t_fqn := root_fqn (sfns ++ [L "MultiClientSelector"]); t_targ := Some itf_fqn; t_postfix := PNone;
                   t_const := false; t_default := None |} in
    let mv_name := L "m_pp" ++ cap in
    {| cp_dzn := z; cp_itf_fqn := itf_fqn; cp_target := mv_name; cp_member := Some (mc_t, mv_name);
       cp_accessor := mk_fn (strict "Mts"%string) (fn_prefix ++ L "MultiClient" ++ cap)
                            [const_ref_param (root_fqn (sfns ++ [L "ClientIdentifier"])) (L "identifier") []] FMember []
                            (CStr (L "return {" ++ mv_name ++ L ".Index(identifier).dznPort};")) scope |}
  end.

(* ---------- facilities ---------- *)

Record facilities := {
  fa_origin : origin; fa_dispatcher : typedesc * str; fa_runtime : option (typedesc * str);
  fa_locator : option (typedesc * str); fa_locator_fn : option function }.

Definition dzn_t (x : string) (p : postfix) : typedesc :=
  {| t_fqn := plain_fqn [L "dzn"; L x]; t_targ := None; t_postfix := p; t_const := false; t_default := None |}.

Definition create_facilities (o : origin) (scope : str) : facilities :=
  match o with
  | OImport => {| fa_origin := o; fa_dispatcher := (dzn_t "pump" PRef, L "m_dispatcher"); fa_runtime := None;
                  fa_locator := None; fa_locator_fn := None |}
  | OCreate => {| fa_origin := o; fa_dispatcher := (dzn_t "pump" PNone, L "m_dispatcher");
                  fa_runtime := Some (dzn_t "runtime" PNone, L "m_runtime");
                  fa_locator := Some (dzn_t "locator" PNone, L "m_locator");
                  fa_locator_fn := Some (mk_fn (dzn_t "locator" PRef) (L "Locator") [] FMember [] (CStr (L "return m_locator;")) scope) |}
  end.

Definition comment (c : content) : content := CComment (appended c).
Definition comment_s (x : str) : content := comment (CStr x).
Definition strlist (l : list str) : content := CList (map CStr l).
Definition mv_str (m : typedesc * str) : str := str_member_var (fst m) (snd m).
Definition opt_list {A} (o : option A) : list A := match o with Some a => [a] | None => [] end.

(* Facilities.accessors_decl / accessors_def / member_variables / system_includes *)
Definition fa_accessors_decl (f : facilities) : tblock :=
  let fns := opt_list (fa_locator_fn f) in
  mk1 (CList [comment_s (L "Facility " ++ plural_s (L "accessor") (List.length fns));
              if is_nil fns then comment_s (L "<none>") else strlist (map fn_as_decl fns)]).
Definition fa_accessors_def (f : facilities) : option tblock :=
  match fa_locator_fn f with Some fn => Some (mk1 (strlist [fn_as_def fn])) | None => None end.
Definition fa_member_variables (f : facilities) : tblock :=
  mk1 (CList [comment_s (L "Facilities");
              strlist (map mv_str (opt_list (fa_runtime f) ++ [fa_dispatcher f] ++ opt_list (fa_locator f)))]).
Definition fa_system_includes (f : facilities) : list str :=
  [L "dzn/locator.hh"; L "dzn/pump.hh"] ++ match fa_runtime f with Some _ => [L "dzn/runtime.hh"] | None => [] end.

(* ---------- CppPorts ---------- *)

Definition lower_str (x : str) : str := map lower_ascii x.
Definition ports_direction (ports : list cppport) : str :=
  match ports with p :: _ => dir_value (po_dir (zp_port (cp_dzn p))) | [] => L "?" end.

Definition accessors_decl (ports : list cppport) : tblock :=
  match ports with
  | [] => mk1 CNone
  | _ => mk1 (CList [comment_s (ports_direction ports ++ L " port " ++ plural_s (L "accessor") (List.length ports));
                     strlist (map (fun p => fn_as_decl (cp_accessor p)) ports)])
  end.
Definition accessors_def (ports : list cppport) : tblock :=
  match ports with
  | [] => mk1 CNone
  | _ => mk1 (CStr (join [LF] (map (fun p => fn_as_def (cp_accessor p)) ports)))
  end.

Definition rerouting_class_members (ports : list cppport) : tblock :=
  let plain := filter (fun p => match cp_member p with Some _ => negb (cp_is_mc p) | None => false end) ports in
  let mc := filter (fun p => match cp_member p with Some _ => cp_is_mc p | None => false end) ports in
  let mvs l := flat_map (fun p => match cp_member p with Some m => [mv_str m] | None => [] end) l in
  let tb1 := match ports with
             | [] => mk1 CNone
             | _ => append (mk1 CNone)
                      (CList [comment_s (L "Boundary " ++ lower_str (ports_direction ports) ++ L "-" ++ plural_s (L "port") (List.length plain) ++
                                         L " (MTS) to reroute inwards events");
                              if is_nil (mvs plain) then comment_s (L "<none>") else strlist (mvs plain)])
             end in
  match mvs mc with
  | [] => tb1
  | mcv => let tb2 := mk1 (CList [comment_s (L "Boundary " ++ lower_str (ports_direction ports) ++ L "-" ++ plural_s (L "port") (List.length mc) ++
                                             L " (MTS) to reroute inwards events and redirect outwards events to multi clients");
                                  strlist mcv]) in
           mk1 (CList [CBlock tb1; blank_line; CBlock tb2])
  end.

(* CppEncapsulee.__str__ *)
Definition encapsulee_block (enc_name : ids) (enc_fqn : ids) : content :=
  COther (str_tb (mk1 (CList [comment_s (L "The encapsulated component """ ++ ids_dotted enc_name ++ L """");
                              COther (str_member_var (simple_type (root_fqn enc_fqn)) m_encapsulee) true]))) true.

(* ---------- event forwarding snippets (processing.py) ---------- *)

Definition events_of (d : edir) (p : cppport) : list event :=
  filter (fun e => match e_dir e, d with EIn, EIn | EOut, EOut => true | _, _ => false end) (it_events (zp_itf (cp_dzn p))).

(* the C++ parameters of an event: each formal's type is the data value of the unique extern found from the
   interface's scope; `by_ref` adds & to out/inout formals *)
Definition formal_params (fc : file_contents) (itf : interface_d) (by_ref : bool) (e : event) : result (list cparam) :=
  mapM (fun f => do ext <- single as_extern (lookup_fqn fc (f_type f) (it_fqn itf));
                 Ok {| cp_type := ex_value ext;
                       cp_by_ref := by_ref && (match f_dir f with FIn => false | _ => true end);
                       cp_pname := f_name f |}) (e_formals e).
Definition formal_args (fc : file_contents) (itf : interface_d) (by_ref : bool) (e : event) : result (list str) :=
  do ps <- formal_params fc itf by_ref e; Ok (map cparam_text ps).

Definition paren_args (args : list str) : str := match args with [] => [] | _ => L "(" ++ join (L ", ") args ++ L ")" end.
Definition call_args (e : event) : str := join (L ", ") (map f_name (e_formals e)).
Definition in_formals (e : event) : list formal := filter (fun f => match f_dir f with FIn => true | _ => false end) (e_formals e).

Definition tb_of_strs (l : list str) : option str :=
  match l with [] => None | _ => Some (str_tb (mk1 (strlist l))) end.

(* ---- the statements of the constructor, per port (Sem/ShellSem.v gives them their meaning) ---- *)

Definition sl (o : obj) (d : evd) (e : event) : slot := {| s_obj := o; s_dir := d; s_ev := e_name e |}.
Definition boundary (p : cppport) : obj := if cp_is_mc p then Arb (cp_name p) else Bnd (cp_name p).
Definition sp_of (disp : str) (p : cppport) : spelling := {| sp_dispatcher := disp; sp_member := fun _ => cp_target p |}.

(* reroute_in_events: boundary.in.e = [&](params) { return dzn::shell(dispatcher, [&, ins] { return encapsulee.p.in.e(args); }); } *)
Definition in_stmts (fc : file_contents) (p : cppport) : result (list stmt) :=
  mapM (fun e => do ps <- formal_params fc (zp_itf (cp_dzn p)) true e;
                 Ok (Assign (sl (boundary p) DIn e)
                            (ShellFwd ps (map f_name (in_formals e)) (sl (Enc (cp_name p)) DIn e) (map f_name (e_formals e)))))
       (events_of EIn p).
Definition reroute_in_events (fc : file_contents) (disp : str) (p : cppport) : result (option str) :=
  do l <- in_stmts fc p; Ok (tb_of_strs (map (render_stmt (sp_of disp p)) l)).

(* reroute_out_events: boundary.out.e = [&](params) { return dispatcher([&, ins] { return encapsulee.p.out.e(args); }); } *)
Definition out_stmts (fc : file_contents) (p : cppport) : result (list stmt) :=
  mapM (fun e => do ps <- formal_params fc (zp_itf (cp_dzn p)) false e;
                 Ok (Assign (sl (Bnd (cp_name p)) DOut e)
                            (PostFwd ps (map f_name (in_formals e)) (sl (Enc (cp_name p)) DOut e) (map f_name (e_formals e)))))
       (events_of EOut p).
Definition reroute_out_events (fc : file_contents) (disp : str) (p : cppport) : result (option str) :=
  do l <- out_stmts fc p; Ok (tb_of_strs (map (render_stmt (sp_of disp p)) l)).

(* stdref_provides_out_events / stdref_requires_in_events: encapsulee.p.d.e = std::ref(boundary.d.e) *)
Definition ref_stmts (d : edir) (p : cppport) : list stmt :=
  let dd := match d with EIn => DIn | EOut => DOut end in
  map (fun e => Assign (sl (Enc (cp_name p)) dd e) (Ref (sl (boundary p) dd e))) (events_of d p).
Definition stdref_events (d : edir) (p : cppport) : option str :=
  tb_of_strs (map (render_stmt (sp_of [] p)) (ref_stmts d p)).

(* reroute_multiclient_out_events *)
Definition reroute_multiclient_out_events (fc : file_contents) (p : cppport) : result (option str) :=
  do l <- mapM (fun e =>
            do args <- formal_args fc (zp_itf (cp_dzn p)) false e;
            Ok (cp_target p ++ L "().out." ++ e_name e ++ L " = [&]" ++ paren_args args ++ L " {" ++ [LF] ++
                L "    auto lockAndData = " ++ cp_target p ++ L ".CurrentClient();" ++ [LF] ++
                L "    if (lockAndData->has_value()) lockAndData->value().get().dznPort.out." ++ e_name e ++ L "(" ++ call_args e ++ L ");" ++ [LF] ++
                L "};"))
          (events_of EOut p);
  Ok (tb_of_strs l).

(* dataclass equality of two events *)
Definition formal_eqb (a b : formal) : bool :=
  str_eqb (f_name a) (f_name b) && ids_eqb (f_type a) (f_type b) &&
  match f_dir a, f_dir b with FIn, FIn | FOut, FOut | FInOut, FInOut => true | _, _ => false end.
Fixpoint formals_eqb (a b : list formal) : bool :=
  match a, b with [], [] => true | x :: a', y :: b' => formal_eqb x y && formals_eqb a' b' | _, _ => false end.
Definition event_eqb (a b : event) : bool :=
  str_eqb (e_name a) (e_name b) && ids_eqb (e_ret a) (e_ret b) && formals_eqb (e_formals a) (e_formals b) &&
  match e_dir a, e_dir b with EIn, EIn | EOut, EOut => true | _, _ => false end.

(* initialize_port_claim_snippet / initialize_port_release_snippet / stdref_in_event *)
Definition lambda_block (head : str) (body : list str) : content :=
  CBlock (mk1 (CList [CStr head; CStr (str_tb (indent default_ind (mk1 (strlist body)))); CStr (L "};")])).

Definition claim_snippet (fc : file_contents) (p : cppport) (m : mcfix) : result content :=
  let e := mx_claim m in
  do args <- formal_args fc (zp_itf (cp_dzn p)) true e;
  Ok (lambda_block (L "port.in." ++ e_name e ++ L " = [&, identifier]" ++ paren_args args ++ L " {")
        [L "const auto r = " ++ cp_target p ++ L ".Arbitered().in." ++ e_name e ++ L "(" ++ call_args e ++ L ");";
         L "if (r == " ++ str_fqn (root_fqn (mx_reply m)) ++ L ") " ++ cp_target p ++ L ".Select(identifier);";
         L "return r;"]).

Definition release_snippet (fc : file_contents) (p : cppport) (m : mcfix) : result content :=
  let e := mx_release m in
  do args <- formal_args fc (zp_itf (cp_dzn p)) true e;
  let forwarded := cp_target p ++ L ".Arbitered().in." ++ e_name e ++ L "(" ++ call_args e ++ L ")" in
  let deselect := cp_target p ++ L ".Deselect(identifier);" in
  Ok (lambda_block (L "port.in." ++ e_name e ++ L " = [&, identifier]" ++ paren_args args ++ L " {")
        (if ids_eqb (e_ret e) [L "void"] then [forwarded ++ L ";"; deselect]
         else [L "const auto r = " ++ forwarded ++ L ";"; deselect; L "return r;"])).

Definition client_ref_stmt (p : cppport) (e : event) : stmt :=
  Assign (sl (Cli (cp_name p) []) DIn e) (Ref (sl (boundary p) DIn e)).
Definition stdref_in_event (p : cppport) (e : event) : content :=
  CBlock (mk1 (CList [CStr (render_stmt (sp_of [] p) (client_ref_stmt p e))])).

(* initialize_port_impl *)
Definition initialize_port_impl (fc : file_contents) (sfns : ids) (p : cppport) (m : mcfix) : result tblock :=
  let localvar := L "auto port(" ++ str_fqn (root_fqn (sfns ++ [L "CreatePort"])) ++ L "<" ++ str_fqn (cp_itf_fqn p) ++ L ">(""" ++
                  cp_name p ++ L """, ""arbiter" ++ cap_first (cp_name p) ++ L """));" in
  do tb2 <- mapM (fun e => if event_eqb e (mx_claim m) then claim_snippet fc p m
                           else if event_eqb e (mx_release m) then release_snippet fc p m
                           else Ok (stdref_in_event p e)) (events_of EIn p);
  Ok (mk1 (CList [CList [opt_block (chunk (CStr localvar) blank_line)]; opt_block (chunk (CList tb2) blank_line); CList [CStr (L "return port;")]])).

(* create_cpp_port_helpers *)
Record helpers := { hp_public : list function; hp_private : list function }.

Definition create_cpp_port_helpers (fc : file_contents) (sfns : ids) (scope : str) (ports : list cppport) : result helpers :=
  fold_left (fun acc p =>
     do h <- acc;
     match zp_mc (cp_dzn p) with
     | None => Ok h
     | Some m =>
       let ci := root_fqn (sfns ++ [L "ClientIdentifier"]) in
       let pub := mk_fn {| t_fqn := plain_fqn [L "std"; L "vector"]; t_targ := Some ci; t_postfix := PNone; t_const := false; t_default := None |}
                        (L "Get" ++ cp_cap p ++ L "ClientIdentifiers") [] FMember (L "const")
                        (CStr (L "return " ++ cp_target p ++ L ".GetClientIdentifiers();")) scope in
       do impl <- initialize_port_impl fc sfns p m;
       let priv := mk_fn (simple_type (cp_itf_fqn p)) (L "InitializePort" ++ cp_cap p)
                         [const_ref_param ci (L "identifier") []] FMember [] (CStr (str_tb impl)) scope in
       Ok {| hp_public := hp_public h ++ [pub]; hp_private := hp_private h ++ [priv] |}
     end) ports (Ok {| hp_public := []; hp_private := [] |}).

(* CppHelperMethods._decl / _def *)
Definition helpers_decl (label : str) (fns : list function) : option tblock :=
  match flatten true (strlist (map fn_as_decl fns)) with
  | [] => None
  | hs => if is_nil label then Some (mk1 (CList [strlist hs]))
          else Some (mk1 (CList [comment_s (label ++ L " " ++ plural_s (L "helper") (List.length hs)); strlist hs]))
  end.
Definition helpers_def (fns : list function) : option tblock :=
  match flatten true (strlist (map fn_as_def fns)) with
  | [] => None
  | hs => Some (mk1 (CList [strlist hs]))
  end.

(* ---------- constructor, FinalConstruct, FacilitiesCheck ---------- *)

Definition opt_strs (l : list (option str)) : list str := flat_map (fun o => match o with Some x => nonempty_singleton x | None => [] end) l.

Definition dashes45 : str := repeat 45%N 45.

Definition create_constructor (fc : file_contents) (scope : str) (fa : facilities) (ilog_ns : ids)
           (pp rp : list cppport) : result constructor :=
  let disp := snd (fa_dispatcher fa) in
  let p_locator_name := match fa_origin fa with OCreate => L "prototypeLocator" | OImport => L "locator" end in
  let p_locator := const_ref_param (plain_fqn [L "dzn"; L "locator"]) p_locator_name [] in
  let mil0 := match fa_origin fa with
              | OCreate => [L "m_locator(std::move(FacilitiesCheck(" ++ p_locator_name ++ L ").clone().set(m_runtime).set(" ++ disp ++ L ")))";
                            m_encapsulee ++ L "(m_locator)"]
              | OImport => [disp ++ L "(FacilitiesCheck(" ++ p_locator_name ++ L ").get<dzn::pump>())";
                            m_encapsulee ++ L "(" ++ p_locator_name ++ L ")"]
              end in
  let has_mc := existsb cp_is_mc pp in
  let p_log := if has_mc then Some (const_ref_param (root_fqn (ilog_ns ++ [L "ILog"])) (L "multiclientLog") []) else None in
  let p_shell_name := const_ref_param (plain_fqn [L "std"; L "string"]) (L "encapsuleeInstanceName") (L """""") in
  let mts_pp := filter cp_is_mts pp in
  let mts_rp := filter cp_is_mts rp in
  let member_name (p : cppport) := match cp_member p with Some m => snd m | None => [] end in
  let mil := mil0 ++
             map (fun p => if cp_is_mc p
                           then member_name p ++ L "(multiclientLog, """ ++ cp_name p ++ L """, [this](const auto& identifier) { return InitializePort" ++
                                cp_cap p ++ L "(identifier); })"
                           else render_stmt (sp_of [] p) (CopyPort (Bnd (cp_name p)) (Enc (cp_name p)))) mts_pp ++
             map (fun p => render_stmt (sp_of [] p) (CopyPort (Bnd (cp_name p)) (Enc (cp_name p)))) mts_rp in
  let plain_pp := filter (fun p => negb (cp_is_mc p)) mts_pp in
  let mc_pp := filter cp_is_mc mts_pp in
  do rin <- mapM (reroute_in_events fc disp) plain_pp;
  do rout <- mapM (reroute_out_events fc disp) mts_rp;
  do mcin <- mapM (reroute_in_events fc disp) mc_pp;
  do mcout <- mapM (reroute_multiclient_out_events fc) mc_pp;
  let stdref_out := map (stdref_events EOut) plain_pp in
  let stdref_in := map (stdref_events EIn) mts_rp in
  let enc_out := flat_map (fun p => map (render_stmt (sp_of [] p)) (ref_stmts EOut p)) mc_pp in
  let section (title : str) (items : list str) : content :=
      opt_block (cond_chunk (comment_s title) (strlist items) CNone blank_line true) in
  let contents := mk1 (CList [
    opt_block (chunk (CList [comment_s (L "Complete the component meta info of the encapsulee and its ports that are configured for MTS");
                             CStr (m_encapsulee ++ L ".dzn_meta.name = encapsuleeInstanceName;");
                             strlist (map (fun p => m_encapsulee ++ L "." ++ cp_name p ++ L ".meta.require.name = """ ++ cp_name p ++ L """;") mts_pp);
                             strlist (map (fun p => m_encapsulee ++ L "." ++ cp_name p ++ L ".meta.provide.name = """ ++ cp_name p ++ L """;") mts_rp)])
                     blank_line);
    opt_block (chunk (comment (strlist [L "Boundary provides ports (MTS) initialization:"; dashes45])) blank_line);
    opt_block (cond_chunk CNone (comment (if is_nil mts_pp then CStr (L "<None>") else CNone)) CNone blank_line true);
    section (L "Reroute in-events of boundary provides ports (MTS) via the dispatcher to the encapsulee") (opt_strs rin);
    section (L "Reference out-events of boundary provides ports (MTS) to the respective ports of the encapsulee") (opt_strs stdref_out);
    section (L "Reroute in-events of the internal arbitered multiclient port via the dispatcher to the encapsulee") (opt_strs mcin);
    section (L "Reroute out-events of the internal arbitered multiclient port via the MultiClientSelector facility to the current Client having the claim") (opt_strs mcout);
    section (L "Reference out-events of the encapsulee to the internal arbitered multiclient port") (flat_map nonempty_singleton enc_out);
    opt_block (chunk (comment (strlist [L "Boundary requires ports (MTS) initialization:"; dashes45])) blank_line);
    opt_block (cond_chunk CNone (comment (if is_nil mts_rp then CStr (L "<None>") else CNone)) CNone blank_line true);
    section (L "Reroute out-events of boundary requires ports (MTS) via the dispatcher") (opt_strs rout);
    opt_block (cond_chunk (comment_s (L "Reference in-events of boundary requires ports (MTS) to the respective ports of the encapsulee"))
                          (strlist (opt_strs stdref_in)) CNone CNone true)]) in
  Ok {| c_scope := scope; c_explicit := false; c_params := [Some p_locator; p_log; Some p_shell_name]; c_init := [];
        c_mil := mil; c_contents := CStr (str_tb (trim false contents)) |}.

(* create_final_construct_fn *)
Definition create_final_construct_fn (scope : str) (pp rp : list cppport) : function :=
  let param := const_ptr_param (plain_fqn [L "dzn"; L "meta"]) (L "parentComponentMeta") (L "nullptr") in
  let fcalls := map (fun p => cp_target p ++ L ".FinalConstruct();") (filter cp_is_mc pp) in
  let contents := mk1 (CList [
    (if is_nil fcalls then CNone
     else CList [comment_s (L "Call final construct on multiclient " ++ plural_s (L "port") (List.length fcalls)); strlist fcalls; blank_line]);
    comment_s (L "Check the bindings of all boundary ports");
    strlist (map (fun p => cp_target p ++ L ".check_bindings();") (filter (fun p => negb (cp_is_mc p)) pp));
    strlist (map (fun p => cp_target p ++ L ".check_bindings();") rp);
    blank_line;
    comment_s (L "Complete the encapsulated component meta information and check the bindings of all encapsulee ports");
    CStr (m_encapsulee ++ L ".dzn_meta.parent = parentComponentMeta;");
    CStr (m_encapsulee ++ L ".check_bindings();")]) in
  mk_fn (simple_type (plain_fqn [L "void"])) (L "FinalConstruct") [param] FMember [] (CBlock contents) scope.

(* create_facilities_check_fn *)
Definition create_facilities_check_fn (scope : str) (o : origin) : function :=
  let param := const_ref_param (plain_fqn [L "dzn"; L "locator"]) (L "locator") [] in
  let contents :=
    match o with
    | OCreate => mk1 (CList [
        comment_s (L "This class creates the required facilities. But in case the user provided locator argument already contains some or" ++ [LF] ++
                   L "all facilities, it indicates an execution deployment error. Important: each threaded subsystem has its own exclusive" ++ [LF] ++
                   L "instances of the dispatcher and dezyne runtime facilities. They can never be shared with other threaded subsystems.");
        blank_line;
        CStr (L "if (locator.try_get<dzn::pump>() != nullptr) throw std::runtime_error(""" ++ scope ++ L ": Overlapping dispatcher found (dzn::pump)"");");
        CStr (L "if (locator.try_get<dzn::runtime>() != nullptr) throw std::runtime_error(""" ++ scope ++ L ": Overlapping Dezyne runtime found (dzn::runtime)"");");
        blank_line;
        CStr (L "return locator;")])
    | OImport => mk1 (CList [
        comment_s (L "This class imports the required facilities that must be provided by the user via the locator argument.");
        blank_line;
        CStr (L "if (locator.try_get<dzn::pump>() == nullptr) throw std::runtime_error(""" ++ scope ++ L ": Dispatcher missing (dzn::pump)"");");
        CStr (L "if (locator.try_get<dzn::runtime>() == nullptr) throw std::runtime_error(""" ++ scope ++ L ": Dezyne runtime missing (dzn::runtime)"");");
        blank_line;
        CStr (L "return locator;")])
    end in
  {| fn_ret := pa_type param; fn_name := L "FacilitiesCheck"; fn_params := [param]; fn_prefix := FStatic; fn_cav := [];
     fn_override := false; fn_init := []; fn_contents := CBlock contents; fn_scope := Some scope |}.

(* ---------- configuration overview texts ---------- *)

(* repr() of a list of str as Python prints it, for identifier-like strings: ['a', 'b'] *)
Definition py_list_repr (l : list str) : str := L "[" ++ join (L ", ") (map (fun x => L "'" ++ x ++ L "'") l) ++ L "]".

(* insertion sort by code points = sorted() on str *)
Fixpoint str_leb (a b : str) : bool :=
  match a, b with
  | [], _ => true
  | _ :: _, [] => false
  | x :: a', y :: b' => if N.ltb x y then true else if N.ltb y x then false else str_leb a' b'
  end.
Fixpoint insert_sorted (x : str) (l : list str) : list str :=
  match l with [] => [x] | y :: t => if str_leb x y then x :: l else y :: insert_sorted x t end.
Definition sort_strs (l : list str) : list str := fold_right insert_sorted [] l.

(* PortsSemanticsCfg.__str__ *)
Definition semcfg_str (sts mts : psel) : str :=
  if is_all mts then L "All MTS"
  else if is_all sts then L "All STS"
  else join (L " ")
         ((match strset sts with [] => [] | l => [L "STS=" ++ py_list_repr (sort_strs l)] end) ++
          (match strset mts with [] => [] | l => [L "MTS=" ++ py_list_repr (sort_strs l)] end) ++
          (match sts with PW WRemaining => [L "STS=[<Remaining ports>]"] | _ => [] end) ++
          (match mts with PW WRemaining => [L "MTS=[<Remaining ports>]"] | _ => [] end)).

Definition mc_cfg_str (m : mc_cfg) : str :=
  L "Out-event ClientSelector port """ ++ mcc_port m ++ L """ (Claim event """ ++ mcc_claim m ++ L """ with granting reply value """ ++
  ids_dotted (mcc_reply m) ++ L """, Release event """ ++ mcc_release m ++ L """)".

(* PortsCfg.__str__ *)
Definition ports_cfg_str (pc : ports_cfg) : str :=
  let same := psel_eqb (pc_psts pc) (pc_rsts pc) && psel_eqb (pc_pmts pc) (pc_rmts pc) in
  str_tb (mk1 (strlist (
    (if same then [L "> provides/requires: " ++ semcfg_str (pc_psts pc) (pc_pmts pc)]
     else [L "> provides ports: " ++ semcfg_str (pc_psts pc) (pc_pmts pc); L "> requires ports: " ++ semcfg_str (pc_rsts pc) (pc_rmts pc)]) ++
    match pc_mc pc with Some m => [L "> multiclient: " ++ mc_cfg_str m] | None => [] end))).

Definition origin_value (o : origin) : str :=
  match o with
  | OImport => L "Import facilities (by reference) from the user provided dzn::locator argument"
  | OCreate => L "Create all facilities (dispatcher, runtime and locator)"
  end.

(* os.path.splitext(os.path.basename(x))[0] (POSIX) *)
Fixpoint after_last_slash (acc x : str) : str :=
  match x with [] => acc | c :: t => if N.eqb c 47 then after_last_slash t t else after_last_slash acc t end.
Definition basename (x : str) : str := after_last_slash x x.
(* index of the last '.', if there is one with a non-dot character before it *)
Fixpoint last_dot (pos : nat) (seen_nondot : bool) (best : option nat) (x : str) : option nat :=
  match x with
  | [] => best
  | c :: t => if N.eqb c 46 then last_dot (S pos) seen_nondot (if seen_nondot then Some pos else best) t
              else last_dot (S pos) true best t
  end.
Definition splitext_root (x : str) : str := match last_dot 0 false None x with Some i => firstn i x | None => x end.
Definition get_basename (x : str) : str := splitext_root (basename x).

(* ---------- the two shell files ---------- *)

Record cpp_elements := {
  ce_orig_basename : str; ce_target_basename : str; ce_scope : ids; ce_struct_name : str;
  ce_constructor : constructor; ce_final_construct : function; ce_facilities_check : function; ce_facilities : facilities;
  ce_enc_name : ids; ce_enc_fqn : ids; ce_pp : list cppport; ce_rp : list cppport; ce_helpers : helpers }.

Definition port_info (ports : list cppport) (label : str) : content :=
  match ports with
  | [] => CNone
  | _ =>
    let line (p : cppport) :=
        let itf_name := ids_dotted (it_name (zp_itf (cp_dzn p))) in
        L "> " ++ cp_name p ++ L ": " ++
        match zp_mc (cp_dzn p) with
        | Some m => L "*MultiClient* " ++ itf_name ++ L " (with claim_event=" ++ e_name (mx_claim m) ++ L ", claim_granting_reply=" ++
                    ids_dotted (mx_reply m) ++ L ", release_event=" ++ e_name (mx_release m) ++ L ")"
        | None => itf_name
        end in
    opt_block (chunk (CBlock (mk1 (CList [CStr (L "- " ++ label ++ L ":"); CBlock (indent default_ind (mk1 (strlist (map line ports))))]))) blank_line)
  end.

Definition generated_by (tp : templates) : content := comment_s (L "Generated by: dznpy/adv_shell v" ++ tp_version tp).

(* the quoted includes of the shell header: the Dezyne-generated header of the model and support files *)
Definition header_project_includes (orig sf_prefix_file_ns : str) (mc : option mc_cfg) : list str :=
  [orig ++ L ".hh"; sf_prefix_file_ns ++ L "_StrictPort.hh"] ++
  match mc with Some _ => [sf_prefix_file_ns ++ L "_ILog.hh"; sf_prefix_file_ns ++ L "_MultiClientSelector.hh"] | None => [] end.

Definition create_headerfile (tp : templates) (cfg : config) (sf_prefix_file_ns : str) (ce : cpp_elements) : gfile :=
  let pc := cf_ports cfg in
  let creator_overview := str_tb (mk1 (CList [CStr (L "Creator information:");
        if truthy (cf_creator cfg) then CBlock (indent default_ind (mk1 (cf_creator cfg))) else CStr (L "<none>")])) in
  let cfg_overview := str_tb (mk1 (CList [
        CStr (L "User configuration:");
        CStr (L "- Encapsulee FQN: " ++ ids_dotted (cf_encapsulee cfg));
        CStr (L "- Source file basename: " ++ ce_orig_basename ce);
        CStr (L "- Target file basename: " ++ ce_target_basename ce);
        CStr (L "- Dezyne facilities: " ++ origin_value (cf_origin cfg));
        CStr (L "- Ports" ++ (match pc_mc pc with Some _ => [] | None => L " (none multiclient)" end) ++ L ":");
        CBlock (indent default_ind (mk1 (COther (ports_cfg_str pc) true)))])) in
  let sts l := filter (fun p => negb (cp_is_mts p)) l in
  let mts l := filter cp_is_mts l in
  let final_overview := str_tb (mk1 (CList [
        CStr (L "Final configuration:");
        port_info (sts (ce_pp ce)) (L "Provides ports (Single-threaded)");
        port_info (mts (ce_pp ce)) (L "Provides ports (Multi-threaded)");
        port_info (sts (ce_rp ce)) (L "Requires ports (Single-threaded)");
        port_info (mts (ce_rp ce)) (L "Requires ports (Multi-threaded)")])) in
  let header_comments := comment (CList [cf_copyright cfg; blank_line; CStr (L "Advanced Shell"); blank_line; CStr creator_overview; blank_line;
                                         CStr cfg_overview; blank_line; CStr final_overview; CStr do_not_modify]) in
  let project_includes := header_project_includes (ce_orig_basename ce) sf_prefix_file_ns (pc_mc pc) in
  let header := CList [header_comments; blank_line; COther (str_includes true (fa_system_includes (ce_facilities ce))) true;
                       COther (str_includes false project_includes) true; blank_line] in
  let fa := ce_facilities ce in
  let public_section := CList [
        opt_block (chunk (strlist [ctor_as_decl (ce_constructor ce); fn_as_decl (ce_final_construct ce)]) blank_line);
        opt_block (chunk (CBlock (fa_accessors_decl fa)) blank_line);
        opt_block (chunk (CBlock (accessors_decl (ce_pp ce))) blank_line);
        opt_block (chunk (opt_block (helpers_decl (L "Provides port") (hp_public (ce_helpers ce)))) blank_line);
        opt_block (chunk (CBlock (accessors_decl (ce_rp ce))) blank_line)] in
  let private_section := CList [
        opt_block (chunk (CList [CBlock (fa_member_variables fa); CStr (fn_as_decl (ce_facilities_check ce))]) blank_line);
        opt_block (chunk (encapsulee_block (ce_enc_name ce) (ce_enc_fqn ce)) blank_line);
        opt_block (chunk (CBlock (rerouting_class_members (ce_pp ce))) blank_line);
        opt_block (chunk (opt_block (helpers_decl (L "Provides port") (hp_private (ce_helpers ce)))) blank_line);
        opt_block (chunk (CBlock (rerouting_class_members (ce_rp ce))) blank_line)] in
  let struct_contents := mk1 (CList [COther (str_access_section AAnonymous (mk1 public_section)) true;
                                     COther (str_access_section APrivate (mk1 private_section)) true]) in
  let ns_contents := mk1 (CStr (str_struct false (ce_struct_name ce) struct_contents)) in
  {| g_name := ce_target_basename ce ++ L ".hh";
     g_contents := str_tb (mk1 (CList [header; COther (str_namespace (ce_scope ce) ns_contents) true; generated_by tp]));
     g_namespace := None |}.

Definition create_sourcefile (tp : templates) (cfg : config) (ce : cpp_elements) : gfile :=
  let header_comments := comment (CList [cf_copyright cfg; blank_line; CStr (L "Advanced Shell"); blank_line; CStr do_not_modify]) in
  let header := CList [header_comments; blank_line; COther (str_includes true [L "dzn/runtime.hh"]) true;
                       COther (str_includes false [ce_target_basename ce ++ L ".hh"]) true; blank_line] in
  let fa := ce_facilities ce in
  let ns_contents := mk1 (CList [
        blank_line;
        opt_block (chunk (CStr (fn_as_def (ce_facilities_check ce))) blank_line);
        opt_block (chunk (CStr (ctor_as_def (ce_constructor ce))) blank_line);
        opt_block (chunk (CStr (fn_as_def (ce_final_construct ce))) blank_line);
        opt_block (chunk (opt_block (fa_accessors_def fa)) blank_line);
        opt_block (chunk (CBlock (accessors_def (ce_pp ce))) blank_line);
        opt_block (chunk (opt_block (helpers_def (hp_public (ce_helpers ce)))) blank_line);
        opt_block (chunk (CBlock (accessors_def (ce_rp ce))) blank_line);
        opt_block (chunk (opt_block (helpers_def (hp_private (ce_helpers ce)))) blank_line)]) in
  {| g_name := ce_target_basename ce ++ L ".cc";
     g_contents := str_tb (mk1 (CList [header; COther (str_namespace (ce_scope ce) ns_contents) true; generated_by tp]));
     g_namespace := None |}.

(* ---------- Builder.build ---------- *)

Definition encapsulee_of (f : found) : result (ids * ids * ids * list aport) :=   (* fqn, parent scope, name, ports *)
  match f with
  | FComponent c => Ok (co_fqn c, co_parent c, co_name c, co_ports c)
  | FSystem s => Ok (sy_fqn s, sy_parent s, sy_name s, sy_ports s)
  | _ => Err AdvShellError
  end.

Definition build (tp : templates) (fc : file_contents) (cfg : config) : result (list gfile) :=
  match lookup_fqn fc (cf_encapsulee cfg) [] with
  | [] => Err AdvShellError
  | _ :: _ :: _ => Err FindError
  | [f] =>
    do enc <- encapsulee_of f;
    let '(enc_fqn, parent, enc_name, ports) := enc in
    do ze <- create_dzn_elements cfg fc parent ports;
    let orig := get_basename (cf_filename cfg) in
    let shell_name := orig ++ cf_suffix cfg in
    if is_nil shell_name then Err CppGenError
    else
      let sfns := sf_ns (cf_sf_prefix cfg) in
      let pp := map (create_cpp_portitf shell_name sfns) (ze_provides ze) in
      let rp := map (create_cpp_portitf shell_name sfns) (ze_requires ze) in
      do hp <- create_cpp_port_helpers fc sfns shell_name pp;
      let fa := create_facilities (cf_origin cfg) shell_name in
      do ctor <- create_constructor fc shell_name fa sfns pp rp;
      let ce := {| ce_orig_basename := orig; ce_target_basename := shell_name; ce_scope := ze_scope ze; ce_struct_name := shell_name;
                   ce_constructor := ctor; ce_final_construct := create_final_construct_fn shell_name pp rp;
                   ce_facilities_check := create_facilities_check_fn shell_name (cf_origin cfg); ce_facilities := fa;
                   ce_enc_name := enc_name; ce_enc_fqn := enc_fqn; ce_pp := pp; ce_rp := rp; ce_helpers := hp |} in
      Ok ([create_headerfile tp cfg (sf_file_ns (cf_sf_prefix cfg)) ce; create_sourcefile tp cfg ce] ++
          support_files tp (cf_sf_prefix cfg))
  end.

(* constructing the configuration objects the way a caller does, then building *)
Definition configure_and_build (tp : templates) (fc : file_contents) (cfg : config) : result (list gfile) :=
  let pc := cf_ports cfg in
  do _ <- mk_ids (cf_encapsulee cfg);
  do _ <- mk_semcfg (pc_psts pc) (pc_pmts pc);
  do _ <- mk_semcfg (pc_rsts pc) (pc_rmts pc);
  do _ <- match pc_mc pc with Some m => do _ <- mk_ids (mcc_reply m); mc_cfg_ok m | None => Ok tt end;
  do _ <- portscfg_ok (pc_psts pc) (pc_pmts pc);
  do _ <- match cf_sf_prefix cfg with Some p => do _ <- mk_ids p; Ok tt | None => Ok tt end;
  build tp fc cfg.

