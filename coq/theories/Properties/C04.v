(* C04 - Multi-client port delivers out-events only to the client holding the claim. *)
From Coq Require Import List NArith Bool String.
From Dznpy Require Import Base.PyStr Base.Result Model.Ast Model.Builder Sem.Selector Proofs.SelectorFacts Proofs.C07Facts.
Import ListNotations.

(* an out-event raised by the component is delivered to exactly one client - the selected one - or to nobody *)
Theorem C04_out_event_to_selected_or_nobody : forall s ev,
  snd (step s (OOut ev)) = EDelivered ev (selected s) /\ fst (step s (OOut ev)) = s.
Proof. exact out_event_to_selected. Qed.
Print Assumptions C04_out_event_to_selected_or_nobody.

(* a claim answered otherwise never changes who is selected *)
Theorem C04_non_granting_claim_changes_nothing : forall s c, fst (step s (OClaim c false)) = s.
Proof. exact non_granting_claim_noop. Qed.
Print Assumptions C04_non_granting_claim_changes_nothing.

(* every client in-event still reaches the component (through the dispatcher: the client lambdas call the arbitered port,
   whose slots are the dispatcher-forwarding lambdas of C01/C02), once, attributed to that client *)
Theorem C04_client_in_event_forwarded : forall s o c ev,
  (o = OClaim c true \/ o = OClaim c false) /\ ev = claim_ev \/ o = ORelease c /\ ev = release_ev \/ o = OOther c ev ->
  snd (step s o) = EForwarded c ev.
Proof. exact client_in_event_forwarded. Qed.
Print Assumptions C04_client_in_event_forwarded.

(* for every finite history in which registered clients act and only the holder releases, after any number of claims,
   releases, other calls and out-events: every out-event goes to the client whose most recent claim was granted and who has
   not released since - and to nobody when there is none *)
Theorem C04_delivery_follows_holder : forall h s,
  conformant (clients s) (selected s) h = true -> snd (run s h) = spec_run (selected s) h.
Proof. exact run_spec_conformant. Qed.
Print Assumptions C04_delivery_follows_holder.

(* REFUTED without the restriction "only the holder releases": Deselect(identifier) resets the selection without comparing
   the identifier (known finding K3) *)
Theorem C04_refuted_by_non_holder_release :
  let h := [OClaim A true; ORelease B; OOut (L "Done")] in
  holder h = Some A /\ snd (run s_AB h) = [EForwarded A claim_ev; EForwarded B release_ev; EDelivered (L "Done") None] /\
  spec_run None h = [EForwarded A claim_ev; EForwarded B release_ev; EDelivered (L "Done") (Some A)].
Proof. exact nonholder_release_refutes. Qed.
Print Assumptions C04_refuted_by_non_holder_release.

(* the claim and release events are the ones named in the configuration, whatever they are called *)
Theorem C04_claim_release_names_from_configuration : forall c n itf fc fx, check_multiclient (Some c) n itf fc = Ok (Some fx) ->
  e_name (mx_claim fx) = mcc_claim c /\ e_name (mx_release fx) = mcc_release c /\
  e_dir (mx_claim fx) = EIn /\ e_dir (mx_release fx) = EIn /\ mcc_claim c <> mcc_release c /\
  In (mx_claim fx) (it_events itf) /\ In (mx_release fx) (it_events itf).
Proof. exact multiclient_names_from_cfg. Qed.
Print Assumptions C04_claim_release_names_from_configuration.

(* registration closes at final construction *)
Theorem C04_no_registration_after_final : forall s c, final s = true -> registered s c = false -> index s c = None.
Proof. exact no_registration_after_final. Qed.
Print Assumptions C04_no_registration_after_final.

Example demo_conformant :
  conformant [A; B] None [OClaim A true; OOut (L "x"); OClaim B false; OOut (L "x"); ORelease A; OOut (L "x"); OClaim B true; OOut (L "x")] = true /\
  map (fun e => match e with EDelivered _ t => t | _ => None end)
      (filter (fun e => match e with EDelivered _ _ => true | _ => false end)
              (snd (run s_AB [OClaim A true; OOut (L "x"); OClaim B false; OOut (L "x"); ORelease A; OOut (L "x"); OClaim B true; OOut (L "x")])))
  = [Some A; Some A; None; Some B].
Proof. split; reflexivity. Qed.
