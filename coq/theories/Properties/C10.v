(* C10 - Final construction detects every unbound boundary event. *)
From Coq Require Import List NArith Bool String.
From Dznpy Require Import Base.PyStr Base.Result Model.TextGen Model.Scoping Model.PortSelection Model.CppGen Model.Ast
  Model.SupportFiles Sem.ShellSem Sem.Exec Model.Builder Sem.FinalConstruct Proofs.SemFacts Proofs.ShellPlanFacts Proofs.FinalFacts Properties.C01.
Import ListNotations.

(* FinalConstruct() succeeds exactly when every event slot of every checked port object is bound *)
Theorem C10_succeeds_iff_all_bound : forall m pp rp clients,
  final_construct m pp rp clients = true <->
  forall o p, In (o, p) (fc_checks pp rp clients) -> forall d e, In (d, e) (all_events p) -> lookup m (sl o d e) <> Unset.
Proof. exact fc_ok_iff. Qed.
Print Assumptions C10_succeeds_iff_all_bound.

(* each single unbound event - of any exposed port, in any direction, of any registered client, or on the component's own
   side - makes it fail *)
Theorem C10_unbound_provides_event_detected : forall m pp rp clients p d e,
  In p pp -> cp_is_mc p = false -> In (d, e) (all_events p) -> lookup m (sl (acc_obj p) d e) = Unset ->
  final_construct m pp rp clients = false.
Proof. exact unbound_provides_event_detected. Qed.
Print Assumptions C10_unbound_provides_event_detected.
Theorem C10_unbound_requires_event_detected : forall m pp rp clients p d e,
  In p rp -> In (d, e) (all_events p) -> lookup m (sl (acc_obj p) d e) = Unset -> final_construct m pp rp clients = false.
Proof. exact unbound_requires_event_detected. Qed.
Print Assumptions C10_unbound_requires_event_detected.
Theorem C10_unbound_client_event_detected : forall m pp rp clients p c d e,
  In p pp -> cp_is_mc p = true -> In c clients -> In (d, e) (all_events p) -> lookup m (sl (Cli (cp_name p) c) d e) = Unset ->
  final_construct m pp rp clients = false.
Proof. exact unbound_client_event_detected. Qed.
Print Assumptions C10_unbound_client_event_detected.
Theorem C10_unbound_component_event_detected : forall m pp rp clients p d e,
  In p (pp ++ rp) -> In (d, e) (all_events p) -> lookup m (sl (Enc (cp_name p)) d e) = Unset -> final_construct m pp rp clients = false.
Proof. exact unbound_component_event_detected. Qed.
Print Assumptions C10_unbound_component_event_detected.

(* ... and records the given parent: whenever a call of FinalConstruct(parent) returns normally - the first or a repeated one,
   whatever was recorded before, a null parent included - the component's meta information holds the parent it was given;
   the call returns normally exactly when the binding checks above pass; a failing boundary check leaves the record alone *)
Theorem C10_success_records_the_given_parent : forall m recorded given pp rp clients,
  fst (final_construct_run m recorded given pp rp clients) = true -> snd (final_construct_run m recorded given pp rp clients) = given.
Proof. exact run_records. Qed.
Print Assumptions C10_success_records_the_given_parent.
Theorem C10_run_succeeds_iff_checks_pass : forall m recorded given pp rp clients,
  fst (final_construct_run m recorded given pp rp clients) = final_construct m pp rp clients.
Proof. exact run_agrees. Qed.
Print Assumptions C10_run_succeeds_iff_checks_pass.

(* non-vacuity: the C01 demo shell - all bound after construction and user binding; one user-side event unbound: detected *)
Example demo_fc :
  final_construct (ShellPlanFacts.final_slots C01.L_demo C01.pp_demo C01.rp_demo) C01.pp_demo C01.rp_demo [] = true /\
  final_construct (exec (SemFacts.assigns C01.L_demo) (exec (ShellPlanFacts.ctor_copies C01.pp_demo C01.rp_demo)
                     (ShellPlanFacts.comp_init C01.pp_demo C01.rp_demo))) C01.pp_demo C01.rp_demo [] = false.
Proof. split; vm_compute; reflexivity. Qed.
