(* C05 - Parsing preserves every declaration of the Dezyne JSON AST with correct names. *)
From Coq Require Import List NArith ZArith Bool String.
From Dznpy Require Import Base.PyStr Base.Result Base.Json Model.Scoping Model.Ast Model.JsonAst Spec.DznFile Proofs.C05Facts.
Import ListNotations.

(* for every well-formed Dezyne file - any namespace nesting, multi-identifier and re-opened namespaces, any mix and
   order of declarations, with or without the extra keys real dzn output carries - parsing its JSON rendering yields
   exactly the declarations of the file: one entry each, in document order, fully qualified by the enclosing namespaces *)
Theorem C05_parse_roundtrip : forall extras with_comment f, wf_file f = true ->
  process (to_json extras with_comment f) = Ok (flatten_decls f).
Proof. exact parse_roundtrip. Qed.
Print Assumptions C05_parse_roundtrip.

(* per element, under any enclosing namespace chain *)
Theorem C05_element : forall extras fuel d parent fc, wf_decl d = true -> ns_depth d <= fuel ->
  parse_element fuel parent fc (j_decl extras d) = Ok (fc_app fc (declared (tree_fqn parent) d)).
Proof. exact parse_element_ok. Qed.
Print Assumptions C05_element.

(* unknown element classes and non-dict entries are skipped without affecting their siblings *)
Theorem C05_unknown_classes_skipped : forall extras with_comment f, wf_file f = true ->
  process (to_json extras with_comment (filter (fun d => negb (is_skipped d)) f)) = process (to_json extras with_comment f).
Proof. exact unknown_classes_skipped. Qed.
Print Assumptions C05_unknown_classes_skipped.

(* nothing merged, reordered or dropped: concatenating files concatenates their declarations *)
Theorem C05_order_preserved : forall a b, flatten_decls (a ++ b) = fc_app (flatten_decls a) (flatten_decls b).
Proof. exact flatten_decls_app. Qed.
Print Assumptions C05_order_preserved.

(* exactly one entry per declared component / interface, however deeply nested *)
Theorem C05_one_entry_per_component : forall path d,
  List.length (fc_components (declared path d)) = count_kind (fun d => match d with DComp _ _ => 1 | _ => 0 end) d.
Proof. exact components_count. Qed.
Print Assumptions C05_one_entry_per_component.
Theorem C05_one_entry_per_interface : forall path d,
  List.length (fc_interfaces (declared path d)) = count_kind (fun d => match d with DItf _ _ _ => 1 | _ => 0 end) d.
Proof. exact interfaces_count. Qed.
Print Assumptions C05_one_entry_per_interface.
Theorem C05_fqn_is_path_plus_name : forall d path c,
  In c (fc_components (declared path d)) -> co_fqn c = co_parent c ++ co_name c.
Proof. exact component_fqns. Qed.
Print Assumptions C05_fqn_is_path_plus_name.

(* non-vacuity: a re-opened, multi-identifier namespace with an interface (nested enum and subint), a component, an
   unknown class and junk between siblings *)
Definition A := [65%N]. Definition B := [66%N]. Definition I := [73%N]. Definition R := [82%N]. Definition C := [67%N].
Definition demo : dfile :=
  [DNs [A; B] [DItf [I] [ITType (DEnum [R] [[79%N]]); ITOther (lit "type-alias"); ITType (DSubInt [C] 0 5)]
                 [{| de_name := [101%N]; de_dir := EOut; de_ret := [lit "void"]; de_formals :=
                       [{| df_name := [120%N]; df_type := [R]; df_dir := FIn |}] |}];
               DUnknown (lit "bogus"); DJunk (JInt 3)];
   DNs [A; B] [DNs [C] [DComp [C] [{| dp_name := [112%N]; dp_type := [I]; dp_dir := PRequires; dp_injected := true |}]]];
   DImport (lit "x.dzn")].
Example demo_wf : wf_file demo = true /\
  map co_fqn (fc_components (flatten_decls demo)) = [[A; B; C; C]] /\
  map en_fqn (fc_enums (flatten_decls demo)) = [[A; B; I; R]] /\
  map su_fqn (fc_subints (flatten_decls demo)) = [[A; B; I; C]].
Proof. repeat split; reflexivity. Qed.
