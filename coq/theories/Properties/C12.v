(* C12 - Building never alters its inputs and is independent of earlier builds. *)
From Coq Require Import List NArith Bool String.
From Dznpy Require Import Base.PyStr Base.Result Model.TextGen Model.Scoping Model.PortSelection Model.CppGen Model.Ast
  Model.SupportFiles Model.Builder Proofs.BuilderFacts Properties.C13.
Import ListNotations.

(* The Builder object keeps exactly one piece of state between builds: the recipe of the last build. *)
Definition bstate := option config.
Definition bstep (tp : templates) (s : bstate) (i : file_contents * config) : bstate * result (list gfile) :=
  match configure_and_build tp (fst i) (snd i) with
  | Ok fs => (Some (snd i), Ok fs)      (* self._recipe = Recipe(cfg, ...) *)
  | Err e => (s, Err e)
  end.
Fixpoint brun (tp : templates) (s : bstate) (h : list (file_contents * config)) : list (result (list gfile)) :=
  match h with [] => [] | i :: t => let '(s', r) := bstep tp s i in r :: brun tp s' t end.

(* whatever was built before, successfully or not, on the same or other models: every build of a history returns
   what the same model and configuration give as the first build of a fresh process *)
Theorem C12_history_independent : forall tp h s, brun tp s h = map (fun i => configure_and_build tp (fst i) (snd i)) h.
Proof.
  intros tp h. induction h as [|i t IH]; intros s; [reflexivity|]. cbn [brun map]. unfold bstep.
  destruct (configure_and_build tp (fst i) (snd i)); cbn; now rewrite IH.
Qed.
Print Assumptions C12_history_independent.

(* the support files in a build result equal those generated stand-alone with the same namespace prefix *)
Theorem C12_support_files_standalone : forall tp fc cfg fs, build tp fc cfg = Ok fs -> skipn 2 fs = support_files tp (cf_sf_prefix cfg).
Proof. exact support_files_standalone. Qed.
Print Assumptions C12_support_files_standalone.

(* Inputs are values in the model: that the real build leaves the parsed model and the configuration object unchanged
   is a statement about Python's heap; it is checked on every run by deep snapshots (modelled, not verified). *)
Example demo_support : List.length (support_files C13.tp0 None) = 6%nat.
Proof. reflexivity. Qed.
