(* C12 - Building never alters its inputs and is independent of earlier builds. *)
From Coq Require Import List NArith Bool String.
From Dznpy Require Import Base.PyStr Base.Result Model.TextGen Model.Scoping Model.PortSelection Model.CppGen Model.Ast
  Model.SupportFiles Model.Builder Model.BuilderObj Proofs.BuilderFacts Proofs.BuilderObjFacts Properties.C13.
Import ListNotations.

(* whatever was built before, successfully or not, on the same or other models: every build of a history returns
   what the same model and configuration give as the first build of a fresh process *)
Theorem C12_history_independent : forall tp h s, brun tp s h = map (fun i => configure_and_build tp (fst i) (snd i)) h.
Proof. intros tp h s. exact (history_independent tp h s). Qed.
Print Assumptions C12_history_independent.

(* the support files in a build result equal those generated stand-alone with the same namespace prefix *)
Theorem C12_support_files_standalone : forall tp fc cfg fs, build tp fc cfg = Ok fs -> skipn 2 fs = support_files tp (cf_sf_prefix cfg).
Proof. exact support_files_standalone. Qed.
Print Assumptions C12_support_files_standalone.

(* Inputs are values in the model: that the real build leaves the parsed model and the configuration object unchanged
   is a statement about Python's heap; it is checked on every run by deep snapshots (modelled, not verified). *)
Example demo_support : List.length (support_files C13.tp0 None) = 6%nat.
Proof. reflexivity. Qed.
