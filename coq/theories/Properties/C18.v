(* C18 - Indentation shifts text without changing it. *)
From Coq Require Import List NArith Bool Arith.
From Dznpy Require Import Base.PyStr Model.TextGen Spec.FlattenSpec Spec.IndentSpec
  Proofs.PyStrFacts Proofs.TextGenFacts Proofs.C18Facts.
Import ListNotations.
Open Scope nat_scope.

(* number and order of lines preserved; line k is the specified transformation of input line k *)
Theorem C18_line_count : forall cfg ls, List.length (indent_lines cfg ls) = List.length ls.
Proof. exact to_list_length. Qed.
Print Assumptions C18_line_count.
Theorem C18_pointwise : forall cfg ls k,
  nth_error (indent_lines cfg ls) k = option_map (line_spec cfg k) (nth_error ls k).
Proof. exact to_list_pointwise. Qed.
Print Assumptions C18_pointwise.

(* plain shifting: blank lines stay empty, every other line gets exactly the configured whitespace *)
Theorem C18_blank_stays_empty : forall cfg l, blank l = true -> shifted cfg l = [].
Proof. exact shifted_blank. Qed.
Print Assumptions C18_blank_stays_empty.
Theorem C18_shift_keeps_text : forall cfg l, blank l = false -> shifted cfg l = spec_ws cfg ++ l.
Proof. exact shifted_text. Qed.
Print Assumptions C18_shift_keeps_text.

(* bullet rows: prefix (glyph + padding) in front of the text, whose trailing whitespace is dropped *)
Theorem C18_bullet_row : forall cfg g l, glyph_ok g = true -> blank l = false ->
  bulleted cfg g l = spec_bprefix cfg g ++ rstrip l.
Proof. exact bullet_row_text. Qed.
Print Assumptions C18_bullet_row.
Theorem C18_bullet_blank_row : forall cfg g l, glyph_ok g = true -> blank l = true -> bulleted cfg g l = g.
Proof. exact bullet_row_blank. Qed.
Print Assumptions C18_bullet_blank_row.

(* continuation lines align with the text after the glyph *)
Theorem C18_alignment : forall cfg m g, i_bullet cfg = Some (m, g) -> i_indentor cfg = Spaces ->
  List.length (ws cfg) = List.length (bprefix cfg g).
Proof. exact alignment. Qed.
Print Assumptions C18_alignment.
Theorem C18_prefix_width : forall cfg g, i_indentor cfg = Spaces ->
  List.length (bprefix cfg g) = Nat.max (i_spaces cfg) (List.length g + 1).
Proof. exact bprefix_length. Qed.
Print Assumptions C18_prefix_width.

(* no trailing whitespace is introduced, in any mode *)
Theorem C18_no_trailing_ws : forall cfg i l, rstrip_fixed l = true -> rstrip_fixed (line_spec cfg i l) = true.
Proof. exact line_spec_rstrip_fixed. Qed.
Print Assumptions C18_no_trailing_ws.

(* repeated indentation *)
Theorem C18_shift_twice : forall cfg l,
  shifted cfg (shifted cfg l) = if blank l then [] else spec_ws cfg ++ spec_ws cfg ++ l.
Proof. exact shifted_twice. Qed.
Print Assumptions C18_shift_twice.

(* a header is never indented; the block keeps its line count and its invariant *)
Theorem C18_header_untouched : forall cfg t, hdr (indent cfg t) = hdr t.
Proof. exact header_untouched. Qed.
Print Assumptions C18_header_untouched.
Theorem C18_block_line_count : forall cfg t, List.length (lns (indent cfg t)) = List.length (lns t).
Proof. exact indent_lines_count. Qed.
Print Assumptions C18_block_line_count.
Theorem C18_wf_indent : forall cfg t, glyph_no_break cfg -> wf t = true -> wf (indent cfg t) = true.
Proof. exact wf_indent. Qed.
Print Assumptions C18_wf_indent.

(* list form and string form agree *)
Theorem C18_str_form : forall cfg c, to_list cfg c <> [] ->
  to_str cfg c = List.concat (map (fun l => l ++ [LF]) (to_list cfg c)).
Proof. exact to_str_terminated. Qed.
Print Assumptions C18_str_form.
Theorem C18_str_form_splits_back : forall cfg c, to_list cfg c <> [] -> Forall no_break (to_list cfg c) ->
  splitlines (to_str cfg c) = to_list cfg c.
Proof. exact str_form_agrees. Qed.
Print Assumptions C18_str_form_splits_back.

(* non-vacuity *)
Example demo_first_only :
  let cfg := {| i_indentor := Spaces; i_spaces := 2; i_bullet := Some (BFirst, [45%N; 45%N; 62%N]) |} in
  glyph_ok [45%N; 45%N; 62%N] = true /\
  indent_lines cfg [[97%N]; []; [32%N]; [98%N; 32%N]] = [[45;45;62;32;97]%N; []; []; [32;32;32;32;98;32]%N].
Proof. split; reflexivity. Qed.
