(* C09 - Facility ownership follows the configured origin. *)
From Coq Require Import List NArith Bool String.
From Dznpy Require Import Base.PyStr Base.Result Model.TextGen Model.Scoping Model.PortSelection Model.CppGen Model.Ast
  Model.SupportFiles Sem.ShellSem Sem.Exec Model.Builder Sem.FinalConstruct Proofs.SemFacts Proofs.ShellPlanFacts Proofs.FinalFacts Properties.C01.
Import ListNotations.

Theorem C09_create_ok : forall users own_pump own_runtime, loc_get users SPump = None -> loc_get users SRuntime = None ->
  exists cl, construct OCreate users own_pump own_runtime = Constructed cl false own_pump true /\
             loc_get cl SPump = Some own_pump /\ loc_get cl SRuntime = Some own_runtime /\
             forall n, loc_get cl (SOther n) = loc_get users (SOther n).
Proof. exact create_ok. Qed.
Print Assumptions C09_create_ok.
Theorem C09_create_fails_on_overlap : forall users own_pump own_runtime,
  loc_get users SPump <> None \/ loc_get users SRuntime <> None -> construct OCreate users own_pump own_runtime = Throws.
Proof. exact create_fail. Qed.
Print Assumptions C09_create_fails_on_overlap.
Theorem C09_import_ok : forall users own_pump own_runtime p r, loc_get users SPump = Some p -> loc_get users SRuntime = Some r ->
  construct OImport users own_pump own_runtime = Constructed users true p false.
Proof. exact import_ok. Qed.
Print Assumptions C09_import_ok.
Theorem C09_import_fails_when_missing : forall users own_pump own_runtime,
  loc_get users SPump = None \/ loc_get users SRuntime = None -> construct OImport users own_pump own_runtime = Throws.
Proof. exact import_fail. Qed.
Print Assumptions C09_import_fails_when_missing.

(* the locator accessor exists exactly for 'create' - in the model of the generated struct *)
Theorem C09_accessor_iff_create : forall o scope, (fa_locator_fn (create_facilities o scope) <> None) <-> o = OCreate.
Proof. intros [|] scope; cbn; split; congruence. Qed.
Print Assumptions C09_accessor_iff_create.

(* every mem-initialiser refers only to members declared earlier in the generated struct, so C++'s declaration-order
   initialisation never reads an unconstructed member: checked for the two fixed prefixes by computation, and for boundary
   ports by the shape of the lists (they depend on m_encapsulee only) *)
Theorem C09_facility_members_initialised_in_dependency_order : forall o,
  forall m deps, In (m, deps) (initialiser_deps o [] []) ->
  forall d, In d deps -> exists i j, index_of d (declared_members o [] []) = Some i /\ index_of m (declared_members o [] []) = Some j /\ (i < j)%nat.
Proof. exact facility_members_in_dependency_order. Qed.
Print Assumptions C09_facility_members_initialised_in_dependency_order.

Example demo_locators :
  construct OCreate [(SOther 7, 70)] 1 2 = Constructed [(SPump, 1); (SRuntime, 2); (SOther 7, 70)] false 1 true /\
  construct OImport [(SPump, 5); (SRuntime, 6)] 1 2 = Constructed [(SPump, 5); (SRuntime, 6)] true 5 false /\
  construct OImport [(SPump, 5)] 1 2 = Throws.
Proof. repeat split; reflexivity. Qed.
