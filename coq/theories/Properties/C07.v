(* C07 - Names in generated code denote the declaration Dezyne's scoping rules select. *)
From Coq Require Import List NArith Bool Arith String.
From Dznpy Require Import Base.PyStr Base.Result Model.TextGen Model.Scoping Model.PortSelection Model.CppGen Model.Ast
  Model.SupportFiles Sem.ShellSem Model.Builder Spec.DznFile Proofs.BuilderFacts Proofs.C07Facts.
Import ListNotations.
Open Scope nat_scope.

(* a lookup returns exactly the declarations on the scope chain of the referring scope *)
Theorem C07_lookup_is_scope_chain : forall fc name scope f,
  In f (lookup_fqn fc name scope) <-> In f (all_found fc) /\ found_on_chain scope name f.
Proof. exact lookup_fqn_spec. Qed.
Print Assumptions C07_lookup_is_scope_chain.

(* same-named declarations in unrelated namespaces never influence the result *)
Theorem C07_unrelated_declarations_irrelevant : forall fc extra name scope,
  (forall f, In f (all_found extra) -> ~ found_on_chain scope name f) ->
  lookup_fqn (fc_app fc extra) name scope = lookup_fqn fc name scope.
Proof. exact lookup_unaffected. Qed.
Print Assumptions C07_unrelated_declarations_irrelevant.

(* the interface of every exposed port is THE unique declaration on the chain of the encapsulee's parent scope, and an interface *)
Theorem C07_port_interface_unique : forall cfg fc parent ports ze, create_dzn_elements cfg fc parent ports = Ok ze ->
  forall z, In z (ze_provides ze ++ ze_requires ze) -> lookup_fqn fc (po_type (zp_port z)) parent = [FInterface (zp_itf z)].
Proof. exact port_itf_resolution. Qed.
Print Assumptions C07_port_interface_unique.

(* the C++ type of every event parameter is the data value of THE unique extern on the chain of the interface's own scope *)
Theorem C07_parameter_type_unique : forall fc itf by_ref e ps, formal_params fc itf by_ref e = Ok ps ->
  Forall2 (fun f p => exists ext, lookup_fqn fc (f_type f) (it_fqn itf) = [FExtern ext] /\
                      cp_type p = ex_value ext /\ cp_pname p = f_name f) (e_formals e) ps.
Proof. exact formal_params_resolution. Qed.
Print Assumptions C07_parameter_type_unique.

Theorem C07_claim_enum_unique : forall m n itf fc fx, check_multiclient m n itf fc = Ok (Some fx) ->
  exists en, lookup_fqn fc (e_ret (mx_claim fx)) (it_fqn itf) = [FEnum en] /\
             mx_reply fx = (en_fqn en ++ [hd [] (match m with Some c => mcc_reply c | None => [] end)])%list.
Proof. exact claim_enum_resolution. Qed.
Print Assumptions C07_claim_enum_unique.

(* none, more than one, or a declaration of the wrong kind: an error, never an arbitrary pick *)
Theorem C07_resolution_ok_iff_single : forall A (pick : found -> option A) l a,
  single pick l = Ok a <-> exists f, l = [f] /\ pick f = Some a.
Proof. exact @single_ok_iff. Qed.
Print Assumptions C07_resolution_ok_iff_single.
Theorem C07_resolution_error_kind : forall A (pick : found -> option A) l e, single pick l = Err e -> e = FindError.
Proof. exact @single_err. Qed.
Print Assumptions C07_resolution_error_kind.
Theorem C07_build_needs_resolvable_port_types : forall tp fc cfg fs, build tp fc cfg = Ok fs ->
  exists f, lookup_fqn fc (cf_encapsulee cfg) [] = [f] /\ is_component_or_system f = true /\
            forall port, In port (found_ports f) ->
              exists i, lookup_fqn fc (po_type port) (found_parent f) = [FInterface i].
Proof. exact build_ok_sound. Qed.
Print Assumptions C07_build_needs_resolvable_port_types.

(* non-vacuity: T declared globally, in A and in unrelated Z; looked up from A.B the chain holds A.T and T, not Z.T *)
Definition ext (f : ids) (v : string) : extern_d := {| ex_fqn := f; ex_parent := removelast f; ex_name := [last f []]; ex_value := L v |}.
Definition fc_demo : file_contents :=
  {| fc_components := []; fc_enums := []; fc_externs := [ext [L "T"] "g"; ext [L "A"; L "T"] "a"; ext [L "Z"; L "T"] "z"];
     fc_filenames := []; fc_foreigns := []; fc_imports := []; fc_interfaces := []; fc_subints := []; fc_systems := [] |}.
Example demo_chain :
  map found_fqn (lookup_fqn fc_demo [L "T"] [L "A"; L "B"]) = [[L "T"]; [L "A"; L "T"]] /\
  map found_fqn (lookup_fqn fc_demo [L "A"; L "T"] [L "A"; L "B"]) = [[L "A"; L "T"]].
Proof. split; reflexivity. Qed.
