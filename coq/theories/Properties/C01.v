(* C01 - Shell forwards every port event to its counterpart exactly once, intact. *)
From Coq Require Import List NArith Bool String.
From Dznpy Require Import Base.PyStr Base.Result Model.TextGen Model.Scoping Model.PortSelection Model.CppGen Model.Ast
  Model.SupportFiles Sem.ShellSem Sem.Exec Model.Builder Proofs.SemFacts Proofs.ShellPlanFacts Proofs.HygieneFacts Proofs.PlanHygiene.
Import ListNotations.

(* The statements below are the ones the builder model renders into the constructor text (Model/Builder.v: in_stmts,
   out_stmts, ref_stmts, CopyPort), so the byte-exact correspondence check ties them to what /repo emits. Their meaning is
   given by Sem/Exec.v (late-bound std::function slots, std::ref, dzn::shell, dzn::pump). *)

(* no event is left unrouted: the constructor program contains the forwarding statement for every event of every
   multi-threaded exposed port, naming the same port and the same event on the other side *)
Theorem C01_every_provides_in_event_rerouted : forall fc pp rp L p e, ctor_assigns fc pp rp = Ok L ->
  In p pp -> is_plain_mts p = true -> In e (events_of EIn p) ->
  exists ps, formal_params fc (zp_itf (cp_dzn p)) true e = Ok ps /\
    In (sl (Bnd (cp_name p)) DIn e, ShellFwd ps (map f_name (in_formals e)) (sl (Enc (cp_name p)) DIn e) (map cp_pname ps)) L.
Proof. exact ctor_reroutes_every_provides_in_event. Qed.
Print Assumptions C01_every_provides_in_event_rerouted.
Theorem C01_every_provides_out_event_referenced : forall fc pp rp L p e, ctor_assigns fc pp rp = Ok L ->
  In p pp -> is_plain_mts p = true -> In e (events_of EOut p) ->
  In (sl (Enc (cp_name p)) DOut e, Ref (sl (Bnd (cp_name p)) DOut e)) L.
Proof. exact ctor_refs_every_provides_out_event. Qed.
Print Assumptions C01_every_provides_out_event_referenced.
Theorem C01_every_requires_out_event_posted : forall fc pp rp L p e, ctor_assigns fc pp rp = Ok L ->
  In p rp -> cp_is_mts p = true -> In e (events_of EOut p) ->
  exists ps, formal_params fc (zp_itf (cp_dzn p)) false e = Ok ps /\
    In (sl (Bnd (cp_name p)) DOut e, PostFwd ps (map f_name (in_formals e)) (sl (Enc (cp_name p)) DOut e) (map cp_pname ps)) L.
Proof. exact ctor_posts_every_requires_out_event. Qed.
Print Assumptions C01_every_requires_out_event_posted.
Theorem C01_every_requires_in_event_referenced : forall fc pp rp L p e, ctor_assigns fc pp rp = Ok L ->
  In p rp -> cp_is_mts p = true -> cp_is_mc p = false -> In e (events_of EIn p) ->
  In (sl (Enc (cp_name p)) DIn e, Ref (sl (Bnd (cp_name p)) DIn e)) L.
Proof. exact ctor_refs_every_requires_in_event. Qed.
Print Assumptions C01_every_requires_in_event_referenced.

(* exactly once, intact: calling the user-side slot yields exactly one native record, at the same-named event of the
   same-named port on the other side, with the arguments in declared order; the reply and the final values of by-reference
   parameters come back to the caller. Hypotheses nodup_* / ~In are the name-hygiene conditions (distinct port, event and
   formal names - known finding K6 when violated). *)
Theorem C01_provides_in_event_once : forall sc, (forall s vs, List.length (snd (sc s vs)) = List.length vs) ->
  forall pp rp L, NoDup (map fst L) -> NoDup (map fst (comp_init pp rp)) -> NoDup (map fst (user_binds pp rp)) ->
  forall p e ps vs,
  In (sl (Bnd (cp_name p)) DIn e, ShellFwd ps (map f_name (in_formals e)) (sl (Enc (cp_name p)) DIn e) (map cp_pname ps)) L ->
  In (sl (Enc (cp_name p)) DIn e, Native ENC) (comp_init pp rp) ->
  ~ In (sl (Bnd (cp_name p)) DIn e) (map fst (user_binds pp rp)) ->
  ~ In (sl (Enc (cp_name p)) DIn e) (map fst L) -> ~ In (sl (Enc (cp_name p)) DIn e) (map fst (user_binds pp rp)) ->
  NoDup (map cp_pname ps) -> List.length vs = List.length ps ->
  call sc 2 (world0 pp rp L) (sl (Bnd (cp_name p)) DIn e) vs Caller =
  ({| w_slots := final_slots L pp rp; w_queue := [];
      w_trace := [{| r_who := ENC; r_slot := sl (Enc (cp_name p)) DIn e; r_args := vs; r_ctx := Dispatcher |}] |},
   Done (fst (sc (sl (Enc (cp_name p)) DIn e) vs))
        (write_back (map f_name (in_formals e)) ps vs (snd (sc (sl (Enc (cp_name p)) DIn e) vs)))).
Proof. intros sc Hsc pp rp L H1 H2 _. exact (provides_mts_in_once sc Hsc pp rp L H1 H2). Qed.
Print Assumptions C01_provides_in_event_once.

Theorem C01_provides_out_event_once : forall sc pp rp L, NoDup (map fst L) -> NoDup (map fst (user_binds pp rp)) ->
  forall p e vs c,
  In (sl (Enc (cp_name p)) DOut e, Ref (sl (Bnd (cp_name p)) DOut e)) L ->
  In (sl (Bnd (cp_name p)) DOut e, Native USER) (user_binds pp rp) ->
  ~ In (sl (Enc (cp_name p)) DOut e) (map fst (user_binds pp rp)) ->
  call sc 2 (world0 pp rp L) (sl (Enc (cp_name p)) DOut e) vs c =
  ({| w_slots := final_slots L pp rp; w_queue := [];
      w_trace := [{| r_who := USER; r_slot := sl (Bnd (cp_name p)) DOut e; r_args := vs; r_ctx := c |}] |},
   Done (fst (sc (sl (Bnd (cp_name p)) DOut e) vs)) (snd (sc (sl (Bnd (cp_name p)) DOut e) vs))).
Proof. intros sc pp rp L H1 H3. exact (provides_mts_out_once sc pp rp L H1 H3). Qed.
Print Assumptions C01_provides_out_event_once.

Theorem C01_requires_in_event_once : forall sc pp rp L, NoDup (map fst L) -> NoDup (map fst (user_binds pp rp)) ->
  forall p e vs c,
  In (sl (Enc (cp_name p)) DIn e, Ref (sl (Bnd (cp_name p)) DIn e)) L ->
  In (sl (Bnd (cp_name p)) DIn e, Native USER) (user_binds pp rp) ->
  ~ In (sl (Enc (cp_name p)) DIn e) (map fst (user_binds pp rp)) ->
  call sc 2 (world0 pp rp L) (sl (Enc (cp_name p)) DIn e) vs c =
  ({| w_slots := final_slots L pp rp; w_queue := [];
      w_trace := [{| r_who := USER; r_slot := sl (Bnd (cp_name p)) DIn e; r_args := vs; r_ctx := c |}] |},
   Done (fst (sc (sl (Bnd (cp_name p)) DIn e) vs)) (snd (sc (sl (Bnd (cp_name p)) DIn e) vs))).
Proof. intros sc pp rp L H1 H3. exact (requires_mts_in_once sc pp rp L H1 H3). Qed.
Print Assumptions C01_requires_in_event_once.

Theorem C01_requires_out_event_once : forall sc pp rp L, NoDup (map fst (comp_init pp rp)) ->
  forall p e ps vs w,
  w_slots w = final_slots L pp rp ->
  In (sl (Enc (cp_name p)) DOut e, Native ENC) (comp_init pp rp) ->
  ~ In (sl (Enc (cp_name p)) DOut e) (map fst L) -> ~ In (sl (Enc (cp_name p)) DOut e) (map fst (user_binds pp rp)) ->
  NoDup (map cp_pname ps) -> List.length vs = List.length ps ->
  (forall a, In a (map cp_pname ps) -> In a (map f_name (in_formals e))) ->
  w_queue w = [{| c_target := sl (Enc (cp_name p)) DOut e; c_env := bind_params (map cp_pname ps) vs; c_args := map cp_pname ps;
                  c_caps := map f_name (in_formals e) |}] ->
  run_head sc 1 w =
  ({| w_slots := final_slots L pp rp; w_queue := [];
      w_trace := w_trace w ++ [{| r_who := ENC; r_slot := sl (Enc (cp_name p)) DOut e; r_args := vs; r_ctx := Dispatcher |}] |},
   Done (fst (sc (sl (Enc (cp_name p)) DOut e) vs)) (snd (sc (sl (Enc (cp_name p)) DOut e) vs))).
Proof. intros sc pp rp L H2. exact (requires_mts_out_delivered sc pp rp L H2). Qed.
Print Assumptions C01_requires_out_event_once.

(* END TO END, from what Dezyne guarantees about names only (hygienic: the ports of the component have distinct names, the
   events of an interface have distinct names): for every plan the constructor program exists for, every event of every
   multi-threaded exposed port arrives exactly once at the same-named event of the same-named port on the other side. The
   hypotheses of the four theorems above about the slot lists are all derived (Proofs/HygieneFacts.v). *)
Theorem C01_provides_in_event_end_to_end : forall sc, (forall s vs, List.length (snd (sc s vs)) = List.length vs) ->
  forall fc pp rp L, ctor_assigns fc pp rp = Ok L -> hygienic pp rp ->
  forall p e vs, In p pp -> is_plain_mts p = true -> In e (events_of EIn p) ->
  NoDup (map f_name (e_formals e)) -> List.length vs = List.length (e_formals e) ->
  exists ps, formal_params fc (zp_itf (cp_dzn p)) true e = Ok ps /\
  call sc 2 (world0 pp rp L) (sl (Bnd (cp_name p)) DIn e) vs Caller =
  ({| w_slots := final_slots L pp rp; w_queue := [];
      w_trace := [{| r_who := ENC; r_slot := sl (Enc (cp_name p)) DIn e; r_args := vs; r_ctx := Dispatcher |}] |},
   Done (fst (sc (sl (Enc (cp_name p)) DIn e) vs))
        (write_back (map f_name (in_formals e)) ps vs (snd (sc (sl (Enc (cp_name p)) DIn e) vs)))).
Proof. exact provides_in_event_end_to_end. Qed.
Print Assumptions C01_provides_in_event_end_to_end.

Theorem C01_provides_out_event_end_to_end : forall sc fc pp rp L, ctor_assigns fc pp rp = Ok L -> hygienic pp rp ->
  forall p e vs c, In p pp -> is_plain_mts p = true -> In e (events_of EOut p) ->
  call sc 2 (world0 pp rp L) (sl (Enc (cp_name p)) DOut e) vs c =
  ({| w_slots := final_slots L pp rp; w_queue := [];
      w_trace := [{| r_who := USER; r_slot := sl (Bnd (cp_name p)) DOut e; r_args := vs; r_ctx := c |}] |},
   Done (fst (sc (sl (Bnd (cp_name p)) DOut e) vs)) (snd (sc (sl (Bnd (cp_name p)) DOut e) vs))).
Proof. exact provides_out_event_end_to_end. Qed.
Print Assumptions C01_provides_out_event_end_to_end.

Theorem C01_requires_in_event_end_to_end : forall sc fc pp rp L, ctor_assigns fc pp rp = Ok L -> hygienic pp rp ->
  forall p e vs c, In p rp -> cp_is_mts p = true -> cp_is_mc p = false -> In e (events_of EIn p) ->
  call sc 2 (world0 pp rp L) (sl (Enc (cp_name p)) DIn e) vs c =
  ({| w_slots := final_slots L pp rp; w_queue := [];
      w_trace := [{| r_who := USER; r_slot := sl (Bnd (cp_name p)) DIn e; r_args := vs; r_ctx := c |}] |},
   Done (fst (sc (sl (Bnd (cp_name p)) DIn e) vs)) (snd (sc (sl (Bnd (cp_name p)) DIn e) vs))).
Proof. exact requires_in_event_end_to_end. Qed.
Print Assumptions C01_requires_in_event_end_to_end.

Theorem C01_requires_out_event_end_to_end : forall sc fc pp rp L, ctor_assigns fc pp rp = Ok L -> hygienic pp rp ->
  forall p e vs c, In p rp -> cp_is_mts p = true -> In e (events_of EOut p) ->
  NoDup (map f_name (e_formals e)) -> Forall (fun f => f_dir f = FIn) (e_formals e) -> List.length vs = List.length (e_formals e) ->
  exists w, call sc 1 (world0 pp rp L) (sl (Bnd (cp_name p)) DOut e) vs c = (w, Done 0%N vs) /\
            w_trace w = [] /\ List.length (w_queue w) = 1%nat /\
            run_head sc 1 w =
            ({| w_slots := final_slots L pp rp; w_queue := [];
                w_trace := [{| r_who := ENC; r_slot := sl (Enc (cp_name p)) DOut e; r_args := vs; r_ctx := Dispatcher |}] |},
             Done (fst (sc (sl (Enc (cp_name p)) DOut e) vs)) (snd (sc (sl (Enc (cp_name p)) DOut e) vs))).
Proof. exact requires_out_event_end_to_end. Qed.
Print Assumptions C01_requires_out_event_end_to_end.

(* ... and the plans the builder constructs ARE hygienic whenever the parsed model has distinct port names on the encapsulee
   and distinct event names in every interface (what Dezyne guarantees): the end-to-end theorems speak about every
   successful build of such a model. *)
Theorem C01_built_plans_are_hygienic : forall cfg fc parent ports ze scope sfns, create_dzn_elements cfg fc parent ports = Ok ze ->
  model_names_distinct fc ports ->
  hygienic (map (create_cpp_portitf scope sfns) (ze_provides ze)) (map (create_cpp_portitf scope sfns) (ze_requires ze)).
Proof. exact dzn_elements_hygienic. Qed.
Print Assumptions C01_built_plans_are_hygienic.

(* an event whose slot was left unbound is reported, never silently dropped or misrouted *)
Theorem C01_unbound_is_reported : forall sc w s vs c, lookup (w_slots w) s = Unset -> call sc 1 w s vs c = (w, Unbound s).
Proof. exact unbound_reported. Qed.
Print Assumptions C01_unbound_is_reported.

(* non-vacuity: interface I { in Use(inout n : Int, in m : Int); out Done(in k : Int) }, component with MTS provides port
   "api" and MTS requires port "hal" of that interface; every hypothesis of the theorems holds for the generated program,
   and the call yields the single record *)
Definition Int_ext : extern_d := {| ex_fqn := [L "Int"]; ex_parent := []; ex_name := [L "Int"]; ex_value := L "int" |}.
Definition ev_use : event := {| e_name := L "Use"; e_ret := [L "void"]; e_dir := EIn;
  e_formals := [{| f_name := L "n"; f_type := [L "Int"]; f_dir := FInOut |}; {| f_name := L "m"; f_type := [L "Int"]; f_dir := FIn |}] |}.
Definition ev_done : event := {| e_name := L "Done"; e_ret := [L "void"]; e_dir := EOut;
  e_formals := [{| f_name := L "k"; f_type := [L "Int"]; f_dir := FIn |}] |}.
Definition itf_I : interface_d := {| it_fqn := [L "I"]; it_parent := []; it_name := [L "I"]; it_types := []; it_events := [ev_use; ev_done] |}.
Definition fc_demo : file_contents :=
  {| fc_components := []; fc_enums := []; fc_externs := [Int_ext]; fc_filenames := []; fc_foreigns := []; fc_imports := [];
     fc_interfaces := [itf_I]; fc_subints := []; fc_systems := [] |}.
Definition zport (n : string) (d : portdir) : dznport :=
  {| zp_port := {| po_name := L n; po_type := [L "I"]; po_dir := d; po_formals := []; po_injected := false |};
     zp_itf := itf_I; zp_sem := MTS; zp_mc := None |}.
Definition pp_demo := [create_cpp_portitf (L "S") [L "Dzn"] (zport "api" PProvides)].
Definition rp_demo := [create_cpp_portitf (L "S") [L "Dzn"] (zport "hal" PRequires)].
Definition L_demo : list (slot * handler) := match ctor_assigns fc_demo pp_demo rp_demo with Ok l => l | Err _ => [] end.
Definition sc_demo : script := fun s vs => (7%N, map (fun v => (v + 100)%N) vs).

Example demo_hypotheses :
  nodup_slots (map fst L_demo) = true /\ nodup_slots (map fst (comp_init pp_demo rp_demo)) = true /\
  nodup_slots (map fst (user_binds pp_demo rp_demo)) = true /\ List.length L_demo = 4%nat.
Proof. repeat split; vm_compute; reflexivity. Qed.

Example demo_hygienic : hygienic pp_demo rp_demo.
Proof.
  split.
  - cbn. repeat constructor; cbn; intuition discriminate.
  - repeat constructor; cbn; intuition discriminate.
Qed.

Example demo_call :
  let w := fst (call sc_demo 2 (world0 pp_demo rp_demo L_demo) (sl (Bnd (L "api")) DIn ev_use) [1%N; 2%N] Caller) in
  map (fun r => (r_who r, s_obj (r_slot r), r_args r, r_ctx r)) (w_trace w) = [(ENC, Enc (L "api"), [1%N; 2%N], Dispatcher)] /\
  snd (call sc_demo 2 (world0 pp_demo rp_demo L_demo) (sl (Bnd (L "api")) DIn ev_use) [1%N; 2%N] Caller) = Done 7%N [101%N; 2%N].
Proof. split; vm_compute; reflexivity. Qed.
