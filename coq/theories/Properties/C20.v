(* C20 - C++ building blocks render matching declarations and definitions. *)
From Coq Require Import List NArith Bool Arith String.
From Dznpy Require Import Base.PyStr Base.Result Model.TextGen Model.Scoping Model.CppGen Spec.FlattenSpec
  Proofs.PyStrFacts Proofs.C20Facts.
Import ListNotations.
Open Scope nat_scope.

(* declaration and definition are built around the same return type, name, parameter list and cv-qualifier;
   virtual/static, override and '= ...' are on the declaration only; the owner qualifier on the definition only *)
Theorem C20_decl_shape : forall f, fn_decl_line f =
  (decl_prefix f ++ str_type (fn_ret f) ++ L " " ++ fn_name f ++ L "(" ++ join (L ", ") (map param_decl (fn_params f)) ++ L ")" ++
   sp_if (fn_cav f) ++ decl_suffix f)%list.
Proof. exact fn_decl_shape. Qed.
Print Assumptions C20_decl_shape.
Theorem C20_def_shape : forall f, fn_def_sig f =
  (str_type (fn_ret f) ++ L " " ++ owner f ++ fn_name f ++ L "(" ++ join (L ", ") (map param_def (fn_params f)) ++ L ")" ++
   sp_if (fn_cav f))%list.
Proof. exact fn_def_shape. Qed.
Print Assumptions C20_def_shape.

(* parameter k of the declaration is parameter k of the definition (same type, name, order) plus an optional default *)
Theorem C20_params_pointwise : forall ps k p, nth_error ps k = Some p ->
  nth_error (map param_decl ps) k = Some (param_def p ++ default_suffix p)%list /\
  nth_error (map param_def ps) k = Some (param_def p).
Proof. exact params_pointwise. Qed.
Print Assumptions C20_params_pointwise.

(* the rendered declaration is that one line *)
Theorem C20_decl_rendered : forall f, no_break (fn_decl_line f) -> fn_as_decl f = (fn_decl_line f ++ [LF])%list.
Proof. exact fn_decl_rendered. Qed.
Print Assumptions C20_decl_rendered.

(* the definition does not depend on anything that is declaration-only (prefix, override, default values, the
   text of the initialisation), the declaration neither on the body nor on the owning scope *)
Theorem C20_def_depends_only_on : forall f g, def_inputs f = def_inputs g -> fn_as_def f = fn_as_def g.
Proof. exact fn_def_depends_only_on. Qed.
Print Assumptions C20_def_depends_only_on.
Theorem C20_decl_depends_only_on : forall f g, decl_inputs f = decl_inputs g -> fn_as_decl f = fn_as_decl g.
Proof. exact fn_decl_depends_only_on. Qed.
Print Assumptions C20_decl_depends_only_on.

(* no definition when the declaration is initialised *)
Theorem C20_fn_no_def_when_initialised : forall f, fn_init f <> [] -> fn_as_def f = [].
Proof. exact fn_no_def_when_initialised. Qed.
Print Assumptions C20_fn_no_def_when_initialised.
Theorem C20_ctor_no_def_when_initialised : forall c, c_init c <> [] -> ctor_as_def c = [].
Proof. exact ctor_no_def_when_initialised. Qed.
Print Assumptions C20_ctor_no_def_when_initialised.
Theorem C20_dtor_no_def_when_initialised : forall d, d_init d <> [] -> dtor_as_def d = [].
Proof. exact dtor_no_def_when_initialised. Qed.
Print Assumptions C20_dtor_no_def_when_initialised.

Theorem C20_fn_def_empty_body : forall f, fn_init f = [] -> truthy (fn_contents f) = false -> no_break (fn_def_sig f) ->
  fn_as_def f = (fn_def_sig f ++ L " {}" ++ [LF])%list.
Proof. exact fn_def_empty_body. Qed.
Print Assumptions C20_fn_def_empty_body.

(* constructors: same decomposition; the definition is qualified by its owner *)
Theorem C20_ctor_decl_shape : forall c, ctor_decl_line c =
  ((if c_explicit c then L "explicit " else []) ++ c_scope c ++ L "(" ++ join (L ", ") (map param_decl (some_params (c_params c))) ++ L ")" ++
   init_if (c_init c) ++ L ";")%list.
Proof. exact ctor_decl_shape. Qed.
Print Assumptions C20_ctor_decl_shape.
Theorem C20_ctor_def_shape : forall c, ctor_def_sig c =
  (c_scope c ++ L "::" ++ c_scope c ++ L "(" ++ join (L ", ") (map param_def (some_params (c_params c))) ++ L ")")%list.
Proof. exact ctor_def_shape. Qed.
Print Assumptions C20_ctor_def_shape.
Theorem C20_ctor_def_depends_only_on : forall c d, ctor_def_inputs c = ctor_def_inputs d -> ctor_as_def c = ctor_as_def d.
Proof. exact ctor_def_depends_only_on. Qed.
Print Assumptions C20_ctor_def_depends_only_on.

(* namespaces, structs and classes: balanced, correctly named open/close pairs around unchanged contents *)
Theorem C20_namespace_lines : forall i t, Forall no_break i -> wf t = true -> lns t <> [] ->
  splitlines (str_namespace i t) = (ns_head i :: (hdr t ++ lns t) ++ [ns_tail i])%list.
Proof. exact namespace_lines. Qed.
Print Assumptions C20_namespace_lines.
Theorem C20_namespace_empty : forall i t, Forall no_break i -> lns t = [] -> str_namespace i t = (ns_head i ++ L "}" ++ [LF])%list.
Proof. exact namespace_empty. Qed.
Print Assumptions C20_namespace_empty.
Theorem C20_namespace_names_match : forall i,
  ns_head i = (L "namespace" ++ ns_suffix i ++ L " {")%list /\ ns_tail i = (L "} // namespace" ++ ns_suffix i)%list.
Proof. exact namespace_names_match. Qed.
Print Assumptions C20_namespace_names_match.
Theorem C20_struct_lines : forall is_class name t, no_break name -> wf t = true -> lns t <> [] ->
  splitlines (str_struct is_class name t) =
  (((if is_class then L "class " else L "struct ") ++ name) :: L "{" :: (hdr t ++ lns t) ++ [L "};"])%list.
Proof. exact struct_lines. Qed.
Print Assumptions C20_struct_lines.

(* non-vacuity *)
Definition int_t : typedesc := {| t_fqn := {| q_ids := [L "int"]; q_root := false |}; t_targ := None; t_postfix := PNone; t_const := false; t_default := Some (L "3") |}.
Definition demo_fn : function :=
  {| fn_ret := int_t; fn_name := L "Calc"; fn_params := [{| pa_type := int_t; pa_name := L "x" |}]; fn_prefix := FVirtual;
     fn_cav := L "const"; fn_override := true; fn_init := []; fn_contents := CStr (L "return x;"); fn_scope := Some (L "S") |}.
Example demo_render :
  fn_as_decl demo_fn = (L "virtual int Calc(int x = 3) const override;" ++ [LF])%list /\
  splitlines (fn_as_def demo_fn) = [L "int S::Calc(int x) const"; L "{"; L "    return x;"; L "}"].
Proof. split; reflexivity. Qed.
