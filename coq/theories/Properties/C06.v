(* C06 - Generated files form valid, self-contained C++ for every model and configuration (structural part). *)
From Coq Require Import List NArith Bool String.
From Dznpy Require Import Base.PyStr Base.Result Model.TextGen Model.Scoping Model.PortSelection Model.CppGen Model.Ast
  Model.SupportFiles Model.Builder Spec.FlattenSpec Proofs.PyStrFacts Proofs.C19Facts Proofs.C20Facts Proofs.BuilderFacts Proofs.C06Facts.
Import ListNotations.

(* every quoted include names another returned file or the Dezyne-generated header of the source model *)
Theorem C06_header_include_closure : forall tp fc cfg fs inc, build tp fc cfg = Ok fs ->
  In inc (header_project_includes (get_basename (cf_filename cfg)) (sf_file_ns (cf_sf_prefix cfg)) (pc_mc (cf_ports cfg))) ->
  inc = (get_basename (cf_filename cfg) ++ L ".hh")%list \/ In inc (map g_name fs).
Proof. exact header_include_closure. Qed.
Print Assumptions C06_header_include_closure.
Theorem C06_source_includes_returned_header : forall tp fc cfg fs, build tp fc cfg = Ok fs ->
  In (get_basename (cf_filename cfg) ++ cf_suffix cfg ++ L ".hh")%list (map g_name fs).
Proof. exact source_includes_header. Qed.
Print Assumptions C06_source_includes_returned_header.
Theorem C06_selector_include_closure : forall tp prefix x, In x ["ILog"; "MiscUtils"; "MetaHelpers"; "MutexWrapped"]%string ->
  In (sf_file_ns prefix ++ L "_" ++ L x ++ L ".hh")%list (map g_name (support_files tp prefix)).
Proof. exact selector_include_closure. Qed.
Print Assumptions C06_selector_include_closure.

(* declared members and their definitions are rendered from the same Function/Constructor objects: the pairing theorems of
   C20 (C20_decl_shape / C20_def_shape / C20_params_pointwise) apply to each member of the shell *)

(* REFUTED clause "may be included more than once": no generated header carries an include guard - the shell header begins
   with a comment line for every model and configuration (known finding K1; the compiler-level consequence, a
   redefinition error on double inclusion, is reproduced by the check on every run) *)
Theorem C06_no_include_guard_refutes_double_inclusion : forall tp cfg fns ce,
  exists l ls, splitlines (g_contents (create_headerfile tp cfg fns ce)) = l :: ls /\ starts_slashes l = true.
Proof. exact header_starts_with_comment. Qed.
Print Assumptions C06_no_include_guard_refutes_double_inclusion.

(* REFUTED clause "usable from another translation unit" for an encapsulee in the global namespace: its shell is rendered
   inside an anonymous namespace, i.e. with internal linkage (known finding K2) *)
Theorem C06_global_scope_anonymous_namespace_refutes_external_linkage : forall t, wf t = true -> lns t <> [] ->
  hd [] (splitlines (str_namespace [] t)) = L "namespace {".
Proof. exact global_scope_is_anonymous_namespace. Qed.
Print Assumptions C06_global_scope_anonymous_namespace_refutes_external_linkage.

(* REFUTED clause "support headers generated with different namespace prefixes coexist": two different prefixes can give the
   same file names (identifiers are joined with '_'), with different namespaces inside (known finding K10) *)
Theorem C06_prefix_file_names_not_injective_refutes_coexistence :
  exists p q, p <> q /\ sf_file_ns (Some p) = sf_file_ns (Some q) /\ sf_ns (Some p) <> sf_ns (Some q).
Proof. exact prefix_file_names_not_injective. Qed.
Print Assumptions C06_prefix_file_names_not_injective_refutes_coexistence.
