(* C19 - User text rendered as a comment can never become code (text kernel part). *)
From Coq Require Import List NArith Bool Arith String.
From Dznpy Require Import Base.PyStr Base.Result Model.TextGen Spec.FlattenSpec Spec.IndentSpec
  Proofs.PyStrFacts Proofs.TextGenFacts Proofs.C18Facts Proofs.C19Facts
  Model.CppGen Model.SupportFiles Model.Builder Proofs.BuilderFacts Proofs.C19BuildFacts.
Import ListNotations.
Open Scope nat_scope.

(* whatever content a Comment is made of, every physical line of its rendering starts with // *)
Theorem C19_only_comment_lines : forall c, wfc c = true ->
  Forall (fun l => starts_slashes l = true) (splitlines (str_comment (appended c))).
Proof. exact comment_of_content_slashes. Qed.
Print Assumptions C19_only_comment_lines.

(* one rendered line per piece of the content, carrying that piece's text *)
Theorem C19_lines_carry_text : forall c, wfc c = true ->
  splitlines (str_comment (appended c)) = map comment_line (pieces_top c).
Proof. exact comment_of_content_lines. Qed.
Print Assumptions C19_lines_carry_text.
Theorem C19_line_text : forall l, blank l = false -> comment_line l = (lit "// " ++ rstrip l)%list.
Proof. exact comment_line_text. Qed.
Print Assumptions C19_line_text.
Theorem C19_line_blank : forall l, blank l = true -> comment_line l = lit "//".
Proof. exact comment_line_blank. Qed.
Print Assumptions C19_line_blank.
Theorem C19_one_line_per_piece : forall ls, Forall no_break ls ->
  List.length (splitlines (str_comment ls)) = List.length ls.
Proof. exact comment_one_line_per_piece. Qed.
Print Assumptions C19_one_line_per_piece.

(* a comment can be rendered, extended and rendered again: the rendering is a function of the lines
   buffer only (rendering works on a copy - checked against the implementation by Leg A) and
   distributes over extension *)
Theorem C19_render_extend : forall ls c,
  str_comment (ls ++ appended c) = (str_comment ls ++ str_comment (appended c))%list.
Proof. exact comment_extend. Qed.
Print Assumptions C19_render_extend.

(* a comment used inside other content contributes exactly its rendered lines *)
Theorem C19_nested_comment : forall ls, wf_lines ls = true ->
  lns (mk1 (CList [CComment ls])) = map comment_line ls.
Proof. exact comment_nested. Qed.
Print Assumptions C19_nested_comment.

(* in generated files, changing only the copyright or creator information changes nothing but comment lines:
   the build succeeds or fails alike ... *)
Theorem C19_outcome_independent_of_texts : forall tp fc cfg a b,
  match build tp fc cfg, build tp fc (with_texts cfg a b) with
  | Ok _, Ok _ => True | Err e, Err e' => e = e' | _, _ => False end.
Proof. exact build_outcome_independent_of_texts. Qed.
Print Assumptions C19_outcome_independent_of_texts.

(* ... and each shell file is a block of comment lines followed by text that does not depend on the two settings *)
Theorem C19_header_only_comment_lines_change : forall tp cfg fns ce,
  exists rest, forall a b, wfc a = true -> wfc b = true ->
    exists cl, splitlines (g_contents (create_headerfile tp (with_texts cfg a b) fns ce)) = (cl ++ rest)%list /\ all_comment_lines cl.
Proof. exact headerfile_lines. Qed.
Print Assumptions C19_header_only_comment_lines_change.
Theorem C19_source_only_comment_lines_change : forall tp cfg ce, wfc (cf_copyright cfg) = true ->
  exists rest, forall a b, wfc a = true ->
    exists cl, splitlines (g_contents (create_sourcefile tp (with_texts cfg a b) ce)) = (cl ++ rest)%list /\ all_comment_lines cl.
Proof. exact sourcefile_lines. Qed.
Print Assumptions C19_source_only_comment_lines_change.

Example demo_hostile :
  splitlines (str_comment (appended (CStr (lit "a \" ++ [8232%N] ++ lit " b" ++ [13%N;10%N;10%N] ++ lit "*/ int x;"))))
  = [lit "// a \"; lit "//  b"; lit "//"; lit "// */ int x;"].
Proof. reflexivity. Qed.
