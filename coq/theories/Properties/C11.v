(* C11 - Generated multi-client support is correct under all thread interleavings. *)
From Coq Require Import List NArith Bool Arith.
From Dznpy Require Sem.Selector.
From Dznpy Require Import Sem.Concurrent Sem.MutexWrapped Proofs.ConcurrentFacts Proofs.MutexFacts Proofs.SeqRefinement Proofs.HolderFacts.
Import ListNotations.

(* ---- the multi-client selector under every schedule of any number of client threads with arbitrary finite programs ---- *)

(* at most one thread at a time is inside the section protected by MutexWrapped (Select / Deselect of a client) ... *)
Theorem C11_mutual_exclusion : forall progs ls s, run (init progs) ls = Some s ->
  forall c d o g o' g', pc_of s c = Some (Locked o g) -> pc_of s d = Some (Locked o' g') -> c = d.
Proof. exact mutual_exclusion. Qed.
Print Assumptions C11_mutual_exclusion.

(* ... and never together with the dispatcher thread delivering an out-event *)
Theorem C11_dispatcher_excludes_clients : forall progs ls s, run (init progs) ls = Some s -> out_pending s = true ->
  forall c o g, pc_of s c <> Some (Locked o g).
Proof. exact dispatcher_excludes_clients. Qed.
Print Assumptions C11_dispatcher_excludes_clients.

(* no data race on the selection: it is written only by a thread that holds the lock *)
Theorem C11_selection_written_under_lock : forall s l s', step s l = Some s' -> selected s' <> selected s ->
  exists c o g, l = LFinish c /\ pc_of s c = Some (Locked o g).
Proof. exact selection_written_under_lock. Qed.
Print Assumptions C11_selection_written_under_lock.

(* an out-event is delivered, under the lock, to exactly the client selected at that moment - or to nobody *)
Theorem C11_delivery_follows_selection : forall s s', step s LOut = Some s' ->
  delivered s' = delivered s ++ [selected s] /\ selected s' = selected s.
Proof. exact delivery_follows_selection. Qed.
Print Assumptions C11_delivery_follows_selection.

(* no deadlock: in every reachable state in which some client has not finished its program, some thread can take a step *)
Theorem C11_deadlock_free : forall progs ls s, run (init progs) ls = Some s -> forallb finished (clients s) = false ->
  exists l s', step s l = Some s'.
Proof. exact deadlock_free. Qed.
Print Assumptions C11_deadlock_free.

(* REFUTED: "a client that has been granted the claim receives the component's out-events until it itself releases, whatever
   other clients do in between".  Three schedules of the faithful model in which the holder does not receive the event: *)
(* K3': A's release has run in the component, B is granted and selected, then A's delayed Deselect wipes B *)
Theorem C11_refuted_by_late_deselect :
  deliveries [[OClaim; ORelease]; [OClaim]]
    [LStart 0; LDisp; LLock (TClient 0); LFinish 0; LStart 0; LDisp; LStart 1; LDisp; LLock (TClient 1); LFinish 1;
     LLock (TClient 0); LFinish 0; LLock TDispatcher; LOut] = Some [None].
Proof. exact late_deselect_refutes. Qed.
Print Assumptions C11_refuted_by_late_deselect.

(* K4: an out-event raised after the grant but before the claiming thread reaches Select is dropped *)
Theorem C11_refuted_by_grant_select_window :
  deliveries [[OClaim]] [LStart 0; LDisp; LLock TDispatcher; LOut; LLock (TClient 0); LFinish 0] = Some [None].
Proof. exact grant_select_window_refutes. Qed.
Print Assumptions C11_refuted_by_grant_select_window.

(* K3: a client that does not hold the claim releases *)
Theorem C11_refuted_by_non_holder_release :
  deliveries [[OClaim]; [ORelease]]
    [LStart 0; LDisp; LLock (TClient 0); LFinish 0; LStart 1; LDisp; LLock (TClient 1); LFinish 1; LLock TDispatcher; LOut] = Some [None].
Proof. exact nonholder_release_refutes. Qed.
Print Assumptions C11_refuted_by_non_holder_release.

(* What does hold: when client operations do not overlap (every forwarded call and its Select/Deselect complete before the
   next operation starts) the interleaving model coincides with the selector model of C04 - same selection after every
   operation, same recipient of every out-event - so C04's theorem "the holder receives the events in every history in which
   only the holder releases" carries over to all such schedules. *)
Theorem C11_sequential_schedules_agree_with_selector_model : forall nm use_ev out_ev ms s s' h,
  quiescent s -> seq_run nm use_ev out_ev s ms = Some (s', h) ->
  quiescent s' /\ sel_of nm s' = fst (Selector.run (sel_of nm s) h) /\
  exists dl, delivered s' = delivered s ++ dl /\
             map (option_map nm) dl = flat_map delivery_of (snd (Selector.run (sel_of nm s) h)).
Proof. exact sequential_schedules_refine_selector. Qed.
Print Assumptions C11_sequential_schedules_agree_with_selector_model.

(* ---- the mutex-wrapped helper, for every history of any number of threads ---- *)

Theorem C11_mutex_wrapped_exclusive : forall n ops t u,
  let m := snd (mrun (minit n) ops) in can_access m t -> can_access m u -> t = u.
Proof. exact mw_exclusive. Qed.
Print Assumptions C11_mutex_wrapped_exclusive.

Theorem C11_mutex_wrapped_blocks_others : forall m t u, mholder m = Some u -> mstep m (MAcquire t) = None.
Proof. exact mw_blocks. Qed.
Print Assumptions C11_mutex_wrapped_blocks_others.

Theorem C11_mutex_wrapped_reset_unlocks : forall m t, MInv m -> can_access m t ->
  exists m', mstep m (MReset t) = Some (m', None) /\ mholder m' = None /\ ~ can_access m' t.
Proof. exact mw_reset_unlocks. Qed.
Print Assumptions C11_mutex_wrapped_reset_unlocks.

Theorem C11_mutex_wrapped_scope_exit_unlocks : forall m t, MInv m -> can_access m t ->
  exists m', mstep m (MExit t) = Some (m', None) /\ mholder m' = None /\ var_of m' t = None.
Proof. exact mw_scope_exit_unlocks. Qed.
Print Assumptions C11_mutex_wrapped_scope_exit_unlocks.

Theorem C11_mutex_wrapped_no_double_unlock : forall m t h, MInv m -> var_of m t = Some h -> ptr h = false ->
  exists m', mstep m (MExit t) = Some (m', None) /\ mholder m' = mholder m.
Proof. exact mw_no_double_unlock. Qed.
Print Assumptions C11_mutex_wrapped_no_double_unlock.

(* the invariant assumed above holds in every reachable state *)
Theorem C11_mutex_wrapped_invariant_reachable : forall n ops, MInv (snd (mrun (minit n) ops)).
Proof. intros n ops. exact (mrun_inv ops _ (minit_inv n)). Qed.
Print Assumptions C11_mutex_wrapped_invariant_reachable.

(* ---- the positive half of the delivery clause, for every interleaving (partial: the full clause is refuted above) ----
   [Hold c s]: c is selected, the component has the claim on record, no client (c included) is going to release or has a release
   in flight, and no earlier granted claim still has its Select pending.  From such a state every out-event of every
   continuation of every schedule is delivered to c, whatever the other clients claim or use in between. *)
Theorem C11_holder_receives_until_release_partial : forall ls c s s', Hold c s -> run s ls = Some s' ->
  Hold c s' /\ delivered s' = delivered s ++ repeat (Some c) (outs_in ls).
Proof. exact holder_receives_all. Qed.
Print Assumptions C11_holder_receives_until_release_partial.

(* ... and such a state is what a granted claim's completed Select establishes when nothing of the kind is pending elsewhere *)
Theorem C11_hold_established_by_completed_select : forall s c p s', claimed s = true ->
  nth_error (clients s) c = Some {| prog := p; at_ := Locked OClaim true |} -> no_release p = true ->
  (forall c' cl, c' <> c -> nth_error (clients s) c' = Some cl -> client_quiet cl = true) ->
  Forall (fun e => snd e <> ORelease) (queue s) ->
  step s (LFinish c) = Some s' -> Hold c s'.
Proof. exact hold_after_select. Qed.
Print Assumptions C11_hold_established_by_completed_select.

(* non-vacuity of [Hold]: reachable with three clients of which two still claim and use *)
Example C11_hold_reachable : exists s, run (init demo_progs) demo_prefix = Some s /\ Hold 0 s.
Proof. exact hold_reachable. Qed.

(* non-vacuity: a schedule on which the holder does receive the event, and a mutex history with blocking, reset and scope exit *)
Example C11_holder_receives :
  deliveries [[OClaim; ORelease]; [OClaim]]
    [LStart 0; LDisp; LLock (TClient 0); LFinish 0; LStart 1; LDisp; LFinish 1; LLock TDispatcher; LOut] = Some [Some 0].
Proof. exact holder_receives. Qed.
