(* C14 - Name lookup returns exactly the declarations on the scope chain. *)
From Coq Require Import List NArith Bool Arith.
From Dznpy Require Import Base.PyStr Base.Result Model.Scoping Spec.LookupSpec Proofs.C14Facts.
Import ListNotations.
Open Scope nat_scope.

(* the resolution order is the candidate list of the scope chain: innermost first, outermost last *)
Theorem C14_resolution_order_eq : forall name sc, scope_resolution_order name sc = chain sc name.
Proof. exact resolution_order_eq. Qed.
Print Assumptions C14_resolution_order_eq.
Theorem C14_chain_length : forall sc name, List.length (chain sc name) = S (List.length sc).
Proof. exact chain_length. Qed.
Print Assumptions C14_chain_length.
Theorem C14_chain_kth : forall sc name k, k <= List.length sc ->
  nth_error (chain sc name) k = Some (firstn (List.length sc - k) sc ++ name).
Proof. exact chain_nth. Qed.
Print Assumptions C14_chain_kth.
Theorem C14_chain_innermost_first : forall sc name, hd [] (chain sc name) = sc ++ name.
Proof. exact chain_head. Qed.
Print Assumptions C14_chain_innermost_first.
Theorem C14_chain_global_last : forall sc name, last (chain sc name) [] = name.
Proof. exact chain_last. Qed.
Print Assumptions C14_chain_global_last.

(* lookup returns exactly the declarations on the chain - each once, in container order:
   the result IS the sub-list of all declarations selected by the chain predicate *)
Theorem C14_find_fqn_is_filter : forall c name sc, find_fqn c name sc = filter (on_chainb sc name) (all_decls c).
Proof. exact find_fqn_filter. Qed.
Print Assumptions C14_find_fqn_is_filter.
Theorem C14_find_fqn_sound_complete : forall c name sc d,
  In d (find_fqn c name sc) <-> In d (all_decls c) /\ on_chain sc name d.
Proof. exact find_fqn_sound_complete. Qed.
Print Assumptions C14_find_fqn_sound_complete.

(* suffix search (1..n identifiers) *)
Theorem C14_find_any_is_filter : forall c e, find_any c e = filter (ends_withb e) (all_decls c).
Proof. exact find_any_filter. Qed.
Print Assumptions C14_find_any_is_filter.
Theorem C14_find_any_spec : forall c e d, e <> [] ->
  (In d (find_any c e) <-> In d (all_decls c) /\ ends_with e d).
Proof. exact find_any_spec. Qed.
Print Assumptions C14_find_any_spec.

(* every namespace-identifier value handed out consists of valid identifiers *)
Theorem C14_namespaceids_t_valid : forall a i,
  (forall j, a = AIds j -> valid_ids j) -> namespaceids_t a = Ok i -> valid_ids i.
Proof. exact namespaceids_t_valid. Qed.
Print Assumptions C14_namespaceids_t_valid.
Theorem C14_add_valid : forall a b, valid_ids a -> valid_ids b -> valid_ids (ids_add a b).
Proof. exact valid_add. Qed.
Print Assumptions C14_add_valid.
Theorem C14_sum_valid : forall l, Forall valid_ids l -> valid_ids (ids_sum l).
Proof. exact valid_sum. Qed.
Print Assumptions C14_sum_valid.
Theorem C14_fqn_member_valid : forall t m, Forall valid_ids t -> valid_ids m -> valid_ids (fqn_member_name t m).
Proof. exact valid_fqn_member. Qed.
Print Assumptions C14_fqn_member_valid.
Theorem C14_resolution_order_valid : forall name sc, valid_ids name -> valid_ids sc ->
  Forall valid_ids (scope_resolution_order name sc).
Proof. exact valid_sro. Qed.
Print Assumptions C14_resolution_order_valid.

(* list, dotted and '::' notations convert losslessly *)
Theorem C14_list_roundtrip : forall i, valid_ids i -> namespaceids_t (AStrList i) = Ok i.
Proof. exact list_roundtrip. Qed.
Print Assumptions C14_list_roundtrip.
Theorem C14_dotted_roundtrip : forall i, valid_ids i -> namespaceids_t (AStr (ids_dotted i)) = Ok i.
Proof. exact dotted_roundtrip. Qed.
Print Assumptions C14_dotted_roundtrip.
Theorem C14_colons_roundtrip : forall i, valid_ids i -> namespaceids_t (AStr (ids_colons i)) = Ok i.
Proof. exact colons_roundtrip. Qed.
Print Assumptions C14_colons_roundtrip.

(* non-vacuity: reused simple names across sibling, nested and global scope; a repeated scope identifier *)
Definition A := [65%N]. Definition B := [66%N]. Definition T := [84%N].
Definition demo_c : containers :=
  {| c_components := []; c_enums := [{| d_kind := KEnum; d_fqn := [A; T]; d_uid := 1 |}];
     c_externs := [{| d_kind := KExtern; d_fqn := [T]; d_uid := 2 |}; {| d_kind := KExtern; d_fqn := [A; B; T]; d_uid := 3 |};
                   {| d_kind := KExtern; d_fqn := [B; T]; d_uid := 4 |}];
     c_foreigns := []; c_interfaces := [{| d_kind := KInterface; d_fqn := [A; B; A; T]; d_uid := 5 |}];
     c_subints := []; c_systems := [] |}.
Example demo_lookup :
  map d_uid (find_fqn demo_c [T] [A; B; A]) = [1; 2; 3; 5]%N /\
  map d_uid (find_any demo_c [B; T]) = [3; 4]%N /\ valid_ids [A; B; T].
Proof. repeat split; try reflexivity. repeat constructor. Qed.
