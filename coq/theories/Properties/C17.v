(* C17 - Text blocks keep one line per entry and flatten content losslessly.
   Statements only; each is closed by `exact <lemma>` and followed by Print Assumptions. *)
From Coq Require Import List NArith Bool String.
From Dznpy Require Import Base.PyStr Model.TextGen Spec.FlattenSpec Proofs.PyStrFacts Proofs.C17Facts Proofs.TextGenFacts.
Import ListNotations.

(* lines = depth-first, left-to-right pieces split at line breaks, for every nesting *)
Theorem C17_lines_are_pieces : forall c h, wfc c = true -> lns (mk c h) = pieces_top c.
Proof. exact lines_eq_spec. Qed.
Print Assumptions C17_lines_are_pieces.

Theorem C17_header_is_pieces : forall c h, wfc h = true -> hdr (mk c h) = if truthy h then pieces_top h else [].
Proof. exact header_eq_spec. Qed.
Print Assumptions C17_header_is_pieces.

(* no stored line contains a line break: for anything that is flattened ... *)
Theorem C17_no_stored_linebreak : forall c h,
  (forall t, c <> CBlock t) -> (forall ls, c <> CComment ls) -> Forall no_break (lns (mk c h)).
Proof. exact no_stored_linebreak. Qed.
Print Assumptions C17_no_stored_linebreak.

(* ... and as an invariant of every operation (the lines setter, which stores its argument
   unsplit, is not an operation that "puts content into a text block") *)
Theorem C17_wf_mk : forall c h, wfc c = true -> wfc h = true -> wf (mk c h) = true.
Proof. exact wf_mk. Qed.
Print Assumptions C17_wf_mk.
Theorem C17_wf_append : forall t c, wf t = true -> wfc c = true -> wf (append t c) = true.
Proof. exact wf_append. Qed.
Print Assumptions C17_wf_append.
Theorem C17_wf_add : forall t c, wf (add t c) = true.
Proof. exact wf_add. Qed.
Print Assumptions C17_wf_add.
Theorem C17_wf_trim : forall e t, wf t = true -> wf (trim e t) = true.
Proof. exact wf_trim. Qed.
Print Assumptions C17_wf_trim.

(* string form: every header and content line followed by exactly one newline *)
Theorem C17_str_form : forall t, str_tb t = List.concat (map (fun l => l ++ [LF]) (hdr t ++ lns t)).
Proof. exact str_form. Qed.
Print Assumptions C17_str_form.

(* feeding a non-empty block's string form back in reproduces the same lines *)
Theorem C17_roundtrip : forall t, wf t = true -> hdr t ++ lns t <> [] ->
  lns (mk1 (CStr (str_tb t))) = hdr t ++ lns t.
Proof. exact roundtrip. Qed.
Print Assumptions C17_roundtrip.

(* appending is concatenation (append, +=) and so is + *)
Theorem C17_append_concat : forall t c, wfc c = true ->
  lns (append t c) = lns t ++ pieces_top c /\ hdr (append t c) = hdr t.
Proof. exact append_concat. Qed.
Print Assumptions C17_append_concat.
Theorem C17_add_concat : forall t c, wf t = true -> wfc c = true ->
  lns (add t c) = lns t ++ pieces_top c /\ hdr (add t c) = [].
Proof. exact add_concat. Qed.
Print Assumptions C17_add_concat.

(* trimming removes only leading/trailing blank lines *)
Theorem C17_trim_both : forall ls, exists a b,
  ls = a ++ trim_list false ls ++ b /\ blank_lines a /\ blank_lines b /\
  starts_nonblank (trim_list false ls) /\ starts_nonblank (rev (trim_list false ls)).
Proof. exact trim_both_spec. Qed.
Print Assumptions C17_trim_both.
Theorem C17_trim_end : forall ls, exists b,
  ls = trim_list true ls ++ b /\ blank_lines b /\ starts_nonblank (rev (trim_list true ls)).
Proof. exact trim_end_spec. Qed.
Print Assumptions C17_trim_end.

(* chunking: nothing for empty content, content plus appendix otherwise *)
Theorem C17_chunk_none_iff : forall c a, chunk c a = None <-> empty_content c = true.
Proof. exact chunk_none_iff. Qed.
Print Assumptions C17_chunk_none_iff.
Theorem C17_chunk_some : forall c a, empty_content c = false -> wfc c = true ->
  exists t, chunk c a = Some t /\ hdr t = [] /\ lns t = pieces c ++ flat_map splitlines (texts a).
Proof. exact chunk_some. Qed.
Print Assumptions C17_chunk_some.

(* the four cases of cond_chunk *)
Theorem C17_cond_chunk_nothing : forall p c e a,
  empty_content c = true -> truthy e = false -> cond_chunk p c e a true = None.
Proof. exact cond_chunk_nothing. Qed.
Print Assumptions C17_cond_chunk_nothing.
Theorem C17_cond_chunk_only_response : forall p c e a,
  empty_content c = true -> truthy e = true -> cond_chunk p c e a true = Some (mk1 e).
Proof. exact cond_chunk_only_response. Qed.
Print Assumptions C17_cond_chunk_only_response.
Theorem C17_cond_chunk_content : forall p c e a aon, empty_content c = false -> wfc c = true ->
  exists t, cond_chunk p c e a aon = Some t /\ hdr t = [] /\
            lns t = flat_map splitlines (texts p) ++ pieces c ++ flat_map splitlines (texts a).
Proof. exact cond_chunk_content. Qed.
Print Assumptions C17_cond_chunk_content.
Theorem C17_cond_chunk_empty_response : forall p c e a,
  empty_content c = true -> (empty_content p = false \/ empty_content e = false) ->
  exists t, cond_chunk p c e a false = Some t /\ hdr t = [] /\
            lns t = flat_map splitlines (texts p) ++ flat_map splitlines (texts e) ++ flat_map splitlines (texts a).
Proof. exact cond_chunk_empty_response. Qed.
Print Assumptions C17_cond_chunk_empty_response.

(* non-vacuity: a nested, well-formed content with every constructor; its block is non-empty *)
Definition demo : content :=
  CList [CStr (lit "a" ++ [LF] ++ lit "b"); CNone; CStr []; COther (lit "12") true;
         CDict [CBlock {| hdr := [lit "H"]; lns := [lit "x"; []] |}; CComment [lit "c"; []]]; CList []].
Example demo_wf : wfc demo = true /\ empty_content demo = false /\
  lns (mk demo CNone) = [lit "a"; lit "b"; []; lit "12"; lit "H"; lit "x"; []; lit "// c"; lit "//"]
  /\ wf (mk demo CNone) = true /\ hdr (mk demo CNone) ++ lns (mk demo CNone) <> [].
Proof. repeat split; try reflexivity. discriminate. Qed.
