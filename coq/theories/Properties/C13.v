(* C13 - A build either returns a complete result or fails with a diagnosed error. *)
From Coq Require Import List NArith Bool String.
From Dznpy Require Import Base.PyStr Base.Result Model.TextGen Model.Scoping Model.PortSelection Model.CppGen Model.Ast
  Model.SupportFiles Model.Builder Spec.ValidInput Proofs.BuilderFacts Proofs.C13CompleteFacts.
Import ListNotations.

(* for every parsed model and every configuration the whole pipeline (constructing the configuration objects, then
   Builder.build) returns the files or fails with one of the library's own error types; the error type of the model
   also contains Internal / TypeError_ / ValueError_ - the theorem shows they are unreachable. Termination is Coq's. *)
Theorem C13_error_is_library_error : forall tp fc cfg e, configure_and_build tp fc cfg = Err e -> library_error e.
Proof. exact configure_and_build_err_library. Qed.
Print Assumptions C13_error_is_library_error.
Theorem C13_never_internal : forall tp fc cfg, configure_and_build tp fc cfg <> Err Internal.
Proof. exact configure_and_build_never_internal. Qed.
Print Assumptions C13_never_internal.

(* a successful build returns the shell header, the shell source and all six support files: never a partial set *)
Theorem C13_complete_file_set : forall tp fc cfg fs, build tp fc cfg = Ok fs ->
  exists h s, fs = [h; s] ++ support_files tp (cf_sf_prefix cfg) /\
              g_name h = (get_basename (cf_filename cfg) ++ cf_suffix cfg ++ L ".hh")%list /\
              g_name s = (get_basename (cf_filename cfg) ++ cf_suffix cfg ++ L ".cc")%list.
Proof. exact build_ok_files. Qed.
Print Assumptions C13_complete_file_set.
Theorem C13_eight_files : forall tp fc cfg fs, build tp fc cfg = Ok fs -> List.length fs = 8%nat.
Proof. exact build_ok_eight. Qed.
Print Assumptions C13_eight_files.

(* "valid inputs always succeed, and invalid ones always fail": a build succeeds exactly on the valid inputs, where
   validity (Spec/ValidInput.v) is stated on the parsed model and the configuration alone - the encapsulee names exactly one
   component or system; the port selection is consistent (C03); every port type names exactly one interface on the parent
   scope chain; every exposed port has a semantics; wherever the generator must spell out parameter types (events of
   multi-threaded ports) each names exactly one extern type; the multi-client settings name a multi-threaded provides port
   with distinct claim and release in-events and a granting value of the claim's enum reply type; the shell name is not empty *)
Theorem C13_build_succeeds_iff_valid : forall tp fc cfg, (exists fs, build tp fc cfg = Ok fs) <-> valid_input fc cfg.
Proof. exact build_ok_iff_valid. Qed.
Print Assumptions C13_build_succeeds_iff_valid.

Theorem C13_invalid_input_fails_with_library_error : forall tp fc cfg, ~ valid_input fc cfg ->
  exists e, build tp fc cfg = Err e /\ library_error e.
Proof. exact invalid_input_fails. Qed.
Print Assumptions C13_invalid_input_fails_with_library_error.

(* in particular: the encapsulee is found exactly once and is a component or system, and every port type resolves to
   exactly one interface on the parent scope chain *)
Theorem C13_success_implies_encapsulee_and_port_types_unique : forall tp fc cfg fs, build tp fc cfg = Ok fs ->
  exists f, lookup_fqn fc (cf_encapsulee cfg) [] = [f] /\ is_component_or_system f = true /\
            forall port, In port (found_ports f) ->
              exists i, lookup_fqn fc (po_type port) (found_parent f) = [FInterface i].
Proof. exact build_ok_sound. Qed.
Print Assumptions C13_success_implies_encapsulee_and_port_types_unique.

(* non-vacuity: the pipeline rejects an unknown encapsulee with the configuration error and accepts a one-component model *)
Definition tp0 : templates :=
  {| tp_version := L "v"; tp_copyright := L "c"; tp_strict_port := {| sft_header := []; sft_body := [] |};
     tp_ilog := {| sft_header := []; sft_body := [] |}; tp_misc_utils := {| sft_header := []; sft_body := [] |};
     tp_meta_helpers := {| sft_header := []; sft_body := [] |}; tp_multi_client_selector := {| sft_header := []; sft_body := [] |};
     tp_mutex_wrapped := {| sft_header := []; sft_body := [] |} |}.
Definition fc0 : file_contents :=
  {| fc_components := [{| co_fqn := [L "C"]; co_parent := []; co_name := [L "C"]; co_ports := [] |}]; fc_enums := []; fc_externs := [];
     fc_filenames := []; fc_foreigns := []; fc_imports := []; fc_interfaces := []; fc_subints := []; fc_systems := [] |}.
Definition cfg0 (enc : ids) : config :=
  {| cf_filename := L "C.dzn"; cf_suffix := L "Shell"; cf_encapsulee := enc;
     cf_ports := {| pc_psts := PW WNone; pc_pmts := PW WAll; pc_rsts := PW WNone; pc_rmts := PW WAll; pc_mc := None |};
     cf_origin := OCreate; cf_copyright := CStr (L "(c)"); cf_sf_prefix := None; cf_creator := CNone |}.
Example demo_outcomes :
  configure_and_build tp0 fc0 (cfg0 [L "Nope"]) = Err AdvShellError /\
  option_map (map g_name) (match configure_and_build tp0 fc0 (cfg0 [L "C"]) with Ok l => Some l | Err _ => None end) =
  Some [L "CShell.hh"; L "CShell.cc"; L "Dzn_StrictPort.hh"; L "Dzn_ILog.hh"; L "Dzn_MiscUtils.hh"; L "Dzn_MetaHelpers.hh";
        L "Dzn_MultiClientSelector.hh"; L "Dzn_MutexWrapped.hh"].
Proof. split; vm_compute; reflexivity. Qed.
(* ... so the hypothesis of the iff is satisfiable, and so is its negation *)
Example demo_valid : valid_input fc0 (cfg0 [L "C"]) /\ ~ valid_input fc0 (cfg0 [L "Nope"]).
Proof.
  split.
  - apply (C13_build_succeeds_iff_valid tp0). eexists. vm_compute. reflexivity.
  - intros H. apply (C13_build_succeeds_iff_valid tp0) in H. destruct H as [fs H]. vm_compute in H. discriminate.
Qed.
