(* C02 - Each port runs under exactly the runtime semantics it was configured with. *)
From Coq Require Import List NArith Bool String.
From Dznpy Require Import Base.PyStr Base.Result Model.TextGen Model.Scoping Model.PortSelection Model.CppGen Model.Ast
  Model.SupportFiles Sem.ShellSem Sem.Exec Model.Builder Proofs.SemFacts Proofs.ShellPlanFacts Proofs.HygieneFacts Properties.C01.
Import ListNotations.

(* multi-threaded provides port: the in-event executes in the dispatcher's context, the caller is blocked until it has run
   (the call returns the closure's reply and by-reference values), nothing is left in the queue *)
Theorem C02_mts_provides_in_dispatcher_and_blocking : forall sc, (forall s vs, List.length (snd (sc s vs)) = List.length vs) ->
  forall w sB sE ps caps who vs,
  lookup (w_slots w) sB = ShellFwd ps caps sE (map cp_pname ps) -> lookup (w_slots w) sE = Native who ->
  NoDup (map cp_pname ps) -> List.length vs = List.length ps ->
  call sc 2 w sB vs Caller =
  ({| w_slots := w_slots w; w_queue := w_queue w;
      w_trace := w_trace w ++ [{| r_who := who; r_slot := sE; r_args := vs; r_ctx := Dispatcher |}] |},
   Done (fst (sc sE vs)) (write_back caps ps vs (snd (sc sE vs)))).
Proof. exact shellfwd_once. Qed.
Print Assumptions C02_mts_provides_in_dispatcher_and_blocking.

(* multi-threaded requires port: the out-event returns immediately without running anything; one closure is queued whose
   environment holds the values at post time *)
Theorem C02_mts_requires_out_queued : forall sc w sB sE ps caps vs c,
  lookup (w_slots w) sB = PostFwd ps caps sE (map cp_pname ps) -> List.length vs = List.length ps ->
  call sc 1 w sB vs c =
  ({| w_slots := w_slots w;
      w_queue := w_queue w ++ [{| c_target := sE; c_env := bind_params (map cp_pname ps) vs; c_args := map cp_pname ps; c_caps := caps |}];
      w_trace := w_trace w |}, Done 0%N vs).
Proof. exact postfwd_queued. Qed.
Print Assumptions C02_mts_requires_out_queued.

(* the dispatcher runs it later, in dispatcher context, with the copied values - if every argument was captured by value *)
Theorem C02_posted_event_runs_in_dispatcher : forall sc w sE ps caps who vs q,
  lookup (w_slots w) sE = Native who -> NoDup (map cp_pname ps) -> List.length vs = List.length ps ->
  (forall a, In a (map cp_pname ps) -> In a caps) ->
  w_queue w = {| c_target := sE; c_env := bind_params (map cp_pname ps) vs; c_args := map cp_pname ps; c_caps := caps |} :: q ->
  run_head sc 1 w =
  ({| w_slots := w_slots w; w_queue := q;
      w_trace := w_trace w ++ [{| r_who := who; r_slot := sE; r_args := vs; r_ctx := Dispatcher |}] |},
   Done (fst (sc sE vs)) (snd (sc sE vs))).
Proof. exact posted_runs_once. Qed.
Print Assumptions C02_posted_event_runs_in_dispatcher.

(* ... and an argument that was NOT copied is read after its frame died: the semantics flags it (this is what a dropped
   by-value capture amounts to) *)
Theorem C02_uncopied_argument_dangles : forall sc w sE ps caps vs q a,
  In a (map cp_pname ps) -> ~ In a caps ->
  w_queue w = {| c_target := sE; c_env := bind_params (map cp_pname ps) vs; c_args := map cp_pname ps; c_caps := caps |} :: q ->
  exists b, snd (run_head sc 1 w) = Dangling b.
Proof. exact posted_dangling. Qed.
Print Assumptions C02_uncopied_argument_dangles.

(* the generator captures exactly the in-parameters by value; out events have only in-parameters, so nothing dangles *)
Theorem C02_generated_out_event_copies_all_in_arguments : forall fc pp rp L p e, ctor_assigns fc pp rp = Ok L ->
  In p rp -> cp_is_mts p = true -> In e (events_of EOut p) ->
  exists ps, formal_params fc (zp_itf (cp_dzn p)) false e = Ok ps /\
    In (sl (Bnd (cp_name p)) DOut e, PostFwd ps (map f_name (in_formals e)) (sl (Enc (cp_name p)) DOut e) (map cp_pname ps)) L.
Proof. exact ctor_posts_every_requires_out_event. Qed.
Print Assumptions C02_generated_out_event_copies_all_in_arguments.

(* single-threaded port: the accessor hands out the component's own port object; every call on it is a direct call in the
   caller's context - no record ever carries the dispatcher context, nothing is queued *)
Theorem C02_sts_pass_through : forall sc w s who vs c, lookup (w_slots w) s = Native who ->
  call sc 1 w s vs c =
  ({| w_slots := w_slots w; w_queue := w_queue w;
      w_trace := w_trace w ++ [{| r_who := who; r_slot := s; r_args := vs; r_ctx := c |}] |}, Done (fst (sc s vs)) (snd (sc s vs))).
Proof. exact native_direct. Qed.
Print Assumptions C02_sts_pass_through.

(* END TO END on every hygienic plan (distinct port names, distinct event names per interface): each event of each
   single-threaded exposed port, in either direction, is one direct call on the other side in the caller's own context - never
   the dispatcher's, nothing queued. (The multi-threaded counterparts are C01_*_end_to_end: dispatcher context and blocking
   for provides in-events, queued then run by the dispatcher for requires out-events.) *)
Theorem C02_sts_provides_in_event_end_to_end : forall sc fc pp rp L, ctor_assigns fc pp rp = Ok L -> hygienic pp rp ->
  forall p e vs c, In p pp -> cp_is_mts p = false -> In e (events_of EIn p) ->
  call sc 1 (world0 pp rp L) (sl (Enc (cp_name p)) DIn e) vs c =
  ({| w_slots := final_slots L pp rp; w_queue := [];
      w_trace := [{| r_who := ENC; r_slot := sl (Enc (cp_name p)) DIn e; r_args := vs; r_ctx := c |}] |},
   Done (fst (sc (sl (Enc (cp_name p)) DIn e) vs)) (snd (sc (sl (Enc (cp_name p)) DIn e) vs))).
Proof. exact sts_provides_in_event_end_to_end. Qed.
Print Assumptions C02_sts_provides_in_event_end_to_end.
Theorem C02_sts_provides_out_event_end_to_end : forall sc fc pp rp L, ctor_assigns fc pp rp = Ok L -> hygienic pp rp ->
  forall p e vs c, In p pp -> cp_is_mts p = false -> In e (events_of EOut p) ->
  call sc 1 (world0 pp rp L) (sl (Enc (cp_name p)) DOut e) vs c =
  ({| w_slots := final_slots L pp rp; w_queue := [];
      w_trace := [{| r_who := USER; r_slot := sl (Enc (cp_name p)) DOut e; r_args := vs; r_ctx := c |}] |},
   Done (fst (sc (sl (Enc (cp_name p)) DOut e) vs)) (snd (sc (sl (Enc (cp_name p)) DOut e) vs))).
Proof. exact sts_provides_out_event_end_to_end. Qed.
Print Assumptions C02_sts_provides_out_event_end_to_end.
Theorem C02_sts_requires_out_event_end_to_end : forall sc fc pp rp L, ctor_assigns fc pp rp = Ok L -> hygienic pp rp ->
  forall p e vs c, In p rp -> cp_is_mts p = false -> In e (events_of EOut p) ->
  call sc 1 (world0 pp rp L) (sl (Enc (cp_name p)) DOut e) vs c =
  ({| w_slots := final_slots L pp rp; w_queue := [];
      w_trace := [{| r_who := ENC; r_slot := sl (Enc (cp_name p)) DOut e; r_args := vs; r_ctx := c |}] |},
   Done (fst (sc (sl (Enc (cp_name p)) DOut e) vs)) (snd (sc (sl (Enc (cp_name p)) DOut e) vs))).
Proof. exact sts_requires_out_event_end_to_end. Qed.
Print Assumptions C02_sts_requires_out_event_end_to_end.
Theorem C02_sts_requires_in_event_end_to_end : forall sc fc pp rp L, ctor_assigns fc pp rp = Ok L -> hygienic pp rp ->
  forall p e vs c, In p rp -> cp_is_mts p = false -> In e (events_of EIn p) ->
  call sc 1 (world0 pp rp L) (sl (Enc (cp_name p)) DIn e) vs c =
  ({| w_slots := final_slots L pp rp; w_queue := [];
      w_trace := [{| r_who := USER; r_slot := sl (Enc (cp_name p)) DIn e; r_args := vs; r_ctx := c |}] |},
   Done (fst (sc (sl (Enc (cp_name p)) DIn e) vs)) (snd (sc (sl (Enc (cp_name p)) DIn e) vs))).
Proof. exact sts_requires_in_event_end_to_end. Qed.
Print Assumptions C02_sts_requires_in_event_end_to_end.

(* the accessor's return type tells the semantics: Sts<I> iff single-threaded, Mts<I> iff multi-threaded; the accessor
   target is the component's own port iff single-threaded *)
Theorem C02_accessor_type_iff_semantics : forall scope sfns z,
  let p := create_cpp_portitf scope sfns z in
  (zp_sem z = STS -> q_ids (t_fqn (fn_ret (cp_accessor p))) = sfns ++ [L "Sts"] /\ cp_target p = (m_encapsulee ++ L "." ++ po_name (zp_port z))%list /\ cp_member p = None) /\
  (zp_sem z = MTS -> q_ids (t_fqn (fn_ret (cp_accessor p))) = sfns ++ [L "Mts"] /\ exists m, cp_member p = Some m /\ cp_target p = snd m).
Proof. exact accessor_type_iff_semantics. Qed.
Print Assumptions C02_accessor_type_iff_semantics.

Example demo_queue :
  let w1 := fst (call C01.sc_demo 1 (world0 C01.pp_demo C01.rp_demo C01.L_demo) (sl (Bnd (L "hal")) DOut C01.ev_done) [5%N] Caller) in
  w_trace w1 = [] /\ List.length (w_queue w1) = 1%nat /\
  map (fun r => (r_who r, s_obj (r_slot r), r_args r, r_ctx r)) (w_trace (fst (run_head C01.sc_demo 1 w1))) = [(ENC, Enc (L "hal"), [5%N], Dispatcher)].
Proof. repeat split; vm_compute; reflexivity. Qed.
