(* C08 - Output is a pure function of model and configuration. *)
From Coq Require Import List NArith Bool String Permutation.
From Dznpy Require Import Base.PyStr Base.Result Model.TextGen Model.Scoping Model.PortSelection Model.CppGen Model.Ast
  Model.SupportFiles Model.Builder Base.Md5 Proofs.C08Facts Proofs.Md5Facts.
Import ListNotations.

(* The model of the pipeline is a Gallina function of (templates, parsed model, configuration): it has no hash seed, no
   process state and no iteration order to depend on. What a Python set can still leak is the order in which its
   elements are listed; the theorem shows the output is invariant under every such order, for every set of the
   configuration at once. *)
Theorem C08_build_permutation_invariant : forall tp fc c d, config_equiv c d -> build tp fc c = build tp fc d.
Proof. exact build_perm_invariant. Qed.
Print Assumptions C08_build_permutation_invariant.
Theorem C08_pipeline_permutation_invariant : forall tp fc c d, config_equiv c d ->
  configure_and_build tp fc c = configure_and_build tp fc d.
Proof. exact configure_and_build_perm_invariant. Qed.
Print Assumptions C08_pipeline_permutation_invariant.

(* the pieces: name sets are consumed through membership, emptiness and sorting only *)
Theorem C08_sort_is_order_independent : forall l m, Permutation l m -> sort_strs l = sort_strs m.
Proof. exact sort_strs_perm. Qed.
Print Assumptions C08_sort_is_order_independent.
Theorem C08_configuration_overview_order_independent : forall p q, ports_cfg_equiv p q -> ports_cfg_str p = ports_cfg_str q.
Proof. exact ports_cfg_str_equiv. Qed.
Print Assumptions C08_configuration_overview_order_independent.
Theorem C08_matching_order_independent : forall a a' b b' c c' d d' pp rp,
  psel_equiv a a' -> psel_equiv b b' -> psel_equiv c c' -> psel_equiv d d' ->
  cfg_match a b c d pp rp = cfg_match a' b' c' d' pp rp.
Proof. exact cfg_match_equiv. Qed.
Print Assumptions C08_matching_order_independent.

(* the content hash of a generated file is the MD5 (RFC 1321, transcribed in Base/Md5.v and validated against the RFC's test
   suite inside Coq) of the UTF-8 encoding of its contents - hence a function of the contents alone -, rendered as 32
   lower-case hexadecimal digits *)
Theorem C08_hash_is_md5_of_utf8_contents : forall f, g_hash f = hex_of_bytes (md5 (utf8 (g_contents f))).
Proof. intros f. reflexivity. Qed.
Print Assumptions C08_hash_is_md5_of_utf8_contents.
Theorem C08_hash_shape : forall f, List.length (g_hash f) = 32%nat /\ forallb is_lower_hex (g_hash f) = true.
Proof. intros f. exact (content_hash_shape (g_contents f)). Qed.
Print Assumptions C08_hash_shape.
Theorem C08_equal_inputs_equal_hashes : forall tp fc c d, config_equiv c d ->
  option_map (map g_hash) (match build tp fc c with Ok fs => Some fs | Err _ => None end) =
  option_map (map g_hash) (match build tp fc d with Ok fs => Some fs | Err _ => None end).
Proof. intros tp fc c d H. now rewrite (build_perm_invariant tp fc c d H). Qed.
Print Assumptions C08_equal_inputs_equal_hashes.

(* non-vacuity: the F3 witness - four names in two different listing orders render identically *)
Example demo_overview :
  semcfg_str (PS [L "hal"; L "zeta"; L "alpha"; L "hal2"]) (PW WRemaining) =
  semcfg_str (PS [L "zeta"; L "alpha"; L "hal"; L "hal2"]) (PW WRemaining) /\
  semcfg_str (PS [L "hal"; L "zeta"; L "alpha"; L "hal2"]) (PW WRemaining) = L "STS=['alpha', 'hal', 'hal2', 'zeta'] MTS=[<Remaining ports>]".
Proof. split; reflexivity. Qed.
