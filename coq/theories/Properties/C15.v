(* C15 - Parser rejects malformed input only with its documented errors. *)
From Coq Require Import List NArith Bool String.
From Dznpy Require Import Base.PyStr Base.Result Base.Json Model.Scoping Model.Ast Model.JsonAst Proofs.C15Facts.
Import ListNotations.

(* for every JSON value whatsoever, process() returns file contents or one of the two documented errors.
   The model does contain other outcomes (Err Internal when the nesting fuel runs out; Err TypeError_ etc. exist
   in the error type): the theorem shows none is reachable. *)
Theorem C15_process_total_kinds : forall j, is_ok (process j) = true \/ process j = Err DznJsonError \/ process j = Err NamespaceIdsTypeError.
Proof.
  intros j. destruct (process j) as [fc|e] eqn:P; [now left|right].
  destruct (process_total_kinds j e P); subst; auto.
Qed.
Print Assumptions C15_process_total_kinds.

Theorem C15_never_internal : forall j, process j <> Err Internal.
Proof. exact process_never_internal. Qed.
Print Assumptions C15_never_internal.

(* every element parser, for every JSON value and every nesting within the fuel process() supplies *)
Theorem C15_element_kinds : forall fuel j parent fc, jdepth j <= S fuel -> doc_err (parse_element fuel parent fc j).
Proof. exact doc_element. Qed.
Print Assumptions C15_element_kinds.

(* an out event with a non-void reply or with an out parameter is always refused *)
Theorem C15_out_event_refused : forall j e, parse_event j = Ok e -> e_dir e = EOut ->
  e_ret e = void_ids /\ forallb (fun f => match f_dir f with FOut => false | _ => true end) (e_formals e) = true.
Proof. exact out_event_refused. Qed.
Print Assumptions C15_out_event_refused.

(* non-vacuity: a document that is rejected with each documented error *)
Example demo_errors :
  process JNull = Err DznJsonError /\
  process (JObj [(lit "<class>", JStr (lit "root")); (lit "working-directory", JStr []);
                 (lit "elements", JArr [JObj [(lit "<class>", JStr (lit "enum"));
                                               (lit "name", JObj [(lit "<class>", JStr (lit "scope_name")); (lit "ids", JArr [JStr (lit "9a")])])]])])
  = Err NamespaceIdsTypeError.
Proof. split; reflexivity. Qed.
