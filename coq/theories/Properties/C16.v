(* C16 - Parses are isolated and repeatable. *)
From Coq Require Import List NArith Bool String.
From Dznpy Require Import Base.PyStr Base.Result Base.Json Model.Ast Model.JsonAst Model.ParserObj Proofs.C16Facts.
Import ListNotations.

(* process() returns the parse of the document the instance holds, whatever the object went through before *)
Theorem C16_result_depends_on_document_only : forall p, snd (process_obj p) = process (p_ast p).
Proof. exact process_obj_result. Qed.
Print Assumptions C16_result_depends_on_document_only.

(* processing again yields an equal result rather than accumulated duplicates *)
Theorem C16_process_idempotent : forall p, snd (process_obj (fst (process_obj p))) = snd (process_obj p).
Proof. exact process_idempotent. Qed.
Print Assumptions C16_process_idempotent.

(* for every history of constructions, loads and process() calls over any number of instances, each process() result
   is the parse of the document that instance holds at that moment - no other instance or earlier parse matters *)
Theorem C16_history_isolated : forall ops w, run_history w ops = spec_run (map p_ast w) ops.
Proof. exact history_isolated. Qed.
Print Assumptions C16_history_isolated.
Theorem C16_alone : forall d, run_history [] [PNew d; PProcess 0] = [None; Some (process (doc_of d))].
Proof. exact alone_result. Qed.
Print Assumptions C16_alone.

Example demo_history :
  let d1 := JObj [(lit "<class>", JStr (lit "root")); (lit "working-directory", JStr []);
                  (lit "elements", JArr [JObj [(lit "<class>", JStr (lit "import")); (lit "name", JStr (lit "a"))]])] in
  let d2 := JObj [(lit "<class>", JStr (lit "root")); (lit "working-directory", JStr []); (lit "elements", JArr [])] in
  map (option_map (fun r => match r with Ok fc => List.length (fc_imports fc) | Err _ => 99 end))
      (run_history [] [PNew (Some d1); PProcess 0; PProcess 0; PNew None; PLoad 0 d2; PProcess 0; PProcess 1])
  = [None; Some 1; Some 1; None; None; Some 0; Some 99].
Proof. reflexivity. Qed.
