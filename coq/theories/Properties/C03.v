(* C03 - Port configuration gives every exposed port exactly one semantics or is rejected. *)
From Coq Require Import List NArith Bool.
From Dznpy Require Import Base.PyStr Base.Result Model.PortSelection Spec.PortSemSpec Proofs.C03Facts.
Import ListNotations.

(* a side is accepted iff none of the documented contradictions holds *)
Theorem C03_side_valid_iff : forall sts mts, semcfg_ok sts mts = Ok tt <-> side_valid sts mts.
Proof. exact semcfg_ok_iff. Qed.
Print Assumptions C03_side_valid_iff.
Theorem C03_at_most_one_wildcard : forall sts mts, side_valid sts mts -> ~ (is_wild sts = true /\ is_wild mts = true).
Proof. exact valid_one_wildcard. Qed.
Print Assumptions C03_at_most_one_wildcard.

(* exactly one semantics: the specified assignment is functional, and the per-port decision computes it *)
Theorem C03_assignment_functional : forall sts mts p s s',
  side_valid sts mts -> assigned sts mts p s -> assigned sts mts p s' -> s = s'.
Proof. exact assigned_functional. Qed.
Print Assumptions C03_assignment_functional.
Theorem C03_decision_is_assignment : forall sts mts p s,
  side_valid sts mts -> (sem_of sts mts p = Some s <-> assigned sts mts p s).
Proof. exact sem_of_assigned. Qed.
Print Assumptions C03_decision_is_assignment.
Theorem C03_uncovered_iff : forall sts mts p, sem_of sts mts p = None <->
  ~ In p (strset sts) /\ ~ In p (strset mts) /\ is_wild sts = false /\ is_wild mts = false.
Proof. exact sem_of_none. Qed.
Print Assumptions C03_uncovered_iff.

(* matching fails exactly when the configuration names a port the component does not have *)
Theorem C03_match_error_iff_unknown : forall sts mts expected,
  (exists e, side_match sts mts expected = Err e) <-> names_unknown sts mts expected.
Proof. exact side_match_err_iff. Qed.
Print Assumptions C03_match_error_iff_unknown.
Theorem C03_match_lookup : forall sts mts expected d p, side_match sts mts expected = Ok d ->
  lookup d p = if mem p expected then sem_of sts mts p else None.
Proof. exact side_match_lookup. Qed.
Print Assumptions C03_match_lookup.
Theorem C03_sides_independent : forall psts pmts rsts rmts pp rp,
  cfg_match psts pmts rsts rmts pp rp =
  (do a <- side_match psts pmts pp; do b <- side_match rsts rmts rp; Ok (b ++ a)).
Proof. reflexivity. Qed.
Print Assumptions C03_sides_independent.

(* mixing semantics among provides ports is rejected; accepted configurations treat them uniformly *)
Theorem C03_no_mixed_provides : forall psts pmts,
  portscfg_ok psts pmts = Ok tt <-> not_empty psts = false \/ not_empty pmts = false.
Proof. exact portscfg_ok_iff. Qed.
Print Assumptions C03_no_mixed_provides.
Theorem C03_provides_uniform : forall psts pmts p q s s', portscfg_ok psts pmts = Ok tt ->
  sem_of psts pmts p = Some s -> sem_of psts pmts q = Some s' -> s = s'.
Proof. exact provides_uniform. Qed.
Print Assumptions C03_provides_uniform.

(* the whole pipeline: accepted => exactly the exposed ports (injected requires ports excluded), each with
   the semantics the specification assigns; rejected => configuration error and nothing else *)
Theorem C03_accepted : forall psts pmts rsts rmts ports l, distinct_names ports ->
  configure psts pmts rsts rmts ports = Ok l ->
  side_valid psts pmts /\ side_valid rsts rmts /\
  map fst l = filter exposed ports /\
  forall p s, In (p, s) l -> port_sem psts pmts rsts rmts p = Some s.
Proof. exact configure_ok. Qed.
Print Assumptions C03_accepted.
Theorem C03_rejected_only_with_config_error : forall psts pmts rsts rmts ports e,
  configure psts pmts rsts rmts ports = Err e -> e = AdvShellError.
Proof. exact configure_err_kind. Qed.
Print Assumptions C03_rejected_only_with_config_error.
Theorem C03_unassigned_exposed_port_rejected : forall psts pmts rsts rmts ports p, distinct_names ports ->
  In p ports -> exposed p = true -> port_sem psts pmts rsts rmts p = None ->
  configure psts pmts rsts rmts ports = Err AdvShellError.
Proof. exact configure_unassigned_rejected. Qed.
Print Assumptions C03_unassigned_exposed_port_rejected.
Theorem C03_unknown_port_rejected : forall psts pmts rsts rmts ports,
  (names_unknown psts pmts (names_of Provides ports) \/ names_unknown rsts rmts (names_of Requires ports)) ->
  configure psts pmts rsts rmts ports = Err AdvShellError.
Proof. exact configure_unknown_rejected. Qed.
Print Assumptions C03_unknown_port_rejected.

(* non-vacuity: a component with a provides port, two requires ports and an injected one that no selection
   covers; and the F4 witness (second requires port uncovered) is rejected with the configuration error *)
Definition n_api := [97%N]. Definition n_hal := [104%N]. Definition n_hal2 := [104%N; 50%N]. Definition n_inj := [105%N].
Definition demo_ports := [ {| p_name := n_api; p_dir := Provides; p_injected := false |};
                           {| p_name := n_hal; p_dir := Requires; p_injected := false |};
                           {| p_name := n_inj; p_dir := Requires; p_injected := true |};
                           {| p_name := n_hal2; p_dir := Requires; p_injected := false |} ].
Example demo_accept :
  distinct_names demo_ports /\
  option_map (map (fun ps => (p_name (fst ps), snd ps)))
    (match configure (PW WNone) (PW WAll) (PS [n_hal; n_hal2]) (PW WNone) demo_ports with Ok l => Some l | Err _ => None end)
  = Some [(n_api, MTS); (n_hal, STS); (n_hal2, STS)].
Proof. split; [repeat constructor; cbn; intuition discriminate|reflexivity]. Qed.
Example demo_reject : configure (PW WNone) (PW WAll) (PS [n_hal]) (PW WNone) demo_ports = Err AdvShellError.
Proof. reflexivity. Qed.
