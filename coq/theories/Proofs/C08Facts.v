From Coq Require Import List NArith ZArith Bool Lia Arith String Permutation Sorted.
From Dznpy Require Import Base.PyStr Base.Result Base.Json Model.TextGen Model.Scoping Model.PortSelection Model.CppGen
  Model.Ast Model.SupportFiles Model.Builder Proofs.PyStrFacts Proofs.C03Facts.
Import ListNotations.

(* ---------- code-point order on strings ---------- *)

Lemma str_leb_refl a : str_leb a a = true.
Proof. induction a as [|x a IH]; cbn; auto. now rewrite N.ltb_irrefl. Qed.

Lemma str_leb_total a b : str_leb a b = false -> str_leb b a = true.
Proof.
  revert b; induction a as [|x a IH]; intros [|y b]; cbn; try discriminate; auto.
  destruct (N.ltb x y) eqn:E1; [discriminate|]. destruct (N.ltb y x) eqn:E2; [reflexivity|]. apply IH.
Qed.

Lemma str_leb_antisym a b : str_leb a b = true -> str_leb b a = true -> a = b.
Proof.
  revert b; induction a as [|x a IH]; intros [|y b]; cbn; try discriminate; auto.
  destruct (N.ltb x y) eqn:E1; destruct (N.ltb y x) eqn:E2; try discriminate.
  - apply N.ltb_lt in E1, E2. lia.
  - intros H1 H2. apply N.ltb_ge in E1, E2. assert (x = y) by lia. subst. f_equal. now apply IH.
Qed.

Lemma str_leb_trans a b c : str_leb a b = true -> str_leb b c = true -> str_leb a c = true.
Proof.
  revert b c; induction a as [|x a IH]; intros [|y b] [|z c]; cbn; try discriminate; auto.
  destruct (N.ltb x y) eqn:E1; destruct (N.ltb y z) eqn:E2; destruct (N.ltb y x) eqn:E3; destruct (N.ltb z y) eqn:E4; try discriminate;
    repeat match goal with H : N.ltb _ _ = true |- _ => apply N.ltb_lt in H | H : N.ltb _ _ = false |- _ => apply N.ltb_ge in H end; intros H1 H2.
  all: try (assert (Hxz : (x < z)%N) by lia; apply N.ltb_lt in Hxz; now rewrite Hxz).
  assert (x = y) by lia. assert (y = z) by lia. subst. rewrite N.ltb_irrefl. eapply IH; eauto.
Qed.

(* ---------- insertion sort: sorted permutation; sorted permutations are unique ---------- *)

Definition leb_rel (a b : str) : Prop := str_leb a b = true.

Lemma insert_perm x l : Permutation (x :: l) (insert_sorted x l).
Proof.
  induction l as [|y l IH]; cbn; [apply Permutation_refl|]. destruct (str_leb x y); [apply Permutation_refl|].
  eapply Permutation_trans; [apply perm_swap|]. now apply perm_skip.
Qed.

Lemma sort_perm l : Permutation l (sort_strs l).
Proof.
  induction l as [|x l IH]; cbn; [constructor|]. eapply Permutation_trans; [apply perm_skip, IH|apply insert_perm].
Qed.

Lemma insert_sorted_sorted x l : Sorted leb_rel l -> Sorted leb_rel (insert_sorted x l).
Proof.
  induction 1 as [|y l Hs IH Hd]; cbn; [repeat constructor|].
  destruct (str_leb x y) eqn:E.
  - constructor; [constructor; assumption|constructor; exact E].
  - constructor; [exact IH|]. apply str_leb_total in E.
    destruct l as [|z l']; cbn; [constructor; exact E|].
    destruct (str_leb x z); constructor; [exact E|]. inversion Hd; assumption.
Qed.

Lemma sort_sorted l : Sorted leb_rel (sort_strs l).
Proof. induction l; cbn; [constructor|]. now apply insert_sorted_sorted. Qed.

Lemma sorted_perm_unique l m : Sorted leb_rel l -> Sorted leb_rel m -> Permutation l m -> l = m.
Proof.
  intros Hl Hm. apply Sorted_StronglySorted in Hl; [|intros a b c; apply str_leb_trans].
  apply Sorted_StronglySorted in Hm; [|intros a b c; apply str_leb_trans].
  revert m Hm. induction Hl as [|x l Hl IH Hx]; intros m Hm P.
  - apply Permutation_nil in P. now subst.
  - destruct Hm as [|y m Hm Hy]; [apply Permutation_sym, Permutation_nil in P; discriminate|].
    assert (x = y).
    { assert (Ix : In x (y :: m)) by (eapply Permutation_in; [exact P|now left]).
      assert (Iy : In y (x :: l)) by (eapply Permutation_in; [apply Permutation_sym, P|now left]).
      destruct Ix as [->|Ix]; [reflexivity|]. destruct Iy as [->|Iy]; [reflexivity|].
      rewrite Forall_forall in Hx, Hy. apply str_leb_antisym; [apply Hx, Iy|apply Hy, Ix]. }
    subst. f_equal. apply IH; [assumption|]. eapply Permutation_cons_inv; eauto.
Qed.

Lemma sort_strs_perm l m : Permutation l m -> sort_strs l = sort_strs m.
Proof.
  intros P. apply sorted_perm_unique; try apply sort_sorted.
  eapply Permutation_trans; [apply Permutation_sym, sort_perm|]. eapply Permutation_trans; [exact P|apply sort_perm].
Qed.

(* ---------- membership-style consumers are permutation invariant ---------- *)

Lemma existsb_perm {A} (f : A -> bool) l m : Permutation l m -> existsb f l = existsb f m.
Proof.
  induction 1; cbn; auto; try congruence.
  destruct (f x), (f y); reflexivity.
Qed.
Lemma forallb_perm {A} (f : A -> bool) l m : Permutation l m -> forallb f l = forallb f m.
Proof. induction 1; cbn; auto; try congruence. destruct (f x), (f y); reflexivity. Qed.
Lemma mem_perm x l m : Permutation l m -> mem x l = mem x m.
Proof. apply existsb_perm. Qed.
Lemma is_nil_perm {A} (l m : list A) : Permutation l m -> is_nil l = is_nil m.
Proof. intros P. destruct l, m; auto; [apply Permutation_nil in P|apply Permutation_sym, Permutation_nil in P]; discriminate. Qed.

Lemma subset_perm a a' b b' : Permutation a a' -> Permutation b b' -> subset a b = subset a' b'.
Proof.
  intros Pa Pb. unfold subset. rewrite (forallb_perm _ _ _ Pa). clear Pa.
  induction a' as [|x t IH]; cbn; [reflexivity|]. now rewrite (mem_perm x _ _ Pb), IH.
Qed.

Lemma forallb_mem_perm t b b' : Permutation b b' -> forallb (fun x => mem x b) t = forallb (fun x => mem x b') t.
Proof. intros P. induction t as [|y t IH]; cbn; [reflexivity|]. now rewrite IH, (mem_perm y _ _ P). Qed.

Lemma set_eqb_perm a a' b b' : Permutation a a' -> Permutation b b' -> set_eqb a b = set_eqb a' b'.
Proof. intros Pa Pb. unfold set_eqb. now rewrite (subset_perm _ _ _ _ Pa Pb), (subset_perm _ _ _ _ Pb Pa). Qed.

(* ---------- configurations that differ only in how their name sets are listed ---------- *)

Definition psel_equiv (a b : psel) : Prop :=
  match a, b with PW x, PW y => x = y | PS l, PS m => Permutation l m | _, _ => False end.

Lemma psel_equiv_strset a b : psel_equiv a b -> Permutation (strset a) (strset b).
Proof. destruct a, b; cbn; intros H; try contradiction; auto. Qed.
Lemma psel_equiv_flags a b : psel_equiv a b -> is_all a = is_all b /\ not_empty a = not_empty b /\ is_wild a = is_wild b.
Proof. destruct a, b; cbn; intros H; try contradiction; subst; auto. Qed.

Lemma psel_ok_equiv a b : psel_equiv a b -> psel_ok a = psel_ok b.
Proof.
  destruct a as [x|l], b as [y|m]; cbn; intros H; try contradiction; [reflexivity|].
  now rewrite (is_nil_perm _ _ H), (mem_perm [] _ _ H).
Qed.

Lemma psel_eqb_equiv a a' b b' : psel_equiv a a' -> psel_equiv b b' -> psel_eqb a b = psel_eqb a' b'.
Proof.
  destruct a, a', b, b'; cbn; intros H1 H2; try contradiction; subst; auto. now apply set_eqb_perm.
Qed.

Lemma existsb_mem_perm a a' b b' : Permutation a a' -> Permutation b b' ->
  existsb (fun x => mem x b) a = existsb (fun x => mem x b') a'.
Proof.
  intros Pa Pb. rewrite (existsb_perm _ _ _ Pa). clear Pa. induction a' as [|x t IH]; cbn; [reflexivity|]. now rewrite IH, (mem_perm x _ _ Pb).
Qed.

Lemma semcfg_ok_equiv a a' b b' : psel_equiv a a' -> psel_equiv b b' -> semcfg_ok a b = semcfg_ok a' b'.
Proof.
  intros Ha Hb. unfold semcfg_ok. rewrite (psel_eqb_equiv _ _ _ _ Ha Hb).
  rewrite (existsb_mem_perm _ _ _ _ (psel_equiv_strset _ _ Ha) (psel_equiv_strset _ _ Hb)).
  destruct (psel_equiv_flags _ _ Ha) as [-> [-> _]]. destruct (psel_equiv_flags _ _ Hb) as [-> [-> _]]. reflexivity.
Qed.

Lemma mk_semcfg_equiv a a' b b' : psel_equiv a a' -> psel_equiv b b' -> mk_semcfg a b = mk_semcfg a' b'.
Proof. intros Ha Hb. unfold mk_semcfg. now rewrite (psel_ok_equiv _ _ Ha), (psel_ok_equiv _ _ Hb), (semcfg_ok_equiv _ _ _ _ Ha Hb). Qed.

Lemma portscfg_ok_equiv a a' b b' : psel_equiv a a' -> psel_equiv b b' -> portscfg_ok a b = portscfg_ok a' b'.
Proof. intros Ha Hb. unfold portscfg_ok. destruct (psel_equiv_flags _ _ Ha) as [_ [-> _]]. destruct (psel_equiv_flags _ _ Hb) as [_ [-> _]]. reflexivity. Qed.

Lemma sem_of_equiv a a' b b' p : psel_equiv a a' -> psel_equiv b b' -> sem_of a b p = sem_of a' b' p.
Proof.
  intros Ha Hb. unfold sem_of. rewrite (mem_perm p _ _ (psel_equiv_strset _ _ Ha)), (mem_perm p _ _ (psel_equiv_strset _ _ Hb)).
  destruct (psel_equiv_flags _ _ Ha) as [_ [_ ->]]. destruct (psel_equiv_flags _ _ Hb) as [_ [_ ->]]. reflexivity.
Qed.

Lemma filter_perm {A} (f : A -> bool) l m : Permutation l m -> Permutation (filter f l) (filter f m).
Proof.
  induction 1; cbn; auto.
  - destruct (f x); auto.
  - destruct (f x), (f y); auto. apply perm_swap.
  - eapply Permutation_trans; eauto.
Qed.

Lemma side_match_equiv a a' b b' e : psel_equiv a a' -> psel_equiv b b' -> side_match a b e = side_match a' b' e.
Proof.
  intros Ha Hb. unfold side_match.
  assert (P : Permutation (unmatched a b e) (unmatched a' b' e)).
  { unfold unmatched. apply filter_perm. apply Permutation_app; now apply psel_equiv_strset. }
  rewrite (is_nil_perm _ _ P). destruct (negb _); [reflexivity|]. f_equal. clear P.
  induction e as [|p e IH]; cbn; [reflexivity|]. now rewrite IH, (sem_of_equiv _ _ _ _ p Ha Hb).
Qed.

Lemma cfg_match_equiv a a' b b' c c' d d' pp rp : psel_equiv a a' -> psel_equiv b b' -> psel_equiv c c' -> psel_equiv d d' ->
  cfg_match a b c d pp rp = cfg_match a' b' c' d' pp rp.
Proof. intros. unfold cfg_match. now rewrite (side_match_equiv a a' b b'), (side_match_equiv c c' d d'). Qed.

Lemma semcfg_str_equiv a a' b b' : psel_equiv a a' -> psel_equiv b b' -> semcfg_str a b = semcfg_str a' b'.
Proof.
  intros Ha Hb. unfold semcfg_str.
  destruct (psel_equiv_flags _ _ Ha) as [-> _]. destruct (psel_equiv_flags _ _ Hb) as [-> _].
  assert (S1 : forall p q, psel_equiv p q ->
            (match strset p with [] => [] | l => [L "STS=" ++ py_list_repr (sort_strs l)] end) =
            (match strset q with [] => [] | l => [L "STS=" ++ py_list_repr (sort_strs l)] end)).
  { intros p q H. pose proof (psel_equiv_strset _ _ H) as P. destruct (strset p) eqn:E1, (strset q) eqn:E2; auto.
    - apply Permutation_nil in P. discriminate. - apply Permutation_sym, Permutation_nil in P. discriminate.
    - now rewrite (sort_strs_perm _ _ P). }
  assert (S2 : forall p q, psel_equiv p q ->
            (match strset p with [] => [] | l => [L "MTS=" ++ py_list_repr (sort_strs l)] end) =
            (match strset q with [] => [] | l => [L "MTS=" ++ py_list_repr (sort_strs l)] end)).
  { intros p q H. pose proof (psel_equiv_strset _ _ H) as P. destruct (strset p) eqn:E1, (strset q) eqn:E2; auto.
    - apply Permutation_nil in P. discriminate. - apply Permutation_sym, Permutation_nil in P. discriminate.
    - now rewrite (sort_strs_perm _ _ P). }
  rewrite (S1 _ _ Ha), (S2 _ _ Hb).
  assert (R : forall p q, psel_equiv p q -> (match p with PW WRemaining => true | _ => false end) = (match q with PW WRemaining => true | _ => false end)).
  { intros [[| |]|] [[| |]|]; cbn; intros H; try contradiction; try discriminate; auto. }
  destruct a as [[| |]|], a' as [[| |]|]; cbn in Ha; try contradiction; try discriminate;
  destruct b as [[| |]|], b' as [[| |]|]; cbn in Hb; try contradiction; try discriminate; reflexivity.
Qed.

Definition ports_cfg_equiv (p q : ports_cfg) : Prop :=
  psel_equiv (pc_psts p) (pc_psts q) /\ psel_equiv (pc_pmts p) (pc_pmts q) /\ psel_equiv (pc_rsts p) (pc_rsts q) /\ psel_equiv (pc_rmts p) (pc_rmts q) /\ pc_mc p = pc_mc q.

Lemma ports_cfg_str_equiv p q : ports_cfg_equiv p q -> ports_cfg_str p = ports_cfg_str q.
Proof.
  intros (H1 & H2 & H3 & H4 & H5). unfold ports_cfg_str.
  rewrite (psel_eqb_equiv _ _ _ _ H1 H3), (psel_eqb_equiv _ _ _ _ H2 H4).
  rewrite (semcfg_str_equiv _ _ _ _ H1 H2), (semcfg_str_equiv _ _ _ _ H3 H4), H5. reflexivity.
Qed.

Definition config_equiv (c d : config) : Prop :=
  cf_filename c = cf_filename d /\ cf_suffix c = cf_suffix d /\ cf_encapsulee c = cf_encapsulee d /\ ports_cfg_equiv (cf_ports c) (cf_ports d) /\ cf_origin c = cf_origin d /\ cf_copyright c = cf_copyright d /\ cf_sf_prefix c = cf_sf_prefix d /\ cf_creator c = cf_creator d.

Lemma create_dzn_elements_equiv c d fc parent ports : config_equiv c d ->
  create_dzn_elements c fc parent ports = create_dzn_elements d fc parent ports.
Proof.
  intros (_ & _ & _ & (H1 & H2 & H3 & H4 & H5) & _). unfold create_dzn_elements.
  rewrite (cfg_match_equiv _ _ _ _ _ _ _ _ _ _ H1 H2 H3 H4), H5. reflexivity.
Qed.

Lemma create_headerfile_equiv tp c d fns ce : config_equiv c d -> create_headerfile tp c fns ce = create_headerfile tp d fns ce.
Proof.
  intros (E1 & E2 & E3 & HP & E5 & E6 & E7 & E8). unfold create_headerfile.
  rewrite (ports_cfg_str_equiv _ _ HP). destruct HP as (_ & _ & _ & _ & H5). now rewrite E3, E5, E6, E8, H5.
Qed.

Lemma create_sourcefile_equiv tp c d ce : config_equiv c d -> create_sourcefile tp c ce = create_sourcefile tp d ce.
Proof. intros (E1 & E2 & E3 & HP & E5 & E6 & E7 & E8). unfold create_sourcefile. now rewrite E6. Qed.

(* the output does not depend on the order in which the name sets of a configuration are listed *)
Lemma build_perm_invariant tp fc c d : config_equiv c d -> build tp fc c = build tp fc d.
Proof.
  intros H. pose proof H as (E1 & E2 & E3 & HP & E5 & E6 & E7 & E8). unfold build. rewrite E3.
  destruct (lookup_fqn fc (cf_encapsulee d) []) as [|f [|g l]]; auto.
  destruct (encapsulee_of f) as [[[[enc_fqn parent] enc_name] ports]|]; cbn [bind]; auto.
  rewrite (create_dzn_elements_equiv c d fc parent ports H).
  destruct (create_dzn_elements d fc parent ports) as [ze|]; cbn [bind]; auto.
  rewrite E1, E2, E5, E7. destruct (is_nil _); auto.
  destruct (create_cpp_port_helpers _ _ _ _) as [hp|]; cbn [bind]; auto.
  destruct (create_constructor _ _ _ _ _ _) as [ctor|]; cbn [bind]; auto.
  now rewrite (create_headerfile_equiv tp c d _ _ H), (create_sourcefile_equiv tp c d _ H).
Qed.

Lemma configure_and_build_perm_invariant tp fc c d : config_equiv c d -> configure_and_build tp fc c = configure_and_build tp fc d.
Proof.
  intros H. pose proof H as (E1 & E2 & E3 & (H1 & H2 & H3 & H4 & H5) & E5 & E6 & E7 & E8). unfold configure_and_build.
  rewrite E3, (mk_semcfg_equiv _ _ _ _ H1 H2), (mk_semcfg_equiv _ _ _ _ H3 H4), H5, (portscfg_ok_equiv _ _ _ _ H1 H2), E7.
  now rewrite (build_perm_invariant tp fc c d H).
Qed.
