From Coq Require Import List NArith Bool Lia.
From Dznpy Require Import Base.PyStr Base.Result Model.PortSelection Spec.PortSemSpec Proofs.PyStrFacts.
Import ListNotations.

Lemma mem_In x l : mem x l = true <-> In x l.
Proof.
  unfold mem. rewrite existsb_exists. split.
  - intros [y [Hy E]]. apply str_eqb_eq in E. now subst.
  - intros H. exists x. split; [assumption|apply str_eqb_refl].
Qed.
Lemma mem_false x l : mem x l = false <-> ~ In x l.
Proof. rewrite <- mem_In. destruct (mem x l); split; congruence. Qed.

(* ---------- validity of one side ---------- *)

Lemma semcfg_ok_iff sts mts : semcfg_ok sts mts = Ok tt <-> side_valid sts mts.
Proof.
  unfold semcfg_ok, side_valid. destruct (psel_eqb sts mts) eqn:E1.
  { split; [discriminate|]. intros [H _]; discriminate. }
  destruct (existsb (fun x => mem x (strset mts)) (strset sts)) eqn:E2.
  { split; [discriminate|]. intros [_ [H _]]. apply existsb_exists in E2 as [x [Hx Hm]].
    apply mem_In in Hm. exfalso. eapply H; eauto. }
  destruct ((is_all sts && not_empty mts) || (not_empty sts && is_all mts)) eqn:E3.
  { split; [discriminate|]. intros [_ [_ [H1 H2]]]. apply orb_true_iff in E3 as [E|E]; apply andb_true_iff in E; tauto. }
  split; [|reflexivity]. intros _. split; [reflexivity|]. split.
  - intros x Hx Hm. assert (existsb (fun x => mem x (strset mts)) (strset sts) = true); [|congruence].
    apply existsb_exists. exists x. split; [assumption|now apply mem_In].
  - apply orb_false_iff in E3 as [Ea Eb]. split; intros [Hx Hy]; rewrite Hx, Hy in *; discriminate.
Qed.

Lemma semcfg_err sts mts e : semcfg_ok sts mts = Err e -> e = AdvShellError.
Proof.
  unfold semcfg_ok. destruct (psel_eqb sts mts); [congruence|].
  destruct (existsb _ _); [congruence|]. destruct (_ || _); congruence.
Qed.

(* at most one wildcard is in play in a valid side *)
Lemma valid_one_wildcard sts mts : side_valid sts mts -> ~ (is_wild sts = true /\ is_wild mts = true).
Proof.
  intros [He [_ [Ha Hb]]] [Hs Hm].
  destruct sts as [[| |]|]; try discriminate; destruct mts as [[| |]|]; try discriminate; cbn in *;
    try discriminate; try (apply Ha; split; reflexivity); try (apply Hb; split; reflexivity).
Qed.

(* ---------- exactly one semantics ---------- *)

Lemma assigned_functional sts mts p s s' : side_valid sts mts -> assigned sts mts p s -> assigned sts mts p s' -> s = s'.
Proof.
  intros Hv H1 H2. pose proof (valid_one_wildcard _ _ Hv) as Hw. destruct Hv as [_ [Hd _]].
  inversion H1; inversion H2; subst; try reflexivity; try contradiction; exfalso;
    solve [eapply Hd; eauto | apply Hw; auto].
Qed.

Lemma sem_of_assigned sts mts p s : side_valid sts mts -> (sem_of sts mts p = Some s <-> assigned sts mts p s).
Proof.
  intros Hv. split.
  - unfold sem_of. destruct (mem p (strset sts)) eqn:E1.
    { intros H; inversion H; subst. apply A_named_sts. now apply mem_In. }
    destruct (mem p (strset mts)) eqn:E2.
    { intros H; inversion H; subst. apply A_named_mts. now apply mem_In. }
    apply mem_false in E1, E2.
    destruct (is_wild sts) eqn:E3. { intros H; inversion H; subst. now apply A_wild_sts. }
    destruct (is_wild mts) eqn:E4. { intros H; inversion H; subst. now apply A_wild_mts. }
    discriminate.
  - intros H. pose proof (valid_one_wildcard _ _ Hv) as Hw. destruct Hv as [_ [Hd _]].
    unfold sem_of. inversion H; subst.
    + apply mem_In in H0. now rewrite H0.
    + assert (mem p (strset sts) = false) as -> by (apply mem_false; intros Hx; eapply Hd; eauto).
      apply mem_In in H0. now rewrite H0.
    + apply mem_false in H0, H1. now rewrite H0, H1, H2.
    + apply mem_false in H0, H1. rewrite H0, H1, H2.
      destruct (is_wild sts) eqn:E; [exfalso; apply Hw; auto|reflexivity].
Qed.

Lemma sem_of_none sts mts p : sem_of sts mts p = None <->
  ~ In p (strset sts) /\ ~ In p (strset mts) /\ is_wild sts = false /\ is_wild mts = false.
Proof.
  unfold sem_of. destruct (mem p (strset sts)) eqn:E1.
  { split; [discriminate|]. intros [H _]. apply mem_In in E1. contradiction. }
  destruct (mem p (strset mts)) eqn:E2.
  { split; [discriminate|]. intros [_ [H _]]. apply mem_In in E2. contradiction. }
  apply mem_false in E1, E2.
  destruct (is_wild sts); [split; [discriminate|intros [_ [_ [H _]]]; discriminate]|].
  destruct (is_wild mts); [split; [discriminate|intros [_ [_ [_ H]]]; discriminate]|]. tauto.
Qed.

(* ---------- matching against the component's ports ---------- *)

Lemma unmatched_nil_iff sts mts expected : unmatched sts mts expected = [] <-> ~ names_unknown sts mts expected.
Proof.
  unfold unmatched, names_unknown. split.
  - intros H [x [Hx Hn]]. assert (In x (filter (fun x => negb (mem x expected)) (strset sts ++ strset mts))).
    { apply filter_In. split; [assumption|]. apply mem_false in Hn. now rewrite Hn. }
    rewrite H in H0. contradiction.
  - intros H. destruct (filter _ _) as [|y l] eqn:E; [reflexivity|]. exfalso. apply H.
    assert (In y (filter (fun x => negb (mem x expected)) (strset sts ++ strset mts))) by (rewrite E; now left).
    apply filter_In in H0 as [H1 H2]. exists y. split; [assumption|]. apply mem_false. now destruct (mem y expected).
Qed.

Lemma side_match_err_iff sts mts expected :
  (exists e, side_match sts mts expected = Err e) <-> names_unknown sts mts expected.
Proof.
  unfold side_match. destruct (is_nil (unmatched sts mts expected)) eqn:E; cbn [negb].
  - apply is_nil_true, unmatched_nil_iff in E. split; [intros [e He]; discriminate|contradiction].
  - split; [|eauto]. intros _. apply is_nil_false in E.
    destruct (unmatched sts mts expected) eqn:U; [congruence|].
    clear E. unfold names_unknown.
    assert (In s (unmatched sts mts expected)) by (rewrite U; now left).
    unfold unmatched in H. apply filter_In in H as [H1 H2]. exists s. split; [assumption|].
    apply mem_false. now destruct (mem s expected).
Qed.

Lemma side_match_err_kind sts mts expected e : side_match sts mts expected = Err e -> e = AdvShellError.
Proof. unfold side_match. destruct (negb _); congruence. Qed.

Lemma lookup_flat_map sts mts expected p :
  lookup (flat_map (fun q => match sem_of sts mts q with Some s => [(q, s)] | None => [] end) expected) p =
  if mem p expected then sem_of sts mts p else None.
Proof.
  induction expected as [|q l IH]; [reflexivity|]. cbn [flat_map mem existsb].
  change (existsb (str_eqb p) l) with (mem p l).
  destruct (str_eqb p q) eqn:E.
  - apply str_eqb_eq in E; subst. cbn [orb]. destruct (sem_of sts mts q) eqn:S.
    + cbn [app lookup]. now rewrite str_eqb_refl.
    + cbn [app]. rewrite IH. destruct (mem q l); reflexivity.
  - cbn [orb]. destruct (sem_of sts mts q) eqn:S; cbn [app lookup]; [|exact IH].
    destruct (str_eqb q p) eqn:E'; [|exact IH]. apply str_eqb_eq in E'; subst. rewrite str_eqb_refl in E. discriminate.
Qed.

Lemma side_match_lookup sts mts expected d p : side_match sts mts expected = Ok d ->
  lookup d p = if mem p expected then sem_of sts mts p else None.
Proof. unfold side_match. destruct (negb _); [discriminate|]. intros H; inversion H; subst. apply lookup_flat_map. Qed.

(* ---------- provides side: no mix ---------- *)

Lemma portscfg_ok_iff psts pmts : portscfg_ok psts pmts = Ok tt <-> not_empty psts = false \/ not_empty pmts = false.
Proof.
  unfold portscfg_ok. destruct (not_empty psts), (not_empty pmts); cbn; split; auto; try discriminate; intros [H|H]; discriminate.
Qed.

Lemma provides_uniform psts pmts p q s s' : portscfg_ok psts pmts = Ok tt ->
  sem_of psts pmts p = Some s -> sem_of psts pmts q = Some s' -> s = s'.
Proof.
  intros H. apply portscfg_ok_iff in H. unfold sem_of.
  destruct H as [H|H].
  - destruct psts as [[| |]|]; try discriminate. cbn [strset mem existsb is_wild].
    destruct (mem p (strset pmts)), (mem q (strset pmts)), (is_wild pmts); congruence.
  - destruct pmts as [[| |]|]; try discriminate. cbn [strset mem existsb is_wild].
    destruct (mem p (strset psts)), (mem q (strset psts)), (is_wild psts); congruence.
Qed.

(* ---------- the whole pipeline ---------- *)

Lemma lookup_app a b p : lookup (a ++ b) p = match lookup a p with Some s => Some s | None => lookup b p end.
Proof. induction a as [|[k v] a IH]; cbn; [reflexivity|]. destruct (str_eqb k p); auto. Qed.

Lemma mapM_ok_inv {A B} (f : A -> result B) l r : mapM f l = Ok r ->
  List.length r = List.length l /\ forall a, In a l -> exists b, f a = Ok b /\ In b r.
Proof.
  revert r; induction l as [|a l IH]; cbn; intros r H.
  - inversion H; subst. split; [reflexivity|]. intros a [].
  - destruct (f a) eqn:Fa; cbn in H; [|discriminate]. destruct (mapM f l) eqn:M; cbn in H; [|discriminate].
    inversion H; subst. destruct (IH _ eq_refl) as [Hl Hin]. split; [cbn; congruence|].
    intros x [->|Hx]; [exists a0; split; [assumption|now left]|].
    destruct (Hin x Hx) as [b [Hb1 Hb2]]. exists b. split; [assumption|now right].
Qed.

Lemma mapM_map_fst {A B} (f : A -> result (A * B)) l r :
  (forall a p, f a = Ok p -> fst p = a) -> mapM f l = Ok r -> map fst r = l.
Proof.
  intros Hf. revert r; induction l as [|a l IH]; cbn; intros r H.
  - inversion H; reflexivity.
  - destruct (f a) eqn:Fa; cbn in H; [|discriminate]. destruct (mapM f l) eqn:M; cbn in H; [|discriminate].
    inversion H; subst. cbn. f_equal; [eapply Hf; eauto|now apply IH].
Qed.

Lemma mapM_err {A B} (f : A -> result B) l e : mapM f l = Err e -> exists a, In a l /\ f a = Err e.
Proof.
  induction l as [|a l IH]; cbn; [discriminate|]. destruct (f a) eqn:Fa; cbn.
  - destruct (mapM f l) eqn:M; cbn; [discriminate|]. intros H; inversion H; subst.
    destruct (IH eq_refl) as [x [Hx Hf]]. exists x. split; [now right|assumption].
  - intros H; inversion H; subst. exists a. split; [now left|assumption].
Qed.

Definition port_sem (psts pmts rsts rmts : psel) (p : port) : option semantics :=
  match p_dir p with Provides => sem_of psts pmts (p_name p) | Requires => sem_of rsts rmts (p_name p) end.

Lemma in_names_of d ports p : In p ports -> p_dir p = d -> In (p_name p) (names_of d ports).
Proof.
  intros Hin Hd. unfold names_of. apply in_map. apply filter_In. split; [assumption|]. rewrite Hd. destruct d; reflexivity.
Qed.

Lemma names_of_in d ports n : In n (names_of d ports) -> exists p, In p ports /\ p_dir p = d /\ p_name p = n.
Proof.
  unfold names_of. intros H. apply in_map_iff in H as [p [Hn Hf]]. apply filter_In in Hf as [Hin Hd].
  exists p. repeat split; auto. destruct (p_dir p), d; congruence.
Qed.

(* port names of a component are distinct (Dezyne guarantees it) *)
Definition distinct_names (ports : list port) : Prop := NoDup (map p_name ports).

Lemma distinct_same_port ports p q : distinct_names ports -> In p ports -> In q ports -> p_name p = p_name q -> p = q.
Proof.
  unfold distinct_names. induction ports as [|a l IH]; cbn; [tauto|]. intros Hnd Hp Hq E.
  inversion Hnd as [|? ? Hnin Hnd']; subst. destruct Hp as [->|Hp], Hq as [->|Hq]; auto.
  - exfalso. apply Hnin. rewrite E. now apply in_map.
  - exfalso. apply Hnin. rewrite <- E. now apply in_map.
Qed.

Lemma cfg_match_lookup psts pmts rsts rmts ports d p :
  distinct_names ports -> In p ports ->
  cfg_match psts pmts rsts rmts (names_of Provides ports) (names_of Requires ports) = Ok d ->
  lookup d (p_name p) = port_sem psts pmts rsts rmts p.
Proof.
  intros Hnd Hin. unfold cfg_match. destruct (side_match psts pmts _) as [a|] eqn:Ea; cbn [bind]; [|discriminate].
  destruct (side_match rsts rmts _) as [b|] eqn:Eb; cbn [bind]; [|discriminate]. intros H; inversion H; subst.
  rewrite lookup_app, (side_match_lookup _ _ _ _ _ Eb), (side_match_lookup _ _ _ _ _ Ea). unfold port_sem.
  destruct (p_dir p) eqn:Dp.
  - assert (mem (p_name p) (names_of Requires ports) = false) as ->.
    { apply mem_false. intros Hx. apply names_of_in in Hx as [q [Hq [Dq Nq]]].
      assert (q = p) by (eapply distinct_same_port; eauto). subst. congruence. }
    assert (mem (p_name p) (names_of Provides ports) = true) as -> by (apply mem_In; now apply in_names_of).
    reflexivity.
  - assert (mem (p_name p) (names_of Requires ports) = true) as -> by (apply mem_In; now apply in_names_of).
    destruct (sem_of rsts rmts (p_name p)); [reflexivity|].
    assert (mem (p_name p) (names_of Provides ports) = false) as ->; [|reflexivity].
    apply mem_false. intros Hx. apply names_of_in in Hx as [q [Hq [Dq Nq]]].
    assert (q = p) by (eapply distinct_same_port; eauto). subst. congruence.
Qed.

(* accepted: exactly the exposed ports, each with its specified semantics *)
Lemma configure_ok psts pmts rsts rmts ports l : distinct_names ports ->
  configure psts pmts rsts rmts ports = Ok l ->
  side_valid psts pmts /\ side_valid rsts rmts /\
  map fst l = filter exposed ports /\
  forall p s, In (p, s) l -> port_sem psts pmts rsts rmts p = Some s.
Proof.
  intros Hnd. unfold configure, mk_semcfg.
  destruct (psel_ok psts); cbn [bind]; [|discriminate]. destruct (psel_ok pmts); cbn [bind]; [|discriminate].
  destruct (semcfg_ok psts pmts) as [[]|] eqn:V1; cbn [bind]; [|discriminate].
  destruct (psel_ok rsts); cbn [bind]; [|discriminate]. destruct (psel_ok rmts); cbn [bind]; [|discriminate].
  destruct (semcfg_ok rsts rmts) as [[]|] eqn:V2; cbn [bind]; [|discriminate].
  destruct (portscfg_ok psts pmts); cbn [bind]; [|discriminate].
  unfold assign_ports. destruct (cfg_match _ _ _ _ _ _) as [d|] eqn:M; cbn [bind]; [|discriminate].
  intros H. split; [now apply semcfg_ok_iff|]. split; [now apply semcfg_ok_iff|]. split.
  - eapply mapM_map_fst; [|exact H]. intros x y E. cbn beta in E. destruct (lookup d (p_name x)); inversion E; reflexivity.
  - intros p s Hps.
    assert (Hf : map fst l = filter exposed ports).
    { eapply mapM_map_fst; [|exact H]. intros x y E. cbn beta in E. destruct (lookup d (p_name x)); inversion E; reflexivity. }
    assert (Hp : In p (filter exposed ports)) by (rewrite <- Hf; apply (in_map fst _ _ Hps)).
    destruct (mapM_ok_inv _ _ _ H) as [_ Hall]. destruct (Hall p Hp) as [b [Hb1 Hb2]].
    apply filter_In in Hp as [Hp _]. rewrite (cfg_match_lookup _ _ _ _ _ _ _ Hnd Hp M) in Hb1.
    destruct (port_sem psts pmts rsts rmts p) eqn:PS; [|discriminate]. inversion Hb1; subst.
    (* (p, s0) and (p, s) both in l with distinct first components overall *)
    assert (NoDup (map fst l)).
    { rewrite Hf. assert (NoDup ports).
      { unfold distinct_names in Hnd. clear -Hnd. induction ports; constructor; inversion Hnd; subst; auto.
        intro Hx. apply H1. now apply in_map. }
      now apply NoDup_filter. }
    clear -H0 Hps Hb2. induction l as [|[a b] l IH]; [contradiction|]. cbn in H0. inversion H0; subst.
    destruct Hps as [E|Hps], Hb2 as [E'|Hb2].
    + congruence.
    + inversion E; subst. exfalso. apply H2. apply (in_map fst _ _ Hb2).
    + inversion E'; subst. exfalso. apply H2. apply (in_map fst _ _ Hps).
    + now apply IH.
Qed.

(* rejected only with the configuration error *)
Lemma psel_err p e : psel_ok p = Err e -> e = AdvShellError.
Proof. destruct p; cbn; [discriminate|]. destruct (is_nil names); [congruence|]. destruct (mem [] names); congruence. Qed.

Lemma configure_err_kind psts pmts rsts rmts ports e : configure psts pmts rsts rmts ports = Err e -> e = AdvShellError.
Proof.
  unfold configure, mk_semcfg.
  destruct (psel_ok psts) eqn:E1; cbn [bind]; [|intros H; inversion H; subst; eapply psel_err; eauto].
  destruct (psel_ok pmts) eqn:E2; cbn [bind]; [|intros H; inversion H; subst; eapply psel_err; eauto].
  destruct (semcfg_ok psts pmts) eqn:E3; cbn [bind]; [|intros H; inversion H; subst; eapply semcfg_err; eauto].
  destruct (psel_ok rsts) eqn:E4; cbn [bind]; [|intros H; inversion H; subst; eapply psel_err; eauto].
  destruct (psel_ok rmts) eqn:E5; cbn [bind]; [|intros H; inversion H; subst; eapply psel_err; eauto].
  destruct (semcfg_ok rsts rmts) eqn:E6; cbn [bind]; [|intros H; inversion H; subst; eapply semcfg_err; eauto].
  unfold portscfg_ok. destruct (not_empty psts && not_empty pmts); cbn [bind]; [congruence|].
  unfold assign_ports, cfg_match.
  destruct (side_match psts pmts _) eqn:E7; cbn [bind]; [|intros H; inversion H; subst; eapply side_match_err_kind; eauto].
  destruct (side_match rsts rmts _) eqn:E8; cbn [bind]; [|intros H; inversion H; subst; eapply side_match_err_kind; eauto].
  intros H. apply mapM_err in H as [p [_ Hp]]. destruct (lookup _ _); congruence.
Qed.

(* an exposed port that no selection covers makes the configuration fail *)
Lemma configure_unassigned_rejected psts pmts rsts rmts ports p : distinct_names ports ->
  In p ports -> exposed p = true -> port_sem psts pmts rsts rmts p = None ->
  configure psts pmts rsts rmts ports = Err AdvShellError.
Proof.
  intros Hnd Hin Hex Hnone. destruct (configure psts pmts rsts rmts ports) as [l|e] eqn:C.
  - exfalso. destruct (configure_ok _ _ _ _ _ _ Hnd C) as [_ [_ [Hf Hs]]].
    assert (In p (map fst l)) by (rewrite Hf; apply filter_In; auto).
    apply in_map_iff in H as [[q s] [E Hq]]. cbn in E; subst. specialize (Hs _ _ Hq). congruence.
  - f_equal. eapply configure_err_kind; eauto.
Qed.

(* naming a port the component does not have is rejected *)
Lemma configure_unknown_rejected psts pmts rsts rmts ports :
  (names_unknown psts pmts (names_of Provides ports) \/ names_unknown rsts rmts (names_of Requires ports)) ->
  configure psts pmts rsts rmts ports = Err AdvShellError.
Proof.
  intros H. destruct (configure psts pmts rsts rmts ports) as [l|e] eqn:C; [|f_equal; eapply configure_err_kind; eauto].
  exfalso. unfold configure, mk_semcfg in C.
  destruct (psel_ok psts); cbn [bind] in C; [|discriminate]. destruct (psel_ok pmts); cbn [bind] in C; [|discriminate].
  destruct (semcfg_ok psts pmts); cbn [bind] in C; [|discriminate].
  destruct (psel_ok rsts); cbn [bind] in C; [|discriminate]. destruct (psel_ok rmts); cbn [bind] in C; [|discriminate].
  destruct (semcfg_ok rsts rmts); cbn [bind] in C; [|discriminate].
  destruct (portscfg_ok psts pmts); cbn [bind] in C; [|discriminate].
  unfold assign_ports, cfg_match in C.
  destruct (side_match psts pmts _) eqn:E7; cbn [bind] in C.
  - destruct (side_match rsts rmts _) eqn:E8; cbn [bind] in C; [|discriminate].
    destruct H as [H|H]; apply side_match_err_iff in H as [e He]; congruence.
  - discriminate.
Qed.
