(* Sequential schedules of the interleaving model (Sem/Concurrent.v) refine the selector model of C04 (Sem/Selector.v):
   when every client operation runs to completion before the next one starts, the two models agree on who is selected and
   on who receives each out-event. This ties the two hand-written semantics of the same generated code to each other. *)
From Coq Require Import List NArith Bool Lia Arith String.
From Dznpy Require Import Base.PyStr Sem.Concurrent Sem.Selector Proofs.ConcurrentFacts Proofs.PyStrFacts.
Import ListNotations.
Open Scope nat_scope.

(* no operation in flight *)
Definition quiescent (s : st) : Prop :=
  queue s = [] /\ mutex s = None /\ out_pending s = false /\ Forall (fun c => at_ c = Ready) (Concurrent.clients s).

(* what the arbiter answers to operation o in state s *)
Definition grants (s : st) (o : cop) : bool := match o with Concurrent.OClaim => negb (claimed s) | _ => false end.

(* the labels of one client operation run to completion *)
Definition atomic (s : st) (c : Concurrent.cid) (o : cop) : list label :=
  [LStart c; LDisp] ++ (if needs_lock o (grants s o) then [LLock (TClient c); LFinish c] else [LFinish c]).
Definition atomic_out : list label := [LLock TDispatcher; LOut].

Lemma forall_upd {A} (P : A -> Prop) l i x : Forall P l -> P x -> Forall P (upd l i x).
Proof.
  revert i; induction l as [|a l IH]; intros i Hl Hx; [constructor|]. inversion Hl; subst.
  destruct i; cbn; constructor; auto.
Qed.
Lemma upd_upd {A} (l : list A) i x y : upd (upd l i x) i y = upd l i y.
Proof. revert i; induction l as [|a l IH]; intros [|i]; cbn; auto. now rewrite IH. Qed.
Lemma upd_length {A} (l : list A) i x : List.length (upd l i x) = List.length l.
Proof. revert i; induction l as [|a l IH]; intros [|i]; cbn; auto. Qed.

(* one client operation from a quiescent state: it completes, the state is quiescent again, the component's claim flag and
   the selection change as the arbiter / the Select-Deselect calls dictate, nothing is delivered *)
Ltac rs := cbn [Concurrent.run Concurrent.step Concurrent.clients queue claimed Concurrent.selected mutex out_pending delivered
                prog at_ needs_lock app grants negb].

Lemma atomic_run s c o rest : quiescent s -> nth_error (Concurrent.clients s) c = Some {| prog := o :: rest; at_ := Ready |} ->
  exists s', Concurrent.run s (atomic s c o) = Some s' /\ quiescent s' /\
    Concurrent.clients s' = upd (Concurrent.clients s) c {| prog := rest; at_ := Ready |} /\
    delivered s' = delivered s /\
    claimed s' = (match o with Concurrent.OClaim => true | Concurrent.ORelease => false | OUse => claimed s end) /\
    Concurrent.selected s' = (match o with
                              | Concurrent.OClaim => if grants s o then Some c else Concurrent.selected s
                              | Concurrent.ORelease => None
                              | OUse => Concurrent.selected s
                              end).
Proof.
  intros (Q1 & Q2 & Q3 & Q4) N. unfold atomic. destruct o; rs; rewrite N; rs; rewrite Q3, Q1; rs.
  - destruct (claimed s) eqn:Cl; rs; rewrite (nth_error_upd_same _ _ _ _ N); rs; rewrite upd_upd.
    + rewrite (nth_error_upd_same _ _ _ _ N). rs. rewrite upd_upd.
      eexists; split; [reflexivity|]. rs. repeat split; auto. apply forall_upd; auto.
    + rewrite Q2. rewrite (nth_error_upd_same _ _ _ _ N). rs. rewrite upd_upd.
      rewrite (nth_error_upd_same _ _ _ _ N). rs. rewrite upd_upd.
      eexists; split; [reflexivity|]. rs. repeat split; auto. apply forall_upd; auto.
  - rewrite (nth_error_upd_same _ _ _ _ N); rs; rewrite upd_upd.
    rewrite Q2. rewrite (nth_error_upd_same _ _ _ _ N). rs. rewrite upd_upd.
    rewrite (nth_error_upd_same _ _ _ _ N). rs. rewrite upd_upd.
    eexists; split; [reflexivity|]. rs. repeat split; auto. apply forall_upd; auto.
  - rewrite (nth_error_upd_same _ _ _ _ N); rs; rewrite upd_upd.
    rewrite (nth_error_upd_same _ _ _ _ N). rs. rewrite upd_upd.
    eexists; split; [reflexivity|]. rs. repeat split; auto. apply forall_upd; auto.
Qed.

Lemma atomic_out_run s : quiescent s ->
  exists s', Concurrent.run s atomic_out = Some s' /\ quiescent s' /\ Concurrent.clients s' = Concurrent.clients s /\
             delivered s' = delivered s ++ [Concurrent.selected s] /\ claimed s' = claimed s /\ Concurrent.selected s' = Concurrent.selected s.
Proof.
  intros (Q1 & Q2 & Q3 & Q4). unfold atomic_out. rs. rewrite Q2, Q3. rs.
  eexists; split; [reflexivity|]. rs. repeat split; auto.
Qed.

(* ---------- the abstraction to the selector model of C04 ---------- *)

Section Naming.
Variable nm : nat -> str.          (* the identifier under which client c registered *)
Variable use_ev out_ev : str.

Definition sel_of (s : st) : selector :=
  {| Selector.clients := map nm (seq 0 (List.length (Concurrent.clients s))); Selector.selected := option_map nm (Concurrent.selected s); final := true |}.

Definition op_of (s : st) (c : nat) (o : cop) : op :=
  match o with
  | Concurrent.OClaim => Selector.OClaim (nm c) (grants s o)
  | Concurrent.ORelease => Selector.ORelease (nm c)
  | OUse => OOther (nm c) use_ev
  end.

Lemma registered_client s c : c < List.length (Concurrent.clients s) -> registered (sel_of s) (nm c) = true.
Proof.
  intros H. unfold registered, sel_of. cbn [Selector.clients]. apply existsb_exists. exists (nm c). split; [|apply str_eqb_refl].
  apply in_map. apply in_seq. lia.
Qed.

Theorem atomic_refines s c o rest : quiescent s -> nth_error (Concurrent.clients s) c = Some {| prog := o :: rest; at_ := Ready |} ->
  exists s', Concurrent.run s (atomic s c o) = Some s' /\ quiescent s' /\ delivered s' = delivered s /\
             sel_of s' = fst (Selector.step (sel_of s) (op_of s c o)) /\
             snd (Selector.step (sel_of s) (op_of s c o)) =
               EForwarded (nm c) (match o with Concurrent.OClaim => claim_ev | Concurrent.ORelease => release_ev | OUse => use_ev end).
Proof.
  intros Q N. destruct (atomic_run s c o rest Q N) as (s' & R & Q' & Cl & D & _ & Sel).
  exists s'. split; [exact R|]. split; [exact Q'|]. split; [exact D|].
  assert (Hc : c < List.length (Concurrent.clients s)) by (apply nth_error_Some; congruence).
  pose proof (registered_client s c Hc) as Reg.
  unfold sel_of at 1. rewrite Cl, upd_length, Sel. split.
  - destruct o; cbn [op_of Selector.step fst].
    + destruct (grants s Concurrent.OClaim); [|reflexivity]. unfold select. rewrite Reg. reflexivity.
    + unfold deselect. rewrite Reg. reflexivity.
    + reflexivity.
  - destruct o; reflexivity.
Qed.

Theorem out_refines s : quiescent s ->
  exists s', Concurrent.run s atomic_out = Some s' /\ quiescent s' /\ delivered s' = delivered s ++ [Concurrent.selected s] /\
             sel_of s' = fst (Selector.step (sel_of s) (OOut out_ev)) /\
             snd (Selector.step (sel_of s) (OOut out_ev)) = EDelivered out_ev (option_map nm (Concurrent.selected s)).
Proof.
  intros Q. destruct (atomic_out_run s Q) as (s' & R & Q' & Cl & D & _ & Sel).
  exists s'. split; [exact R|]. split; [exact Q'|]. split; [exact D|]. split; [|reflexivity].
  cbn [Selector.step fst]. unfold sel_of. now rewrite Cl, Sel.
Qed.

(* whole sequential histories *)
Inductive mop := MClient (c : nat) | MOutEv.

Fixpoint seq_run (s : st) (ms : list mop) : option (st * list op) :=
  match ms with
  | [] => Some (s, [])
  | MClient c :: t =>
    match nth_error (Concurrent.clients s) c with
    | Some {| prog := o :: _; at_ := Ready |} =>
      match Concurrent.run s (atomic s c o) with
      | Some s1 => match seq_run s1 t with Some (s2, h) => Some (s2, op_of s c o :: h) | None => None end
      | None => None
      end
    | _ => None
    end
  | MOutEv :: t =>
    match Concurrent.run s atomic_out with
    | Some s1 => match seq_run s1 t with Some (s2, h) => Some (s2, OOut out_ev :: h) | None => None end
    | None => None
    end
  end.

Definition delivery_of (e : effect) : list (option cid) := match e with EDelivered _ t => [t] | EForwarded _ _ => [] end.

(* along every sequential history the interleaving model and the selector model agree on the selection and on the
   recipient of every out-event *)
Theorem sequential_schedules_refine_selector ms : forall s s' h, quiescent s -> seq_run s ms = Some (s', h) ->
  quiescent s' /\ sel_of s' = fst (Selector.run (sel_of s) h) /\
  exists dl, delivered s' = delivered s ++ dl /\ map (option_map nm) dl = flat_map delivery_of (snd (Selector.run (sel_of s) h)).
Proof.
  induction ms as [|m ms IH]; intros s s' h Q H; cbn [seq_run] in H.
  - inversion H; subst. split; [exact Q|]. split; [reflexivity|]. exists []. split; [now rewrite app_nil_r|reflexivity].
  - destruct m as [c|].
    + destruct (nth_error (Concurrent.clients s) c) as [[[|o rest] [| | |]]|] eqn:N; try discriminate.
      destruct (atomic_refines s c o rest Q N) as (s1 & R & Q1 & D1 & S1 & E1). rewrite R in H.
      destruct (seq_run s1 ms) as [[s2 h2]|] eqn:SR; [|discriminate]. inversion H; subst s' h. clear H.
      destruct (IH s1 s2 h2 Q1 SR) as (Q2 & S2 & dl & D2 & M2).
      split; [exact Q2|]. cbn [Selector.run]. destruct (Selector.step (sel_of s) (op_of s c o)) as [a e] eqn:St. cbn [fst snd] in S1, E1. subst a.
      destruct (Selector.run (sel_of s1) h2) as [b es] eqn:Rn. cbn [fst snd] in *. split; [exact S2|].
      exists dl. split; [now rewrite D2, D1|]. rewrite E1. cbn [flat_map delivery_of app]. exact M2.
    + destruct (out_refines s Q) as (s1 & R & Q1 & D1 & S1 & E1). rewrite R in H.
      destruct (seq_run s1 ms) as [[s2 h2]|] eqn:SR; [|discriminate]. inversion H; subst s' h. clear H.
      destruct (IH s1 s2 h2 Q1 SR) as (Q2 & S2 & dl & D2 & M2).
      split; [exact Q2|]. cbn [Selector.run]. destruct (Selector.step (sel_of s) (OOut out_ev)) as [a e] eqn:St. cbn [fst snd] in S1, E1. subst a.
      destruct (Selector.run (sel_of s1) h2) as [b es] eqn:Rn. cbn [fst snd] in *. split; [exact S2|].
      exists (Concurrent.selected s :: dl). split; [rewrite D2, D1, <- app_assoc; reflexivity|]. rewrite E1. cbn [flat_map delivery_of app map]. now rewrite M2.
Qed.

Lemma init_quiescent progs : quiescent (Concurrent.init progs).
Proof. unfold quiescent, Concurrent.init. cbn. repeat split; auto. apply Forall_forall. intros c H. apply in_map_iff in H as [p [<- _]]. reflexivity. Qed.

End Naming.
