From Coq Require Import List NArith Bool Lia String.
From Dznpy Require Import Base.PyStr Base.Md5.
Import ListNotations.

Lemma le_bytes_length n x : List.length (le_bytes n x) = n.
Proof. unfold le_bytes. now rewrite map_length, seq_length. Qed.

(* a digest is 16 bytes, its rendering 32 lower-case hexadecimal digits - whatever the message *)
Theorem md5_length msg : List.length (md5 msg) = 16%nat.
Proof. unfold md5. rewrite !app_length, !le_bytes_length. reflexivity. Qed.

Lemma le_bytes_small n x : Forall (fun b => (b < 256)%N) (le_bytes n x).
Proof. unfold le_bytes. apply Forall_forall. intros b H. apply in_map_iff in H as [k [<- _]]. apply N.mod_lt. discriminate. Qed.

Theorem md5_bytes msg : Forall (fun b => (b < 256)%N) (md5 msg).
Proof. unfold md5. repeat (apply Forall_app; split); apply le_bytes_small. Qed.

Definition is_lower_hex (c : N) : bool := ((48 <=? c) && (c <=? 57) || (97 <=? c) && (c <=? 102))%N.

Lemma hex_digit_ok n : (n < 16)%N -> is_lower_hex (hex_digit n) = true.
Proof.
  intros H. unfold hex_digit, is_lower_hex. destruct (n <? 10)%N eqn:E.
  - apply N.ltb_lt in E. apply orb_true_iff. left. apply andb_true_iff. split; apply N.leb_le; lia.
  - apply N.ltb_ge in E. apply orb_true_iff. right. apply andb_true_iff. split; apply N.leb_le; lia.
Qed.

Lemma hex_of_bytes_length bs : List.length (hex_of_bytes bs) = (2 * List.length bs)%nat.
Proof. induction bs as [|b r IH]; cbn [hex_of_bytes flat_map List.length app]; [reflexivity|]. fold (hex_of_bytes r). rewrite IH. lia. Qed.

Lemma hex_of_bytes_ok bs : Forall (fun b => (b < 256)%N) bs -> forallb is_lower_hex (hex_of_bytes bs) = true.
Proof.
  induction 1 as [|b r Hb _ IH]; [reflexivity|]. cbn [hex_of_bytes flat_map app forallb]. fold (hex_of_bytes r).
  rewrite IH, !hex_digit_ok; [reflexivity| |].
  - apply N.mod_lt. discriminate.
  - apply N.div_lt_upper_bound; [discriminate|]. exact Hb.
Qed.

Theorem content_hash_shape s : List.length (content_hash s) = 32%nat /\ forallb is_lower_hex (content_hash s) = true.
Proof.
  unfold content_hash. split.
  - now rewrite hex_of_bytes_length, md5_length.
  - apply hex_of_bytes_ok, md5_bytes.
Qed.

(* UTF-8: ASCII text is its own encoding; the encoding of any text has a byte per code point at least *)
Lemma utf8_ascii s : forallb (fun c => (c <? 128)%N) s = true -> utf8 s = s.
Proof.
  induction s as [|c r IH]; [reflexivity|]. cbn [forallb]. intros H. apply andb_true_iff in H as [Hc Hr].
  unfold utf8 in *. cbn [flat_map]. unfold utf8_char at 1. rewrite Hc. cbn [app]. now rewrite IH.
Qed.

(* the MD5 test suite of RFC 1321, appendix A.5, evaluated inside Coq *)
Example rfc1321_1 : content_hash [] = L "d41d8cd98f00b204e9800998ecf8427e". Proof. vm_compute. reflexivity. Qed.
Example rfc1321_2 : content_hash (L "a") = L "0cc175b9c0f1b6a831c399e269772661". Proof. vm_compute. reflexivity. Qed.
Example rfc1321_3 : content_hash (L "abc") = L "900150983cd24fb0d6963f7d28e17f72". Proof. vm_compute. reflexivity. Qed.
Example rfc1321_4 : content_hash (L "message digest") = L "f96b697d7cb7938d525a2f31aaf161d0". Proof. vm_compute. reflexivity. Qed.
Example rfc1321_5 : content_hash (L "abcdefghijklmnopqrstuvwxyz") = L "c3fcd3d76192e4007dfb496cca67e13b". Proof. vm_compute. reflexivity. Qed.
Example rfc1321_6 : content_hash (L "ABCDEFGHIJKLMNOPQRSTUVWXYZabcdefghijklmnopqrstuvwxyz0123456789") = L "d174ab98d277d9f5a5611c2c9f419d9f".
Proof. vm_compute. reflexivity. Qed.
Example rfc1321_7 : content_hash (L "12345678901234567890123456789012345678901234567890123456789012345678901234567890") = L "57edf4a22be3c955ac49da2e2107b67a".
Proof. vm_compute. reflexivity. Qed.
(* non-ASCII: U+00E9, U+20AC, U+1F600 -> c3 a9 e2 82 ac f0 9f 98 80 *)
Example utf8_multibyte : utf8 [233; 8364; 128512]%N = [195; 169; 226; 130; 172; 240; 159; 152; 128]%N. Proof. vm_compute. reflexivity. Qed.
