From Coq Require Import List NArith Bool String Lia Arith.
From Dznpy Require Import Base.PyStr Base.Result Model.TextGen Model.Scoping Model.PortSelection Model.CppGen Model.Ast
  Model.SupportFiles Sem.ShellSem Sem.Exec Model.Builder Sem.FinalConstruct Proofs.PyStrFacts Proofs.SemFacts.
Import ListNotations.

(* ---------- FinalConstruct ---------- *)

Lemma fc_ok_iff m pp rp clients :
  final_construct m pp rp clients = true <->
  forall o p, In (o, p) (fc_checks pp rp clients) -> forall d e, In (d, e) (all_events p) -> lookup m (sl o d e) <> Unset.
Proof.
  unfold final_construct, bound. rewrite forallb_forall. split.
  - intros H o p Hin d e He. specialize (H (o, p) Hin). cbn [fst snd] in H. rewrite forallb_forall in H.
    specialize (H (d, e) He). cbn [fst snd] in H. intros E. rewrite E in H. cbn in H. discriminate H.
  - intros H [o p] Hin. cbn [fst snd]. rewrite forallb_forall. intros [d e] He. cbn [fst snd].
    specialize (H o p Hin d e He). destruct (lookup m (sl o d e)); cbn; auto; exfalso; apply H; reflexivity.
Qed.

Lemma fc_detects m pp rp clients o p d e :
  In (o, p) (fc_checks pp rp clients) -> In (d, e) (all_events p) -> lookup m (sl o d e) = Unset ->
  final_construct m pp rp clients = false.
Proof.
  intros Hin He Hu. destruct (final_construct m pp rp clients) eqn:F; [|reflexivity].
  exfalso. exact (proj1 (fc_ok_iff _ _ _ _) F o p Hin d e He Hu).
Qed.

(* any single event of any exposed non multi-client provides port, left unbound on the user's side *)
Lemma fc_checks_provides pp rp clients p : In p pp -> cp_is_mc p = false -> In (acc_obj p, p) (fc_checks pp rp clients).
Proof.
  intros Hin Hmc. unfold fc_checks. apply in_or_app. right. apply in_or_app. left.
  apply in_flat_map. exists p. split; [assumption|]. rewrite Hmc. now left.
Qed.
Lemma fc_checks_requires pp rp clients p : In p rp -> In (acc_obj p, p) (fc_checks pp rp clients).
Proof.
  intros Hin. unfold fc_checks. apply in_or_app. right. apply in_or_app. right. apply in_or_app. left.
  apply in_map_iff. exists p. auto.
Qed.
Lemma fc_checks_client pp rp clients p c : In p pp -> cp_is_mc p = true -> In c clients -> In (Cli (cp_name p) c, p) (fc_checks pp rp clients).
Proof.
  intros Hin Hmc Hc. unfold fc_checks. apply in_or_app. left. apply in_flat_map. exists p. split; [assumption|]. rewrite Hmc.
  apply in_map_iff. exists c. auto.
Qed.
Lemma fc_checks_component pp rp clients p : In p (pp ++ rp) -> In (Enc (cp_name p), p) (fc_checks pp rp clients).
Proof.
  intros Hin. unfold fc_checks. apply in_or_app. right. apply in_or_app. right. apply in_or_app. right.
  apply in_map_iff. exists p. auto.
Qed.

Theorem unbound_provides_event_detected m pp rp clients p d e :
  In p pp -> cp_is_mc p = false -> In (d, e) (all_events p) -> lookup m (sl (acc_obj p) d e) = Unset ->
  final_construct m pp rp clients = false.
Proof. intros. eapply fc_detects; eauto using fc_checks_provides. Qed.
Theorem unbound_requires_event_detected m pp rp clients p d e :
  In p rp -> In (d, e) (all_events p) -> lookup m (sl (acc_obj p) d e) = Unset -> final_construct m pp rp clients = false.
Proof. intros. eapply fc_detects; eauto using fc_checks_requires. Qed.
Theorem unbound_client_event_detected m pp rp clients p c d e :
  In p pp -> cp_is_mc p = true -> In c clients -> In (d, e) (all_events p) -> lookup m (sl (Cli (cp_name p) c) d e) = Unset ->
  final_construct m pp rp clients = false.
Proof. intros. eapply fc_detects; eauto using fc_checks_client. Qed.
Theorem unbound_component_event_detected m pp rp clients p d e :
  In p (pp ++ rp) -> In (d, e) (all_events p) -> lookup m (sl (Enc (cp_name p)) d e) = Unset -> final_construct m pp rp clients = false.
Proof. intros. eapply fc_detects; eauto using fc_checks_component. Qed.

(* ---------- facilities ---------- *)

(* ---------- the parent recorded by FinalConstruct(parent) ---------- *)

Lemma fc_checks_split pp rp clients : fc_checks pp rp clients = fc_boundary pp rp clients ++ fc_own pp rp.
Proof. unfold fc_checks, fc_boundary, fc_own. now rewrite <- !app_assoc. Qed.

Lemma run_agrees m recorded given pp rp clients :
  fst (final_construct_run m recorded given pp rp clients) = final_construct m pp rp clients.
Proof.
  unfold final_construct_run, final_construct. rewrite fc_checks_split, forallb_app.
  destruct (forallb _ (fc_boundary pp rp clients)); reflexivity.
Qed.

Lemma run_records m recorded given pp rp clients :
  fst (final_construct_run m recorded given pp rp clients) = true -> snd (final_construct_run m recorded given pp rp clients) = given.
Proof. unfold final_construct_run. destruct (forallb _ (fc_boundary pp rp clients)); cbn; [reflexivity|discriminate]. Qed.

Lemma run_boundary_failure_keeps m recorded given pp rp clients :
  forallb (fun op => bound m (fst op) (snd op)) (fc_boundary pp rp clients) = false ->
  final_construct_run m recorded given pp rp clients = (false, recorded).
Proof. unfold final_construct_run. now intros ->. Qed.

Lemma service_eqb_eq a b : service_eqb a b = true <-> a = b.
Proof.
  destruct a as [| |x], b as [| |y]; cbn; split; intros E; try discriminate; auto.
  - apply N.eqb_eq in E. now subst.
  - inversion E; subst. apply N.eqb_refl.
Qed.

Lemma loc_get_set_same l s i : loc_get (loc_set l s i) s = Some i.
Proof. unfold loc_set. cbn. assert (service_eqb s s = true) as -> by now apply service_eqb_eq. reflexivity. Qed.

Lemma loc_get_filter_other l s t : service_eqb s t = false -> loc_get (filter (fun kv => negb (service_eqb (fst kv) s)) l) t = loc_get l t.
Proof.
  intros H. induction l as [|[k v] l IH]; [reflexivity|]. cbn [filter fst]. destruct (service_eqb k s) eqn:E; cbn [negb].
  - apply service_eqb_eq in E. subst. cbn [loc_get]. rewrite H. exact IH.
  - cbn [loc_get]. now rewrite IH.
Qed.
Lemma loc_get_set_other l s t i : service_eqb s t = false -> loc_get (loc_set l s i) t = loc_get l t.
Proof. intros H. unfold loc_set. cbn [loc_get]. rewrite H. now apply loc_get_filter_other. Qed.

(* 'create': the component gets a fresh locator holding the shell's own dispatcher and runtime plus everything of the
   user's prototype; the shell dispatches on its own pump; the accessor exists; the prototype is a value - unchanged *)
Theorem create_ok users own_pump own_runtime : loc_get users SPump = None -> loc_get users SRuntime = None ->
  exists cl, construct OCreate users own_pump own_runtime = Constructed cl false own_pump true /\
             loc_get cl SPump = Some own_pump /\ loc_get cl SRuntime = Some own_runtime /\
             forall n, loc_get cl (SOther n) = loc_get users (SOther n).
Proof.
  intros Hp Hr. unfold construct. rewrite Hp, Hr. cbn [is_set_opt orb]. eexists. split; [reflexivity|].
  split; [apply loc_get_set_same|]. split; [rewrite loc_get_set_other by reflexivity; apply loc_get_set_same|].
  intros n. now rewrite !loc_get_set_other by reflexivity.
Qed.
Theorem create_fail users own_pump own_runtime : loc_get users SPump <> None \/ loc_get users SRuntime <> None ->
  construct OCreate users own_pump own_runtime = Throws.
Proof.
  intros H. unfold construct. destruct (loc_get users SPump), (loc_get users SRuntime); cbn; auto; destruct H; congruence.
Qed.
(* 'import': the very dispatcher of the user's locator, the user's locator itself for the component, no accessor *)
Theorem import_ok users own_pump own_runtime p r : loc_get users SPump = Some p -> loc_get users SRuntime = Some r ->
  construct OImport users own_pump own_runtime = Constructed users true p false.
Proof. intros Hp Hr. unfold construct. now rewrite Hp, Hr. Qed.
Theorem import_fail users own_pump own_runtime : loc_get users SPump = None \/ loc_get users SRuntime = None ->
  construct OImport users own_pump own_runtime = Throws.
Proof. intros [H|H]; unfold construct; rewrite H; [reflexivity|]. destruct (loc_get users SPump); reflexivity. Qed.

Lemma facility_members_in_dependency_order : forall o,
  forall m deps, In (m, deps) (initialiser_deps o [] []) ->
  forall d, In d deps -> exists i j, index_of d (declared_members o [] []) = Some i /\ index_of m (declared_members o [] []) = Some j /\ (i < j)%nat.
Proof.
  intros [|] m deps Hin d Hd; cbn in Hin.
  - destruct Hin as [E|[E|[]]]; inversion E; subst; destruct Hd.
  - destruct Hin as [E|[E|[]]]; inversion E; subst.
    + destruct Hd as [<-|[<-|[]]]; [exists 0%nat, 2%nat|exists 1%nat, 2%nat]; repeat split; auto with arith.
    + destruct Hd as [<-|[]]. exists 2%nat, 3%nat. repeat split; auto with arith.
Qed.
