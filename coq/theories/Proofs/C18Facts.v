From Coq Require Import List NArith Bool Lia Arith.
From Dznpy Require Import Base.PyStr Model.TextGen Spec.FlattenSpec Spec.IndentSpec Proofs.PyStrFacts Proofs.TextGenFacts.
Import ListNotations.
Open Scope nat_scope.

(* ---------- model prefix/whitespace = specification ---------- *)

Lemma ljust_spec n x : ljust n x = x ++ repeat SP (n - List.length x).
Proof. reflexivity. Qed.

Lemma bprefix_eq cfg g : bprefix cfg g = spec_bprefix cfg g.
Proof.
  unfold bprefix, spec_bprefix. destruct (i_indentor cfg); [|reflexivity].
  unfold ljust. rewrite <- app_assoc. f_equal. rewrite app_length. cbn [List.length].
  destruct (Nat.le_gt_cases (i_spaces cfg) (List.length g + 1)) as [H|H].
  - rewrite Nat.max_r by assumption. replace (i_spaces cfg - (List.length g + 1)) with 0 by lia.
    replace (List.length g + 1 - List.length g) with 1 by lia. reflexivity.
  - rewrite Nat.max_l by lia.
    replace (i_spaces cfg - List.length g) with (S (i_spaces cfg - (List.length g + 1))) by lia. reflexivity.
Qed.

Lemma bprefix_length cfg g : i_indentor cfg = Spaces ->
  List.length (bprefix cfg g) = Nat.max (i_spaces cfg) (List.length g + 1).
Proof.
  intros H. rewrite bprefix_eq. unfold spec_bprefix. rewrite H, app_length, repeat_length. lia.
Qed.

Lemma ws_eq cfg : ws cfg = spec_ws cfg.
Proof.
  unfold ws, spec_ws. destruct (i_indentor cfg) eqn:E; [|reflexivity].
  destruct (i_bullet cfg) as [[m g]|]; [|reflexivity]. now rewrite bprefix_length.
Qed.

(* continuation lines align with the text after the glyph *)
Lemma alignment cfg m g : i_bullet cfg = Some (m, g) -> i_indentor cfg = Spaces ->
  List.length (ws cfg) = List.length (bprefix cfg g).
Proof. intros Hb Hi. unfold ws. rewrite Hi, Hb. apply repeat_length. Qed.

Lemma only_indent_eq cfg l : only_indent cfg l = shifted cfg l.
Proof. unfold only_indent, shifted. now rewrite ws_eq. Qed.

Lemma bullet_line_eq cfg g l : bullet_line cfg g l = bulleted cfg g l.
Proof. unfold bullet_line, bulleted. now rewrite bprefix_eq. Qed.

(* ---------- list form: same number of lines, same order, line i follows line_spec ---------- *)

Lemma map_map_i {A B} (f : A -> B) i l : map f l = map_i (fun _ => f) i l.
Proof. revert i; induction l; intros; simpl; auto. now rewrite <- IHl. Qed.

Lemma indent_lines_spec cfg ls : indent_lines cfg ls = map_i (line_spec cfg) 0 ls.
Proof.
  destruct ls as [|l0 rest]; [reflexivity|]. unfold indent_lines, line_spec.
  destruct (i_bullet cfg) as [[[|] g]|].
  - rewrite (map_map_i _ 0). cbn [map_i]. f_equal; [apply bullet_line_eq|].
    generalize 1. induction rest; intros; cbn [map_i]; [reflexivity|]. now rewrite bullet_line_eq, IHrest.
  - cbn [map_i]. rewrite bullet_line_eq. f_equal.
    assert (E : forall k, map (only_indent cfg) rest = map_i (fun i l => match i with 0 => bulleted cfg g l | S _ => shifted cfg l end) (S k) rest).
    { induction rest; intros; cbn [map map_i]; [reflexivity|]. now rewrite only_indent_eq, <- IHrest. }
    apply (E 0).
  - rewrite (map_map_i _ 0). generalize 0. induction (l0 :: rest); intros; cbn [map_i]; [reflexivity|].
    now rewrite only_indent_eq, IHl.
Qed.

Lemma map_i_length {A B} (f : nat -> A -> B) i l : List.length (map_i f i l) = List.length l.
Proof. revert i; induction l; intros; simpl; auto. Qed.

Lemma map_i_nth {A B} (f : nat -> A -> B) l : forall i k, nth_error (map_i f i l) k = option_map (f (i + k)) (nth_error l k).
Proof.
  induction l as [|a l IH]; intros i k; destruct k; cbn; auto.
  - now rewrite Nat.add_0_r.
  - rewrite IH. now rewrite Nat.add_succ_r.
Qed.

Lemma to_list_length cfg ls : List.length (indent_lines cfg ls) = List.length ls.
Proof. rewrite indent_lines_spec. apply map_i_length. Qed.

Lemma to_list_pointwise cfg ls k : nth_error (indent_lines cfg ls) k = option_map (line_spec cfg k) (nth_error ls k).
Proof. rewrite indent_lines_spec. apply (map_i_nth _ ls 0 k). Qed.

(* ---------- what a bullet row looks like for a proper glyph ---------- *)

Lemma glyph_ok_shape g : glyph_ok g = true ->
  exists a t, g = a :: t /\ is_space a = false /\ rstrip_fixed g = true /\ blank g = false.
Proof.
  unfold glyph_ok, rstrip_fixed. destruct g as [|a t]; [discriminate|]. destruct (rev (a :: t)) eqn:E; [discriminate|].
  intros H. apply andb_true_iff in H as [H1 H2]. exists a, t. repeat split; auto.
  - now destruct (is_space a).
  - cbn. now destruct (is_space a).
Qed.

Lemma rstrip_fixed_spec x : rstrip_fixed x = true -> rstrip x = x.
Proof.
  unfold rstrip_fixed, rstrip. destruct (rev x) as [|c r] eqn:E; intros H.
  - cbn. apply (f_equal (@rev _)) in E. now rewrite rev_involutive in E.
  - cbn [lstrip]. destruct (is_space c); [discriminate|]. rewrite <- E. apply rev_involutive.
Qed.

Lemma rstrip_is_fixed x : rstrip_fixed (rstrip x) = true.
Proof.
  unfold rstrip_fixed, rstrip. rewrite rev_involutive.
  induction (rev x) as [|c r IH]; [reflexivity|]. cbn [lstrip]. destruct (is_space c) eqn:E; [exact IH|now rewrite E].
Qed.

Lemma rstrip_fixed_app a b : b <> [] -> rstrip_fixed (a ++ b) = rstrip_fixed b.
Proof.
  intros H. unfold rstrip_fixed. rewrite rev_app_distr. destruct (rev b) eqn:E; [|reflexivity].
  apply (f_equal (@rev _)) in E. rewrite rev_involutive in E. contradiction.
Qed.

Lemma lstrip_fixed_rstrip_fixed x : rstrip_fixed x = true -> rstrip_fixed (lstrip x) = true.
Proof.
  intros H. destruct (lstrip_suffix x) as [p [E B]]. destruct (lstrip x) as [|c t] eqn:El; [reflexivity|].
  rewrite E in H. rewrite rstrip_fixed_app in H by discriminate. exact H.
Qed.

Lemma strip_is_rstrip_fixed x : rstrip_fixed (strip x) = true.
Proof. unfold strip. apply lstrip_fixed_rstrip_fixed, rstrip_is_fixed. Qed.

Lemma blank_repeat_SP n : blank (repeat SP n) = true.
Proof. induction n; simpl; auto. Qed.

Lemma bullet_row_text cfg g l : glyph_ok g = true -> blank l = false ->
  bulleted cfg g l = spec_bprefix cfg g ++ rstrip l.
Proof.
  intros Hg Hl. destruct (glyph_ok_shape g Hg) as [a [t [-> [Ha _]]]].
  unfold bulleted, strip. rewrite rstrip_app_nonblank by assumption.
  unfold spec_bprefix. destruct (i_indentor cfg); cbn [app]; now rewrite lstrip_nonspace.
Qed.

Lemma bullet_row_blank cfg g l : glyph_ok g = true -> blank l = true -> bulleted cfg g l = g.
Proof.
  intros Hg Hl. destruct (glyph_ok_shape g Hg) as [a [t [E [Ha [Hf _]]]]].
  unfold bulleted, strip, spec_bprefix.
  assert (R : forall pad, blank pad = true -> lstrip (rstrip ((g ++ pad) ++ l)) = g).
  { intros pad Hp. rewrite <- app_assoc. rewrite rstrip_app_blank by (rewrite blank_app, Hp, Hl; reflexivity).
    rewrite rstrip_fixed_spec by assumption. rewrite E. now apply lstrip_nonspace. }
  destruct (i_indentor cfg); apply R; [apply blank_repeat_SP|reflexivity].
Qed.

(* ---------- no trailing whitespace is introduced ---------- *)

Lemma blank_false_nonnil l : blank l = false -> l <> [].
Proof. intros H ->. discriminate. Qed.

Lemma shifted_rstrip_fixed cfg l : rstrip_fixed l = true -> rstrip_fixed (shifted cfg l) = true.
Proof.
  intros H. unfold shifted. destruct (blank l) eqn:B; [reflexivity|].
  rewrite rstrip_fixed_app; [assumption|now apply blank_false_nonnil].
Qed.

Lemma line_spec_rstrip_fixed cfg i l : rstrip_fixed l = true -> rstrip_fixed (line_spec cfg i l) = true.
Proof.
  intros H. unfold line_spec. destruct (i_bullet cfg) as [[[|] g]|].
  - apply strip_is_rstrip_fixed.
  - destruct i; [apply strip_is_rstrip_fixed|now apply shifted_rstrip_fixed].
  - now apply shifted_rstrip_fixed.
Qed.

(* blank lines stay empty when only shifting *)
Lemma shifted_blank cfg l : blank l = true -> shifted cfg l = [].
Proof. intros H. unfold shifted. now rewrite H. Qed.

Lemma shifted_text cfg l : blank l = false -> shifted cfg l = spec_ws cfg ++ l.
Proof. intros H. unfold shifted. now rewrite H. Qed.

(* ---------- repeated indentation ---------- *)

Lemma shifted_twice cfg l : shifted cfg (shifted cfg l) = if blank l then [] else spec_ws cfg ++ spec_ws cfg ++ l.
Proof.
  unfold shifted. destruct (blank l) eqn:B; [reflexivity|].
  rewrite blank_app, B, andb_false_r. reflexivity.
Qed.

(* ---------- text block level ---------- *)

Lemma header_untouched cfg t : hdr (indent cfg t) = hdr t.
Proof. reflexivity. Qed.

Lemma indent_lines_count cfg t : List.length (lns (indent cfg t)) = List.length (lns t).
Proof. apply to_list_length. Qed.

(* ---------- string form ---------- *)

Lemma to_str_terminated cfg c : to_list cfg c <> [] -> to_str cfg c = terminated (to_list cfg c).
Proof. intros H. unfold to_str. now apply join_terminated. Qed.

Lemma to_str_empty cfg c : to_list cfg c = [] -> to_str cfg c = [LF].
Proof. intros H. unfold to_str. now rewrite H. Qed.

(* list form and string form agree: splitting the string form gives back the list form *)
Lemma str_form_agrees cfg c : to_list cfg c <> [] -> Forall no_break (to_list cfg c) ->
  splitlines (to_str cfg c) = to_list cfg c.
Proof. intros H1 H2. rewrite to_str_terminated by assumption. now apply splitlines_terminated. Qed.

(* indentation keeps lines break-free (so the text block invariant of C17 is preserved) *)
Lemma shifted_no_break cfg l : no_break l -> no_break (shifted cfg l).
Proof.
  intros H. unfold shifted. destruct (blank l); [constructor|]. apply no_break_app. split; [|assumption].
  unfold spec_ws. destruct (i_indentor cfg); [|repeat constructor].
  destruct (i_bullet cfg) as [[m g]|]; apply no_break_repeat_SP.
Qed.

Lemma bulleted_no_break cfg g l : no_break g -> no_break l -> no_break (bulleted cfg g l).
Proof.
  intros Hg Hl. unfold bulleted. apply strip_no_break, no_break_app. split; [|assumption].
  unfold spec_bprefix. destruct (i_indentor cfg); apply no_break_app; split; auto; [apply no_break_repeat_SP|repeat constructor].
Qed.

Definition glyph_no_break (cfg : indcfg) : Prop :=
  match i_bullet cfg with Some (_, g) => no_break g | None => True end.

Lemma indent_lines_no_break cfg ls : glyph_no_break cfg -> Forall no_break ls -> Forall no_break (indent_lines cfg ls).
Proof.
  intros Hg H. rewrite indent_lines_spec. generalize 0. induction H as [|l t Hl Ht IH]; intros n; cbn [map_i]; constructor; auto.
  unfold line_spec. unfold glyph_no_break in Hg. destruct (i_bullet cfg) as [[[|] g]|].
  - now apply bulleted_no_break.
  - destruct n; [now apply bulleted_no_break|now apply shifted_no_break].
  - now apply shifted_no_break.
Qed.

Lemma wf_indent cfg t : glyph_no_break cfg -> wf t = true -> wf (indent cfg t) = true.
Proof.
  intros Hg. unfold wf, indent; cbn [hdr lns]. rewrite !wf_lines_app. intros H.
  apply andb_true_iff in H as [H1 H2]. rewrite H1. cbn.
  apply wf_lines_spec, indent_lines_no_break; [assumption|now apply wf_lines_spec].
Qed.
