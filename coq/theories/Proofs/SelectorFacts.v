From Coq Require Import List NArith Bool String.
From Dznpy Require Import Base.PyStr Sem.Selector Proofs.PyStrFacts.
Import ListNotations.

Lemma registered_select s c d : registered (select s c) d = registered s d.
Proof. unfold select. destruct (registered s c); reflexivity. Qed.
Lemma registered_deselect s c d : registered (deselect s c) d = registered s d.
Proof. unfold deselect. destruct (registered s c); reflexivity. Qed.
Lemma clients_step s o : clients (fst (step s o)) = clients s.
Proof. destruct o as [c [|]|c|c ev|ev]; cbn; auto; unfold select, deselect; destruct (registered s c); reflexivity. Qed.

(* a claim answered otherwise never changes who is selected *)
Lemma non_granting_claim_noop s c : fst (step s (OClaim c false)) = s.
Proof. reflexivity. Qed.

(* an out-event is delivered to exactly the selected client, or to nobody *)
Lemma out_event_to_selected s ev : snd (step s (OOut ev)) = EDelivered ev (selected s) /\ fst (step s (OOut ev)) = s.
Proof. split; reflexivity. Qed.

(* every client in-event is forwarded to the component exactly once, whatever the selection, and changes it only as stated *)
Lemma client_in_event_forwarded s o c ev :
  (o = OClaim c true \/ o = OClaim c false) /\ ev = claim_ev \/ o = ORelease c /\ ev = release_ev \/ o = OOther c ev ->
  snd (step s o) = EForwarded c ev.
Proof. intros [[[->| ->] ->]|[[-> ->]| ->]]; reflexivity. Qed.

(* for conformant histories the selection is the holder, at every point: the run produces the specified effects *)
Lemma run_spec_conformant : forall h s,
  conformant (clients s) (selected s) h = true -> snd (run s h) = spec_run (selected s) h.
Proof.
  induction h as [|o t IH]; intros s Hc; [reflexivity|]. cbn [conformant] in Hc. apply andb_true_iff in Hc as [Ho Ht].
  cbn [run spec_run]. destruct (step s o) as [s1 e] eqn:S. destruct (run s1 t) as [s2 es] eqn:R. cbn [snd].
  assert (E : e = spec_effect (selected s) o /\ selected s1 = holder_step (selected s) o /\ clients s1 = clients s).
  { destruct o as [c g|c|c ev|ev]; cbn in S; inversion S; subst; clear S; cbn [spec_effect holder_step].
    - destruct g; cbn.
      + unfold select. unfold registered. rewrite Ho. cbn. auto.
      + auto.
    - apply andb_true_iff in Ho as [Hr Hh]. unfold deselect, registered. rewrite Hr. cbn.
      destruct (selected s) as [x|] eqn:Sel; cbn in *.
      + rewrite orb_false_r in Hh. rewrite Hh. auto.
      + auto.
    - auto.
    - auto. }
  destruct E as [-> [E2 E3]]. f_equal.
  replace es with (snd (run s1 t)) by now rewrite R. rewrite IH; [now rewrite E2|]. now rewrite E3, E2.
Qed.

(* REFUTATION of the unrestricted statement: a client that does not hold the claim releases; the holder loses the out-events *)
Definition A : cid := [65%N].
Definition B : cid := [66%N].
Definition s_AB : selector := {| clients := [A; B]; selected := None; final := true |}.
Lemma nonholder_release_refutes :
  let h := [OClaim A true; ORelease B; OOut (L "Done")] in
  holder h = Some A /\ snd (run s_AB h) = [EForwarded A claim_ev; EForwarded B release_ev; EDelivered (L "Done") None] /\
  spec_run None h = [EForwarded A claim_ev; EForwarded B release_ev; EDelivered (L "Done") (Some A)].
Proof. repeat split; reflexivity. Qed.

(* registration: no client can be registered after final construction; registered ones are still served *)
Lemma no_registration_after_final s c : final s = true -> registered s c = false -> index s c = None.
Proof. intros Hf Hr. unfold index. destruct (is_nil c); [reflexivity|]. now rewrite Hr, Hf. Qed.
Lemma known_client_after_final s c : is_nil c = false -> registered s c = true -> index s c = Some s.
Proof. intros Hn Hr. unfold index. now rewrite Hn, Hr. Qed.
