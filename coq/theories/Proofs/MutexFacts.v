From Coq Require Import List NArith Bool Lia Arith.
From Dznpy Require Import Sem.MutexWrapped.
Import ListNotations.

Lemma nth_set_same {A} (l : list A) i x y : nth_error l i = Some y -> nth_error (set_nth l i x) i = Some x.
Proof. revert i; induction l as [|a l IH]; intros [|i] H; cbn in *; try discriminate; auto. Qed.
Lemma nth_set_other {A} (l : list A) i j x : i <> j -> nth_error (set_nth l i x) j = nth_error l j.
Proof. revert i j; induction l as [|a l IH]; intros [|i] [|j] H; cbn in *; try congruence; auto. Qed.
Lemma nth_set_none {A} (l : list A) i x : nth_error l i = None -> set_nth l i x = l.
Proof. revert i; induction l as [|a l IH]; intros [|i] H; cbn in *; try discriminate; auto. f_equal; auto. Qed.

Lemma var_set m t v u : nth_error (vars m) t <> None ->
  match nth_error (set_nth (vars m) t v) u with Some w => w | None => None end = if Nat.eqb t u then v else var_of m u.
Proof.
  intros H. destruct (Nat.eqb t u) eqn:E.
  - apply Nat.eqb_eq in E; subst. destruct (nth_error (vars m) u) eqn:N; [|congruence]. now rewrite (nth_set_same _ _ _ _ N).
  - apply Nat.eqb_neq in E. now rewrite nth_set_other.
Qed.

Lemma var_in_range m t h : var_of m t = Some h -> nth_error (vars m) t <> None.
Proof. unfold var_of. destruct (nth_error (vars m) t); [discriminate|discriminate]. Qed.

(* every reachable handle is either live (non-null, owning) or spent (null, not owning); the mutex is held exactly by the thread with a live handle *)
Record MInv (m : mw) : Prop := {
  live_or_spent : forall t h, var_of m t = Some h -> ptr h = owns h;
  live_holds : forall t h, var_of m t = Some h -> owns h = true -> mholder m = Some t;
  holder_live : forall t, mholder m = Some t -> exists h, var_of m t = Some h /\ owns h = true }.

Lemma minit_inv n : MInv (minit n).
Proof.
  assert (V : forall t, var_of (minit n) t = None).
  { intros t. unfold var_of, minit; cbn. destruct (nth_error (repeat None n) t) eqn:N; [|reflexivity].
    apply nth_error_In, repeat_spec in N. now subst. }
  constructor; cbn; intros; try rewrite V in *; discriminate.
Qed.

Lemma mstep_inv m o m' r : MInv m -> mstep m o = Some (m', r) -> MInv m'.
Proof.
  intros [I1 I2 I3] Hs. destruct o as [t|t|t|t v|t]; cbn in Hs.
  - destruct (nth_error (vars m) t) as [[h|]|] eqn:N; try discriminate. destruct (mholder m) eqn:Hm; [discriminate|].
    inversion Hs; subst; clear Hs. assert (R : nth_error (vars m) t <> None) by congruence.
    constructor; unfold var_of; cbn [vars mholder].
    + intros u h Hv. rewrite (var_set m t _ u R) in Hv. destruct (Nat.eqb t u); [now inversion Hv|eauto].
    + intros u h Hv Ho. rewrite (var_set m t _ u R) in Hv. destruct (Nat.eqb t u) eqn:E.
      * apply Nat.eqb_eq in E. now subst.
      * specialize (I2 u h Hv Ho). congruence.
    + intros u Hu. inversion Hu; subst. exists {| ptr := true; owns := true |}. rewrite (var_set m u _ u R), Nat.eqb_refl. auto.
  - destruct (var_of m t) as [h|] eqn:V; [|discriminate]. pose proof (var_in_range _ _ _ V) as R. destruct (ptr h) eqn:P.
    + pose proof (I1 _ _ V) as E. rewrite P in E. unfold deleter in Hs. rewrite <- E in Hs. inversion Hs; subst; clear Hs.
      pose proof (I2 _ _ V (eq_sym E)) as Hm.
      constructor; unfold var_of; cbn [vars mholder].
      * intros u h' Hv. rewrite (var_set m t _ u R) in Hv. destruct (Nat.eqb t u); [now inversion Hv|eauto].
      * intros u h' Hv Ho. rewrite (var_set m t _ u R) in Hv. destruct (Nat.eqb t u) eqn:E2.
        -- inversion Hv; subst. discriminate.
        -- specialize (I2 u h' Hv Ho). rewrite Hm in I2. inversion I2; subst. rewrite Nat.eqb_refl in E2. discriminate.
      * discriminate.
    + inversion Hs; subst. now constructor.
  - destruct (var_of m t) as [h|] eqn:V; [|discriminate]. pose proof (var_in_range _ _ _ V) as R.
    pose proof (I1 _ _ V) as E. destruct (ptr h) eqn:P.
    + unfold deleter in Hs. rewrite <- E in Hs. cbn in Hs. inversion Hs; subst; clear Hs.
      pose proof (I2 _ _ V (eq_sym E)) as Hm.
      constructor; unfold var_of; cbn [vars mholder].
      * intros u h' Hv. rewrite (var_set m t _ u R) in Hv. destruct (Nat.eqb t u); [discriminate|eauto].
      * intros u h' Hv Ho. rewrite (var_set m t _ u R) in Hv. destruct (Nat.eqb t u) eqn:E2; [discriminate|].
        specialize (I2 u h' Hv Ho). rewrite Hm in I2. inversion I2; subst. rewrite Nat.eqb_refl in E2. discriminate.
      * discriminate.
    + rewrite <- E in Hs. inversion Hs; subst; clear Hs.
      constructor; unfold var_of; cbn [vars mholder].
      * intros u h' Hv. rewrite (var_set m t _ u R) in Hv. destruct (Nat.eqb t u); [discriminate|eauto].
      * intros u h' Hv Ho. rewrite (var_set m t _ u R) in Hv. destruct (Nat.eqb t u); [discriminate|eauto].
      * intros u Hu. destruct (I3 u Hu) as [h' [Hv Ho]]. exists h'. rewrite (var_set m t _ u R).
        destruct (Nat.eqb t u) eqn:E2; [|auto]. apply Nat.eqb_eq in E2; subst. rewrite V in Hv. inversion Hv; subst. congruence.
  - destruct (var_of m t) as [h|] eqn:V; [|discriminate]. destruct (ptr h); [|discriminate]. inversion Hs; subst. now constructor.
  - destruct (var_of m t) as [h|] eqn:V; [|discriminate]. destruct (ptr h); [|discriminate]. inversion Hs; subst. now constructor.
Qed.

(* states reachable by any history in which blocked / undefined operations are simply not executed *)
Lemma mrun_inv ops : forall m, MInv m -> MInv (snd (mrun m ops)).
Proof.
  induction ops as [|o r IH]; intros m I; cbn; [exact I|].
  destruct (mstep m o) as [[m' res]|] eqn:S.
  - specialize (IH m' (mstep_inv _ _ _ _ I S)). destruct (mrun m' r). exact IH.
  - specialize (IH m I). destruct (mrun m r). exact IH.
Qed.

Definition can_access (m : mw) (t : nat) : Prop := mstep m (MRead t) <> None.

Lemma access_holds m t : MInv m -> can_access m t -> mholder m = Some t.
Proof.
  intros I H. unfold can_access in H. cbn in H. destruct (var_of m t) as [h|] eqn:V; [|congruence].
  destruct (ptr h) eqn:P; [|congruence]. apply (live_holds _ I t h V). rewrite <- (live_or_spent _ I t h V). exact P.
Qed.

(* at most one thread at a time has access to the protected value *)
Theorem mw_exclusive n ops t u : let m := snd (mrun (minit n) ops) in can_access m t -> can_access m u -> t = u.
Proof.
  intros m Ht Hu. pose proof (mrun_inv ops _ (minit_inv n)) as I. fold m in I.
  apply (access_holds _ _ I) in Ht. apply (access_holds _ _ I) in Hu. congruence.
Qed.

(* while one thread has access, operator() of every other thread blocks *)
Theorem mw_blocks m t u : mholder m = Some u -> mstep m (MAcquire t) = None.
Proof. intros H. cbn. destruct (nth_error (vars m) t) as [[|]|]; try reflexivity. now rewrite H. Qed.

Theorem mw_acquire_when_free m t : mholder m = None -> nth_error (vars m) t = Some None ->
  exists m', mstep m (MAcquire t) = Some (m', None) /\ mholder m' = Some t /\ can_access m' t.
Proof.
  intros H N. cbn. rewrite N, H. eexists; split; [reflexivity|]. split; [reflexivity|].
  unfold can_access. cbn. unfold var_of. cbn [vars]. rewrite (nth_set_same _ _ _ _ N). cbn. discriminate.
Qed.

(* explicit reset by the thread that has access releases the lock, and that thread loses access *)
Theorem mw_reset_unlocks m t : MInv m -> can_access m t -> exists m', mstep m (MReset t) = Some (m', None) /\ mholder m' = None /\ ~ can_access m' t.
Proof.
  intros I H. pose proof (access_holds _ _ I H) as Hm. unfold can_access in H. cbn in *.
  destruct (var_of m t) as [h|] eqn:V; [|congruence]. destruct (ptr h) eqn:P; [|congruence].
  pose proof (live_or_spent _ I _ _ V) as E. unfold deleter. rewrite <- E, P. eexists; split; [reflexivity|]. split; [reflexivity|].
  pose proof (var_set m t (Some {| ptr := false; owns := false |}) t (var_in_range _ _ _ V)) as R.
  unfold can_access. cbn. unfold var_of at 1. cbn [vars]. rewrite R, Nat.eqb_refl. cbn. congruence.
Qed.

(* so does leaving the scope *)
Theorem mw_scope_exit_unlocks m t : MInv m -> can_access m t -> exists m', mstep m (MExit t) = Some (m', None) /\ mholder m' = None /\ var_of m' t = None.
Proof.
  intros I H. pose proof (access_holds _ _ I H) as Hm. unfold can_access in H. cbn in *.
  destruct (var_of m t) as [h|] eqn:V; [|congruence]. destruct (ptr h) eqn:P; [|congruence].
  pose proof (live_or_spent _ I _ _ V) as E. unfold deleter. rewrite <- E, P. cbn. eexists; split; [reflexivity|]. split; [reflexivity|].
  pose proof (var_set m t None t (var_in_range _ _ _ V)) as R. unfold var_of at 1. cbn [vars]. now rewrite R, Nat.eqb_refl.
Qed.

(* a handle that was reset does not unlock again at scope exit: whoever holds the mutex by then keeps it *)
Theorem mw_no_double_unlock m t h : MInv m -> var_of m t = Some h -> ptr h = false ->
  exists m', mstep m (MExit t) = Some (m', None) /\ mholder m' = mholder m.
Proof.
  intros I V P. pose proof (live_or_spent _ I _ _ V) as E. cbn. rewrite V, P. rewrite <- E, P. eexists; split; reflexivity.
Qed.
Theorem mw_reset_idempotent m t h : var_of m t = Some h -> ptr h = false -> mstep m (MReset t) = Some (m, None).
Proof. intros V P. cbn. now rewrite V, P. Qed.

(* every read returns the value of the last write, i.e. accesses are sequentially consistent *)
Theorem mw_read_last_write m t : can_access m t -> mstep m (MRead t) = Some (m, Some (value m)).
Proof. unfold can_access. cbn. destruct (var_of m t) as [h|]; [|congruence]. destruct (ptr h); congruence. Qed.

Example mw_history :
  fst (mrun (minit 2) [MAcquire 0; MAcquire 1; MWrite 0 7; MReset 0; MAcquire 1; MRead 1; MExit 0; MWrite 0 9; MExit 1; MAcquire 0])
  = [(Some None, true); (None, true); (Some None, true); (Some None, false); (Some None, true); (Some (Some 7), true);
     (Some None, true); (None, true); (Some None, false); (Some None, true)].
Proof. vm_compute. reflexivity. Qed.
