(* Facts about the Python string functions of Base/PyStr.v *)
From Coq Require Import List NArith Bool Lia.
From Dznpy Require Import Base.PyStr.
Import ListNotations.
Open Scope N_scope.

Definition no_break (x : str) : Prop := Forall (fun c => is_linebreak c = false) x.
Definition no_breakb (x : str) : bool := forallb (fun c => negb (is_linebreak c)) x.

Lemma no_breakb_spec x : no_breakb x = true <-> no_break x.
Proof.
  unfold no_breakb, no_break. rewrite forallb_forall, Forall_forall.
  split; intros H c Hc; specialize (H c Hc); destruct (is_linebreak c); simpl in *; congruence.
Qed.

Lemma LF_is_break : is_linebreak LF = true. Proof. reflexivity. Qed.
Lemma LF_not_CR : N.eqb LF 13 = false. Proof. reflexivity. Qed.

Lemma is_nil_true {A} (l : list A) : is_nil l = true <-> l = [].
Proof. destruct l; simpl; split; congruence. Qed.
Lemma is_nil_false {A} (l : list A) : is_nil l = false <-> l <> [].
Proof. destruct l; simpl; split; congruence. Qed.

Lemma str_eqb_eq a b : str_eqb a b = true <-> a = b.
Proof.
  revert b; induction a as [|x a IH]; intros [|y b]; simpl; split; try congruence; try discriminate; auto.
  - rewrite andb_true_iff, N.eqb_eq, IH. intros [-> ->]; reflexivity.
  - intros E; inversion E; subst. rewrite andb_true_iff, N.eqb_eq, IH. auto.
Qed.

Lemma str_eqb_refl a : str_eqb a a = true.
Proof. apply str_eqb_eq; reflexivity. Qed.

(* ---------- splitlines ---------- *)

Lemma splitlines_cons_nobreak c t :
  is_linebreak c = false ->
  splitlines (c :: t) = match splitlines t with [] => [[c]] | l :: ls => (c :: l) :: ls end.
Proof. intros H. cbn [splitlines]. rewrite H. reflexivity. Qed.

Lemma splitlines_LF t : splitlines (LF :: t) = [] :: splitlines t.
Proof. reflexivity. Qed.

(* a break-free line followed by LF is exactly one piece *)
Lemma splitlines_line l r : no_break l -> splitlines (l ++ LF :: r) = l :: splitlines r.
Proof.
  induction 1 as [|c l Hc Hl IH]; cbn [app].
  - apply splitlines_LF.
  - rewrite splitlines_cons_nobreak by assumption. rewrite IH. reflexivity.
Qed.

Definition terminated (ls : list str) : str := concat (map (fun l => l ++ [LF]) ls).

Lemma splitlines_terminated ls : Forall no_break ls -> splitlines (terminated ls) = ls.
Proof.
  unfold terminated. induction 1 as [|l ls Hl Hls IH]; cbn [map concat]; [reflexivity|].
  rewrite <- app_assoc. cbn [app]. rewrite splitlines_line by assumption. now rewrite IH.
Qed.

(* every piece splitlines returns is free of line breaks *)
Lemma splitlines_no_break x : Forall no_break (splitlines x).
Proof.
  assert (H : forall n x, (List.length x <= n)%nat -> Forall no_break (splitlines x)).
  { induction n as [|n IH]; intros y Hlen.
    - destruct y; [constructor | cbn in Hlen; lia].
    - destruct y as [|c t]; [constructor|]. cbn [List.length] in Hlen.
      cbn [splitlines]. destruct (is_linebreak c) eqn:Hc.
      + constructor; [constructor|].
        destruct (N.eqb c 13); [|apply IH; lia].
        destruct t as [|d t']; [apply IH; cbn; lia|].
        destruct (N.eqb d 10); apply IH; cbn [List.length] in *; lia.
      + specialize (IH t ltac:(lia)). destruct (splitlines t) as [|l ls].
        * constructor; [|constructor]. constructor; [assumption|constructor].
        * inversion IH; subst. constructor; [|assumption]. constructor; assumption. }
  apply (H (List.length x)); lia.
Qed.

Lemma splitlines_nil_iff x : splitlines x = [] <-> x = [].
Proof.
  split; [|intros ->; reflexivity].
  destruct x as [|c t]; [reflexivity|]. cbn [splitlines].
  destruct (is_linebreak c); [discriminate|]. destruct (splitlines t); discriminate.
Qed.

(* a non-empty break-free string is its own single piece *)
Lemma splitlines_single x : no_break x -> x <> [] -> splitlines x = [x].
Proof.
  induction 1 as [|c l Hc Hl IH]; [congruence|]. intros _.
  rewrite splitlines_cons_nobreak by assumption.
  destruct l as [|d l']; [reflexivity|]. rewrite IH by discriminate. reflexivity.
Qed.

(* ---------- join ---------- *)

Lemma join_cons sep x y t : join sep (x :: y :: t) = x ++ sep ++ join sep (y :: t).
Proof. reflexivity. Qed.

Lemma join_terminated ls : ls <> [] -> join [LF] ls ++ [LF] = terminated ls.
Proof.
  unfold terminated. induction ls as [|x ls IH]; [congruence|]. intros _.
  destruct ls as [|y t].
  - cbn. now rewrite app_nil_r.
  - rewrite join_cons. change (map ?f (x :: ?r)) with (f x :: map f r). cbn [concat].
    rewrite <- !app_assoc. f_equal. cbn [app]. f_equal. apply IH. discriminate.
Qed.

(* ---------- strip ---------- *)

Lemma blank_app a b : blank (a ++ b) = blank a && blank b.
Proof. unfold blank. apply forallb_app. Qed.

Lemma lstrip_blank x : blank x = true -> lstrip x = [].
Proof. induction x as [|c t IH]; simpl; auto. destruct (is_space c); simpl; auto; discriminate. Qed.

Lemma lstrip_app_blank a b : blank a = true -> lstrip (a ++ b) = lstrip b.
Proof. induction a as [|c t IH]; simpl; auto. destruct (is_space c); simpl; auto; discriminate. Qed.

Lemma lstrip_nonspace c t : is_space c = false -> lstrip (c :: t) = c :: t.
Proof. intros H; simpl; now rewrite H. Qed.

Lemma lstrip_suffix x : exists p, x = p ++ lstrip x /\ blank p = true.
Proof.
  induction x as [|c t [p [E B]]]; [exists []; auto|]. simpl.
  destruct (is_space c) eqn:Hc.
  - exists (c :: p). simpl. rewrite Hc, B. split; [congruence|reflexivity].
  - exists []. auto.
Qed.

Lemma lstrip_no_break x : no_break x -> no_break (lstrip x).
Proof.
  induction 1 as [|c t Hc Ht IH]; simpl; [constructor|].
  destruct (is_space c); [assumption|constructor; assumption].
Qed.

Lemma no_break_app a b : no_break (a ++ b) <-> no_break a /\ no_break b.
Proof. apply Forall_app. Qed.

Lemma no_break_rev a : no_break a -> no_break (rev a).
Proof. unfold no_break. rewrite !Forall_forall. intros H c Hc. apply H. now apply in_rev. Qed.

Lemma rstrip_no_break x : no_break x -> no_break (rstrip x).
Proof. intros H. unfold rstrip. apply no_break_rev, lstrip_no_break, no_break_rev, H. Qed.

Lemma strip_no_break x : no_break x -> no_break (strip x).
Proof. intros H. unfold strip. apply lstrip_no_break, rstrip_no_break, H. Qed.

Lemma no_break_repeat_SP n : no_break (repeat SP n).
Proof. induction n; simpl; constructor; auto. Qed.

(* rstrip x is a prefix of x with a blank remainder *)
Lemma rstrip_prefix x : exists q, x = rstrip x ++ q /\ blank q = true.
Proof.
  unfold rstrip. destruct (lstrip_suffix (rev x)) as [p [E B]].
  exists (rev p). split.
  - rewrite <- (rev_involutive x) at 1. rewrite E at 1. now rewrite rev_app_distr.
  - unfold blank in *. rewrite forallb_forall in *. intros c Hc. apply B. now apply in_rev.
Qed.

Lemma blank_rev x : blank (rev x) = blank x.
Proof.
  unfold blank. destruct (forallb is_space x) eqn:E.
  - rewrite forallb_forall in *. intros c Hc. apply E. now apply in_rev.
  - destruct (forallb is_space (rev x)) eqn:E'; auto.
    rewrite forallb_forall in E'. assert (forallb is_space x = true); [|congruence].
    apply forallb_forall. intros c Hc. apply E'. now apply -> in_rev.
Qed.

Lemma rstrip_blank x : blank x = true -> rstrip x = [].
Proof. intros H. unfold rstrip. rewrite lstrip_blank; [reflexivity|]. now rewrite blank_rev. Qed.

(* rstrip is idempotent and removes nothing from a string that ends in a non-space *)
Lemma lstrip_idem x : lstrip (lstrip x) = lstrip x.
Proof.
  induction x as [|c t IH]; simpl; auto. destruct (is_space c) eqn:E; auto. simpl. now rewrite E.
Qed.

Lemma rstrip_idem x : rstrip (rstrip x) = rstrip x.
Proof. unfold rstrip. rewrite rev_involutive, lstrip_idem. reflexivity. Qed.

Lemma rstrip_app_nonblank a b : blank b = false -> rstrip (a ++ b) = a ++ rstrip b.
Proof.
  intros Hb. unfold rstrip. rewrite rev_app_distr.
  assert (H : forall u v, blank u = false -> lstrip (u ++ v) = lstrip u ++ v).
  { induction u as [|c t IH]; intros v Hu; [discriminate|]. simpl in *.
    destruct (is_space c); simpl in *; auto. }
  rewrite H by now rewrite blank_rev. rewrite rev_app_distr, rev_involutive. reflexivity.
Qed.

Lemma rstrip_app_blank a b : blank b = true -> rstrip (a ++ b) = rstrip a.
Proof.
  intros Hb. unfold rstrip. rewrite rev_app_distr, lstrip_app_blank; [reflexivity|now rewrite blank_rev].
Qed.
