From Coq Require Import List NArith Bool Lia Arith String.
From Dznpy Require Import Base.PyStr Model.TextGen Spec.FlattenSpec Spec.IndentSpec
  Proofs.PyStrFacts Proofs.TextGenFacts Proofs.C18Facts Proofs.C17Facts.
Import ListNotations.
Open Scope nat_scope.

Definition slashes : str := lit "//".
Definition starts_slashes (l : str) : bool := startswith slashes l.

Lemma slashes_ok : glyph_ok slashes = true. Proof. reflexivity. Qed.

Lemma comment_line_bulleted l : comment_line l = bulleted comment_ind slashes l.
Proof. reflexivity. Qed.

(* the text of every comment line: "// " + the line without trailing whitespace, or a bare "//" *)
Lemma comment_line_text l : blank l = false -> comment_line l = lit "// " ++ rstrip l.
Proof. intros H. rewrite comment_line_bulleted, bullet_row_text by (auto using slashes_ok). reflexivity. Qed.

Lemma comment_line_blank l : blank l = true -> comment_line l = slashes.
Proof. intros H. rewrite comment_line_bulleted. apply bullet_row_blank; auto using slashes_ok. Qed.

Lemma comment_line_slashes l : starts_slashes (comment_line l) = true.
Proof.
  destruct (blank l) eqn:B; [now rewrite comment_line_blank|now rewrite comment_line_text].
Qed.

(* the physical lines of a rendered comment *)
Lemma rendered_lines ls : Forall no_break ls -> splitlines (str_comment ls) = map comment_line ls.
Proof.
  intros H. unfold str_comment. rewrite indent_lines_comment, str_lines_terminated.
  apply splitlines_terminated. rewrite Forall_forall in *. intros x Hx.
  apply in_map_iff in Hx as [l [<- Hl]]. apply comment_line_no_break, H, Hl.
Qed.

Lemma comment_all_slashes ls : Forall no_break ls ->
  Forall (fun l => starts_slashes l = true) (splitlines (str_comment ls)).
Proof.
  intros H. rewrite rendered_lines by assumption. rewrite Forall_forall. intros x Hx.
  apply in_map_iff in Hx as [l [<- _]]. apply comment_line_slashes.
Qed.

Lemma comment_one_line_per_piece ls : Forall no_break ls ->
  List.length (splitlines (str_comment ls)) = List.length ls.
Proof. intros H. rewrite rendered_lines by assumption. apply map_length. Qed.

(* Comment(content): whatever is put in, every rendered physical line starts with // *)
Lemma comment_of_content_slashes c : wfc c = true ->
  Forall (fun l => starts_slashes l = true) (splitlines (str_comment (appended c))).
Proof. intros H. apply comment_all_slashes, appended_no_break, H. Qed.

Lemma comment_of_content_lines c : wfc c = true ->
  splitlines (str_comment (appended c)) = map comment_line (pieces_top c).
Proof. intros H. rewrite rendered_lines by now apply appended_no_break. now rewrite appended_pieces. Qed.

(* rendering is a function of the lines buffer only, and distributes over extension: a comment that
   was rendered and then extended renders as the old rendering followed by the rendering of the addition *)
Lemma str_lines_app a b : str_lines (a ++ b) = (str_lines a ++ str_lines b)%list.
Proof.
  rewrite !str_lines_terminated. unfold terminated. now rewrite map_app, concat_app.
Qed.

Lemma comment_extend ls c : str_comment (ls ++ appended c) = (str_comment ls ++ str_comment (appended c))%list.
Proof. unfold str_comment. rewrite !indent_lines_comment, map_app. apply str_lines_app. Qed.

(* a rendered comment nested in other content contributes exactly its rendered lines *)
Lemma comment_nested ls : wf_lines ls = true -> lns (mk1 (CList [CComment ls])) = map comment_line ls.
Proof.
  intros H. unfold mk1. rewrite lines_eq_spec. 2:{ cbn. now rewrite H. }
  cbn. now rewrite app_nil_r.
Qed.
