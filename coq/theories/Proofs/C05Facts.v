From Coq Require Import List NArith ZArith Bool Lia Arith String.
From Dznpy Require Import Base.PyStr Base.Result Base.Json Model.Scoping Model.Ast Model.JsonAst Spec.DznFile Spec.LookupSpec
  Proofs.PyStrFacts Proofs.C14Facts.
Import ListNotations.
Open Scope nat_scope.

(* ---------- generic ---------- *)

Lemma mapM_map {A B C} (f : B -> result C) (g : A -> B) (h : A -> C) l :
  (forall x, In x l -> f (g x) = Ok (h x)) -> mapM f (map g l) = Ok (map h l).
Proof.
  induction l as [|a l IH]; intros H; [reflexivity|]. cbn [map mapM].
  rewrite H by (now left). cbn [bind]. rewrite IH by (intros; apply H; now right). reflexivity.
Qed.

Lemma concatM_map {A B C} (f : B -> result (list C)) (g : A -> B) (h : A -> list C) l :
  (forall x, In x l -> f (g x) = Ok (h x)) -> concatM f (map g l) = Ok (flat_map h l).
Proof.
  induction l as [|a l IH]; intros H; [reflexivity|]. cbn [map concatM flat_map].
  rewrite H by (now left). cbn [bind]. rewrite IH by (intros; apply H; now right). reflexivity.
Qed.

Lemma forallb_In {A} (f : A -> bool) l x : forallb f l = true -> In x l -> f x = true.
Proof. rewrite forallb_forall. auto. Qed.

(* ---------- scope names ---------- *)

Lemma json_strs_map i : json_strs (map JStr i) = Some i.
Proof. induction i as [|x i IH]; [reflexivity|]. cbn [map json_strs fold_right] in *. unfold json_strs in IH. now rewrite IH. Qed.

Lemma ids_ok_spec i : ids_ok i = true -> i <> [] /\ valid_ids i.
Proof.
  unfold ids_ok. rewrite andb_true_iff, negb_true_iff. intros [H1 H2]. split.
  - now apply is_nil_false.
  - unfold valid_ids. rewrite Forall_forall. rewrite forallb_forall in H2. exact H2.
Qed.

Lemma parse_scope_name_ok i : ids_ok i = true -> parse_scope_name (j_scope i) = Ok i.
Proof.
  intros H. apply ids_ok_spec in H as [Hne Hv].
  unfold parse_scope_name, j_scope. cbn [helper as_obj bind].
  change (assert_class [jcls "scope_name"; (k "ids", JArr (map JStr i))] (JsonAst.k "scope_name")) with (@Ok unit tt).
  cbn [bind]. change (get_list _ _) with (@Ok (list json) (map JStr i)). cbn [bind].
  destruct i as [|a i']; [congruence|]. cbn [map is_nil].
  change (JStr a :: map JStr i') with (map JStr (a :: i')). rewrite json_strs_map. now apply mk_ids_ok.
Qed.

(* ---------- formals, events, ports ---------- *)

Lemma parse_formal_ok ex f : wf_formal f = true -> parse_formal (j_formal ex f) = Ok (formal_of f).
Proof.
  intros H. unfold wf_formal in H. unfold parse_formal, j_formal.
  destruct ex; cbn [app helper as_obj bind].
  all: change (assert_class _ (JsonAst.k "formal")) with (@Ok unit tt); cbn [bind].
  all: change (get_str _ (JsonAst.k "name")) with (@Ok str (df_name f)); cbn [bind].
  all: change (get_dict _ (JsonAst.k "type_name")) with (@Ok json (j_scope (df_type f))); cbn [bind].
  all: rewrite parse_scope_name_ok by assumption; cbn [bind].
  all: change (get_str _ (JsonAst.k "direction")) with (@Ok str (fdir_str (df_dir f))); cbn [bind].
  all: destruct f as [n t d]; destruct d; reflexivity.
Qed.

Lemma parse_formals_ok ex fs : forallb wf_formal fs = true ->
  parse_formals (j_formals ex fs) = Ok (map formal_of fs).
Proof.
  intros H. unfold parse_formals, j_formals. cbn [helper as_obj bind].
  change (assert_class _ (JsonAst.k "formals")) with (@Ok unit tt). cbn [bind].
  change (get_list _ _) with (@Ok (list json) (map (j_formal ex) fs)). cbn [bind].
  apply mapM_map. intros x Hx. apply parse_formal_ok. eapply forallb_In; eauto.
Qed.

Lemma existsb_map {A B} (f : B -> bool) (g : A -> B) l : existsb f (map g l) = existsb (fun x => f (g x)) l.
Proof. induction l; simpl; auto. now rewrite IHl. Qed.

Lemma forallb_negb_existsb {A} (f : A -> bool) l : forallb (fun x => negb (f x)) l = true -> existsb f l = false.
Proof. induction l; simpl; auto. rewrite andb_true_iff, negb_true_iff. intros [-> H]. auto. Qed.

Lemma parse_event_ok ex e : wf_event e = true -> parse_event (j_event ex e) = Ok (event_of e).
Proof.
  intros H. unfold wf_event in H. apply andb_true_iff in H as [H Hd]. apply andb_true_iff in H as [Hr Hf].
  unfold parse_event, j_event. cbn [helper as_obj bind].
  change (assert_class _ (JsonAst.k "event")) with (@Ok unit tt). cbn [bind].
  change (get_str _ (JsonAst.k "name")) with (@Ok str (de_name e)). cbn [bind].
  match goal with |- context [get_dict ?o (JsonAst.k "signature")] =>
    change (get_dict o (JsonAst.k "signature")) with
      (@Ok json (JObj [jcls "signature"; (k "type_name", j_scope (de_ret e)); (k "formals", j_formals ex (de_formals e))])) end.
  cbn [bind]. unfold parse_signature. cbn [helper as_obj bind].
  change (assert_class _ (JsonAst.k "signature")) with (@Ok unit tt). cbn [bind].
  change (get_dict _ (JsonAst.k "type_name")) with (@Ok json (j_scope (de_ret e))). cbn [bind].
  rewrite parse_scope_name_ok by assumption. cbn [bind].
  change (get_dict _ (JsonAst.k "formals")) with (@Ok json (j_formals ex (de_formals e))). cbn [bind].
  rewrite parse_formals_ok by assumption. cbn [bind fst snd].
  change (get_str _ (JsonAst.k "direction")) with (@Ok str (edir_str (de_dir e))). cbn [bind].
  destruct e as [n d r fs]. cbn [de_dir de_ret de_formals de_name] in *. destruct d.
  - reflexivity.
  - apply andb_true_iff in Hd as [Hv Hno]. change (parse_event_direction (edir_str EOut)) with (@Ok edir EOut). cbn [bind].
    change void_ids with [DznFile.k "void"]. rewrite Hv. cbn [negb].
    rewrite existsb_map. rewrite forallb_negb_existsb; [reflexivity|].
    rewrite forallb_forall in *. intros x Hx. specialize (Hno x Hx). cbn. destruct (df_dir x); auto.
Qed.

Lemma parse_events_ok ex es : forallb wf_event es = true ->
  parse_events (JObj [jcls "events"; (k "elements", JArr (map (j_event ex) es))]) = Ok (map event_of es).
Proof.
  intros H. unfold parse_events. cbn [helper as_obj bind].
  change (assert_class _ (JsonAst.k "events")) with (@Ok unit tt). cbn [bind].
  change (get_list _ _) with (@Ok (list json) (map (j_event ex) es)). cbn [bind].
  apply mapM_map. intros x Hx. apply parse_event_ok. eapply forallb_In; eauto.
Qed.

Lemma parse_port_ok ex p : wf_port p = true -> parse_port (j_port ex p) = Ok (port_of p).
Proof.
  intros H. unfold wf_port in H. destruct p as [n t d inj]. cbn [dp_type] in H.
  unfold parse_port, parse_injected, j_port. cbn [dp_name dp_type dp_dir dp_injected].
  destruct inj, ex; cbn [app helper as_obj bind].
  all: change (assert_class _ (JsonAst.k "port")) with (@Ok unit tt); cbn [bind].
  all: change (get_str _ (JsonAst.k "name")) with (@Ok str n); cbn [bind].
  all: change (get_dict _ (JsonAst.k "type_name")) with (@Ok json (j_scope t)); cbn [bind].
  all: rewrite parse_scope_name_ok by assumption; cbn [bind].
  all: change (get_str _ (JsonAst.k "direction")) with (@Ok str (pdir_str d)); cbn [bind].
  all: destruct d; reflexivity.
Qed.

Lemma parse_ports_ok ex ps : forallb wf_port ps = true -> parse_ports (j_ports ex ps) = Ok (map port_of ps).
Proof.
  intros H. unfold parse_ports, j_ports. cbn [helper as_obj bind].
  change (assert_class _ (JsonAst.k "ports")) with (@Ok unit tt). cbn [bind].
  change (get_list _ _) with (@Ok (list json) (map (j_port ex) ps)). cbn [bind].
  apply mapM_map. intros x Hx. apply parse_port_ok. eapply forallb_In; eauto.
Qed.

(* ---------- paths ---------- *)

Lemma ids_sum_app_from acc l : fold_left ids_add l acc = acc ++ fold_left ids_add l [].
Proof.
  revert acc; induction l as [|a l IH]; intros acc; cbn [fold_left]; [now rewrite app_nil_r|].
  rewrite IH. rewrite (IH (ids_add [] a)). unfold ids_add. cbn [app]. now rewrite app_assoc.
Qed.

Lemma tree_fqn_snoc t n : tree_fqn (t ++ [n]) = tree_fqn t ++ n.
Proof. unfold tree_fqn, ids_sum. rewrite fold_left_app. cbn. reflexivity. Qed.

Lemma fqn_member t n : fqn_member_name t n = tree_fqn t ++ n.
Proof. reflexivity. Qed.

(* ---------- types ---------- *)

Lemma parse_enum_ok parent n fs : ids_ok n = true ->
  parse_enum (j_type (DEnum n fs)) parent = Ok (enum_at (tree_fqn parent) n fs).
Proof.
  intros H. unfold parse_enum, j_type, named. cbn [helper as_obj bind].
  change (assert_class _ (JsonAst.k "enum")) with (@Ok unit tt). cbn [bind].
  change (get_dict _ (JsonAst.k "name")) with (@Ok json (j_scope n)). cbn [bind].
  rewrite parse_scope_name_ok by assumption. cbn [bind].
  reflexivity.
Qed.

Lemma parse_subint_ok parent n lo hi : ids_ok n = true ->
  parse_subint (j_type (DSubInt n lo hi)) parent = Ok (subint_at (tree_fqn parent) n lo hi).
Proof.
  intros H. unfold parse_subint, j_type, named. cbn [helper as_obj bind].
  change (assert_class _ (JsonAst.k "subint")) with (@Ok unit tt). cbn [bind].
  change (get_dict _ (JsonAst.k "name")) with (@Ok json (j_scope n)). cbn [bind].
  rewrite parse_scope_name_ok by assumption. cbn [bind].
  reflexivity.
Qed.

Lemma parse_type_item_ok parent t : wf_type t = true ->
  parse_type_item parent (j_type t) = Ok [type_at (tree_fqn parent) t].
Proof.
  intros H. destruct t as [n fs | n lo hi]; unfold parse_type_item.
  - change (get_class_value (j_type (DEnum n fs))) with (@Ok json (JStr (k "enum"))). cbn [bind].
    change (jstr_is (JStr (k "enum")) (JsonAst.k "enum")) with true. cbn iota.
    rewrite parse_enum_ok by exact H. reflexivity.
  - change (get_class_value (j_type (DSubInt n lo hi))) with (@Ok json (JStr (k "subint"))). cbn [bind].
    change (jstr_is (JStr (k "subint")) (JsonAst.k "enum")) with false.
    change (jstr_is (JStr (k "subint")) (JsonAst.k "subint")) with true. cbn iota.
    rewrite parse_subint_ok by exact H. reflexivity.
Qed.

Lemma flat_map_singleton {A B} (f : A -> B) l : flat_map (fun x => [f x]) l = map f l.
Proof. induction l; simpl; congruence. Qed.

Lemma parse_types_ok parent ts : forallb wf_type ts = true ->
  parse_types (JObj [jcls "types"; (k "elements", JArr (map j_type ts))]) parent = Ok (map (type_at (tree_fqn parent)) ts).
Proof.
  intros H. unfold parse_types. cbn [helper as_obj bind].
  change (assert_class _ (JsonAst.k "types")) with (@Ok unit tt). cbn [bind].
  change (get_list _ _) with (@Ok (list json) (map j_type ts)). cbn [bind].
  rewrite (concatM_map _ _ (fun t => [type_at (tree_fqn parent) t])).
  - now rewrite flat_map_singleton.
  - intros x Hx. apply parse_type_item_ok. eapply forallb_In; eauto.
Qed.

Lemma parse_itype_item_ok parent i : wf_itype i = true ->
  parse_type_item parent (j_itype i) = Ok (map (type_at (tree_fqn parent)) (types_of [i])).
Proof.
  intros H. destruct i as [t|c]; cbn [j_itype types_of flat_map app map].
  - now apply parse_type_item_ok.
  - cbn [wf_itype] in H. apply andb_true_iff in H as [H1 H2]. apply negb_true_iff in H1, H2.
    unfold parse_type_item.
    change (get_class_value (JObj _)) with (@Ok json (JStr c)). cbn [bind].
    change (jstr_is (JStr c) (JsonAst.k "enum")) with (str_eqb c (k "enum")). rewrite H1.
    change (jstr_is (JStr c) (JsonAst.k "subint")) with (str_eqb c (k "subint")). rewrite H2. reflexivity.
Qed.

Lemma types_of_flat ts : types_of ts = flat_map (fun i => types_of [i]) ts.
Proof. unfold types_of. induction ts as [|i ts IH]; cbn [flat_map]; [reflexivity|]. rewrite app_nil_r. now f_equal. Qed.

Lemma parse_itypes_ok parent ts : forallb wf_itype ts = true ->
  parse_types (JObj [jcls "types"; (k "elements", JArr (map j_itype ts))]) parent = Ok (map (type_at (tree_fqn parent)) (types_of ts)).
Proof.
  intros H. unfold parse_types. cbn [helper as_obj bind].
  change (assert_class _ (JsonAst.k "types")) with (@Ok unit tt). cbn [bind].
  change (get_list _ _) with (@Ok (list json) (map j_itype ts)). cbn [bind].
  rewrite (concatM_map _ _ (fun i => map (type_at (tree_fqn parent)) (types_of [i]))).
  - f_equal. rewrite (types_of_flat ts). induction ts as [|i ts IH]; cbn [flat_map]; [reflexivity|].
    rewrite map_app. f_equal. apply IH. cbn [forallb] in H. now apply andb_true_iff in H as [_ H].
  - intros x Hx. apply parse_itype_item_ok. eapply forallb_In; eauto.
Qed.

Lemma type_enums_at p ts : type_enums (map (type_at p) ts) = enums_of_types p ts.
Proof. unfold type_enums, enums_of_types. induction ts as [|[n fs|n lo hi] ts IH]; cbn; congruence. Qed.
Lemma type_subints_at p ts : type_subints (map (type_at p) ts) = subints_of_types p ts.
Proof. unfold type_subints, subints_of_types. induction ts as [|[n fs|n lo hi] ts IH]; cbn; congruence. Qed.

(* ---------- FileContents algebra ---------- *)

Lemma fc_app_empty_l x : fc_app empty_fc x = x.
Proof. destruct x; reflexivity. Qed.
Lemma fc_app_empty_r x : fc_app x empty_fc = x.
Proof. destruct x; unfold fc_app; cbn. now rewrite !app_nil_r. Qed.
Lemma fc_app_assoc a b c : fc_app (fc_app a b) c = fc_app a (fc_app b c).
Proof. destruct a, b, c; unfold fc_app; cbn. now rewrite !app_assoc. Qed.

(* ---------- single declarations (no namespace) ---------- *)

Section Decls.
Variables (ex : bool) (parent : nstree) (fc : file_contents) (rec : nstree -> file_contents -> json -> result file_contents).
Let path := tree_fqn parent.

Ltac class_is c :=
  match goal with |- context [get_class_value ?j] =>
    change (get_class_value j) with (@Ok json (JStr (DznFile.k c))) end; cbn [bind].

Lemma pe_component n ps : ids_ok n = true -> forallb wf_port ps = true ->
  parse_element_with rec parent fc (j_decl ex (DComp n ps)) = Ok (fc_app fc (declared path (DComp n ps))).
Proof.
  intros Hn Hp. cbn [j_decl]. destruct ex; cbn [app parse_element_with].
  all: class_is "component"%string.
  all: change (jstr_is (JStr (k "component")) (JsonAst.k "component")) with true; cbn iota.
  all: unfold parse_component_like, named; cbn [helper as_obj bind].
  all: change (assert_class _ (JsonAst.k "component")) with (@Ok unit tt); cbn [bind].
  all: change (get_dict _ (JsonAst.k "name")) with (@Ok json (j_scope n)); cbn [bind].
  all: rewrite parse_scope_name_ok by assumption; cbn [bind].
  all: match goal with |- context [get_dict ?o (JsonAst.k "ports")] =>
         match o with context [j_ports ?e ?q] =>
           change (get_dict o (JsonAst.k "ports")) with (@Ok json (j_ports e q)) end end; cbn [bind].
  all: rewrite parse_ports_ok by assumption; cbn [bind].
  all: destruct fc; unfold add_component, fc_app, declared, only_components, component_at, path; cbn; now rewrite ?app_nil_r.
Qed.

Lemma pe_foreign n ps : ids_ok n = true -> forallb wf_port ps = true ->
  parse_element_with rec parent fc (j_decl ex (DForeign n ps)) = Ok (fc_app fc (declared path (DForeign n ps))).
Proof.
  intros Hn Hp. cbn [j_decl parse_element_with].
  class_is "foreign"%string.
  change (jstr_is (JStr (k "foreign")) (JsonAst.k "component")) with false.
  change (jstr_is (JStr (k "foreign")) (JsonAst.k "enum")) with false.
  change (jstr_is (JStr (k "foreign")) (JsonAst.k "extern")) with false.
  change (jstr_is (JStr (k "foreign")) (JsonAst.k "foreign")) with true. cbn iota.
  unfold parse_component_like, named; cbn [helper as_obj bind].
  change (assert_class _ (JsonAst.k "foreign")) with (@Ok unit tt); cbn [bind].
  change (get_dict _ (JsonAst.k "name")) with (@Ok json (j_scope n)); cbn [bind].
  rewrite parse_scope_name_ok by assumption; cbn [bind].
  change (get_dict _ (JsonAst.k "ports")) with (@Ok json (j_ports ex ps)); cbn [bind].
  rewrite parse_ports_ok by assumption; cbn [bind].
  destruct fc; unfold add_foreign, fc_app, declared, component_at, path; cbn; now rewrite ?app_nil_r.
Qed.

Lemma pe_enum n fs : ids_ok n = true ->
  parse_element_with rec parent fc (j_decl ex (DType (DEnum n fs))) = Ok (fc_app fc (declared path (DType (DEnum n fs)))).
Proof.
  intros Hn. cbn [j_decl]. unfold j_type. cbn [parse_element_with].
  class_is "enum"%string.
  change (jstr_is (JStr (k "enum")) (JsonAst.k "component")) with false.
  change (jstr_is (JStr (k "enum")) (JsonAst.k "enum")) with true. cbn iota.
  change (JObj [jcls "enum"; (k "name", j_scope n); (k "fields", JObj [jcls "fields"; (k "elements", JArr (map JStr fs))])])
    with (j_type (DEnum n fs)).
  rewrite parse_enum_ok by assumption. cbn [bind].
  destruct fc; unfold add_enums, fc_app, declared, path; cbn; now rewrite ?app_nil_r.
Qed.

Lemma pe_subint n lo hi : ids_ok n = true ->
  parse_element_with rec parent fc (j_decl ex (DType (DSubInt n lo hi))) = Ok (fc_app fc (declared path (DType (DSubInt n lo hi)))).
Proof.
  intros Hn. cbn [j_decl]. unfold j_type. cbn [parse_element_with].
  class_is "subint"%string.
  change (jstr_is (JStr (k "subint")) (JsonAst.k "component")) with false.
  change (jstr_is (JStr (k "subint")) (JsonAst.k "enum")) with false.
  change (jstr_is (JStr (k "subint")) (JsonAst.k "extern")) with false.
  change (jstr_is (JStr (k "subint")) (JsonAst.k "foreign")) with false.
  change (jstr_is (JStr (k "subint")) (JsonAst.k "file-name")) with false.
  change (jstr_is (JStr (k "subint")) (JsonAst.k "import")) with false.
  change (jstr_is (JStr (k "subint")) (JsonAst.k "interface")) with false.
  change (jstr_is (JStr (k "subint")) (JsonAst.k "namespace")) with false.
  change (jstr_is (JStr (k "subint")) (JsonAst.k "system")) with false.
  change (jstr_is (JStr (k "subint")) (JsonAst.k "subint")) with true. cbn iota.
  change (JObj [jcls "subint"; (k "name", j_scope n); (k "range", JObj [jcls "range"; (k "from", JInt lo); (k "to", JInt hi)])])
    with (j_type (DSubInt n lo hi)).
  rewrite parse_subint_ok by assumption. cbn [bind].
  destruct fc; unfold add_subints, fc_app, declared, path; cbn; now rewrite ?app_nil_r.
Qed.

Lemma pe_extern n v : ids_ok n = true ->
  parse_element_with rec parent fc (j_decl ex (DExtern n v)) = Ok (fc_app fc (declared path (DExtern n v))).
Proof.
  intros Hn. cbn [j_decl parse_element_with].
  class_is "extern"%string.
  change (jstr_is (JStr (k "extern")) (JsonAst.k "component")) with false.
  change (jstr_is (JStr (k "extern")) (JsonAst.k "enum")) with false.
  change (jstr_is (JStr (k "extern")) (JsonAst.k "extern")) with true. cbn iota.
  unfold parse_extern, named; cbn [helper as_obj bind].
  change (assert_class _ (JsonAst.k "extern")) with (@Ok unit tt); cbn [bind].
  change (get_dict _ (JsonAst.k "name")) with (@Ok json (j_scope n)); cbn [bind].
  rewrite parse_scope_name_ok by assumption; cbn [bind].
  destruct fc; unfold add_extern, fc_app, declared, path; cbn; now rewrite ?app_nil_r.
Qed.

Lemma pe_import n : parse_element_with rec parent fc (j_decl ex (DImport n)) = Ok (fc_app fc (declared path (DImport n))).
Proof. destruct fc; unfold fc_app; cbn; now rewrite ?app_nil_r. Qed.

Lemma pe_file n : parse_element_with rec parent fc (j_decl ex (DFile n)) = Ok (fc_app fc (declared path (DFile n))).
Proof. destruct fc; unfold fc_app; cbn; now rewrite ?app_nil_r. Qed.

Lemma pe_junk j : (match j with JObj _ => false | _ => true end) = true ->
  parse_element_with rec parent fc (j_decl ex (DJunk j)) = Ok (fc_app fc (declared path (DJunk j))).
Proof. intros H. cbn [j_decl declared]. rewrite fc_app_empty_r. destruct j; try reflexivity. discriminate. Qed.

Lemma pe_unknown c : known_class c = false ->
  parse_element_with rec parent fc (j_decl ex (DUnknown c)) = Ok (fc_app fc (declared path (DUnknown c))).
Proof.
  intros H. cbn [j_decl declared]. rewrite fc_app_empty_r. cbn [parse_element_with].
  change (get_class_value _) with (@Ok json (JStr c)). cbn [bind].
  unfold known_class in H. cbn [existsb] in H. rewrite !orb_false_iff in H.
  destruct H as (H1 & H2 & H3 & H4 & H5 & H6 & H7 & H8 & H9 & H10 & _).
  unfold jstr_is. change JsonAst.k with DznFile.k.
  now rewrite H1, H2, H3, H4, H5, H6, H7, H8, H9, H10.
Qed.

Lemma pe_interface n ts es : ids_ok n = true -> forallb wf_itype ts = true -> forallb wf_event es = true ->
  parse_element_with rec parent fc (j_decl ex (DItf n ts es)) = Ok (fc_app fc (declared path (DItf n ts es))).
Proof.
  intros Hn Ht He. cbn [j_decl]. destruct ex; cbn [app parse_element_with].
  all: class_is "interface"%string.
  all: change (jstr_is (JStr (k "interface")) (JsonAst.k "component")) with false.
  all: change (jstr_is (JStr (k "interface")) (JsonAst.k "enum")) with false.
  all: change (jstr_is (JStr (k "interface")) (JsonAst.k "extern")) with false.
  all: change (jstr_is (JStr (k "interface")) (JsonAst.k "foreign")) with false.
  all: change (jstr_is (JStr (k "interface")) (JsonAst.k "file-name")) with false.
  all: change (jstr_is (JStr (k "interface")) (JsonAst.k "import")) with false.
  all: change (jstr_is (JStr (k "interface")) (JsonAst.k "interface")) with true; cbn iota.
  all: unfold parse_interface, named; cbn [helper as_obj bind].
  all: change (assert_class _ (JsonAst.k "interface")) with (@Ok unit tt); cbn [bind].
  all: change (get_dict _ (JsonAst.k "name")) with (@Ok json (j_scope n)); cbn [bind].
  all: rewrite parse_scope_name_ok by assumption; cbn [bind].
  all: match goal with |- context [get_dict ?o (JsonAst.k "types")] =>
         match o with context [map j_itype ?q] =>
         change (get_dict o (JsonAst.k "types")) with (@Ok json (JObj [jcls "types"; (k "elements", JArr (map j_itype q))])) end end; cbn [bind].
  all: rewrite parse_itypes_ok by assumption; cbn [bind].
  all: match goal with |- context [get_dict ?o (JsonAst.k "events")] =>
         match o with context [map (j_event ?e) ?q] =>
           change (get_dict o (JsonAst.k "events")) with (@Ok json (JObj [jcls "events"; (k "elements", JArr (map (j_event e) q))])) end end; cbn [bind].
  all: rewrite parse_events_ok by assumption; cbn [bind it_types].
  all: rewrite type_enums_at, type_subints_at, tree_fqn_snoc.
  all: destruct fc; unfold add_subints, add_enums, add_interface, fc_app, declared, interface_at, path; cbn; now rewrite ?app_nil_r.
Qed.

Lemma pe_system n ps is_ bs : ids_ok n = true -> forallb wf_port ps = true -> forallb (fun i => ids_ok (snd i)) is_ = true ->
  parse_element_with rec parent fc (j_decl ex (DSys n ps is_ bs)) = Ok (fc_app fc (declared path (DSys n ps is_ bs))).
Proof.
  intros Hn Hp Hi. cbn [j_decl parse_element_with].
  class_is "system"%string.
  change (jstr_is (JStr (k "system")) (JsonAst.k "component")) with false.
  change (jstr_is (JStr (k "system")) (JsonAst.k "enum")) with false.
  change (jstr_is (JStr (k "system")) (JsonAst.k "extern")) with false.
  change (jstr_is (JStr (k "system")) (JsonAst.k "foreign")) with false.
  change (jstr_is (JStr (k "system")) (JsonAst.k "file-name")) with false.
  change (jstr_is (JStr (k "system")) (JsonAst.k "import")) with false.
  change (jstr_is (JStr (k "system")) (JsonAst.k "interface")) with false.
  change (jstr_is (JStr (k "system")) (JsonAst.k "namespace")) with false.
  change (jstr_is (JStr (k "system")) (JsonAst.k "system")) with true. cbn iota.
  unfold parse_system, named; cbn [helper as_obj bind].
  change (assert_class _ (JsonAst.k "system")) with (@Ok unit tt); cbn [bind].
  change (get_dict _ (JsonAst.k "name")) with (@Ok json (j_scope n)); cbn [bind].
  rewrite parse_scope_name_ok by assumption; cbn [bind].
  change (get_dict _ (JsonAst.k "ports")) with (@Ok json (j_ports ex ps)); cbn [bind].
  rewrite parse_ports_ok by assumption; cbn [bind].
  match goal with |- context [get_dict ?o (JsonAst.k "instances")] =>
    change (get_dict o (JsonAst.k "instances")) with
      (@Ok json (JObj [jcls "instances"; (k "elements", JArr (map (fun i => JObj [jcls "instance"; (k "name", JStr (fst i)); (k "type_name", j_scope (snd i))]) is_))])) end.
  cbn [bind]. unfold parse_instances. cbn [helper as_obj bind].
  change (assert_class _ (JsonAst.k "instances")) with (@Ok unit tt); cbn [bind].
  match goal with |- context [get_list ?o (JsonAst.k "elements")] =>
    change (get_list o (JsonAst.k "elements")) with
      (@Ok (list json) (map (fun i => JObj [jcls "instance"; (k "name", JStr (fst i)); (k "type_name", j_scope (snd i))]) is_)) end.
  cbn [bind].
  rewrite (mapM_map _ _ (fun i => {| i_name := fst i; i_type := snd i |})).
  2:{ intros x Hx. unfold parse_instance. cbn [helper as_obj bind].
      change (assert_class _ (JsonAst.k "instance")) with (@Ok unit tt); cbn [bind].
      change (get_str _ (JsonAst.k "name")) with (@Ok str (fst x)); cbn [bind].
      change (get_dict _ (JsonAst.k "type_name")) with (@Ok json (j_scope (snd x))); cbn [bind].
      rewrite parse_scope_name_ok; [reflexivity|]. apply (forallb_In _ _ _ Hi Hx). }
  cbn [bind].
  match goal with |- context [get_dict ?o (JsonAst.k "bindings")] =>
    change (get_dict o (JsonAst.k "bindings")) with
      (@Ok json (JObj [jcls "bindings"; (k "elements", JArr (map (fun b => JObj [jcls "binding"; (k "left", j_endpoint (fst b)); (k "right", j_endpoint (snd b))]) bs))])) end.
  cbn [bind]. unfold parse_bindings. cbn [helper as_obj bind].
  change (assert_class _ (JsonAst.k "bindings")) with (@Ok unit tt); cbn [bind].
  match goal with |- context [get_list ?o (JsonAst.k "elements")] =>
    change (get_list o (JsonAst.k "elements")) with
      (@Ok (list json) (map (fun b => JObj [jcls "binding"; (k "left", j_endpoint (fst b)); (k "right", j_endpoint (snd b))]) bs)) end.
  cbn [bind].
  rewrite (mapM_map _ _ (fun b => {| b_left := {| ep_port := fst (fst b); ep_instance := snd (fst b) |};
                                    b_right := {| ep_port := fst (snd b); ep_instance := snd (snd b) |} |})).
  2:{ intros [[lp li] [rp ri]] _. destruct li, ri; reflexivity. }
  cbn [bind].
  destruct fc; unfold add_system, fc_app, declared, system_at, path; cbn; now rewrite ?app_nil_r.
Qed.

End Decls.

(* ---------- induction principle for declarations (namespaces nest lists) ---------- *)

Lemma ddecl_ind' (P : ddecl -> Prop) :
  (forall n body, Forall P body -> P (DNs n body)) ->
  (forall n ts es, P (DItf n ts es)) -> (forall n ps, P (DComp n ps)) -> (forall n ps, P (DForeign n ps)) ->
  (forall n ps is_ bs, P (DSys n ps is_ bs)) -> (forall t, P (DType t)) -> (forall n v, P (DExtern n v)) ->
  (forall n, P (DImport n)) -> (forall n, P (DFile n)) -> (forall c, P (DUnknown c)) -> (forall j, P (DJunk j)) ->
  forall d, P d.
Proof.
  intros HN H1 H2 H3 H4 H5 H6 H7 H8 H9 H10. fix IH 1. intros [n body| | | | | | | | | | ].
  - apply HN. induction body as [|a l IHl]; constructor; [apply IH|apply IHl].
  - apply H1. - apply H2. - apply H3. - apply H4. - apply H5. - apply H6. - apply H7. - apply H8. - apply H9. - apply H10.
Qed.

(* ---------- the namespace case and the main lemma ---------- *)

Definition max_depth (l : list ddecl) : nat := fold_right (fun x acc => Nat.max (ns_depth x) acc) O l.

Lemma max_depth_in l x : In x l -> ns_depth x <= max_depth l.
Proof. induction l as [|a l IH]; [intros []|]. cbn. intros [->|H]; [lia|]. specialize (IH H). unfold max_depth in IH. lia. Qed.

Definition declared_list (path : ids) (l : list ddecl) : file_contents :=
  fold_right (fun x acc => fc_app (declared path x) acc) empty_fc l.

Lemma parse_element_eq fuel : parse_element fuel = parse_element_with (match fuel with O => out_of_fuel | S f => parse_element f end).
Proof. destruct fuel; reflexivity. Qed.

Lemma fold_elements (rec : nstree -> file_contents -> json -> result file_contents) ex parent body :
  (forall d fc, In d body -> rec parent fc (j_decl ex d) = Ok (fc_app fc (declared (tree_fqn parent) d))) ->
  forall fc, fold_left (fun acc sub => do fc' <- acc; rec parent fc' sub) (map (j_decl ex) body) (Ok fc)
             = Ok (fc_app fc (declared_list (tree_fqn parent) body)).
Proof.
  induction body as [|d body IH]; intros H fc.
  - cbn. now rewrite fc_app_empty_r.
  - cbn [map fold_left bind]. rewrite H by (now left). rewrite IH by (intros; apply H; now right).
    cbn [declared_list fold_right]. now rewrite fc_app_assoc.
Qed.

Lemma parse_element_ok ex : forall fuel d parent fc, wf_decl d = true -> ns_depth d <= fuel ->
  parse_element fuel parent fc (j_decl ex d) = Ok (fc_app fc (declared (tree_fqn parent) d)).
Proof.
  induction fuel as [|f IHf]; intros d parent fc Hwf Hd; rewrite parse_element_eq.
  all: destruct d as [n body|n ts es|n ps|n ps|n ps is_ bs|[n fs|n lo hi]|n v|n|n|c|j]; cbn [wf_decl wf_type] in Hwf;
    repeat match type of Hwf with (_ && _ = true) => apply andb_true_iff in Hwf; destruct Hwf as [Hwf ?] end.
  all: try (apply pe_interface; assumption); try (apply pe_component; assumption); try (apply pe_foreign; assumption);
       try (apply pe_system; assumption); try (apply pe_enum; assumption); try (apply pe_subint; assumption);
       try (apply pe_extern; assumption); try apply pe_import; try apply pe_file;
       try (apply pe_unknown; now apply negb_true_iff); try (apply pe_junk; assumption).
  - cbn in Hd. lia.
  - (* namespace *)
    cbn [j_decl parse_element_with].
    change (get_class_value _) with (@Ok json (JStr (k "namespace"))). cbn [bind].
    change (jstr_is (JStr (k "namespace")) (JsonAst.k "component")) with false.
    change (jstr_is (JStr (k "namespace")) (JsonAst.k "enum")) with false.
    change (jstr_is (JStr (k "namespace")) (JsonAst.k "extern")) with false.
    change (jstr_is (JStr (k "namespace")) (JsonAst.k "foreign")) with false.
    change (jstr_is (JStr (k "namespace")) (JsonAst.k "file-name")) with false.
    change (jstr_is (JStr (k "namespace")) (JsonAst.k "import")) with false.
    change (jstr_is (JStr (k "namespace")) (JsonAst.k "interface")) with false.
    change (jstr_is (JStr (k "namespace")) (JsonAst.k "namespace")) with true. cbn iota.
    unfold parse_namespace, named. cbn [helper as_obj bind].
    change (assert_class _ (JsonAst.k "namespace")) with (@Ok unit tt); cbn [bind].
    change (get_dict _ (JsonAst.k "name")) with (@Ok json (j_scope n)); cbn [bind].
    rewrite parse_scope_name_ok by assumption. cbn [bind].
    change (get_list _ (JsonAst.k "elements")) with (@Ok (list json) (map (j_decl ex) body)). cbn [bind fst snd].
    rewrite (fold_elements (parse_element f) ex (parent ++ [n]) body).
    + rewrite tree_fqn_snoc. reflexivity.
    + intros d fc' Hin. apply IHf.
      * eapply forallb_In; eauto.
      * cbn [ns_depth] in Hd. pose proof (max_depth_in body d Hin). unfold max_depth in *. lia.
Qed.

(* ---------- depth of the rendered document bounds the namespace nesting ---------- *)

Definition jmax (l : list json) : nat := fold_right (fun x acc => Nat.max (jdepth x) acc) O l.
Lemma jmax_in l x : In x l -> jdepth x <= jmax l.
Proof. induction l as [|a l IH]; [intros []|]. cbn. intros [->|H]; [lia|]. specialize (IH H). unfold jmax in IH. lia. Qed.

Lemma jdepth_obj_field l key v : In (key, v) l -> S (jdepth v) <= jdepth (JObj l).
Proof.
  intros H. cbn [jdepth]. apply le_n_S. induction l as [|[k' v'] l IH]; [destruct H|].
  cbn. destruct H as [E|H]; [inversion E; subst; cbn; lia|]. specialize (IH H). lia.
Qed.

Lemma ns_depth_le_jdepth ex d : ns_depth d <= jdepth (j_decl ex d).
Proof.
  induction d as [n body IH| | | | | | | | | | ] using ddecl_ind'; cbn [ns_depth]; try lia.
  cbn [j_decl].
  assert (M : fold_right (fun x acc => Nat.max (ns_depth x) acc) 0 body <= fold_right (fun x acc => Nat.max (jdepth x) acc) 0 (map (j_decl ex) body)).
  { induction IH as [|a l Ha Hl IHl]; cbn [fold_right map]; lia. }
  assert (H : S (jdepth (JArr (map (j_decl ex) body))) <=
              jdepth (JObj [jcls "namespace"; (k "name", j_scope n); (k "elements", JArr (map (j_decl ex) body))])).
  { apply (jdepth_obj_field _ (k "elements")). right. right. now left. }
  cbn [jdepth] in H. cbn [jdepth].
  lia.
Qed.

Lemma process_elements_ok ex f fuel : wf_file f = true -> max_depth f <= fuel ->
  process_elements fuel (map (j_decl ex) f) = Ok (flatten_decls f).
Proof.
  intros Hwf Hd. unfold process_elements.
  rewrite (fold_elements (parse_element fuel) ex [] f).
  - cbn. now rewrite fc_app_empty_l.
  - intros d fc Hin. apply parse_element_ok.
    + eapply forallb_In; eauto.
    + pose proof (max_depth_in f d Hin). lia.
Qed.

Lemma root_depth ex wc f : max_depth f <= jdepth (to_json ex wc f).
Proof.
  assert (M : max_depth f <= fold_right (fun x acc => Nat.max (jdepth x) acc) 0 (map (j_decl ex) f)).
  { unfold max_depth. induction f as [|a l IHl]; cbn [fold_right map]; [lia|]. pose proof (ns_depth_le_jdepth ex a). lia. }
  assert (H : S (jdepth (JArr (map (j_decl ex) f))) <= jdepth (to_json ex wc f)).
  { unfold to_json. apply (jdepth_obj_field _ (k "elements")). right. now left. }
  cbn [jdepth] in H. cbn [jdepth].
  lia.
Qed.

Lemma parse_roundtrip ex wc f : wf_file f = true -> process (to_json ex wc f) = Ok (flatten_decls f).
Proof.
  intros Hwf. unfold process.
  assert (R : parse_root (to_json ex wc f) = Ok (map (j_decl ex) f)).
  { unfold to_json. destruct wc; reflexivity. }
  rewrite R. cbn [bind]. apply process_elements_ok; [assumption|apply root_depth].
Qed.

(* ---------- corollaries ---------- *)

(* element classes the parser does not know, and non-dict junk, are skipped without affecting their siblings *)
Definition is_skipped (d : ddecl) : bool := match d with DUnknown _ | DJunk _ => true | _ => false end.

Lemma flatten_decls_app a b : flatten_decls (a ++ b) = fc_app (flatten_decls a) (flatten_decls b).
Proof.
  unfold flatten_decls. induction a as [|x a IH]; cbn [app fold_right].
  - now rewrite fc_app_empty_l.
  - now rewrite IH, fc_app_assoc.
Qed.

Lemma skipped_contribute_nothing f : flatten_decls (filter (fun d => negb (is_skipped d)) f) = flatten_decls f.
Proof.
  unfold flatten_decls. induction f as [|d f IH]; [reflexivity|]. cbn [filter fold_right].
  destruct d; cbn [is_skipped negb fold_right]; rewrite ?IH; try reflexivity; cbn [declared]; now rewrite fc_app_empty_l.
Qed.

Lemma unknown_classes_skipped ex wc f : wf_file f = true ->
  process (to_json ex wc (filter (fun d => negb (is_skipped d)) f)) = process (to_json ex wc f).
Proof.
  intros H. rewrite !parse_roundtrip; [now rewrite skipped_contribute_nothing|assumption|].
  unfold wf_file in *. rewrite forallb_forall in *. intros x Hx. apply filter_In in Hx as [Hx _]. now apply H.
Qed.

(* one entry per declaration and kind *)
Fixpoint count_kind (sel : ddecl -> nat) (d : ddecl) : nat :=
  match d with
  | DNs _ body => fold_right (fun x acc => count_kind sel x + acc) 0 body
  | _ => sel d
  end.

Lemma components_count path d :
  List.length (fc_components (declared path d)) = count_kind (fun d => match d with DComp _ _ => 1 | _ => 0 end) d.
Proof.
  revert path. induction d as [n body IH| | | | |[|]| | | | | ] using ddecl_ind'; intros path; try reflexivity.
  cbn [declared count_kind]. induction IH as [|a l Ha Hl IHl]; [reflexivity|].
  cbn [fold_right fc_app fc_components]. rewrite app_length, Ha, IHl. reflexivity.
Qed.

Lemma interfaces_count path d :
  List.length (fc_interfaces (declared path d)) = count_kind (fun d => match d with DItf _ _ _ => 1 | _ => 0 end) d.
Proof.
  revert path. induction d as [n body IH| | | | |[|]| | | | | ] using ddecl_ind'; intros path; try reflexivity.
  cbn [declared count_kind]. induction IH as [|a l Ha Hl IHl]; [reflexivity|].
  cbn [fold_right fc_app fc_interfaces]. rewrite app_length, Ha, IHl. reflexivity.
Qed.

(* every declaration's fully qualified name is its namespace path followed by its own name *)
Lemma component_fqns d : forall path c, In c (fc_components (declared path d)) -> co_fqn c = co_parent c ++ co_name c.
Proof.
  induction d as [n body IH|n ts es|n ps|n ps|n ps is_ bs|[n fs|n lo hi]|n v|n|n|cl|j] using ddecl_ind'; intros path c;
    cbn [declared fc_components only_components empty_fc].
  - induction IH as [|a l Ha Hl IHl]; cbn [fold_right fc_app fc_components empty_fc]; [intros []|].
    rewrite in_app_iff. intros [H|H]; [eapply Ha; eauto|now apply IHl].
  - intros [].
  - intros [<-|[]]. reflexivity.
  - intros [].
  - intros [].
  - intros [].
  - intros [].
  - intros [].
  - intros [].
  - intros [].
  - intros [].
  - intros [].
Qed.
