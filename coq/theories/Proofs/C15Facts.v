From Coq Require Import List NArith ZArith Bool Lia Arith String.
From Dznpy Require Import Base.PyStr Base.Result Base.Json Model.Scoping Model.Ast Model.JsonAst Proofs.C14Facts.
Import ListNotations.
Open Scope nat_scope.

(* a result whose error, if any, is one of the two documented parser errors *)
Definition doc_err {A} (r : result A) : Prop := forall e, r = Err e -> e = DznJsonError \/ e = NamespaceIdsTypeError.

Lemma doc_ok {A} (a : A) : doc_err (Ok a). Proof. intros e H; discriminate. Qed.
Lemma doc_E {A} : doc_err (@E A). Proof. intros e H; inversion H; auto. Qed.
Lemma doc_nse {A} : doc_err (@Err A NamespaceIdsTypeError). Proof. intros e H; inversion H; auto. Qed.

Lemma doc_bind {A B} (r : result A) (f : A -> result B) : doc_err r -> (forall a, doc_err (f a)) -> doc_err (bind r f).
Proof. intros Hr Hf. destruct r as [a|e0]; cbn; [apply Hf|]. intros e H; inversion H; subst. now apply Hr. Qed.

Lemma doc_mapM {A B} (f : A -> result B) l : (forall a, doc_err (f a)) -> doc_err (mapM f l).
Proof. intros Hf. induction l as [|a l IH]; cbn; [apply doc_ok|]. apply doc_bind; [apply Hf|]. intros b. apply doc_bind; [exact IH|]. intros; apply doc_ok. Qed.

Lemma doc_concatM {A B} (f : A -> result (list B)) l : (forall a, doc_err (f a)) -> doc_err (concatM f l).
Proof. intros Hf. induction l as [|a l IH]; cbn; [apply doc_ok|]. apply doc_bind; [apply Hf|]. intros b. apply doc_bind; [exact IH|]. intros; apply doc_ok. Qed.

Lemma doc_if {A} (b : bool) (x y : result A) : doc_err x -> doc_err y -> doc_err (if b then x else y).
Proof. destruct b; auto. Qed.

#[local] Hint Resolve doc_ok doc_E doc_nse doc_if : doc.

(* ---------- the typed getters ---------- *)

Lemma doc_as_obj j : doc_err (as_obj j). Proof. destruct j; cbn; auto with doc. Qed.
Lemma doc_tryget_str o key : doc_err (tryget_str o key).
Proof. unfold tryget_str. destruct (assoc key o) as [[]|]; auto with doc. Qed.
Lemma doc_get_str o key : doc_err (get_str o key).
Proof. unfold get_str. apply doc_bind; [apply doc_tryget_str|]. intros [x|]; auto with doc. Qed.
Lemma doc_tryget_dict o key : doc_err (tryget_dict o key).
Proof. unfold tryget_dict. destruct (assoc key o) as [[]|]; auto with doc. Qed.
Lemma doc_get_dict o key : doc_err (get_dict o key).
Proof. unfold get_dict. apply doc_bind; [apply doc_tryget_dict|]. intros [x|]; auto with doc. Qed.
Lemma doc_get_int o key : doc_err (get_int o key).
Proof. unfold get_int. destruct (assoc key o) as [[]|]; auto with doc. Qed.
Lemma doc_get_list o key : doc_err (get_list o key).
Proof. unfold get_list. destruct (assoc key o) as [[]|]; auto with doc. Qed.
Lemma doc_assert_class o cls : doc_err (assert_class o cls).
Proof. unfold assert_class. destruct (assoc _ o); auto with doc. Qed.
Lemma doc_get_class_value j : doc_err (get_class_value j).
Proof. destruct j; cbn; auto with doc. destruct (assoc _ l); auto with doc. Qed.
Lemma doc_helper j cls : doc_err (helper j cls).
Proof. unfold helper. apply doc_bind; [apply doc_as_obj|]. intros o. apply doc_bind; [apply doc_assert_class|]. auto with doc. Qed.

#[local] Hint Resolve doc_as_obj doc_tryget_str doc_get_str doc_tryget_dict doc_get_dict doc_get_int doc_get_list
  doc_assert_class doc_get_class_value doc_helper doc_mapM doc_concatM : doc.

Ltac doc := repeat first [ solve [auto with doc] | apply doc_bind; [solve [auto with doc]|intros] ].

Lemma doc_mk_ids l : doc_err (mk_ids l).
Proof. unfold mk_ids. destruct (forallb valid_id l); auto with doc. Qed.
#[local] Hint Resolve doc_mk_ids : doc.

Lemma doc_scope_name j : doc_err (parse_scope_name j).
Proof. unfold parse_scope_name. doc. apply doc_if; [auto with doc|]. match goal with |- doc_err (match ?x with _ => _ end) => destruct x end; auto with doc. Qed.
#[local] Hint Resolve doc_scope_name : doc.

Lemma doc_formal_direction x : doc_err (parse_formal_direction x).
Proof. unfold parse_formal_direction. repeat (apply doc_if; auto with doc). Qed.
Lemma doc_event_direction x : doc_err (parse_event_direction x).
Proof. unfold parse_event_direction. repeat (apply doc_if; auto with doc). Qed.
Lemma doc_port_direction x : doc_err (parse_port_direction x).
Proof. unfold parse_port_direction. repeat (apply doc_if; auto with doc). Qed.
#[local] Hint Resolve doc_formal_direction doc_event_direction doc_port_direction : doc.

Lemma doc_formal j : doc_err (parse_formal j). Proof. unfold parse_formal. doc. Qed.
#[local] Hint Resolve doc_formal : doc.
Lemma doc_formals j : doc_err (parse_formals j). Proof. unfold parse_formals. doc. Qed.
#[local] Hint Resolve doc_formals : doc.
Lemma doc_signature j : doc_err (parse_signature j). Proof. unfold parse_signature. doc. Qed.
#[local] Hint Resolve doc_signature : doc.
Lemma doc_event j : doc_err (parse_event j).
Proof. unfold parse_event. doc. match goal with |- doc_err (match ?x with _ => _ end) => destruct x end; auto with doc; repeat (apply doc_if; auto with doc). Qed.
#[local] Hint Resolve doc_event : doc.
Lemma doc_events j : doc_err (parse_events j). Proof. unfold parse_events. doc. Qed.
Lemma doc_injected j : doc_err (parse_injected j).
Proof. unfold parse_injected. doc. match goal with |- doc_err (match ?x with _ => _ end) => destruct x end; auto with doc. Qed.
#[local] Hint Resolve doc_events doc_injected : doc.
Lemma doc_port j : doc_err (parse_port j). Proof. unfold parse_port. doc. Qed.
#[local] Hint Resolve doc_port : doc.
Lemma doc_ports j : doc_err (parse_ports j). Proof. unfold parse_ports. doc. Qed.
Lemma doc_fields j : doc_err (parse_fields j). Proof. unfold parse_fields. doc. Qed.
Lemma doc_range j : doc_err (parse_range j). Proof. unfold parse_range. doc. Qed.
Lemma doc_data j : doc_err (parse_data j). Proof. unfold parse_data. doc. Qed.
Lemma doc_endpoint j : doc_err (parse_endpoint j). Proof. unfold parse_endpoint. doc. Qed.
#[local] Hint Resolve doc_ports doc_fields doc_range doc_data doc_endpoint : doc.
Lemma doc_binding j : doc_err (parse_binding j). Proof. unfold parse_binding. doc. Qed.
#[local] Hint Resolve doc_binding : doc.
Lemma doc_bindings j : doc_err (parse_bindings j). Proof. unfold parse_bindings. doc. Qed.
Lemma doc_instance j : doc_err (parse_instance j). Proof. unfold parse_instance. doc. Qed.
#[local] Hint Resolve doc_bindings doc_instance : doc.
Lemma doc_instances j : doc_err (parse_instances j). Proof. unfold parse_instances. doc. Qed.
Lemma doc_named o : doc_err (named o). Proof. unfold named. doc. Qed.
#[local] Hint Resolve doc_instances doc_named : doc.
Lemma doc_enum j p : doc_err (parse_enum j p). Proof. unfold parse_enum. doc. Qed.
Lemma doc_subint j p : doc_err (parse_subint j p). Proof. unfold parse_subint. doc. Qed.
Lemma doc_extern j p : doc_err (parse_extern j p). Proof. unfold parse_extern. doc. Qed.
Lemma doc_component_like c j p : doc_err (parse_component_like c j p). Proof. unfold parse_component_like. doc. Qed.
Lemma doc_system j p : doc_err (parse_system j p). Proof. unfold parse_system. doc. Qed.
#[local] Hint Resolve doc_enum doc_subint doc_extern doc_component_like doc_system : doc.
Lemma doc_type_item p j : doc_err (parse_type_item p j).
Proof. unfold parse_type_item. apply doc_bind; [auto with doc|]. intros cls. do 2 (apply doc_if; [solve [doc]|]). auto with doc. Qed.
#[local] Hint Resolve doc_type_item : doc.
Lemma doc_types j p : doc_err (parse_types j p). Proof. unfold parse_types. doc. Qed.
#[local] Hint Resolve doc_types : doc.
Lemma doc_interface j p : doc_err (parse_interface j p). Proof. unfold parse_interface. doc. Qed.
Lemma doc_namespace j : doc_err (parse_namespace j). Proof. unfold parse_namespace. doc. Qed.
Lemma doc_import j : doc_err (parse_import j). Proof. unfold parse_import. doc. Qed.
Lemma doc_filename j : doc_err (parse_filename j). Proof. unfold parse_filename. doc. Qed.
Lemma doc_comment j : doc_err (parse_comment j). Proof. unfold parse_comment. doc. Qed.
#[local] Hint Resolve doc_interface doc_namespace doc_import doc_filename doc_comment : doc.
Lemma doc_root j : doc_err (parse_root j).
Proof. unfold parse_root. doc. apply doc_bind; [match goal with |- doc_err (match ?x with _ => _ end) => destruct x end; auto with doc|]. intros. doc. Qed.

(* ---------- elements ---------- *)

Lemma doc_fold {A} (g : file_contents -> A -> result file_contents) l :
  (forall fc a, In a l -> doc_err (g fc a)) -> forall acc, doc_err acc ->
  doc_err (fold_left (fun acc sub => do fc' <- acc; g fc' sub) l acc).
Proof.
  induction l as [|a l IH]; intros Hg acc Hacc; cbn [fold_left]; [exact Hacc|].
  apply IH; [intros; apply Hg; now right|]. apply doc_bind; [exact Hacc|]. intros fc. apply Hg. now left.
Qed.

(* the namespace body found by parse_namespace is two levels below the namespace object *)
Definition jmax (l : list json) : nat := fold_right (fun x acc => Nat.max (jdepth x) acc) O l.
Lemma jmax_in l x : In x l -> jdepth x <= jmax l.
Proof. induction l as [|a l IH]; [intros []|]. cbn. intros [->|H]; [lia|]. specialize (IH H). unfold jmax in IH. lia. Qed.

Lemma assoc_depth key o v : assoc key o = Some v -> S (jdepth v) <= jdepth (JObj o).
Proof.
  intros H. cbn [jdepth]. apply le_n_S. induction o as [|[k' v'] o IH]; [discriminate|].
  cbn in *. destruct (str_eqb k' key); [inversion H; subst; lia|]. specialize (IH H). lia.
Qed.

Lemma namespace_body_depth j ns : parse_namespace j = Ok ns -> forall x, In x (snd ns) -> S (S (jdepth x)) <= jdepth j.
Proof.
  unfold parse_namespace, helper. destruct j; cbn [as_obj bind]; try discriminate.
  destruct (assert_class l _); cbn [bind]; [|discriminate]. destruct (named l); cbn [bind]; [|discriminate].
  unfold get_list. destruct (assoc (k "elements") l) as [[]|] eqn:A; cbn [bind]; try discriminate.
  intros H; inversion H; subst. cbn [snd]. intros x Hx.
  apply assoc_depth in A. cbn [jdepth] in A. pose proof (jmax_in _ _ Hx). unfold jmax in *. cbn [jdepth]. lia.
Qed.

Lemma doc_element_with rec parent fc j :
  (forall ns, parse_namespace j = Ok ns -> forall p fc' x, In x (snd ns) -> doc_err (rec p fc' x)) ->
  doc_err (parse_element_with rec parent fc j).
Proof.
  intros Hrec. unfold parse_element_with. destruct j; auto with doc.
  apply doc_bind; [auto with doc|]. intros cls.
  do 7 (apply doc_if; [solve [doc]|]).
  apply doc_if.
  - destruct (parse_namespace (JObj l)) as [ns|e] eqn:N; cbn [bind]; [|intros e' H; inversion H; subst; now apply (doc_namespace (JObj l))].
    apply doc_fold; [|auto with doc]. intros fc' a Hin. eapply Hrec; eauto.
  - do 2 (apply doc_if; [solve [doc]|]). auto with doc.
Qed.

Lemma doc_element : forall fuel j parent fc, jdepth j <= S fuel -> doc_err (parse_element fuel parent fc j).
Proof.
  induction fuel as [|f IH]; intros j parent fc Hd; cbn [parse_element]; apply doc_element_with; intros ns Hns p fc' x Hx.
  - pose proof (namespace_body_depth j ns Hns x Hx). lia.
  - apply IH. pose proof (namespace_body_depth j ns Hns x Hx). lia.
Qed.

Lemma root_elements_depth j l : parse_root j = Ok l -> forall x, In x l -> S (S (jdepth x)) <= jdepth j.
Proof.
  unfold parse_root, helper. destruct j; cbn [as_obj bind]; try discriminate.
  destruct (assert_class l0 _); cbn [bind]; [|discriminate].
  destruct (tryget_dict l0 _); cbn [bind]; [|discriminate].
  destruct (match a0 with Some cj => parse_comment cj | None => Ok [] end); cbn [bind]; [|discriminate].
  unfold get_list. destruct (assoc (k "elements") l0) as [[]|] eqn:A; cbn [bind]; try discriminate.
  destruct (get_str l0 _); cbn [bind]; [|discriminate]. intros H; inversion H; subst. intros x Hx.
  apply assoc_depth in A. cbn [jdepth] in A. pose proof (jmax_in _ _ Hx). unfold jmax in *. cbn [jdepth]. lia.
Qed.

Theorem process_total_kinds j : doc_err (process j).
Proof.
  unfold process. destruct (parse_root j) as [l|e] eqn:R; cbn [bind]; [|intros e' H; inversion H; subst; now apply (doc_root j)].
  unfold process_elements. apply doc_fold; [|auto with doc]. intros fc a Hin. apply doc_element.
  pose proof (root_elements_depth j l R a Hin). lia.
Qed.

Corollary process_never_internal j : process j <> Err Internal.
Proof. intros H. destruct (process_total_kinds j _ H); discriminate. Qed.

(* ---------- an out event with a non-void reply or an out parameter is always refused ---------- *)

Lemma out_event_refused j e : parse_event j = Ok e -> e_dir e = EOut ->
  e_ret e = void_ids /\ forallb (fun f => match f_dir f with FOut => false | _ => true end) (e_formals e) = true.
Proof.
  unfold parse_event. destruct (helper j _); cbn [bind]; [|discriminate].
  destruct (get_str a _); cbn [bind]; [|discriminate]. destruct (get_dict a _); cbn [bind]; [|discriminate].
  destruct (parse_signature a1) as [[ret fs]|]; cbn [bind]; [|discriminate].
  destruct (get_str a _); cbn [bind]; [|discriminate]. destruct (parse_event_direction a2) as [[|]|]; cbn [bind]; try discriminate.
  - intros H; inversion H; subst. cbn. discriminate.
  - cbn [fst snd]. destruct (ids_eqb ret void_ids) eqn:V; cbn [negb]; [|discriminate].
    destruct (existsb _ fs) eqn:X; [discriminate|]. intros H; inversion H; subst. cbn. intros _. split.
    + apply ids_eqb_eq in V. exact V.
    + rewrite forallb_forall. intros x Hx. destruct (f_dir x) eqn:D; auto.
      assert (existsb (fun f => match f_dir f with FOut => true | _ => false end) fs = true); [|congruence].
      apply existsb_exists. exists x. now rewrite D.
Qed.
