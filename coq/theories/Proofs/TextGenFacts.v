(* Lemmas about Model/TextGen.v used by the C17 / C18 / C19 property files *)
From Coq Require Import List NArith Bool Lia String.
From Dznpy Require Import Base.PyStr Model.TextGen Spec.FlattenSpec Proofs.PyStrFacts.
Import ListNotations.
Open Scope N_scope.

(* ---------- induction principle for the nested type ---------- *)

Lemma content_ind' (P : content -> Prop) :
  P CNone -> (forall x, P (CStr x)) -> (forall x b, P (COther x b)) ->
  (forall l, Forall P l -> P (CList l)) -> (forall l, Forall P l -> P (CDict l)) ->
  (forall t, P (CBlock t)) -> (forall ls, P (CComment ls)) -> forall c, P c.
Proof.
  intros HN HS HO HL HD HB HC.
  fix IH 1. intros [ | x | x b | l | l | t | ls].
  - apply HN.
  - apply HS.
  - apply HO.
  - apply HL. induction l as [|a l IHl]; constructor; [apply IH | apply IHl].
  - apply HD. induction l as [|a l IHl]; constructor; [apply IH | apply IHl].
  - apply HB.
  - apply HC.
Qed.

(* ---------- bridging the two no_break formulations ---------- *)

Lemma spec_no_breakb x : FlattenSpec.no_breakb x = true <-> no_break x.
Proof. apply no_breakb_spec. Qed.

Lemma wf_lines_spec ls : wf_lines ls = true <-> Forall no_break ls.
Proof.
  unfold wf_lines. rewrite forallb_forall, Forall_forall.
  split; intros H x Hx; apply spec_no_breakb, H, Hx.
Qed.

Lemma wf_lines_app a b : wf_lines (a ++ b) = wf_lines a && wf_lines b.
Proof. apply forallb_app. Qed.

(* ---------- string form ---------- *)

Lemma str_lines_terminated ls : str_lines ls = terminated ls.
Proof. destruct ls as [|x t]; [reflexivity|]. unfold str_lines. apply join_terminated. discriminate. Qed.

Lemma str_lines_nil_iff ls : str_lines ls = [] <-> ls = [].
Proof.
  split; [|intros ->; reflexivity]. destruct ls as [|x t]; [reflexivity|].
  rewrite str_lines_terminated. unfold terminated. cbn. destruct x; discriminate.
Qed.

Lemma split_piece_str_lines ls :
  Forall no_break ls -> flat_map split_piece (nonempty_singleton (str_lines ls)) = ls.
Proof.
  intros H. unfold nonempty_singleton. destruct (is_nil (str_lines ls)) eqn:E.
  - apply is_nil_true, str_lines_nil_iff in E. now subst.
  - cbn. rewrite app_nil_r. unfold split_piece. rewrite E.
    rewrite str_lines_terminated. now apply splitlines_terminated.
Qed.

(* ---------- comment lines ---------- *)

Lemma comment_bprefix : bprefix comment_ind (lit "//"%string) = lit "// "%string.
Proof. reflexivity. Qed.

Lemma indent_lines_comment ls : indent_lines comment_ind ls = map comment_line ls.
Proof. destruct ls; reflexivity. Qed.

Lemma comment_line_no_break l : no_break l -> no_break (comment_line l).
Proof.
  intros H. unfold comment_line. apply strip_no_break. apply no_break_app. split; [|assumption].
  repeat constructor.
Qed.

(* ---------- flatten vs the specification ---------- *)

Lemma flat_map_app {A B} (f : A -> list B) l1 l2 : flat_map f (l1 ++ l2) = flat_map f l1 ++ flat_map f l2.
Proof. induction l1; simpl; auto. now rewrite IHl1, app_assoc. Qed.

Lemma flat_map_flat_map {A B C} (f : A -> list B) (g : B -> list C) l :
  flat_map g (flat_map f l) = flat_map (fun a => flat_map g (f a)) l.
Proof. induction l; simpl; auto. now rewrite flat_map_app, IHl. Qed.

Lemma flatten_pieces c : wfc c = true -> flat_map split_piece (flatten false c) = pieces c.
Proof.
  induction c as [ | x | x b | l IH | l IH | t | ls] using content_ind'; intros Hwf; cbn [flatten pieces].
  - reflexivity.
  - cbn. rewrite app_nil_r. unfold split_piece, split_text. destruct (is_nil x) eqn:E; [|reflexivity].
    apply is_nil_true in E; now subst.
  - unfold nonempty_singleton. destruct (is_nil x) eqn:E.
    + apply is_nil_true in E; subst. reflexivity.
    + cbn. rewrite app_nil_r. unfold split_piece. now rewrite E.
  - cbn [wfc] in Hwf. rewrite flat_map_flat_map.
    induction IH as [|a l Ha Hl IHl]; [reflexivity|]. cbn [forallb] in Hwf.
    apply andb_true_iff in Hwf as [H1 H2]. cbn [flat_map]. rewrite Ha, IHl by assumption. reflexivity.
  - cbn [wfc] in Hwf. rewrite flat_map_flat_map.
    induction IH as [|a l Ha Hl IHl]; [reflexivity|]. cbn [forallb] in Hwf.
    apply andb_true_iff in Hwf as [H1 H2]. cbn [flat_map]. rewrite Ha, IHl by assumption. reflexivity.
  - cbn [wfc] in Hwf. unfold str_tb. apply split_piece_str_lines. now apply wf_lines_spec.
  - cbn [wfc] in Hwf. unfold str_comment. rewrite indent_lines_comment.
    apply split_piece_str_lines. apply wf_lines_spec in Hwf.
    rewrite Forall_forall in *. intros x Hx. apply in_map_iff in Hx as [l [<- Hl]].
    apply comment_line_no_break, Hwf, Hl.
Qed.

Lemma appended_pieces c : wfc c = true -> appended c = pieces_top c.
Proof.
  intros H. destruct c; try reflexivity; cbn [appended pieces_top]; now apply flatten_pieces.
Qed.

(* ---------- stored lines never contain a line break ---------- *)

Lemma split_piece_no_break x : Forall no_break (split_piece x).
Proof.
  unfold split_piece. destruct (is_nil x) eqn:E; [|apply splitlines_no_break].
  apply is_nil_true in E; subst. repeat constructor.
Qed.

Lemma flat_map_split_no_break l : Forall no_break (flat_map split_piece l).
Proof. induction l; cbn; [constructor|]. apply Forall_app. split; [apply split_piece_no_break|assumption]. Qed.

(* whatever goes through flattening is break-free; a block handed over directly contributes its own lines *)
Lemma appended_no_break c : wfc c = true -> Forall no_break (appended c).
Proof.
  intros H. destruct c; cbn [appended]; try apply flat_map_split_no_break.
  - cbn [wfc] in H. unfold wf in H. rewrite wf_lines_app in H. apply andb_true_iff in H as [_ H].
    now apply wf_lines_spec.
  - cbn [wfc] in H. now apply wf_lines_spec.
Qed.

Lemma appended_no_break_any c :
  match c with CBlock _ | CComment _ => True | _ => Forall no_break (appended c) end.
Proof. destruct c; auto; apply flat_map_split_no_break. Qed.

Lemma wf_mk c h : wfc c = true -> wfc h = true -> wf (mk c h) = true.
Proof.
  intros Hc Hh. unfold wf, mk; cbn [hdr lns]. rewrite wf_lines_app. apply andb_true_iff. split.
  - destruct (truthy h); [|reflexivity]. apply wf_lines_spec, appended_no_break, Hh.
  - apply wf_lines_spec, appended_no_break, Hc.
Qed.

Lemma wf_append t c : wf t = true -> wfc c = true -> wf (append t c) = true.
Proof.
  unfold wf, append; cbn [hdr lns]. rewrite !wf_lines_app. intros H Hc.
  apply andb_true_iff in H as [H1 H2]. rewrite H1, H2. cbn. apply wf_lines_spec, appended_no_break, Hc.
Qed.

Lemma wfc_strs ls : wf_lines ls = true -> wfc (strs ls) = true.
Proof. intros _. unfold strs. cbn [wfc]. rewrite forallb_forall. intros c Hc. apply in_map_iff in Hc as [x [<- _]]. reflexivity. Qed.

Lemma wfc_strs_any ls : wfc (strs ls) = true.
Proof. unfold strs. cbn [wfc]. rewrite forallb_forall. intros c Hc. apply in_map_iff in Hc as [x [<- _]]. reflexivity. Qed.

Lemma wf_add t c : wf (add t c) = true.
Proof.
  unfold add, mk1, mk, wf; cbn [hdr lns truthy app]. apply wf_lines_spec.
  cbn [appended]. apply flat_map_split_no_break.
Qed.

(* trimming *)
Lemma ltrim_spec ls : exists a, ls = a ++ ltrim ls /\ Forall (fun l => l = []) a /\
                                match ltrim ls with [] => True | l :: _ => l <> [] end.
Proof.
  induction ls as [|l t [a [E [Ha Hh]]]]; [exists []; cbn; auto|]. cbn [ltrim].
  destruct (is_nil l) eqn:En.
  - apply is_nil_true in En; subst. exists ([] :: a). cbn. split; [congruence|]. split; [constructor; auto|assumption].
  - exists []. cbn. split; [reflexivity|]. split; [constructor|]. now apply is_nil_false.
Qed.

Lemma ltrim_incl ls : Forall no_break ls -> Forall no_break (ltrim ls).
Proof.
  induction 1 as [|l t Hl Ht IH]; cbn; [constructor|]. destruct (is_nil l); [assumption|constructor; assumption].
Qed.

Lemma Forall_rev {A} (P : A -> Prop) l : Forall P l -> Forall P (rev l).
Proof. rewrite !Forall_forall. intros H x Hx. apply H. now apply in_rev. Qed.

Lemma rtrim_incl ls : Forall no_break ls -> Forall no_break (rtrim ls).
Proof. intros H. unfold rtrim. apply Forall_rev, ltrim_incl, Forall_rev, H. Qed.

Lemma trim_list_no_break e ls : Forall no_break ls -> Forall no_break (trim_list e ls).
Proof. intros H. unfold trim_list. apply rtrim_incl. destruct e; [assumption|apply ltrim_incl, H]. Qed.

Lemma wf_trim e t : wf t = true -> wf (trim e t) = true.
Proof.
  unfold wf, trim; cbn [hdr lns]. rewrite !wf_lines_app. intros H. apply andb_true_iff in H as [H1 H2].
  rewrite H1. cbn. apply wf_lines_spec, trim_list_no_break, wf_lines_spec, H2.
Qed.

Lemma rtrim_spec ls : exists b, ls = rtrim ls ++ b /\ Forall (fun l => l = []) b /\
                                match rev (rtrim ls) with [] => True | l :: _ => l <> [] end.
Proof.
  unfold rtrim. destruct (ltrim_spec (rev ls)) as [a [E [Ha Hh]]].
  exists (rev a). split; [|split].
  - rewrite <- (rev_involutive ls) at 1. rewrite E at 1. now rewrite rev_app_distr.
  - now apply Forall_rev.
  - now rewrite rev_involutive.
Qed.

Lemma ltrim_rtrim_head ls :
  match ls with [] => True | l :: _ => l <> [] end ->
  match rtrim ls with [] => True | l :: _ => l <> [] end.
Proof.
  destruct (rtrim_spec ls) as [b [E _]]. destruct ls as [|l t]; intros H.
  - exact I.
  - destruct (rtrim (l :: t)) as [|l' t'] eqn:Er; [auto|]. cbn in E. inversion E; subst. assumption.
Qed.
