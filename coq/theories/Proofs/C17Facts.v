From Coq Require Import List NArith Bool Lia String.
From Dznpy Require Import Base.PyStr Model.TextGen Spec.FlattenSpec Proofs.PyStrFacts Proofs.TextGenFacts.
Import ListNotations.
Open Scope N_scope.

Lemma lines_eq_spec c h : wfc c = true -> lns (mk c h) = pieces_top c.
Proof. intros H. cbn [mk lns]. now apply appended_pieces. Qed.

Lemma header_eq_spec c h : wfc h = true -> hdr (mk c h) = if truthy h then pieces_top h else [].
Proof. intros H. cbn [mk hdr]. destruct (truthy h); [now apply appended_pieces|reflexivity]. Qed.

Lemma str_form t : str_tb t = terminated (hdr t ++ lns t).
Proof. apply str_lines_terminated. Qed.

Lemma no_stored_linebreak c h :
  (forall t, c <> CBlock t) -> (forall ls, c <> CComment ls) -> Forall no_break (lns (mk c h)).
Proof.
  intros H1 H2. cbn [mk lns]. pose proof (appended_no_break_any c) as H.
  destruct c; auto; [exfalso; eapply H1 | exfalso; eapply H2]; reflexivity.
Qed.

Lemma roundtrip t : wf t = true -> hdr t ++ lns t <> [] -> lns (mk1 (CStr (str_tb t))) = hdr t ++ lns t.
Proof.
  intros Hwf Hne. unfold mk1, mk; cbn [lns appended flatten andb flat_map]. rewrite app_nil_r.
  unfold split_piece. destruct (is_nil (str_tb t)) eqn:E.
  - apply is_nil_true in E. unfold str_tb in E. apply str_lines_nil_iff in E. contradiction.
  - rewrite str_form. apply splitlines_terminated. now apply wf_lines_spec.
Qed.

Lemma append_concat t c : wfc c = true -> lns (append t c) = lns t ++ pieces_top c /\ hdr (append t c) = hdr t.
Proof. intros H. cbn [append lns hdr]. now rewrite appended_pieces. Qed.

Lemma split_piece_wf_line l : no_break l -> split_piece l = [l].
Proof.
  intros H. unfold split_piece. destruct (is_nil l) eqn:E; [reflexivity|].
  apply splitlines_single; [assumption|now apply is_nil_false].
Qed.

Lemma resplit_wf ls : Forall no_break ls -> flat_map split_piece (flatten false (strs ls)) = ls.
Proof.
  unfold strs. cbn [flatten]. induction 1 as [|l t Hl Ht IH]; [reflexivity|].
  cbn [map flat_map flatten andb app].
  rewrite split_piece_wf_line by assumption. cbn [app]. f_equal. exact IH.
Qed.

Lemma add_concat t c : wf t = true -> wfc c = true -> lns (add t c) = lns t ++ pieces_top c /\ hdr (add t c) = [].
Proof.
  intros Ht Hc. unfold add, mk1, mk; cbn [lns hdr truthy]. split; [|reflexivity].
  change (appended (CList (map CStr (lns t ++ appended c)))) with
         (flat_map split_piece (flatten false (strs (lns t ++ appended c)))).
  rewrite resplit_wf.
  - now rewrite appended_pieces.
  - apply Forall_app. split.
    + unfold wf in Ht. rewrite wf_lines_app in Ht. apply andb_true_iff in Ht as [_ Ht]. now apply wf_lines_spec.
    + now apply appended_no_break.
Qed.

Lemma trim_both_spec ls :
  exists a b, ls = a ++ trim_list false ls ++ b /\ blank_lines a /\ blank_lines b /\
              starts_nonblank (trim_list false ls) /\ starts_nonblank (rev (trim_list false ls)).
Proof.
  unfold trim_list. destruct (ltrim_spec ls) as [a [Ea [Ha Hh]]].
  destruct (rtrim_spec (ltrim ls)) as [b [Eb [Hb Ht]]].
  exists a, b. split; [|split; [exact Ha|split; [exact Hb|split]]].
  - rewrite Ea at 1. now rewrite Eb at 1.
  - apply ltrim_rtrim_head. exact Hh.
  - exact Ht.
Qed.

Lemma trim_end_spec ls :
  exists b, ls = trim_list true ls ++ b /\ blank_lines b /\ starts_nonblank (rev (trim_list true ls)).
Proof. unfold trim_list. destruct (rtrim_spec ls) as [b [Eb [Hb Ht]]]. exists b. auto. Qed.

(* ---------- chunk ---------- *)

Definition nonnil (x : str) : bool := negb (is_nil x).

Lemma filter_app {A} (f : A -> bool) a b : filter f (a ++ b) = filter f a ++ filter f b.
Proof. induction a; simpl; auto. destruct (f a); simpl; now rewrite IHa. Qed.

Lemma flatten_true_texts c : flatten true c = filter nonnil (texts c).
Proof.
  induction c as [ | x | x b | l IH | l IH | t | ls] using content_ind'; cbn [flatten texts].
  - reflexivity.
  - cbn. unfold nonnil. destruct (is_nil x); reflexivity.
  - cbn. unfold nonempty_singleton, nonnil. destruct (is_nil x); reflexivity.
  - induction IH as [|a l Ha Hl IHl]; [reflexivity|]. cbn [flat_map]. now rewrite filter_app, Ha, IHl.
  - induction IH as [|a l Ha Hl IHl]; [reflexivity|]. cbn [flat_map]. now rewrite filter_app, Ha, IHl.
  - cbn. unfold nonempty_singleton, nonnil. destruct (is_nil (str_tb t)); reflexivity.
  - cbn. unfold nonempty_singleton, nonnil. destruct (is_nil (str_comment ls)); reflexivity.
Qed.

Lemma filter_nil_iff {A} (f : A -> bool) l : filter f l = [] <-> forallb (fun x => negb (f x)) l = true.
Proof.
  induction l as [|a l IH]; simpl; [tauto|]. destruct (f a); simpl; [split; discriminate|exact IH].
Qed.

Lemma flatten_true_nil_iff c : flatten true c = [] <-> empty_content c = true.
Proof.
  rewrite flatten_true_texts, filter_nil_iff. unfold empty_content, nonnil.
  assert (E : forall l, forallb (fun x : str => negb (negb (is_nil x))) l = forallb is_nil l).
  { induction l; simpl; auto. now rewrite negb_involutive, IHl. }
  now rewrite E.
Qed.

Lemma chunk_none_iff c a : chunk c a = None <-> empty_content c = true.
Proof.
  rewrite <- flatten_true_nil_iff. unfold chunk. destruct (flatten true c); split; congruence.
Qed.

Lemma pieces_strs_filter l : pieces (strs (filter nonnil l)) = flat_map splitlines l.
Proof.
  unfold strs. cbn [pieces]. induction l as [|x l IH]; [reflexivity|]. cbn [filter flat_map].
  unfold nonnil at 1. destruct (is_nil x) eqn:E; cbn [negb].
  - apply is_nil_true in E; subst. cbn [splitlines app]. exact IH.
  - cbn [map flat_map pieces]. unfold split_text. rewrite E. now rewrite IH.
Qed.

Lemma chunk_some c a :
  empty_content c = false -> wfc c = true ->
  exists t, chunk c a = Some t /\ hdr t = [] /\ lns t = pieces c ++ flat_map splitlines (texts a).
Proof.
  intros He Hw. unfold chunk. destruct (flatten true c) eqn:E.
  - apply flatten_true_nil_iff in E. congruence.
  - eexists; split; [reflexivity|]. split; [reflexivity|].
    unfold mk1. rewrite lines_eq_spec.
    + cbn [pieces_top pieces flat_map]. rewrite app_nil_r. f_equal.
      rewrite flatten_true_texts. apply pieces_strs_filter.
    + cbn [wfc forallb]. rewrite Hw, wfc_strs_any. reflexivity.
Qed.

(* ---------- cond_chunk: its four cases ---------- *)

Lemma cond_chunk_nothing p c e a : empty_content c = true -> truthy e = false -> cond_chunk p c e a true = None.
Proof.
  intros Hc He. unfold cond_chunk. apply flatten_true_nil_iff in Hc. rewrite Hc. cbn. now rewrite He.
Qed.

Lemma cond_chunk_only_response p c e a : empty_content c = true -> truthy e = true -> cond_chunk p c e a true = Some (mk1 e).
Proof.
  intros Hc He. unfold cond_chunk. apply flatten_true_nil_iff in Hc. rewrite Hc. cbn. now rewrite He.
Qed.

Lemma texts_strs l : texts (strs l) = l.
Proof. unfold strs. cbn [texts]. induction l; simpl; congruence. Qed.

Lemma empty_content_list2 x y : empty_content (CList [x; y]) = empty_content x && empty_content y.
Proof. unfold empty_content. cbn [texts flat_map]. rewrite app_nil_r. apply forallb_app. Qed.

Lemma cond_chunk_content p c e a aon :
  empty_content c = false -> wfc c = true ->
  exists t, cond_chunk p c e a aon = Some t /\ hdr t = [] /\
            lns t = flat_map splitlines (texts p) ++ pieces c ++ flat_map splitlines (texts a).
Proof.
  intros He Hw. unfold cond_chunk.
  destruct (is_nil (flatten true c)) eqn:E.
  { apply is_nil_true, flatten_true_nil_iff in E. congruence. }
  rewrite andb_false_r. cbn [negb].
  destruct (chunk_some (CList [strs (flatten true p); c]) a) as [t [H1 [H2 H3]]].
  - rewrite empty_content_list2, He. apply andb_false_r.
  - cbn [wfc forallb]. rewrite Hw, wfc_strs_any. reflexivity.
  - exists t. split; [exact H1|]. split; [exact H2|]. rewrite H3.
    cbn [pieces flat_map]. rewrite app_nil_r, <- app_assoc. f_equal.
    rewrite flatten_true_texts. apply pieces_strs_filter.
Qed.

Lemma cond_chunk_empty_response p c e a :
  empty_content c = true -> (empty_content p = false \/ empty_content e = false) ->
  exists t, cond_chunk p c e a false = Some t /\ hdr t = [] /\
            lns t = flat_map splitlines (texts p) ++ flat_map splitlines (texts e) ++ flat_map splitlines (texts a).
Proof.
  intros Hc Hpe. unfold cond_chunk. cbn [andb].
  apply flatten_true_nil_iff in Hc. rewrite Hc. cbn [is_nil negb].
  destruct (chunk_some (CList [strs (flatten true p); strs (flatten true e)]) a) as [t [H1 [H2 H3]]].
  - rewrite empty_content_list2. unfold empty_content at 1 2. rewrite !texts_strs, !flatten_true_texts.
    unfold empty_content in Hpe.
    assert (F : forall l, forallb is_nil (filter nonnil l) = forallb is_nil l).
    { induction l as [|x l IH]; simpl; auto. unfold nonnil at 1. destruct (is_nil x) eqn:E; simpl; rewrite ?E; auto. }
    rewrite !F. destruct Hpe as [-> | ->]; [reflexivity|apply andb_false_r].
  - cbn [wfc forallb]. rewrite !wfc_strs_any. reflexivity.
  - exists t. split; [exact H1|]. split; [exact H2|]. rewrite H3.
    cbn [pieces flat_map]. rewrite app_nil_r, <- app_assoc. rewrite !flatten_true_texts.
    change (flat_map pieces (map CStr ?l)) with (pieces (strs l)). now rewrite !pieces_strs_filter.
Qed.
