(* Completeness half of C13: every valid input (Spec/ValidInput.v) builds. *)
From Coq Require Import List NArith Bool String Lia.
From Dznpy Require Import Base.PyStr Base.Result Base.Json Model.TextGen Model.Scoping Model.PortSelection Model.CppGen Model.Ast
  Model.SupportFiles Sem.ShellSem Model.Builder Spec.ValidInput Proofs.BuilderFacts.
Import ListNotations.

Lemma mapM_ok {A B} (f : A -> result B) l : Forall (fun a => exists b, f a = Ok b) l -> exists bs, mapM f l = Ok bs.
Proof.
  induction 1 as [|a l [b Hb] _ [bs IH]]; cbn [mapM]; [eauto|]. rewrite Hb, IH. cbn [bind]. eauto.
Qed.

Lemma mapM_ok_inv {A B} (f : A -> result B) l bs : mapM f l = Ok bs -> Forall (fun a => exists b, f a = Ok b) l.
Proof.
  revert bs; induction l as [|a l IH]; intros bs H; [constructor|]. cbn [mapM] in H.
  destruct (f a) as [b|] eqn:Fa; cbn [bind] in H; [|discriminate].
  destruct (mapM f l) as [bs'|] eqn:M; cbn [bind] in H; [|discriminate]. constructor; eauto.
Qed.

Lemma formal_params_ok fc itf r e : event_resolves fc itf e -> exists ps, formal_params fc itf r e = Ok ps.
Proof.
  intros H. unfold formal_params. apply mapM_ok. eapply Forall_impl; [|exact H].
  intros f [x Hx]. rewrite Hx. cbn [single as_extern bind]. eauto.
Qed.

Lemma formal_params_ok_inv fc itf r e ps : formal_params fc itf r e = Ok ps -> event_resolves fc itf e.
Proof.
  intros H. apply mapM_ok_inv in H. eapply Forall_impl; [|exact H]. intros f [b Hb]. unfold formal_resolves.
  destruct (lookup_fqn fc (f_type f) (it_fqn itf)) as [|x [|y l]]; cbn [single bind] in Hb; try discriminate.
  destruct x; cbn [as_extern bind] in Hb; try discriminate. eauto.
Qed.

Lemma formal_args_ok fc itf r e : event_resolves fc itf e -> exists a, formal_args fc itf r e = Ok a.
Proof. intros H. unfold formal_args. destruct (formal_params_ok fc itf r e H) as [ps ->]. cbn [bind]. eauto. Qed.

Lemma events_of_itf d p : events_of d p = itf_events d (zp_itf (cp_dzn p)).
Proof. reflexivity. Qed.

Lemma in_stmts_ok fc p : events_resolve fc (zp_itf (cp_dzn p)) EIn -> exists l, in_stmts fc p = Ok l.
Proof.
  intros H. unfold in_stmts. apply mapM_ok. rewrite events_of_itf. eapply Forall_impl; [|exact H].
  intros e He. destruct (formal_params_ok fc _ true e He) as [ps ->]. cbn [bind]. eauto.
Qed.
Lemma out_stmts_ok fc p : events_resolve fc (zp_itf (cp_dzn p)) EOut -> exists l, out_stmts fc p = Ok l.
Proof.
  intros H. unfold out_stmts. apply mapM_ok. rewrite events_of_itf. eapply Forall_impl; [|exact H].
  intros e He. destruct (formal_params_ok fc _ false e He) as [ps ->]. cbn [bind]. eauto.
Qed.
Lemma reroute_in_ok fc d p : events_resolve fc (zp_itf (cp_dzn p)) EIn -> exists r, reroute_in_events fc d p = Ok r.
Proof. intros H. unfold reroute_in_events. destruct (in_stmts_ok fc p H) as [l ->]. cbn [bind]. eauto. Qed.
Lemma reroute_out_ok fc d p : events_resolve fc (zp_itf (cp_dzn p)) EOut -> exists r, reroute_out_events fc d p = Ok r.
Proof. intros H. unfold reroute_out_events. destruct (out_stmts_ok fc p H) as [l ->]. cbn [bind]. eauto. Qed.
Lemma reroute_mc_out_ok fc p : events_resolve fc (zp_itf (cp_dzn p)) EOut -> exists r, reroute_multiclient_out_events fc p = Ok r.
Proof.
  intros H. unfold reroute_multiclient_out_events.
  match goal with |- context [mapM ?f ?l] => assert (M : exists x, mapM f l = Ok x) end.
  { apply mapM_ok. rewrite events_of_itf. eapply Forall_impl; [|exact H]. intros e He.
    destruct (formal_args_ok fc _ false e He) as [a ->]. cbn [bind]. eauto. }
  destruct M as [x ->]. cbn [bind]. eauto.
Qed.

Lemma filter_head {A} (P : A -> bool) l x r : filter P l = x :: r -> In x l /\ P x = true.
Proof. intros H. assert (I : In x (filter P l)) by (rewrite H; now left). now apply filter_In in I. Qed.

Lemma in_event_of_itf itf e : In e (it_events itf) -> is_in e = true -> In e (itf_events EIn itf).
Proof. intros H1 H2. apply filter_In. split; [exact H1|]. unfold is_in in H2. destruct (e_dir e); [reflexivity|discriminate]. Qed.

Lemma check_multiclient_ok fc c name itf : mc_valid fc c itf -> str_eqb name (mcc_port c) = true ->
  exists fx, check_multiclient (Some c) name itf fc = Ok (Some fx) /\ In (mx_claim fx) (itf_events EIn itf) /\ In (mx_release fx) (itf_events EIn itf).
Proof.
  intros [Hne (claim & crest & en & release & rrest & Hc & Hl & Hv & Hr)] Hn. unfold check_multiclient.
  rewrite Hn. cbn [negb]. rewrite Hne, Hc, Hl. cbn [single as_enum bind]. rewrite Hv. cbn [negb]. rewrite Hr.
  eexists; split; [reflexivity|]. cbn [mx_claim mx_release].
  destruct (filter_head _ _ _ _ Hc) as [I1 P1]. destruct (filter_head _ _ _ _ Hr) as [I2 P2].
  apply andb_true_iff in P1 as [_ P1]. apply andb_true_iff in P2 as [_ P2]. split; apply in_event_of_itf; assumption.
Qed.

Lemma check_multiclient_other fc c name itf : str_eqb name (mcc_port c) = false -> check_multiclient (Some c) name itf fc = Ok None.
Proof. intros H. unfold check_multiclient. now rewrite H. Qed.

Lemma cp_dzn_create scope sfns z : cp_dzn (create_cpp_portitf scope sfns z) = z.
Proof. unfold create_cpp_portitf. destruct (zp_sem z); [reflexivity|]. destruct (zp_mc z); reflexivity. Qed.

(* ---------- create_dzn_elements ---------- *)

Definition dzn_step (pc : ports_cfg) (fc : file_contents) (parent : ids) (matched : list (str * semantics))
           (st : list dznport * list dznport) (port : aport) : result (list dznport * list dznport) :=
  let semantics_of (n : str) : result semantics := match lookup matched n with Some s => Ok s | None => Err AdvShellError end in
  do itf <- single as_interface (lookup_fqn fc (po_type port) parent);
  if aport_is_provides port then
    do mcf <- check_multiclient (pc_mc pc) (po_name port) itf fc;
    do _ <- match mcf with
            | Some _ => do s <- semantics_of (po_name port);
                        match s with MTS => Ok tt | STS => Err MultiClientCfgError end
            | None => Ok tt
            end;
    do s <- semantics_of (po_name port);
    Ok (fst st ++ [{| zp_port := port; zp_itf := itf; zp_sem := s; zp_mc := mcf |}], snd st)
  else if po_injected port then Ok st
  else do s <- semantics_of (po_name port);
       Ok (fst st, snd st ++ [{| zp_port := port; zp_itf := itf; zp_sem := s; zp_mc := None |}]).

Lemma create_dzn_elements_unfold cfg fc parent ports :
  create_dzn_elements cfg fc parent ports =
  (let pc := cf_ports cfg in
   do matched <- cfg_match (pc_psts pc) (pc_pmts pc) (pc_rsts pc) (pc_rmts pc)
                           (dedup (port_names PProvides ports)) (dedup (port_names PRequires ports));
   do pr <- fold_left (fun acc port => do st <- acc; dzn_step pc fc parent matched st port) ports (Ok ([], []));
   match pc_mc pc with
   | Some _ => if existsb (fun p => match zp_mc p with Some _ => true | None => false end) (fst pr)
               then Ok {| ze_scope := parent; ze_provides := fst pr; ze_requires := snd pr |}
               else Err AdvShellError
   | None => Ok {| ze_scope := parent; ze_provides := fst pr; ze_requires := snd pr |}
   end).
Proof. reflexivity. Qed.

Definition has_mc (z : dznport) : bool := match zp_mc z with Some _ => true | None => false end.

Definition dzp_ok (fc : file_contents) (z : dznport) : Prop :=
  (zp_sem z = MTS -> events_resolve fc (zp_itf z) EIn) /\
  (forall m, zp_mc z = Some m -> zp_sem z = MTS /\ events_resolve fc (zp_itf z) EOut /\
                                 In (mx_claim m) (itf_events EIn (zp_itf z)) /\ In (mx_release m) (itf_events EIn (zp_itf z))).
Definition dzr_ok (fc : file_contents) (z : dznport) : Prop :=
  (zp_sem z = MTS -> events_resolve fc (zp_itf z) EOut) /\ zp_mc z = None.
Definition dz_inv (fc : file_contents) (st : list dznport * list dznport) : Prop := Forall (dzp_ok fc) (fst st) /\ Forall (dzr_ok fc) (snd st).

Lemma dzn_step_ok fc pc matched parent st port : dz_inv fc st -> port_ok fc pc matched parent port ->
  exists st', dzn_step pc fc parent matched st port = Ok st' /\ dz_inv fc st' /\
              (existsb has_mc (fst st) = true -> existsb has_mc (fst st') = true) /\
              (aport_is_provides port = true -> is_mc_port pc port = true -> existsb has_mc (fst st') = true).
Proof.
  intros [Ip Ir] [itf [Hl Hp]]. unfold dzn_step. rewrite Hl. cbn [single as_interface bind].
  destruct (aport_is_provides port) eqn:Prov.
  - destruct Hp as [s [Hs [Hin Hmc]]]. rewrite Hs.
    destruct (pc_mc pc) as [c|] eqn:MC.
    + destruct (str_eqb (po_name port) (mcc_port c)) eqn:Nm.
      * assert (M : is_mc_port pc port = true) by (unfold is_mc_port; now rewrite MC).
        destruct (Hmc M) as [-> [Hout [c' [Hc' Hv]]]]. inversion Hc'; subst c'.
        destruct (check_multiclient_ok fc c (po_name port) itf Hv Nm) as [fx [-> [I1 I2]]]. cbn [bind].
        eexists; split; [reflexivity|]. cbn [fst snd]. split; [|split].
        -- split; [|exact Ir]. apply Forall_app. split; [exact Ip|]. constructor; [|constructor].
           split; cbn [zp_sem zp_itf zp_mc]; [auto|]. intros m Hm. inversion Hm; subst. auto.
        -- intros _. rewrite existsb_app. cbn. now rewrite orb_true_r.
        -- intros _ _. rewrite existsb_app. cbn. now rewrite orb_true_r.
      * rewrite (check_multiclient_other fc c _ itf Nm). cbn [bind].
        eexists; split; [reflexivity|]. cbn [fst snd]. split; [|split].
        -- split; [|exact Ir]. apply Forall_app. split; [exact Ip|]. constructor; [|constructor].
           split; cbn [zp_sem zp_itf zp_mc]; [auto|]. intros m Hm. discriminate.
        -- intros H. rewrite existsb_app, H. reflexivity.
        -- intros _ M. unfold is_mc_port in M. rewrite MC, Nm in M. discriminate.
    + cbn [check_multiclient bind]. eexists; split; [reflexivity|]. cbn [fst snd]. split; [|split].
      * split; [|exact Ir]. apply Forall_app. split; [exact Ip|]. constructor; [|constructor].
        split; cbn [zp_sem zp_itf zp_mc]; [auto|]. intros m Hm. discriminate.
      * intros H. rewrite existsb_app, H. reflexivity.
      * intros _ M. unfold is_mc_port in M. rewrite MC in M. discriminate.
  - destruct (po_injected port) eqn:Inj.
    + eexists; split; [reflexivity|]. split; [split; assumption|]. split; [auto|discriminate].
    + destruct Hp as [Hp|[s [Hs Hout]]]; [congruence|]. rewrite Hs. cbn [bind].
      eexists; split; [reflexivity|]. cbn [fst snd]. split; [|split; [auto|discriminate]].
      split; [exact Ip|]. apply Forall_app. split; [exact Ir|]. constructor; [|constructor]. split; cbn; auto.
Qed.

Lemma dzn_fold_ok fc pc matched parent ports : Forall (port_ok fc pc matched parent) ports -> forall st, dz_inv fc st ->
  exists st', fold_left (fun acc port => do s <- acc; dzn_step pc fc parent matched s port) ports (Ok st) = Ok st' /\ dz_inv fc st' /\
              (existsb has_mc (fst st) = true -> existsb has_mc (fst st') = true) /\
              ((exists port, In port ports /\ aport_is_provides port = true /\ is_mc_port pc port = true) -> existsb has_mc (fst st') = true).
Proof.
  induction 1 as [|port ports Hp _ IH]; intros st I.
  - exists st. cbn. split; [reflexivity|]. split; [exact I|]. split; [auto|]. intros [p [[] _]].
  - destruct (dzn_step_ok fc pc matched parent st port I Hp) as [st1 [E [I1 [M1 M2]]]].
    destruct (IH st1 I1) as [st' [E' [I' [M1' M2']]]]. exists st'. cbn [fold_left bind]. rewrite E. split; [exact E'|].
    split; [exact I'|]. split; [auto|]. intros [p [[->|Hin] [Hprov Hmc]]]; [auto|]. apply M2'. eauto.
Qed.

(* ---------- helpers and constructor ---------- *)

Definition cpp_ok (fc : file_contents) (p : cppport) : Prop := dzp_ok fc (cp_dzn p).
Definition cpr_ok (fc : file_contents) (p : cppport) : Prop := dzr_ok fc (cp_dzn p).

Lemma cpp_ok_map fc scope sfns zs : Forall (dzp_ok fc) zs -> Forall (cpp_ok fc) (map (create_cpp_portitf scope sfns) zs).
Proof. intros H. apply Forall_map. eapply Forall_impl; [|exact H]. intros z Hz. unfold cpp_ok. now rewrite cp_dzn_create. Qed.
Lemma cpr_ok_map fc scope sfns zs : Forall (dzr_ok fc) zs -> Forall (cpr_ok fc) (map (create_cpp_portitf scope sfns) zs).
Proof. intros H. apply Forall_map. eapply Forall_impl; [|exact H]. intros z Hz. unfold cpr_ok. now rewrite cp_dzn_create. Qed.

Lemma events_resolve_in fc itf d e : events_resolve fc itf d -> In e (itf_events d itf) -> event_resolves fc itf e.
Proof. intros H Hin. unfold events_resolve in H. rewrite Forall_forall in H. auto. Qed.

Lemma initialize_port_ok fc sfns p m : cpp_ok fc p -> zp_mc (cp_dzn p) = Some m -> exists tb, initialize_port_impl fc sfns p m = Ok tb.
Proof.
  intros [Hin Hmc] Hm. destruct (Hmc m Hm) as [Hs [Hout [I1 I2]]]. specialize (Hin Hs).
  unfold initialize_port_impl.
  match goal with |- context [mapM ?f ?l] => assert (M : exists x, mapM f l = Ok x) end.
  { apply mapM_ok. apply Forall_forall. intros e He.
    destruct (event_eqb e (mx_claim m)).
    - unfold claim_snippet. destruct (formal_args_ok fc _ true (mx_claim m) (events_resolve_in _ _ _ _ Hin I1)) as [a ->]. cbn [bind]. eauto.
    - destruct (event_eqb e (mx_release m)); [|eauto].
      unfold release_snippet. destruct (formal_args_ok fc _ true (mx_release m) (events_resolve_in _ _ _ _ Hin I2)) as [a ->]. cbn [bind]. eauto. }
  destruct M as [x ->]. cbn [bind]. eauto.
Qed.

Lemma helpers_ok fc sfns scope ports : Forall (cpp_ok fc) ports -> exists h, create_cpp_port_helpers fc sfns scope ports = Ok h.
Proof.
  intros H. unfold create_cpp_port_helpers. generalize {| hp_public := []; hp_private := [] |}.
  induction H as [|p ports Hp _ IH]; intros h0; cbn [fold_left bind]; [eauto|].
  destruct (zp_mc (cp_dzn p)) as [m|] eqn:Hm; [|apply IH].
  destruct (initialize_port_ok fc sfns p m Hp Hm) as [tb ->]. cbn [bind]. apply IH.
Qed.

Lemma cp_is_mts_sem p : cp_is_mts p = true -> zp_sem (cp_dzn p) = MTS.
Proof. unfold cp_is_mts. destruct (zp_sem (cp_dzn p)); [discriminate|reflexivity]. Qed.
Lemma cp_is_mc_some p : cp_is_mc p = true -> exists m, zp_mc (cp_dzn p) = Some m.
Proof. unfold cp_is_mc. destruct (zp_mc (cp_dzn p)); [eauto|discriminate]. Qed.

Lemma constructor_ok fc scope fa ins pp rp : Forall (cpp_ok fc) pp -> Forall (cpr_ok fc) rp ->
  exists c, create_constructor fc scope fa ins pp rp = Ok c.
Proof.
  intros Hp Hr. unfold create_constructor.
  assert (A1 : exists x, mapM (reroute_in_events fc (snd (fa_dispatcher fa))) (filter (fun p => negb (cp_is_mc p)) (filter cp_is_mts pp)) = Ok x).
  { apply mapM_ok. apply Forall_forall. intros p H. apply filter_In in H as [H _]. apply filter_In in H as [H Hm].
    rewrite Forall_forall in Hp. destruct (Hp p H) as [Hin _]. apply reroute_in_ok. apply Hin. now apply cp_is_mts_sem. }
  assert (A2 : exists x, mapM (reroute_out_events fc (snd (fa_dispatcher fa))) (filter cp_is_mts rp) = Ok x).
  { apply mapM_ok. apply Forall_forall. intros p H. apply filter_In in H as [H Hm].
    rewrite Forall_forall in Hr. destruct (Hr p H) as [Hout _]. apply reroute_out_ok. apply Hout. now apply cp_is_mts_sem. }
  assert (A3 : exists x, mapM (reroute_in_events fc (snd (fa_dispatcher fa))) (filter cp_is_mc (filter cp_is_mts pp)) = Ok x).
  { apply mapM_ok. apply Forall_forall. intros p H. apply filter_In in H as [H _]. apply filter_In in H as [H Hm].
    rewrite Forall_forall in Hp. destruct (Hp p H) as [Hin _]. apply reroute_in_ok. apply Hin. now apply cp_is_mts_sem. }
  assert (A4 : exists x, mapM (reroute_multiclient_out_events fc) (filter cp_is_mc (filter cp_is_mts pp)) = Ok x).
  { apply mapM_ok. apply Forall_forall. intros p H. apply filter_In in H as [H Hc]. apply filter_In in H as [H Hm].
    rewrite Forall_forall in Hp. destruct (Hp p H) as [_ Hmc]. destruct (cp_is_mc_some p Hc) as [m Hmm].
    apply reroute_mc_out_ok. now destruct (Hmc m Hmm) as [_ [Hout _]]. }
  destruct A1 as [x1 ->], A2 as [x2 ->], A3 as [x3 ->], A4 as [x4 ->]. cbn [bind]. eauto.
Qed.

(* ---------- the build ---------- *)

Theorem valid_input_builds tp fc cfg : valid_input fc cfg -> exists fs, build tp fc cfg = Ok fs.
Proof.
  intros (f & enc_fqn & parent & enc_name & ports & matched & Hl & He & Hm & Hports & Hmc & Hname).
  unfold build. rewrite Hl, He. cbn [bind].
  assert (Z : exists ze, create_dzn_elements cfg fc parent ports = Ok ze /\ Forall (dzp_ok fc) (ze_provides ze) /\ Forall (dzr_ok fc) (ze_requires ze)).
  { rewrite create_dzn_elements_unfold. cbn zeta. rewrite Hm. cbn [bind].
    destruct (dzn_fold_ok fc (cf_ports cfg) matched parent ports Hports ([], [])) as [st [E [[Ip Ir] [_ Mc]]]]; [split; constructor|].
    rewrite E. cbn [bind]. destruct (pc_mc (cf_ports cfg)) as [c|] eqn:MC.
    - destruct (Hmc c eq_refl) as [port [Hin [Hprov Hn]]].
      assert (X : existsb has_mc (fst st) = true).
      { apply Mc. exists port. repeat split; auto. unfold is_mc_port. now rewrite MC. }
      unfold has_mc in X. rewrite X. eexists; split; [reflexivity|]. cbn. auto.
    - eexists; split; [reflexivity|]. cbn. auto. }
  destruct Z as [ze [-> [Zp Zr]]]. cbn [bind]. rewrite Hname.
  set (name := (get_basename (cf_filename cfg) ++ cf_suffix cfg)%list).
  set (sfns := sf_ns (cf_sf_prefix cfg)).
  pose proof (cpp_ok_map fc name sfns _ Zp) as Cp. pose proof (cpr_ok_map fc name sfns _ Zr) as Cr.
  destruct (helpers_ok fc sfns name _ Cp) as [h ->]. cbn [bind].
  destruct (constructor_ok fc name (create_facilities (cf_origin cfg) name) sfns _ _ Cp Cr) as [c ->].
  cbn [bind]. eauto.
Qed.

(* ================= the converse: a successful build implies a valid input ================= *)

Lemma check_multiclient_inv fc c name itf mcf : check_multiclient (Some c) name itf fc = Ok mcf ->
  match mcf with
  | Some fx => str_eqb name (mcc_port c) = true /\ mc_valid fc c itf
  | None => str_eqb name (mcc_port c) = false
  end.
Proof.
  unfold check_multiclient. destruct (str_eqb name (mcc_port c)) eqn:Nm; cbn [negb]; [|intros H; inversion H; reflexivity].
  destruct (str_eqb (mcc_claim c) (mcc_release c)) eqn:Ne; [discriminate|].
  destruct (filter (fun e => event_eqb_name e (mcc_claim c) && is_in e) (it_events itf)) as [|claim crest] eqn:Fc; [discriminate|].
  destruct (lookup_fqn fc (e_ret claim) (it_fqn itf)) as [|x [|y l]] eqn:Lk; cbn [single]; try discriminate.
  destruct x; cbn [as_enum]; try discriminate.
  destruct (existsb (fun j => jstr_is j (hd [] (mcc_reply c))) (en_fields e)) eqn:Ex; cbn [negb]; [|discriminate].
  destruct (filter (fun e0 => event_eqb_name e0 (mcc_release c) && is_in e0) (it_events itf)) as [|release rrest] eqn:Fr; [discriminate|].
  intros H. inversion H; subst. split; [reflexivity|]. split; [exact Ne|]. exists claim, crest, e, release, rrest. auto.
Qed.

Definition mk_dz port itf s mcf : dznport := {| zp_port := port; zp_itf := itf; zp_sem := s; zp_mc := mcf |}.

Lemma dzn_step_inv pc fc parent matched st port st' : dzn_step pc fc parent matched st port = Ok st' ->
  exists itf, lookup_fqn fc (po_type port) parent = [FInterface itf] /\
    if aport_is_provides port then
      exists s mcf, lookup matched (po_name port) = Some s /\ check_multiclient (pc_mc pc) (po_name port) itf fc = Ok mcf /\
                    (mcf <> None -> s = MTS) /\ st' = (fst st ++ [mk_dz port itf s mcf], snd st)
    else (po_injected port = true /\ st' = st) \/
         exists s, lookup matched (po_name port) = Some s /\ st' = (fst st, snd st ++ [mk_dz port itf s None]).
Proof.
  unfold dzn_step. destruct (lookup_fqn fc (po_type port) parent) as [|x [|y l]] eqn:Lk; cbn [single bind]; try discriminate.
  destruct x; cbn [as_interface bind]; try discriminate. intros H. exists i. split; [reflexivity|].
  destruct (aport_is_provides port).
  - destruct (check_multiclient (pc_mc pc) (po_name port) i fc) as [mcf|] eqn:CM; cbn [bind] in H; [|discriminate].
    destruct (lookup matched (po_name port)) as [s|] eqn:Ls.
    + exists s, mcf. split; [reflexivity|]. split; [reflexivity|].
      destruct mcf as [fx|]; cbn [bind] in H.
      * destruct s; cbn [bind] in H; [discriminate|]. inversion H. split; [reflexivity|reflexivity].
      * inversion H. split; [congruence|reflexivity].
    + destruct mcf; cbn [bind] in H; discriminate.
  - destruct (po_injected port).
    + left. inversion H. auto.
    + right. destruct (lookup matched (po_name port)) as [s|]; cbn [bind] in H; [|discriminate]. exists s. inversion H. auto.
Qed.

Definition port_done (pc : ports_cfg) fc parent (matched : list (str * semantics)) (pr : list dznport * list dznport) (port : aport) : Prop :=
  exists itf, lookup_fqn fc (po_type port) parent = [FInterface itf] /\
    if aport_is_provides port then
      exists s mcf, lookup matched (po_name port) = Some s /\ check_multiclient (pc_mc pc) (po_name port) itf fc = Ok mcf /\
                    (mcf <> None -> s = MTS) /\ In (mk_dz port itf s mcf) (fst pr)
    else po_injected port = true \/ exists s, lookup matched (po_name port) = Some s /\ In (mk_dz port itf s None) (snd pr).

Lemma port_done_mono pc fc parent matched pr pr' port : incl (fst pr) (fst pr') -> incl (snd pr) (snd pr') ->
  port_done pc fc parent matched pr port -> port_done pc fc parent matched pr' port.
Proof.
  intros I1 I2 [itf [Hl H]]. exists itf. split; [exact Hl|]. destruct (aport_is_provides port).
  - destruct H as (s & mcf & A & B & C & D). exists s, mcf. auto.
  - destruct H as [H|[s [A B]]]; [now left|right; eauto].
Qed.

Lemma fold_err {A S} (g : S -> A -> result S) l e : fold_left (fun acc x => do st <- acc; g st x) l (Err e) = Err e.
Proof. induction l as [|a l IH]; [reflexivity|]. cbn [fold_left bind]. exact IH. Qed.

Lemma dzn_fold_inv pc fc parent matched ports : forall st st',
  fold_left (fun acc port => do s <- acc; dzn_step pc fc parent matched s port) ports (Ok st) = Ok st' ->
  incl (fst st) (fst st') /\ incl (snd st) (snd st') /\ Forall (port_done pc fc parent matched st') ports /\
  (forall z, In z (fst st') -> In z (fst st) \/
     (In (zp_port z) ports /\ aport_is_provides (zp_port z) = true /\
      check_multiclient (pc_mc pc) (po_name (zp_port z)) (zp_itf z) fc = Ok (zp_mc z))).
Proof.
  induction ports as [|port ports IH]; intros st st' H.
  - cbn in H. inversion H; subst. repeat split; auto using incl_refl.
  - cbn [fold_left bind] in H. destruct (dzn_step pc fc parent matched st port) as [st1|e] eqn:S; [|rewrite fold_err in H; discriminate].
    destruct (IH st1 st' H) as (I1 & I2 & F & Z). destruct (dzn_step_inv _ _ _ _ _ _ _ S) as [itf [Hl Hs]].
    assert (J1 : incl (fst st) (fst st1) /\ incl (snd st) (snd st1)).
    { destruct (aport_is_provides port).
      - destruct Hs as (s & mcf & _ & _ & _ & ->). cbn. split; [apply incl_appl|]; apply incl_refl.
      - destruct Hs as [[_ ->]|[s [_ ->]]]; cbn; split; try apply incl_refl. apply incl_appl, incl_refl. }
    destruct J1 as [J1 J2]. split; [eapply incl_tran; eauto|]. split; [eapply incl_tran; eauto|]. split.
    + constructor; [|exact F]. exists itf. split; [exact Hl|]. destruct (aport_is_provides port) eqn:Prov.
      * destruct Hs as (s & mcf & A & B & C & ->). exists s, mcf. repeat split; auto. apply I1. cbn. apply in_or_app. right. now left.
      * destruct Hs as [[Inj _]|[s [A ->]]]; [now left|]. right. exists s. split; [exact A|]. apply I2. cbn. apply in_or_app. right. now left.
    + intros z Hz. destruct (Z z Hz) as [Hz1|[Hin R]]; [|right; split; [now right|exact R]].
      destruct (aport_is_provides port) eqn:Prov.
      * destruct Hs as (s & mcf & A & B & C & ->). cbn in Hz1. apply in_app_or in Hz1 as [Hz1|[<-|[]]]; [now left|].
        right. cbn. split; [now left|]. split; [exact Prov|exact B].
      * destruct Hs as [[_ ->]|[s [_ ->]]]; cbn in Hz1; now left.
Qed.

Lemma constructor_inv fc scope fa ins pp rp c : create_constructor fc scope fa ins pp rp = Ok c ->
  (exists x, mapM (reroute_in_events fc (snd (fa_dispatcher fa))) (filter (fun p => negb (cp_is_mc p)) (filter cp_is_mts pp)) = Ok x) /\
  (exists x, mapM (reroute_out_events fc (snd (fa_dispatcher fa))) (filter cp_is_mts rp) = Ok x) /\
  (exists x, mapM (reroute_in_events fc (snd (fa_dispatcher fa))) (filter cp_is_mc (filter cp_is_mts pp)) = Ok x) /\
  (exists x, mapM (reroute_multiclient_out_events fc) (filter cp_is_mc (filter cp_is_mts pp)) = Ok x).
Proof.
  unfold create_constructor.
  destruct (mapM (reroute_in_events fc (snd (fa_dispatcher fa))) (filter (fun p => negb (cp_is_mc p)) (filter cp_is_mts pp))); cbn [bind]; [|discriminate].
  destruct (mapM (reroute_out_events fc (snd (fa_dispatcher fa))) (filter cp_is_mts rp)); cbn [bind]; [|discriminate].
  destruct (mapM (reroute_in_events fc (snd (fa_dispatcher fa))) (filter cp_is_mc (filter cp_is_mts pp))); cbn [bind]; [|discriminate].
  destruct (mapM (reroute_multiclient_out_events fc) (filter cp_is_mc (filter cp_is_mts pp))); cbn [bind]; [|discriminate].
  intros _. repeat split; eauto.
Qed.

Lemma reroute_in_inv fc d p r : reroute_in_events fc d p = Ok r -> events_resolve fc (zp_itf (cp_dzn p)) EIn.
Proof.
  unfold reroute_in_events. destruct (in_stmts fc p) as [l|] eqn:I; cbn [bind]; [|discriminate]. intros _.
  unfold in_stmts in I. apply mapM_ok_inv in I. rewrite events_of_itf in I. eapply Forall_impl; [|exact I].
  intros e [b Hb]. destruct (formal_params fc (zp_itf (cp_dzn p)) true e) as [ps|] eqn:F; cbn [bind] in Hb; [|discriminate].
  eapply formal_params_ok_inv; eauto.
Qed.
Lemma reroute_out_inv fc d p r : reroute_out_events fc d p = Ok r -> events_resolve fc (zp_itf (cp_dzn p)) EOut.
Proof.
  unfold reroute_out_events. destruct (out_stmts fc p) as [l|] eqn:I; cbn [bind]; [|discriminate]. intros _.
  unfold out_stmts in I. apply mapM_ok_inv in I. rewrite events_of_itf in I. eapply Forall_impl; [|exact I].
  intros e [b Hb]. destruct (formal_params fc (zp_itf (cp_dzn p)) false e) as [ps|] eqn:F; cbn [bind] in Hb; [|discriminate].
  eapply formal_params_ok_inv; eauto.
Qed.
Lemma reroute_mc_out_inv fc p r : reroute_multiclient_out_events fc p = Ok r -> events_resolve fc (zp_itf (cp_dzn p)) EOut.
Proof.
  unfold reroute_multiclient_out_events.
  match goal with |- context [mapM ?f ?l] => destruct (mapM f l) as [x|] eqn:M end; cbn [bind]; [|discriminate]. intros _.
  apply mapM_ok_inv in M. rewrite events_of_itf in M. eapply Forall_impl; [|exact M].
  intros e [b Hb]. unfold formal_args in Hb.
  destruct (formal_params fc (zp_itf (cp_dzn p)) false e) as [ps|] eqn:F; cbn [bind] in Hb; [|discriminate].
  eapply formal_params_ok_inv; eauto.
Qed.

Lemma mapM_ok_in {A B} (f : A -> result B) l bs a : mapM f l = Ok bs -> In a l -> exists b, f a = Ok b.
Proof. intros H Hin. apply mapM_ok_inv in H. rewrite Forall_forall in H. auto. Qed.

Theorem build_ok_valid tp fc cfg fs : build tp fc cfg = Ok fs -> valid_input fc cfg.
Proof.
  unfold build. destruct (lookup_fqn fc (cf_encapsulee cfg) []) as [|f [|g l]] eqn:L; try discriminate.
  destruct (encapsulee_of f) as [[[[enc_fqn parent] enc_name] ports]|] eqn:E; cbn [bind]; [|discriminate].
  destruct (create_dzn_elements cfg fc parent ports) as [ze|] eqn:Z; cbn [bind]; [|discriminate].
  destruct (is_nil (get_basename (cf_filename cfg) ++ cf_suffix cfg)) eqn:Nm; [discriminate|].
  set (name := (get_basename (cf_filename cfg) ++ cf_suffix cfg)%list). set (sfns := sf_ns (cf_sf_prefix cfg)).
  destruct (create_cpp_port_helpers fc sfns name (map (create_cpp_portitf name sfns) (ze_provides ze))) as [h|]; cbn [bind]; [|discriminate].
  destruct (create_constructor fc name (create_facilities (cf_origin cfg) name) sfns
              (map (create_cpp_portitf name sfns) (ze_provides ze)) (map (create_cpp_portitf name sfns) (ze_requires ze))) as [c|] eqn:C;
    cbn [bind]; [|discriminate].
  intros _. destruct (constructor_inv _ _ _ _ _ _ _ C) as ([x1 A1] & [x2 A2] & [x3 A3] & [x4 A4]).
  rewrite create_dzn_elements_unfold in Z. cbn zeta in Z.
  destruct (cfg_match _ _ _ _ _ _) as [matched|] eqn:M; cbn [bind] in Z; [|discriminate].
  match type of Z with context [fold_left ?step ports (Ok ?s0)] => destruct (fold_left step ports (Ok s0)) as [pr|] eqn:F end; cbn [bind] in Z; [|discriminate].
  destruct (dzn_fold_inv _ _ _ _ _ _ _ F) as (_ & _ & Done & Origin).
  assert (Hze : ze_provides ze = fst pr /\ ze_requires ze = snd pr /\
                (forall c0, pc_mc (cf_ports cfg) = Some c0 -> existsb has_mc (fst pr) = true)).
  { destruct (pc_mc (cf_ports cfg)) as [c0|].
    - destruct (existsb (fun p => match zp_mc p with Some _ => true | None => false end) (fst pr)) eqn:Ex; [|discriminate].
      inversion Z; subst ze. cbn. repeat split; auto.
    - inversion Z; subst ze. cbn. repeat split; auto. discriminate. }
  destruct Hze as (Zp & Zr & Zmc).
  exists f, enc_fqn, parent, enc_name, ports, matched. repeat split; auto.
  - (* every port is fine *)
    eapply Forall_impl; [|exact Done]. intros port (itf & Hl & Hd). exists itf. split; [exact Hl|].
    destruct (aport_is_provides port) eqn:Prov.
    + destruct Hd as (s & mcf & Hs & Hc & Hmts & Hin). exists s. split; [exact Hs|].
      set (z := mk_dz port itf s mcf) in *. set (p := create_cpp_portitf name sfns z).
      assert (Hp : In p (map (create_cpp_portitf name sfns) (ze_provides ze))) by (rewrite Zp; now apply in_map).
      assert (Dz : cp_dzn p = z) by apply cp_dzn_create.
      assert (InE : s = MTS -> events_resolve fc itf EIn).
      { intros ->. assert (Mt : cp_is_mts p = true) by (unfold cp_is_mts; now rewrite Dz).
        destruct (cp_is_mc p) eqn:Mc.
        - assert (I : In p (filter cp_is_mc (filter cp_is_mts (map (create_cpp_portitf name sfns) (ze_provides ze))))) by (apply filter_In; split; [apply filter_In; auto|exact Mc]).
          destruct (mapM_ok_in _ _ _ _ A3 I) as [r R]. apply reroute_in_inv in R. now rewrite Dz in R.
        - assert (I : In p (filter (fun q => negb (cp_is_mc q)) (filter cp_is_mts (map (create_cpp_portitf name sfns) (ze_provides ze))))) by (apply filter_In; split; [apply filter_In; auto|now rewrite Mc]).
          destruct (mapM_ok_in _ _ _ _ A1 I) as [r R]. apply reroute_in_inv in R. now rewrite Dz in R. }
      split; [exact InE|]. intros Ismc. unfold is_mc_port in Ismc. destruct (pc_mc (cf_ports cfg)) as [c0|] eqn:MC; [|discriminate].
      pose proof (check_multiclient_inv fc c0 _ itf mcf Hc) as Inv. destruct mcf as [fx|]; [|congruence].
      destruct Inv as [_ Hv]. assert (Hs' : s = MTS) by (apply Hmts; discriminate). split; [exact Hs'|]. split; [|eauto].
      subst s. assert (Mt : cp_is_mts p = true) by (unfold cp_is_mts; now rewrite Dz).
      assert (Mc : cp_is_mc p = true) by (unfold cp_is_mc; now rewrite Dz).
      assert (I : In p (filter cp_is_mc (filter cp_is_mts (map (create_cpp_portitf name sfns) (ze_provides ze))))) by (apply filter_In; split; [apply filter_In; auto|exact Mc]).
      destruct (mapM_ok_in _ _ _ _ A4 I) as [r R]. apply reroute_mc_out_inv in R. now rewrite Dz in R.
    + destruct Hd as [Inj|(s & Hs & Hin)]; [now left|]. right. exists s. split; [exact Hs|]. intros ->.
      set (z := mk_dz port itf MTS None) in *. set (p := create_cpp_portitf name sfns z).
      assert (Hp : In p (map (create_cpp_portitf name sfns) (ze_requires ze))) by (rewrite Zr; now apply in_map).
      assert (Dz : cp_dzn p = z) by apply cp_dzn_create.
      assert (Mt : cp_is_mts p = true) by (unfold cp_is_mts; now rewrite Dz).
      assert (I : In p (filter cp_is_mts (map (create_cpp_portitf name sfns) (ze_requires ze)))) by (apply filter_In; auto).
      destruct (mapM_ok_in _ _ _ _ A2 I) as [r R]. apply reroute_out_inv in R. now rewrite Dz in R.
  - (* the multi-client configuration names a provides port *)
    intros c0 MC. specialize (Zmc c0 MC). apply existsb_exists in Zmc as [z [Hz Hm]].
    destruct (Origin z Hz) as [[]|(Hin & Hprov & Hc)]. exists (zp_port z). split; [exact Hin|]. split; [exact Hprov|].
    rewrite MC in Hc. unfold has_mc in Hm. destruct (zp_mc z) as [fx|] eqn:Zm; [|discriminate].
    now destruct (check_multiclient_inv fc c0 _ _ _ Hc) as [Hn _].
Qed.

Theorem build_ok_iff_valid tp fc cfg : (exists fs, build tp fc cfg = Ok fs) <-> valid_input fc cfg.
Proof. split; [intros [fs H]; eapply build_ok_valid; eauto|apply valid_input_builds]. Qed.

Corollary invalid_input_fails tp fc cfg : ~ valid_input fc cfg -> exists e, build tp fc cfg = Err e /\ library_error e.
Proof.
  intros H. destruct (build tp fc cfg) as [fs|e] eqn:B.
  - exfalso. apply H. eapply build_ok_valid; eauto.
  - exists e. split; [reflexivity|]. now apply (build_err_library tp fc cfg).
Qed.
