From Coq Require Import List NArith Bool String.
From Dznpy Require Import Base.PyStr Base.Result Model.Ast Model.SupportFiles Model.Builder Model.BuilderObj.
Import ListNotations.

Lemma history_independent tp h : forall s, brun tp s h = map (fun i => configure_and_build tp (fst i) (snd i)) h.
Proof.
  induction h as [|i t IH]; intros s; [reflexivity|]. cbn [brun map]. unfold bstep.
  destruct (configure_and_build tp (fst i) (snd i)); cbn; now rewrite IH.
Qed.
