From Coq Require Import List NArith Bool Lia Arith String.
From Dznpy Require Import Base.PyStr Base.Result Model.TextGen Model.Scoping Model.CppGen Spec.FlattenSpec
  Proofs.PyStrFacts Proofs.TextGenFacts Proofs.C17Facts.
Import ListNotations.
Open Scope nat_scope.

(* ---------- one line through a text block ---------- *)

Lemma split_text_line x : no_break x -> split_text x = [x].
Proof.
  intros H. unfold split_text. destruct (is_nil x) eqn:E; [apply is_nil_true in E; now subst|].
  apply splitlines_single; [assumption|now apply is_nil_false].
Qed.

Lemma tb_str_line x : no_break x -> x <> [] -> tb_str x = (x ++ [LF])%list.
Proof.
  intros Hb Hne. unfold tb_str. rewrite str_form. unfold mk1. rewrite lines_eq_spec by reflexivity.
  cbn [mk hdr truthy pieces_top pieces app]. rewrite split_text_line by assumption.
  unfold terminated. cbn. now rewrite app_nil_r.
Qed.

(* ---------- parameters: the declaration is the definition plus an optional default ---------- *)

Definition default_suffix (p : param) : str :=
  match t_default (pa_type p) with Some d => if is_nil d then [] else (L " = " ++ d)%list | None => [] end.

Lemma param_decl_def p : param_decl p = (param_def p ++ default_suffix p)%list.
Proof.
  unfold param_decl, default_suffix. destruct (t_default (pa_type p)) as [d|]; [|now rewrite app_nil_r].
  destruct (is_nil d); [now rewrite app_nil_r|reflexivity].
Qed.

(* same types, names and order: position by position *)
Lemma params_pointwise ps k p : nth_error ps k = Some p ->
  nth_error (map param_decl ps) k = Some (param_def p ++ default_suffix p)%list /\
  nth_error (map param_def ps) k = Some (param_def p).
Proof. intros H. rewrite !nth_error_map, H. cbn. now rewrite param_decl_def. Qed.

(* ---------- functions ---------- *)

Definition decl_prefix (f : function) : str :=
  match fn_prefix f with FMember => [] | FVirtual => L "virtual " | FStatic => L "static " end.
Definition decl_suffix (f : function) : str :=
  ((if fn_override f then L " override" else []) ++ init_if (fn_init f) ++ L ";")%list.
Definition owner (f : function) : str := match fn_scope f with Some s => (s ++ L "::")%list | None => [] end.

(* declaration and definition are built around the same return type, name, parameters and cv-qualifier;
   virtual/static, override and "= ..." occur in the declaration only, the owner qualifier in the definition only *)
Lemma fn_decl_shape f : fn_decl_line f =
  (decl_prefix f ++ str_type (fn_ret f) ++ L " " ++ fn_name f ++ L "(" ++ join (L ", ") (map param_decl (fn_params f)) ++ L ")" ++
   sp_if (fn_cav f) ++ decl_suffix f)%list.
Proof. unfold fn_decl_line, decl_prefix, decl_suffix. repeat (rewrite <- ?app_assoc; f_equal). Qed.

Lemma fn_def_shape f : fn_def_sig f =
  (str_type (fn_ret f) ++ L " " ++ owner f ++ fn_name f ++ L "(" ++ join (L ", ") (map param_def (fn_params f)) ++ L ")" ++
   sp_if (fn_cav f))%list.
Proof. reflexivity. Qed.

Lemma fn_decl_rendered f : no_break (fn_decl_line f) -> fn_as_decl f = (fn_decl_line f ++ [LF])%list.
Proof.
  intros H. apply tb_str_line; [assumption|]. unfold fn_decl_line.
  intros E. apply (f_equal (@List.length _)) in E. rewrite !app_length in E. cbn in E. lia.
Qed.

Lemma fn_no_def_when_initialised f : fn_init f <> [] -> fn_as_def f = [].
Proof. intros H. unfold fn_as_def. apply is_nil_false in H. now rewrite H. Qed.

Lemma fn_def_empty_body f : fn_init f = [] -> truthy (fn_contents f) = false -> no_break (fn_def_sig f) ->
  fn_as_def f = (fn_def_sig f ++ L " {}" ++ [LF])%list.
Proof.
  intros Hi Ht Hb. unfold fn_as_def. rewrite Hi, Ht. cbn [is_nil negb].
  rewrite tb_str_line; [now rewrite <- app_assoc| |].
  - apply no_break_app. split; [assumption|repeat constructor].
  - intros E. apply (f_equal (@List.length _)) in E. rewrite app_length in E. cbn in E. lia.
Qed.

(* what the definition depends on: nothing that is declaration-only *)
Definition def_inputs (f : function) :=
  (str_type (fn_ret f), fn_name f, map param_def (fn_params f), fn_cav f, fn_contents f, fn_scope f, is_nil (fn_init f)).

Lemma fn_def_depends_only_on f g : def_inputs f = def_inputs g -> fn_as_def f = fn_as_def g.
Proof.
  unfold def_inputs. intros E. inversion E as [[H1 H2 H3 H4 H5 H6 H7]].
  unfold fn_as_def. rewrite H7, H5. unfold fn_def_sig. now rewrite H1, H2, H3, H4, H6.
Qed.

(* what the declaration depends on: neither the body nor the owner *)
Definition decl_inputs (f : function) :=
  (fn_prefix f, str_type (fn_ret f), fn_name f, map param_decl (fn_params f), fn_cav f, fn_override f, fn_init f).

Lemma fn_decl_depends_only_on f g : decl_inputs f = decl_inputs g -> fn_as_decl f = fn_as_decl g.
Proof.
  unfold decl_inputs. intros E. inversion E as [[H1 H2 H3 H4 H5 H6 H7]].
  unfold fn_as_decl, fn_decl_line. now rewrite H1, H2, H3, H4, H5, H6, H7.
Qed.

(* ---------- constructors and destructors ---------- *)

Lemma ctor_no_def_when_initialised c : c_init c <> [] -> ctor_as_def c = [].
Proof. intros H. unfold ctor_as_def. apply is_nil_false in H. now rewrite H. Qed.
Lemma dtor_no_def_when_initialised d : d_init d <> [] -> dtor_as_def d = [].
Proof. intros H. unfold dtor_as_def. apply is_nil_false in H. now rewrite H. Qed.

Lemma ctor_decl_shape c : ctor_decl_line c =
  ((if c_explicit c then L "explicit " else []) ++ c_scope c ++ L "(" ++ join (L ", ") (map param_decl (some_params (c_params c))) ++ L ")" ++
   init_if (c_init c) ++ L ";")%list.
Proof. reflexivity. Qed.
Lemma ctor_def_shape c : ctor_def_sig c =
  (c_scope c ++ L "::" ++ c_scope c ++ L "(" ++ join (L ", ") (map param_def (some_params (c_params c))) ++ L ")")%list.
Proof. reflexivity. Qed.

Definition ctor_def_inputs (c : constructor) :=
  (c_scope c, map param_def (some_params (c_params c)), c_mil c, c_contents c, is_nil (c_init c)).
Lemma ctor_def_depends_only_on c d : ctor_def_inputs c = ctor_def_inputs d -> ctor_as_def c = ctor_as_def d.
Proof.
  unfold ctor_def_inputs. intros E. inversion E as [[H1 H2 H3 H4 H5]].
  unfold ctor_as_def. rewrite H5, H3, H4. unfold ctor_def_sig. now rewrite H1, H2.
Qed.

(* ---------- blocks: balanced, correctly named open/close pairs around unchanged contents ---------- *)

Lemma block_lines head tail (t : tblock) : no_break head -> head <> [] -> no_break tail -> tail <> [] -> wf t = true ->
  splitlines (str_tb (mk1 (CList [CStr head; CBlock t; CStr tail]))) = (head :: (hdr t ++ lns t) ++ [tail])%list.
Proof.
  intros Hh Hhn Ht Htn Hw. rewrite str_form. unfold mk1. cbn [mk hdr truthy app].
  rewrite lines_eq_spec by (cbn; now rewrite Hw).
  cbn [pieces_top pieces flat_map]. rewrite !split_text_line by assumption. rewrite app_nil_r. cbn [app].
  apply splitlines_terminated. constructor; [assumption|]. apply Forall_app. split; [now apply wf_lines_spec|].
  constructor; [assumption|constructor].
Qed.

Lemma join_no_break sep l : no_break sep -> Forall no_break l -> no_break (join sep l).
Proof.
  intros Hs H. induction H as [|x l Hx Hl IH]; [constructor|]. destruct l as [|y l']; [exact Hx|].
  rewrite join_cons. apply no_break_app. split; [exact Hx|]. apply no_break_app. split; [exact Hs|exact IH].
Qed.

Lemma lit_nonnil_app (a b : str) : b <> [] -> (a ++ b)%list <> [].
Proof. intros H E. apply app_eq_nil in E as [_ E]. contradiction. Qed.

Lemma ns_suffix_no_break i : Forall no_break i -> no_break (ns_suffix i).
Proof.
  intros H. unfold ns_suffix. destruct (is_nil i); [constructor|]. apply no_break_app. split; [repeat constructor|].
  unfold ids_colons. apply join_no_break; [repeat constructor|assumption].
Qed.

(* namespace: "namespace A::B {" ... "} // namespace A::B" around the unchanged contents *)
Lemma namespace_lines i t : Forall no_break i -> wf t = true -> lns t <> [] ->
  splitlines (str_namespace i t) = (ns_head i :: (hdr t ++ lns t) ++ [ns_tail i])%list.
Proof.
  intros Hi Hw Hne. unfold str_namespace. apply is_nil_false in Hne. rewrite Hne.
  apply block_lines; try assumption.
  - unfold ns_head. apply no_break_app. split; [repeat constructor|]. apply no_break_app. split; [now apply ns_suffix_no_break|repeat constructor].
  - unfold ns_head. discriminate.
  - unfold ns_tail. apply no_break_app. split; [repeat constructor|now apply ns_suffix_no_break].
  - unfold ns_tail. discriminate.
Qed.

Lemma namespace_empty i t : Forall no_break i -> lns t = [] -> str_namespace i t = (ns_head i ++ L "}" ++ [LF])%list.
Proof.
  intros Hi He. unfold str_namespace. rewrite He. cbn [is_nil].
  change (str_tb (mk1 (CList [CStr (ns_head i ++ L "}")%list]))) with (str_tb (mk (CList [CStr (ns_head i ++ L "}")%list]) CNone)).
  rewrite str_form, lines_eq_spec by reflexivity. cbn [mk hdr truthy app pieces_top pieces flat_map].
  rewrite split_text_line.
  - unfold terminated. cbn [map List.concat app]. rewrite app_nil_r. now rewrite <- app_assoc.
  - apply no_break_app. split; [|repeat constructor]. unfold ns_head. apply no_break_app. split; [repeat constructor|].
    apply no_break_app. split; [now apply ns_suffix_no_break|repeat constructor].
Qed.

(* the open and close lines name the same namespace *)
Lemma namespace_names_match i : ns_head i = (L "namespace" ++ ns_suffix i ++ L " {")%list /\ ns_tail i = (L "} // namespace" ++ ns_suffix i)%list.
Proof. split; reflexivity. Qed.

(* struct / class: "struct Name", "{", contents, "};" *)
Lemma struct_lines is_class name t : no_break name -> wf t = true -> lns t <> [] ->
  splitlines (str_struct is_class name t) =
  (((if is_class then L "class " else L "struct ") ++ name) :: L "{" :: (hdr t ++ lns t) ++ [L "};"])%list.
Proof.
  intros Hn Hw Hne. unfold str_struct. apply is_nil_false in Hne. rewrite Hne.
  rewrite str_form. unfold mk1. cbn [mk hdr truthy app]. rewrite lines_eq_spec by (cbn; now rewrite Hw).
  cbn [pieces_top pieces flat_map].
  assert (Hh : no_break ((if is_class then L "class " else L "struct ") ++ name)%list).
  { apply no_break_app. split; [destruct is_class; repeat constructor|assumption]. }
  rewrite (split_text_line _ Hh). rewrite !split_text_line by repeat constructor. rewrite app_nil_r. cbn [app].
  apply splitlines_terminated. constructor; [assumption|]. constructor; [repeat constructor|].
  apply Forall_app. split; [now apply wf_lines_spec|]. repeat constructor.
Qed.
