(* The plans Builder.build constructs are hygienic whenever the parsed model has distinct port names on the encapsulee and
   distinct event names in every interface - what Dezyne itself guarantees. With Proofs/HygieneFacts.v this makes the
   end-to-end routing theorems of C01/C02 statements about every successful build of such a model. *)
From Coq Require Import List NArith Bool String Lia.
From Dznpy Require Import Base.PyStr Base.Result Base.Json Model.TextGen Model.Scoping Model.PortSelection Model.CppGen Model.Ast
  Model.SupportFiles Sem.ShellSem Sem.Exec Model.Builder Spec.ValidInput Proofs.BuilderFacts Proofs.C13CompleteFacts
  Proofs.SemFacts Proofs.ShellPlanFacts Proofs.HygieneFacts.
Import ListNotations.

Definition exposed_req (p : aport) : bool := negb (aport_is_provides p) && negb (po_injected p).

Lemma dzn_step_ports pc fc parent matched st port st' : dzn_step pc fc parent matched st port = Ok st' ->
  map zp_port (fst st') = map zp_port (fst st) ++ (if aport_is_provides port then [port] else []) /\
  map zp_port (snd st') = map zp_port (snd st) ++ (if exposed_req port then [port] else []) /\
  (forall z, In z (fst st' ++ snd st') -> In z (fst st ++ snd st) \/ lookup_fqn fc (po_type port) parent = [FInterface (zp_itf z)]).
Proof.
  intros H. destruct (dzn_step_inv _ _ _ _ _ _ _ H) as [itf [Hl Hs]]. unfold exposed_req.
  destruct (aport_is_provides port) eqn:Prov.
  - destruct Hs as (s & mcf & _ & _ & _ & ->). cbn [fst snd negb andb]. rewrite map_app, app_nil_r. cbn. repeat split; auto.
    intros z Hz. apply in_app_or in Hz as [Hz|Hz]; [apply in_app_or in Hz as [Hz|[<-|[]]]|]; [left; apply in_or_app; now left|right; exact Hl|left; apply in_or_app; now right].
  - destruct Hs as [[Inj ->]|[s [_ ->]]]; cbn [fst snd negb andb].
    + rewrite Inj. cbn. rewrite !app_nil_r. repeat split; auto.
    + destruct (po_injected port) eqn:Inj.
      * (* cannot happen: dzn_step returns st unchanged for injected ports - but the equation still gives the append; rule it out *)
        exfalso. unfold dzn_step in H. rewrite Hl in H. cbn [single as_interface bind] in H. rewrite Prov, Inj in H. inversion H as [E].
        apply (f_equal (fun x => List.length (snd x))) in E. cbn [snd] in E. rewrite app_length in E. cbn in E. lia.
      * cbn. rewrite map_app, app_nil_r. cbn. repeat split; auto.
        intros z Hz. apply in_app_or in Hz as [Hz|Hz]; [left; apply in_or_app; now left|].
        apply in_app_or in Hz as [Hz|[<-|[]]]; [left; apply in_or_app; now right|right; exact Hl].
Qed.

Lemma dzn_fold_ports pc fc parent matched ports : forall st st',
  fold_left (fun acc port => do s <- acc; dzn_step pc fc parent matched s port) ports (Ok st) = Ok st' ->
  map zp_port (fst st') = map zp_port (fst st) ++ filter aport_is_provides ports /\
  map zp_port (snd st') = map zp_port (snd st) ++ filter exposed_req ports /\
  (forall z, In z (fst st' ++ snd st') -> In z (fst st ++ snd st) \/ exists port, In port ports /\ lookup_fqn fc (po_type port) parent = [FInterface (zp_itf z)]).
Proof.
  induction ports as [|port ports IH]; intros st st' H.
  - cbn in H. inversion H; subst. cbn. rewrite !app_nil_r. auto.
  - cbn [fold_left bind] in H. destruct (dzn_step pc fc parent matched st port) as [st1|e] eqn:S; [|rewrite fold_err in H; discriminate].
    destruct (IH st1 st' H) as (A & B & C). destruct (dzn_step_ports _ _ _ _ _ _ _ S) as (A1 & B1 & C1).
    cbn [filter]. split; [|split].
    + rewrite A, A1, <- app_assoc. destruct (aport_is_provides port); reflexivity.
    + rewrite B, B1, <- app_assoc. destruct (exposed_req port); reflexivity.
    + intros z Hz. destruct (C z Hz) as [Hz1|[p [Hp Hl]]]; [|right; exists p; split; [now right|exact Hl]].
      destruct (C1 z Hz1) as [Hz0|Hl]; [now left|]. right. exists port. split; [now left|exact Hl].
Qed.

Lemma nodup_map_two_filters {A B} (f : A -> B) (P Q : A -> bool) l : NoDup (map f l) -> (forall a, P a = true -> Q a = true -> False) ->
  NoDup (map f (filter P l ++ filter Q l)).
Proof.
  intros Hn Hd. rewrite map_app. apply nodup_app; [now apply nodup_map_filter|now apply nodup_map_filter|].
  intros x H1 H2. apply in_map_iff in H1 as [a [<- Ha]]. apply in_map_iff in H2 as [b [E Hb]].
  apply filter_In in Ha as [Ha Pa]. apply filter_In in Hb as [Hb Qb].
  assert (a = b) by (eapply nodup_map_in_eq; eauto). subst b. eauto.
Qed.

Lemma lookup_interface_declared fc name scope itf : In (FInterface itf) (lookup_fqn fc name scope) -> In itf (fc_interfaces fc).
Proof.
  unfold lookup_fqn. intros H. apply filter_In in H as [H _]. unfold all_found in H.
  repeat (apply in_app_or in H as [H|H]); apply in_map_iff in H as [x [E Hx]]; try discriminate. inversion E; subst. exact Hx.
Qed.

Definition model_names_distinct (fc : file_contents) (ports : list aport) : Prop :=
  NoDup (map po_name ports) /\ Forall (fun i => NoDup (map e_name (it_events i))) (fc_interfaces fc).

Theorem dzn_elements_hygienic cfg fc parent ports ze scope sfns : create_dzn_elements cfg fc parent ports = Ok ze ->
  model_names_distinct fc ports ->
  hygienic (map (create_cpp_portitf scope sfns) (ze_provides ze)) (map (create_cpp_portitf scope sfns) (ze_requires ze)).
Proof.
  intros Z [Hn He]. rewrite create_dzn_elements_unfold in Z. cbn zeta in Z.
  destruct (cfg_match _ _ _ _ _ _) as [matched|]; cbn [bind] in Z; [|discriminate].
  match type of Z with context [fold_left ?step ports (Ok ?s0)] => destruct (fold_left step ports (Ok s0)) as [pr|] eqn:F end; cbn [bind] in Z; [|discriminate].
  destruct (dzn_fold_ports _ _ _ _ _ _ _ F) as (A & B & C). cbn [fst snd map app] in A, B, C.
  assert (Hze : ze_provides ze = fst pr /\ ze_requires ze = snd pr).
  { destruct (pc_mc (cf_ports cfg)); [destruct (existsb _ (fst pr)); [|discriminate]|]; inversion Z; subst ze; auto. }
  destruct Hze as [-> ->]. split.
  - rewrite <- map_app, map_map.
    assert (E : map (fun z => cp_name (create_cpp_portitf scope sfns z)) (fst pr ++ snd pr) = map po_name (map zp_port (fst pr ++ snd pr))).
    { rewrite map_map. apply map_ext. intros z. unfold cp_name. now rewrite cp_dzn_create. }
    rewrite E, map_app, A, B. apply nodup_map_two_filters; [exact Hn|]. intros a Pa Qa. unfold exposed_req in Qa. rewrite Pa in Qa. discriminate.
  - rewrite <- map_app. apply Forall_map. apply Forall_forall. intros z Hz. rewrite cp_dzn_create.
    destruct (C z Hz) as [[]|[port [_ Hl]]]. rewrite Forall_forall in He. apply He.
    apply (lookup_interface_declared fc (po_type port) parent). rewrite Hl. now left.
Qed.
