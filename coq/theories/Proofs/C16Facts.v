From Coq Require Import List NArith Bool Lia Arith.
From Dznpy Require Import Base.PyStr Base.Result Base.Json Model.Ast Model.JsonAst Model.ParserObj.
Import ListNotations.
Open Scope nat_scope.

(* the result of process() is the parse of the loaded document, whatever the object went through before *)
Lemma process_obj_result p : snd (process_obj p) = process (p_ast p).
Proof.
  unfold process_obj, process. destruct (parse_root (p_ast p)) as [l|e]; cbn [bind snd]; [|reflexivity].
  destruct (process_elements (jdepth (p_ast p)) l); reflexivity.
Qed.

Lemma process_obj_keeps_doc p : p_ast (fst (process_obj p)) = p_ast p.
Proof.
  unfold process_obj. destruct (parse_root (p_ast p)) as [l|e]; [|reflexivity].
  destruct (process_elements (jdepth (p_ast p)) l); reflexivity.
Qed.

(* asking again yields an equal result, not accumulated duplicates *)
Lemma process_idempotent p : snd (process_obj (fst (process_obj p))) = snd (process_obj p).
Proof. now rewrite !process_obj_result, process_obj_keeps_doc. Qed.

(* ---------- histories: results depend only on which document each instance currently holds ---------- *)

Definition doc_of (d : option json) : json := match d with Some j => j | None => JNull end.

Fixpoint spec_run (docs : list json) (ops : list pop) : list (option (result file_contents)) :=
  match ops with
  | [] => []
  | PNew d :: t => None :: spec_run (docs ++ [doc_of d]) t
  | PLoad i d :: t => None :: spec_run (match nth_error docs i with Some _ => set_nth i d docs | None => docs end) t
  | PProcess i :: t => option_map process (nth_error docs i) :: spec_run docs t
  end.

Lemma map_set_nth {A B} (f : A -> B) i x l : map f (set_nth i x l) = set_nth i (f x) (map f l).
Proof. revert i; induction l as [|a l IH]; intros [|i]; cbn; auto. now rewrite IH. Qed.

Lemma set_nth_same {A} i (l : list A) x : nth_error l i = Some x -> set_nth i x l = l.
Proof. revert i; induction l as [|a l IH]; intros [|i]; cbn; try discriminate; [intros H; inversion H; reflexivity|]. intros H. now rewrite IH. Qed.

Lemma history_isolated ops : forall w, run_history w ops = spec_run (map p_ast w) ops.
Proof.
  induction ops as [|o ops IH]; intros w; [reflexivity|]. destruct o as [d|i d|i]; cbn [run_history pstep spec_run].
  - rewrite IH. rewrite map_app. reflexivity.
  - rewrite nth_error_map. destruct (nth_error w i) as [p|] eqn:N; cbn [option_map].
    + rewrite IH, map_set_nth. reflexivity.
    + rewrite IH. reflexivity.
  - rewrite nth_error_map. destruct (nth_error w i) as [p|] eqn:N; cbn [option_map].
    + destruct (process_obj p) as [p' r] eqn:P. rewrite IH, map_set_nth.
      assert (r = process (p_ast p)) as -> by (rewrite <- process_obj_result, P; reflexivity).
      assert (p_ast p' = p_ast p) as -> by (rewrite <- (process_obj_keeps_doc p), P; reflexivity).
      rewrite set_nth_same; [reflexivity|]. rewrite nth_error_map, N. reflexivity.
    + rewrite IH. reflexivity.
Qed.

(* interleaving parses of different documents yields for each the same result as parsing it alone *)
Lemma alone_result d : run_history [] [PNew d; PProcess 0] = [None; Some (process (doc_of d))].
Proof. rewrite history_isolated. reflexivity. Qed.
