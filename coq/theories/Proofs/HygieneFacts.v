(* The name-hygiene hypotheses of the routing theorems (C01/C02) follow from what Dezyne guarantees about names:
   the ports of a component have distinct names and the events of an interface have distinct names. *)
From Coq Require Import List NArith Bool String Lia.
From Dznpy Require Import Base.PyStr Base.Result Model.TextGen Model.Scoping Model.PortSelection Model.CppGen Model.Ast
  Model.SupportFiles Sem.ShellSem Sem.Exec Model.Builder Proofs.SemFacts Proofs.ShellPlanFacts.
Import ListNotations.

Definition hygienic (pp rp : list cppport) : Prop :=
  NoDup (map cp_name (pp ++ rp)) /\ Forall (fun p => NoDup (map e_name (it_events (zp_itf (cp_dzn p))))) (pp ++ rp).

(* ---------- list toolkit ---------- *)

Lemma nodup_app {A} (l m : list A) : NoDup l -> NoDup m -> (forall x, In x l -> In x m -> False) -> NoDup (l ++ m).
Proof.
  induction l as [|a l IH]; intros Hl Hm Hd; [exact Hm|]. inversion Hl as [|? ? Hnin Hnd]; subst. cbn. constructor.
  - rewrite in_app_iff. intros [H|H]; [contradiction|]. apply (Hd a); [now left|exact H].
  - apply IH; auto. intros x Hx1 Hx2. apply (Hd x); [now right|exact Hx2].
Qed.

Lemma nodup_app_l {A} (l m : list A) : NoDup (l ++ m) -> NoDup l.
Proof. induction l as [|a l IH]; intros H; [constructor|]. cbn in H. inversion H as [|? ? Hn Hd]; subst. constructor; [|auto]. intros Hin. apply Hn, in_or_app. now left. Qed.
Lemma nodup_app_r {A} (l m : list A) : NoDup (l ++ m) -> NoDup m.
Proof. induction l as [|a l IH]; intros H; [exact H|]. cbn in H. inversion H; subst. auto. Qed.

Lemma nodup_map_inj {A B C} (f : A -> B) (g : A -> C) l : NoDup (map g l) -> (forall a b, In a l -> In b l -> f a = f b -> g a = g b) -> NoDup (map f l).
Proof.
  induction l as [|a l IH]; intros Hn Hi; [constructor|]. cbn in *. inversion Hn as [|? ? Hnin Hnd]; subst. constructor.
  - intros H. apply in_map_iff in H as [b [E Hb]]. apply Hnin. rewrite (Hi a b); auto. now apply in_map.
  - apply IH; auto.
Qed.

Lemma nodup_map_filter {A B} (f : A -> B) (P : A -> bool) l : NoDup (map f l) -> NoDup (map f (filter P l)).
Proof.
  induction l as [|a l IH]; intros H; [constructor|]. cbn in *. inversion H as [|? ? Hnin Hnd]; subst. destruct (P a); cbn; [|auto].
  constructor; [|auto]. intros Hin. apply Hnin. apply in_map_iff in Hin as [b [E Hb]]. apply filter_In in Hb as [Hb _].
  rewrite <- E. now apply in_map.
Qed.

Lemma nodup_filter {A} (P : A -> bool) l : NoDup l -> NoDup (filter P l).
Proof. intros H. rewrite <- (map_id (filter P l)). apply nodup_map_filter. now rewrite map_id. Qed.

(* ---------- groups of slots: one slot per (port, event) ---------- *)

Definition group (objf : cppport -> obj) (d : evd) (sel : cppport -> list event) (ports : list cppport) : list slot :=
  flat_map (fun p => map (fun e => sl (objf p) d e) (sel p)) ports.

Lemma in_group objf d sel ports s : In s (group objf d sel ports) <-> exists p e, In p ports /\ In e (sel p) /\ s = sl (objf p) d e.
Proof.
  unfold group. rewrite in_flat_map. split.
  - intros [p [Hp H]]. apply in_map_iff in H as [e [<- He]]. eauto.
  - intros (p & e & Hp & He & ->). exists p. split; [exact Hp|]. now apply in_map.
Qed.

Lemma sl_inj o d e o' d' e' : sl o d e = sl o' d' e' -> o = o' /\ d = d' /\ e_name e = e_name e'.
Proof. unfold sl. intros H. inversion H. auto. Qed.

Lemma nodup_group objf d sel ports : NoDup (map cp_name ports) ->
  (forall p, In p ports -> NoDup (map e_name (sel p))) ->
  (forall p q, In p ports -> In q ports -> objf p = objf q -> cp_name p = cp_name q) -> NoDup (group objf d sel ports).
Proof.
  induction ports as [|p ports IH]; intros Hn He Ho; [constructor|]. cbn in Hn. inversion Hn as [|? ? Hnin Hnd]; subst.
  unfold group. cbn [flat_map]. apply nodup_app.
  - apply (nodup_map_inj _ e_name); [apply He; now left|]. intros a b _ _ H. now apply sl_inj in H.
  - apply IH; auto. intros q Hq. apply He. now right. intros a b Ha Hb. apply Ho; now right.
  - intros s Hs1 Hs2. apply in_map_iff in Hs1 as [e [<- _]]. apply (in_group objf d sel ports) in Hs2 as (q & e' & Hq & _ & E).
    apply sl_inj in E as [E _]. apply Hnin. rewrite (Ho p q); [now apply in_map|now left|now right|exact E].
Qed.

Lemma events_nodup d p : NoDup (map e_name (it_events (zp_itf (cp_dzn p)))) -> NoDup (map e_name (events_of d p)).
Proof. unfold events_of. apply nodup_map_filter. Qed.

(* ---------- the keys of the constructor's assignments ---------- *)

Definition keys (l : list stmt) : list slot := map fst (flat_map pair_of l).

Lemma keys_app a b : keys (a ++ b) = keys a ++ keys b.
Proof. unfold keys. now rewrite flat_map_app, map_app. Qed.
Lemma keys_cons_assign s h l : keys (Assign s h :: l) = s :: keys l.
Proof. reflexivity. Qed.

Lemma mapM_keys {A} (f : A -> result stmt) (k : A -> slot) l r :
  (forall a st, f a = Ok st -> exists h, st = Assign (k a) h) -> mapM f l = Ok r -> keys r = map k l.
Proof.
  intros Hf. revert r; induction l as [|a l IH]; intros r H; cbn [mapM] in H.
  - inversion H. reflexivity.
  - destruct (f a) as [st|] eqn:Fa; cbn [bind] in H; [|discriminate]. destruct (mapM f l) as [r'|]; cbn [bind] in H; [|discriminate].
    inversion H; subst. destruct (Hf a st Fa) as [h ->]. rewrite keys_cons_assign. cbn [map]. now rewrite (IH r' eq_refl).
Qed.

Lemma in_stmts_keys fc p l : in_stmts fc p = Ok l -> keys l = map (fun e => sl (boundary p) DIn e) (events_of EIn p).
Proof.
  unfold in_stmts. apply mapM_keys. intros e st H.
  destruct (formal_params fc (zp_itf (cp_dzn p)) true e); cbn [bind] in H; [|discriminate]. inversion H. eauto.
Qed.
Lemma out_stmts_keys fc p l : out_stmts fc p = Ok l -> keys l = map (fun e => sl (Bnd (cp_name p)) DOut e) (events_of EOut p).
Proof.
  unfold out_stmts. apply mapM_keys. intros e st H.
  destruct (formal_params fc (zp_itf (cp_dzn p)) false e); cbn [bind] in H; [|discriminate]. inversion H. eauto.
Qed.

Lemma concat_keys {A} (F : A -> result (list stmt)) (G : A -> list slot) ps : forall ins,
  (forall p l, F p = Ok l -> keys l = G p) -> mapM F ps = Ok ins -> keys (List.concat ins) = flat_map G ps.
Proof.
  induction ps as [|p ps IH]; intros ins HF H; cbn [mapM] in H.
  - inversion H. reflexivity.
  - destruct (F p) as [l|] eqn:Fp; cbn [bind] in H; [|discriminate]. destruct (mapM F ps) as [ins'|]; cbn [bind] in H; [|discriminate].
    inversion H; subst. cbn [List.concat flat_map]. rewrite keys_app, (HF p l Fp), (IH ins' HF eq_refl). reflexivity.
Qed.

Lemma ref_keys d ps : keys (flat_map (ref_stmts d) ps) =
  group (fun p => Enc (cp_name p)) (match d with EIn => DIn | EOut => DOut end) (events_of d) ps.
Proof.
  induction ps as [|p ps IH]; [reflexivity|]. cbn [flat_map]. rewrite keys_app, IH. unfold group at 2. cbn [flat_map]. f_equal.
  unfold ref_stmts. induction (events_of d p) as [|e es IHe]; [reflexivity|]. cbn [map]. rewrite keys_cons_assign. now rewrite IHe.
Qed.

Lemma flat_map_ext_in' {A B} (f g : A -> list B) l : (forall a, In a l -> f a = g a) -> flat_map f l = flat_map g l.
Proof. induction l as [|a l IH]; intros H; [reflexivity|]. cbn. rewrite (H a (or_introl eq_refl)), IH; auto. intros b Hb. apply H. now right. Qed.

Lemma plain_boundary p : is_plain_mts p = true -> boundary p = Bnd (cp_name p).
Proof. unfold is_plain_mts, boundary. intros H. apply andb_true_iff in H as [_ H]. destruct (cp_is_mc p); [discriminate|reflexivity]. Qed.

Lemma assigns_keys fc pp rp L : ctor_assigns fc pp rp = Ok L ->
  map fst L = group (fun p => Bnd (cp_name p)) DIn (events_of EIn) (filter is_plain_mts pp) ++
              group (fun p => Enc (cp_name p)) DOut (events_of EOut) (filter is_plain_mts pp) ++
              group (fun p => Bnd (cp_name p)) DOut (events_of EOut) (filter cp_is_mts rp) ++
              group (fun p => Enc (cp_name p)) DIn (events_of EIn) (filter cp_is_mts rp).
Proof.
  unfold ctor_assigns. destruct (mapM (in_stmts fc) (filter is_plain_mts pp)) as [ins|] eqn:I; cbn [bind]; [|discriminate].
  destruct (mapM (out_stmts fc) (filter cp_is_mts rp)) as [outs|] eqn:O; cbn [bind]; [|discriminate].
  intros H. inversion H; subst L. clear H. change (map fst (flat_map pair_of ?l)) with (keys l).
  rewrite !keys_app, (ref_keys EOut), (ref_keys EIn).
  rewrite (concat_keys (in_stmts fc) (fun p => map (fun e => sl (boundary p) DIn e) (events_of EIn p)) _ ins (in_stmts_keys fc) I).
  rewrite (concat_keys (out_stmts fc) (fun p => map (fun e => sl (Bnd (cp_name p)) DOut e) (events_of EOut p)) _ outs (out_stmts_keys fc) O).
  f_equal. unfold group. apply flat_map_ext_in'. intros p Hp. apply filter_In in Hp as [_ Hp]. now rewrite (plain_boundary p Hp).
Qed.

(* ---------- keys of the component's and the user's bindings ---------- *)

Lemma pairs_keys (k : cppport -> obj) d sel (h : handler) ps :
  map fst (flat_map (fun p => map (fun e => (sl (k p) d e, h)) (sel p)) ps) = group k d sel ps.
Proof.
  induction ps as [|p ps IH]; [reflexivity|]. cbn [flat_map]. rewrite map_app, IH. unfold group at 2. cbn [flat_map]. f_equal.
  rewrite map_map. reflexivity.
Qed.

Lemma init_keys pp rp : map fst (comp_init pp rp) =
  group (fun p => Enc (cp_name p)) DIn (events_of EIn) pp ++ group (fun p => Enc (cp_name p)) DOut (events_of EOut) rp.
Proof. unfold comp_init. now rewrite map_app, !pairs_keys. Qed.
Lemma user_keys pp rp : map fst (user_binds pp rp) =
  group accessor_obj DOut (events_of EOut) pp ++ group accessor_obj DIn (events_of EIn) rp.
Proof. unfold user_binds. now rewrite map_app, !pairs_keys. Qed.

(* ---------- consequences of hygiene ---------- *)

Section Hygiene.
Variables pp rp : list cppport.
Hypothesis Hyg : hygienic pp rp.

Lemma names_pp : NoDup (map cp_name pp).
Proof. destruct Hyg as [H _]. rewrite map_app in H. now apply nodup_app_l in H. Qed.
Lemma names_rp : NoDup (map cp_name rp).
Proof. destruct Hyg as [H _]. rewrite map_app in H. now apply nodup_app_r in H. Qed.
Lemma names_disjoint p q : In p pp -> In q rp -> cp_name p <> cp_name q.
Proof.
  destruct Hyg as [H _]. rewrite map_app in H. intros Hp Hq E.
  assert (I1 : In (cp_name p) (map cp_name pp)) by now apply in_map.
  assert (I2 : In (cp_name p) (map cp_name rp)) by (rewrite E; now apply in_map).
  clear -H I1 I2. induction (map cp_name pp) as [|a l IH]; [destruct I1|]. cbn in H. inversion H as [|? ? Hn Hd]; subst.
  destruct I1 as [->|I1]; [apply Hn; apply in_or_app; now right|auto].
Qed.
Lemma events_pp p d : In p pp -> NoDup (map e_name (events_of d p)).
Proof. destruct Hyg as [_ H]. rewrite Forall_forall in H. intros Hp. apply events_nodup, H, in_or_app. now left. Qed.
Lemma events_rp p d : In p rp -> NoDup (map e_name (events_of d p)).
Proof. destruct Hyg as [_ H]. rewrite Forall_forall in H. intros Hp. apply events_nodup, H, in_or_app. now right. Qed.

Lemma accessor_inj p q : accessor_obj p = accessor_obj q -> cp_name p = cp_name q.
Proof. unfold accessor_obj. destruct (cp_is_mts p), (cp_is_mts q); intros H; inversion H; reflexivity. Qed.

Lemma nodup_sub (P : cppport -> bool) l : NoDup (map cp_name l) -> NoDup (map cp_name (filter P l)).
Proof. apply nodup_map_filter. Qed.

Ltac grp := match goal with H : In _ (group _ _ _ _) |- _ => apply in_group in H as (? & ? & ? & ? & ?) end.
Ltac slinj := match goal with H : sl _ _ _ = sl _ _ _ |- _ => apply sl_inj in H as (? & ? & ?) end.

Theorem hygienic_assigns fc L : ctor_assigns fc pp rp = Ok L -> NoDup (map fst L).
Proof.
  intros H. rewrite (assigns_keys fc pp rp L H).
  assert (N1 : NoDup (map cp_name (filter is_plain_mts pp))) by apply nodup_sub, names_pp.
  assert (N2 : NoDup (map cp_name (filter cp_is_mts rp))) by apply nodup_sub, names_rp.
  assert (E1 : forall d p, In p (filter is_plain_mts pp) -> NoDup (map e_name (events_of d p))) by (intros d p Hp; apply filter_In in Hp as [Hp _]; now apply events_pp).
  assert (E2 : forall d p, In p (filter cp_is_mts rp) -> NoDup (map e_name (events_of d p))) by (intros d p Hp; apply filter_In in Hp as [Hp _]; now apply events_rp).
  repeat apply nodup_app.
  - apply nodup_group; auto. intros p q _ _ E. now inversion E.
  - apply nodup_group; auto. intros p q _ _ E. now inversion E.
  - apply nodup_group; auto. intros p q _ _ E. now inversion E.
  - apply nodup_group; auto. intros p q _ _ E. now inversion E.
  - intros s A B. repeat grp. subst. slinj. discriminate.
  - intros s A B. apply in_app_or in B as [B|B]; repeat grp; subst; slinj; discriminate.
  - intros s A B. apply in_app_or in B as [B|B]; [|apply in_app_or in B as [B|B]]; repeat grp; subst; slinj; discriminate.
Qed.

Theorem hygienic_init : NoDup (map fst (comp_init pp rp)).
Proof.
  rewrite init_keys. apply nodup_app.
  - apply nodup_group; [apply names_pp|intros p Hp; now apply events_pp|intros p q _ _ E; now inversion E].
  - apply nodup_group; [apply names_rp|intros p Hp; now apply events_rp|intros p q _ _ E; now inversion E].
  - intros s A B. repeat grp. subst. slinj. discriminate.
Qed.

Theorem hygienic_user : NoDup (map fst (user_binds pp rp)).
Proof.
  rewrite user_keys. apply nodup_app.
  - apply nodup_group; [apply names_pp|intros p Hp; now apply events_pp|intros p q _ _ E; now apply accessor_inj].
  - apply nodup_group; [apply names_rp|intros p Hp; now apply events_rp|intros p q _ _ E; now apply accessor_inj].
  - intros s A B. repeat grp. subst. slinj. discriminate.
Qed.

(* a slot of the component's side of a provides port, or of its boundary, is nobody else's *)
Lemma enc_in_not_assigned fc L p e : ctor_assigns fc pp rp = Ok L -> In p pp -> ~ In (sl (Enc (cp_name p)) DIn e) (map fst L).
Proof.
  intros H Hp Hin. rewrite (assigns_keys fc pp rp L H) in Hin.
  apply in_app_or in Hin as [B|B]; [|apply in_app_or in B as [B|B]; [|apply in_app_or in B as [B|B]]]; grp; slinj; try discriminate.
  match goal with H : Enc _ = Enc _ |- _ => inversion H as [E] end.
  match goal with H : In ?q (filter cp_is_mts rp) |- _ => apply filter_In in H as [Hq _]; exact (names_disjoint p q Hp Hq E) end.
Qed.
Lemma enc_in_not_user p e : In p pp -> ~ In (sl (Enc (cp_name p)) DIn e) (map fst (user_binds pp rp)).
Proof.
  intros Hp Hin. rewrite user_keys in Hin. apply in_app_or in Hin as [B|B]; grp; slinj; try discriminate.
  match goal with H : Enc _ = accessor_obj ?q, Hq : In ?q rp |- _ => unfold accessor_obj in H; destruct (cp_is_mts q); inversion H as [E]; exact (names_disjoint p q Hp Hq E) end.
Qed.
Lemma bnd_in_not_user p e : In p pp -> ~ In (sl (Bnd (cp_name p)) DIn e) (map fst (user_binds pp rp)).
Proof.
  intros Hp Hin. rewrite user_keys in Hin. apply in_app_or in Hin as [B|B]; grp; slinj; try discriminate.
  match goal with H : Bnd _ = accessor_obj ?q, Hq : In ?q rp |- _ => unfold accessor_obj in H; destruct (cp_is_mts q); inversion H as [E]; exact (names_disjoint p q Hp Hq E) end.
Qed.
Lemma enc_in_init p e : In p pp -> In e (events_of EIn p) -> In (sl (Enc (cp_name p)) DIn e, Native ENC) (comp_init pp rp).
Proof.
  intros Hp He. unfold comp_init. apply in_or_app. left. apply in_flat_map. exists p. split; [exact Hp|].
  apply in_map_iff. exists e. auto.
Qed.

End Hygiene.

(* ---------- C01 end to end: on a hygienic plan every in-event of every multi-threaded provides port, called by the user
   through the accessor port, reaches the component's same-named event exactly once, in dispatcher context, with the
   arguments in declared order, and reply and by-reference values come back ---------- *)
Theorem provides_in_event_end_to_end sc : (forall s vs, List.length (snd (sc s vs)) = List.length vs) ->
  forall fc pp rp L, ctor_assigns fc pp rp = Ok L -> hygienic pp rp ->
  forall p e vs, In p pp -> is_plain_mts p = true -> In e (events_of EIn p) ->
  NoDup (map f_name (e_formals e)) -> List.length vs = List.length (e_formals e) ->
  exists ps, formal_params fc (zp_itf (cp_dzn p)) true e = Ok ps /\
  call sc 2 (world0 pp rp L) (sl (Bnd (cp_name p)) DIn e) vs Caller =
  ({| w_slots := final_slots L pp rp; w_queue := [];
      w_trace := [{| r_who := ENC; r_slot := sl (Enc (cp_name p)) DIn e; r_args := vs; r_ctx := Dispatcher |}] |},
   Done (fst (sc (sl (Enc (cp_name p)) DIn e) vs))
        (write_back (map f_name (in_formals e)) ps vs (snd (sc (sl (Enc (cp_name p)) DIn e) vs)))).
Proof.
  intros Hsc fc pp rp L HL Hyg p e vs Hp Hpl He Hf Hlen.
  destruct (ctor_reroutes_every_provides_in_event fc pp rp L p e HL Hp Hpl He) as [ps [Hps HinL]].
  exists ps. split; [exact Hps|].
  pose proof (formal_params_names fc _ _ _ _ Hps) as Hn.
  apply (provides_mts_in_once sc Hsc pp rp L (hygienic_assigns pp rp Hyg fc L HL) (hygienic_init pp rp Hyg)); auto.
  - now apply enc_in_init.
  - now apply bnd_in_not_user.
  - now apply (enc_in_not_assigned pp rp Hyg fc L).
  - now apply enc_in_not_user.
  - now rewrite Hn.
  - rewrite Hlen, <- (map_length f_name), <- Hn. now rewrite map_length.
Qed.

(* ---------- the other three directions ---------- *)

Lemma nodup_map_in_eq {A B} (f : A -> B) l a b : NoDup (map f l) -> In a l -> In b l -> f a = f b -> a = b.
Proof.
  induction l as [|x l IH]; intros Hn Ha Hb E; [destruct Ha|]. cbn in Hn. inversion Hn as [|? ? Hnin Hnd]; subst.
  destruct Ha as [->|Ha], Hb as [->|Hb]; auto.
  - exfalso. apply Hnin. rewrite E. now apply in_map.
  - exfalso. apply Hnin. rewrite <- E. now apply in_map.
Qed.

Section Hygiene2.
Variables pp rp : list cppport.
Hypothesis Hyg : hygienic pp rp.

Ltac grp := match goal with H : In _ (group _ _ _ _) |- _ => apply in_group in H as (? & ? & ? & ? & ?) end.
Ltac slinj := match goal with H : sl _ _ _ = sl _ _ _ |- _ => apply sl_inj in H as (? & ? & ?) end.

Lemma mts_accessor p : cp_is_mts p = true -> accessor_obj p = Bnd (cp_name p).
Proof. unfold accessor_obj. now intros ->. Qed.

Lemma user_has_out p e : In p pp -> cp_is_mts p = true -> In e (events_of EOut p) -> In (sl (Bnd (cp_name p)) DOut e, Native USER) (user_binds pp rp).
Proof.
  intros Hp Hm He. unfold user_binds. apply in_or_app. left. apply in_flat_map. exists p. split; [exact Hp|].
  apply in_map_iff. exists e. rewrite (mts_accessor p Hm). auto.
Qed.
Lemma user_has_in p e : In p rp -> cp_is_mts p = true -> In e (events_of EIn p) -> In (sl (Bnd (cp_name p)) DIn e, Native USER) (user_binds pp rp).
Proof.
  intros Hp Hm He. unfold user_binds. apply in_or_app. right. apply in_flat_map. exists p. split; [exact Hp|].
  apply in_map_iff. exists e. rewrite (mts_accessor p Hm). auto.
Qed.

Lemma enc_out_not_user_pp p e : In p pp -> cp_is_mts p = true -> ~ In (sl (Enc (cp_name p)) DOut e) (map fst (user_binds pp rp)).
Proof.
  intros Hp Hm Hin. rewrite user_keys in Hin. apply in_app_or in Hin as [B|B]; grp; slinj; try discriminate.
  match goal with H : Enc _ = accessor_obj ?q, Hq : In ?q pp |- _ =>
    assert (E : cp_name p = cp_name q) by (unfold accessor_obj in H; destruct (cp_is_mts q); now inversion H);
    pose proof (nodup_map_in_eq cp_name pp p q (names_pp pp rp Hyg) Hp Hq E) as <-; rewrite (mts_accessor p Hm) in H; discriminate end.
Qed.
Lemma enc_in_not_user_rp p e : In p rp -> cp_is_mts p = true -> ~ In (sl (Enc (cp_name p)) DIn e) (map fst (user_binds pp rp)).
Proof.
  intros Hp Hm Hin. rewrite user_keys in Hin. apply in_app_or in Hin as [B|B]; grp; slinj; try discriminate.
  match goal with H : Enc _ = accessor_obj ?q, Hq : In ?q rp |- _ =>
    assert (E : cp_name p = cp_name q) by (unfold accessor_obj in H; destruct (cp_is_mts q); now inversion H);
    pose proof (nodup_map_in_eq cp_name rp p q (names_rp pp rp Hyg) Hp Hq E) as <-; rewrite (mts_accessor p Hm) in H; discriminate end.
Qed.
Lemma bnd_out_not_user_rp p e : In p rp -> ~ In (sl (Bnd (cp_name p)) DOut e) (map fst (user_binds pp rp)).
Proof.
  intros Hp Hin. rewrite user_keys in Hin. apply in_app_or in Hin as [B|B]; grp; slinj; try discriminate.
  match goal with H : Bnd _ = accessor_obj ?q, Hq : In ?q pp |- _ =>
    unfold accessor_obj in H; destruct (cp_is_mts q); inversion H as [E]; symmetry in E; exact (names_disjoint pp rp Hyg q p Hq Hp E) end.
Qed.
Lemma enc_out_not_assigned_rp fc L p e : ctor_assigns fc pp rp = Ok L -> In p rp -> ~ In (sl (Enc (cp_name p)) DOut e) (map fst L).
Proof.
  intros H Hp Hin. rewrite (assigns_keys fc pp rp L H) in Hin.
  apply in_app_or in Hin as [B|B]; [|apply in_app_or in B as [B|B]; [|apply in_app_or in B as [B|B]]]; grp; slinj; try discriminate.
  match goal with H : Enc _ = Enc _ |- _ => inversion H as [E] end.
  match goal with H : In ?q (filter is_plain_mts pp) |- _ => apply filter_In in H as [Hq _]; symmetry in E; exact (names_disjoint pp rp Hyg q p Hq Hp E) end.
Qed.
Lemma enc_out_not_user_rp p e : In p rp -> ~ In (sl (Enc (cp_name p)) DOut e) (map fst (user_binds pp rp)).
Proof.
  intros Hp Hin. rewrite user_keys in Hin. apply in_app_or in Hin as [B|B]; grp; slinj; try discriminate.
  match goal with H : Enc _ = accessor_obj ?q, Hq : In ?q pp |- _ =>
    unfold accessor_obj in H; destruct (cp_is_mts q); inversion H as [E]; symmetry in E; exact (names_disjoint pp rp Hyg q p Hq Hp E) end.
Qed.
Lemma enc_out_init p e : In p rp -> In e (events_of EOut p) -> In (sl (Enc (cp_name p)) DOut e, Native ENC) (comp_init pp rp).
Proof.
  intros Hp He. unfold comp_init. apply in_or_app. right. apply in_flat_map. exists p. split; [exact Hp|].
  apply in_map_iff. exists e. auto.
Qed.
End Hygiene2.

(* an out-event of a multi-threaded provides port raised by the component reaches the user's handler on the accessor port *)
Theorem provides_out_event_end_to_end sc fc pp rp L : ctor_assigns fc pp rp = Ok L -> hygienic pp rp ->
  forall p e vs c, In p pp -> is_plain_mts p = true -> In e (events_of EOut p) ->
  call sc 2 (world0 pp rp L) (sl (Enc (cp_name p)) DOut e) vs c =
  ({| w_slots := final_slots L pp rp; w_queue := [];
      w_trace := [{| r_who := USER; r_slot := sl (Bnd (cp_name p)) DOut e; r_args := vs; r_ctx := c |}] |},
   Done (fst (sc (sl (Bnd (cp_name p)) DOut e) vs)) (snd (sc (sl (Bnd (cp_name p)) DOut e) vs))).
Proof.
  intros HL Hyg p e vs c Hp Hpl He. assert (Hm : cp_is_mts p = true) by (unfold is_plain_mts in Hpl; now apply andb_true_iff in Hpl as [Hm _]).
  apply (provides_mts_out_once sc pp rp L (hygienic_assigns pp rp Hyg fc L HL) (hygienic_user pp rp Hyg)).
  - now apply (ctor_refs_every_provides_out_event fc pp rp L p e HL).
  - now apply user_has_out.
  - now apply enc_out_not_user_pp.
Qed.

(* an in-event of a multi-threaded requires port called by the component reaches the user's handler on the accessor port *)
Theorem requires_in_event_end_to_end sc fc pp rp L : ctor_assigns fc pp rp = Ok L -> hygienic pp rp ->
  forall p e vs c, In p rp -> cp_is_mts p = true -> cp_is_mc p = false -> In e (events_of EIn p) ->
  call sc 2 (world0 pp rp L) (sl (Enc (cp_name p)) DIn e) vs c =
  ({| w_slots := final_slots L pp rp; w_queue := [];
      w_trace := [{| r_who := USER; r_slot := sl (Bnd (cp_name p)) DIn e; r_args := vs; r_ctx := c |}] |},
   Done (fst (sc (sl (Bnd (cp_name p)) DIn e) vs)) (snd (sc (sl (Bnd (cp_name p)) DIn e) vs))).
Proof.
  intros HL Hyg p e vs c Hp Hm Hmc He.
  apply (requires_mts_in_once sc pp rp L (hygienic_assigns pp rp Hyg fc L HL) (hygienic_user pp rp Hyg)).
  - now apply (ctor_refs_every_requires_in_event fc pp rp L p e HL).
  - now apply user_has_in.
  - now apply enc_in_not_user_rp.
Qed.

(* an out-event of a multi-threaded requires port raised by a peer: the call returns at once with one closure queued and
   nothing executed; when the dispatcher runs the closure the component's same-named handler is reached exactly once, in
   dispatcher context, with the values as they were when the event was raised *)
Theorem requires_out_event_end_to_end sc fc pp rp L : ctor_assigns fc pp rp = Ok L -> hygienic pp rp ->
  forall p e vs c, In p rp -> cp_is_mts p = true -> In e (events_of EOut p) ->
  NoDup (map f_name (e_formals e)) -> Forall (fun f => f_dir f = FIn) (e_formals e) -> List.length vs = List.length (e_formals e) ->
  exists w, call sc 1 (world0 pp rp L) (sl (Bnd (cp_name p)) DOut e) vs c = (w, Done 0%N vs) /\
            w_trace w = [] /\ List.length (w_queue w) = 1%nat /\
            run_head sc 1 w =
            ({| w_slots := final_slots L pp rp; w_queue := [];
                w_trace := [{| r_who := ENC; r_slot := sl (Enc (cp_name p)) DOut e; r_args := vs; r_ctx := Dispatcher |}] |},
             Done (fst (sc (sl (Enc (cp_name p)) DOut e) vs)) (snd (sc (sl (Enc (cp_name p)) DOut e) vs))).
Proof.
  intros HL Hyg p e vs c Hp Hm He Hf Hin Hlen.
  destruct (ctor_posts_every_requires_out_event fc pp rp L p e HL Hp Hm He) as [ps [Hps HinL]].
  pose proof (formal_params_names fc _ _ _ _ Hps) as Hn.
  assert (Hl : List.length vs = List.length ps) by (rewrite Hlen, <- (map_length f_name), <- Hn; now rewrite map_length).
  pose proof (hygienic_assigns pp rp Hyg fc L HL) as N1.
  set (w := {| w_slots := final_slots L pp rp;
               w_queue := [{| c_target := sl (Enc (cp_name p)) DOut e; c_env := bind_params (map cp_pname ps) vs; c_args := map cp_pname ps;
                              c_caps := map f_name (in_formals e) |}];
               w_trace := [] |}).
  exists w. split; [apply (requires_mts_out_queued sc pp rp L N1 p e ps vs c HinL); [now apply (bnd_out_not_user_rp pp rp Hyg)|exact Hl]|].
  split; [reflexivity|]. split; [reflexivity|].
  rewrite (requires_mts_out_delivered sc pp rp L (hygienic_init pp rp Hyg) p e ps vs w eq_refl); auto.
  - now apply enc_out_init.
  - now apply (enc_out_not_assigned_rp pp rp Hyg fc L).
  - now apply (enc_out_not_user_rp pp rp Hyg).
  - now rewrite Hn.
  - intros a Ha. rewrite Hn in Ha. unfold in_formals. apply in_map_iff in Ha as [f [<- Hfin]]. apply in_map. apply filter_In. split; [exact Hfin|].
    rewrite Forall_forall in Hin. now rewrite (Hin f Hfin).
Qed.

(* ---------- single-threaded ports: pass-through, in the caller's context, nothing queued ---------- *)

Lemma sts_accessor p : cp_is_mts p = false -> accessor_obj p = Enc (cp_name p).
Proof. unfold accessor_obj. now intros ->. Qed.

Theorem sts_provides_in_event_end_to_end sc fc pp rp L : ctor_assigns fc pp rp = Ok L -> hygienic pp rp ->
  forall p e vs c, In p pp -> cp_is_mts p = false -> In e (events_of EIn p) ->
  call sc 1 (world0 pp rp L) (sl (Enc (cp_name p)) DIn e) vs c =
  ({| w_slots := final_slots L pp rp; w_queue := [];
      w_trace := [{| r_who := ENC; r_slot := sl (Enc (cp_name p)) DIn e; r_args := vs; r_ctx := c |}] |},
   Done (fst (sc (sl (Enc (cp_name p)) DIn e) vs)) (snd (sc (sl (Enc (cp_name p)) DIn e) vs))).
Proof.
  intros HL Hyg p e vs c Hp Hs He.
  apply (sts_direct sc pp rp L (hygienic_init pp rp Hyg) (hygienic_user pp rp Hyg)). left.
  split; [now apply enc_in_init|]. split; [now apply (enc_in_not_assigned pp rp Hyg fc L)|]. split; [now apply enc_in_not_user|].
  intros q H; discriminate H.
Qed.

Theorem sts_provides_out_event_end_to_end sc fc pp rp L : ctor_assigns fc pp rp = Ok L -> hygienic pp rp ->
  forall p e vs c, In p pp -> cp_is_mts p = false -> In e (events_of EOut p) ->
  call sc 1 (world0 pp rp L) (sl (Enc (cp_name p)) DOut e) vs c =
  ({| w_slots := final_slots L pp rp; w_queue := [];
      w_trace := [{| r_who := USER; r_slot := sl (Enc (cp_name p)) DOut e; r_args := vs; r_ctx := c |}] |},
   Done (fst (sc (sl (Enc (cp_name p)) DOut e) vs)) (snd (sc (sl (Enc (cp_name p)) DOut e) vs))).
Proof.
  intros HL Hyg p e vs c Hp Hs He.
  apply (sts_direct sc pp rp L (hygienic_init pp rp Hyg) (hygienic_user pp rp Hyg)). right.
  unfold user_binds. apply in_or_app. left. apply in_flat_map. exists p. split; [exact Hp|]. apply in_map_iff. exists e.
  rewrite (sts_accessor p Hs). auto.
Qed.

Theorem sts_requires_out_event_end_to_end sc fc pp rp L : ctor_assigns fc pp rp = Ok L -> hygienic pp rp ->
  forall p e vs c, In p rp -> cp_is_mts p = false -> In e (events_of EOut p) ->
  call sc 1 (world0 pp rp L) (sl (Enc (cp_name p)) DOut e) vs c =
  ({| w_slots := final_slots L pp rp; w_queue := [];
      w_trace := [{| r_who := ENC; r_slot := sl (Enc (cp_name p)) DOut e; r_args := vs; r_ctx := c |}] |},
   Done (fst (sc (sl (Enc (cp_name p)) DOut e) vs)) (snd (sc (sl (Enc (cp_name p)) DOut e) vs))).
Proof.
  intros HL Hyg p e vs c Hp Hs He.
  apply (sts_direct sc pp rp L (hygienic_init pp rp Hyg) (hygienic_user pp rp Hyg)). left.
  split; [now apply enc_out_init|]. split; [now apply (enc_out_not_assigned_rp pp rp Hyg fc L)|]. split; [now apply (enc_out_not_user_rp pp rp Hyg)|].
  intros q H; discriminate H.
Qed.

Theorem sts_requires_in_event_end_to_end sc fc pp rp L : ctor_assigns fc pp rp = Ok L -> hygienic pp rp ->
  forall p e vs c, In p rp -> cp_is_mts p = false -> In e (events_of EIn p) ->
  call sc 1 (world0 pp rp L) (sl (Enc (cp_name p)) DIn e) vs c =
  ({| w_slots := final_slots L pp rp; w_queue := [];
      w_trace := [{| r_who := USER; r_slot := sl (Enc (cp_name p)) DIn e; r_args := vs; r_ctx := c |}] |},
   Done (fst (sc (sl (Enc (cp_name p)) DIn e) vs)) (snd (sc (sl (Enc (cp_name p)) DIn e) vs))).
Proof.
  intros HL Hyg p e vs c Hp Hs He.
  apply (sts_direct sc pp rp L (hygienic_init pp rp Hyg) (hygienic_user pp rp Hyg)). right.
  unfold user_binds. apply in_or_app. right. apply in_flat_map. exists p. split; [exact Hp|]. apply in_map_iff. exists e.
  rewrite (sts_accessor p Hs). auto.
Qed.
