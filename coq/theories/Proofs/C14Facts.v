From Coq Require Import List NArith Bool Arith Lia.
From Dznpy Require Import Base.PyStr Base.Result Model.Scoping Spec.LookupSpec Proofs.PyStrFacts.
Import ListNotations.
Open Scope nat_scope.

(* ---------- equality on identifiers ---------- *)

Lemma strs_eqb_eq a b : strs_eqb a b = true <-> a = b.
Proof.
  revert b; induction a as [|x a IH]; intros [|y b]; simpl; split; try congruence; try discriminate; auto.
  - rewrite andb_true_iff, str_eqb_eq, IH. intros [-> ->]; reflexivity.
  - intros E; inversion E; subst. rewrite andb_true_iff, str_eqb_eq, IH. auto.
Qed.
Lemma ids_eqb_eq a b : ids_eqb a b = true <-> a = b.
Proof. apply strs_eqb_eq. Qed.

(* ---------- resolution order ---------- *)

Lemma sro_aux_spec name : forall n cur, List.length cur = n ->
  sro_aux n cur name = map (fun k => firstn k cur ++ name) (rev (seq 0 (S n))).
Proof.
  induction n as [|m IH]; intros cur Hlen.
  - destruct cur; [reflexivity|discriminate].
  - rewrite seq_S, rev_app_distr. cbn [rev app map plus]. cbn [sro_aux].
    rewrite <- Hlen at 1. rewrite firstn_all. unfold ids_add. f_equal.
    destruct cur as [|c0 cur']; [discriminate|]. cbn [is_nil].
    assert (Hr : List.length (removelast (c0 :: cur')) = m).
    { rewrite removelast_firstn_len, firstn_length. cbn [List.length] in *. lia. }
    rewrite (IH _ Hr). apply map_ext_in. intros k Hk.
    apply in_rev, in_seq in Hk. f_equal.
    rewrite removelast_firstn_len, firstn_firstn. f_equal. cbn [List.length] in *. lia.
Qed.

Lemma resolution_order_eq name sc : scope_resolution_order name sc = chain sc name.
Proof.
  unfold scope_resolution_order, chain, enclosing_scopes. rewrite (sro_aux_spec name _ sc eq_refl).
  now rewrite map_map.
Qed.

Lemma chain_length sc name : List.length (chain sc name) = S (List.length sc).
Proof. unfold chain, enclosing_scopes. now rewrite !map_length, rev_length, seq_length. Qed.

Lemma rev_seq_S n : rev (seq 0 (S n)) = n :: rev (seq 0 n).
Proof. rewrite seq_S, rev_app_distr. reflexivity. Qed.

(* innermost first ... *)
Lemma chain_head sc name : hd [] (chain sc name) = sc ++ name.
Proof. unfold chain, enclosing_scopes. rewrite rev_seq_S. cbn [map hd]. now rewrite firstn_all. Qed.

(* ... the k-th candidate drops the k innermost scope identifiers ... *)
Lemma chain_nth sc name k : k <= List.length sc ->
  nth_error (chain sc name) k = Some (firstn (List.length sc - k) sc ++ name).
Proof.
  intros Hk. unfold chain, enclosing_scopes. rewrite map_map.
  rewrite nth_error_map.
  assert (E : nth_error (rev (seq 0 (S (List.length sc)))) k = Some (List.length sc - k)).
  { rewrite nth_error_nth' with (d := 0) by (rewrite rev_length, seq_length; lia).
    rewrite rev_nth by (rewrite seq_length; lia). rewrite seq_length, seq_nth by lia. f_equal; lia. }
  now rewrite E.
Qed.

(* ... and outermost (global scope) last *)
Lemma chain_last sc name : last (chain sc name) [] = name.
Proof.
  unfold chain, enclosing_scopes. rewrite map_map.
  change (S (List.length sc)) with (1 + List.length sc). rewrite seq_app, rev_app_distr, map_app.
  cbn [seq rev app map]. rewrite last_last. reflexivity.
Qed.

Lemma in_chain_iff sc name f : In f (chain sc name) <-> exists k, k <= List.length sc /\ f = firstn k sc ++ name.
Proof.
  unfold chain, enclosing_scopes. rewrite map_map, in_map_iff. split.
  - intros [k [<- Hk]]. apply in_rev, in_seq in Hk. exists k. split; [lia|reflexivity].
  - intros [k [Hk ->]]. exists k. split; [reflexivity|]. apply -> in_rev. apply in_seq. lia.
Qed.

Lemma on_chainb_spec sc name d : on_chainb sc name d = true <-> on_chain sc name d.
Proof.
  unfold on_chainb, on_chain. rewrite existsb_exists. split.
  - intros [f [Hin He]]. apply ids_eqb_eq in He. subst. now apply in_chain_iff.
  - intros H. exists (d_fqn d). split; [now apply in_chain_iff|now apply ids_eqb_eq].
Qed.

(* ---------- find_fqn / find_any are filters over all declarations ---------- *)

Lemma flat_map_if_filter {A} (f : A -> bool) l : flat_map (fun e => if f e then [e] else []) l = filter f l.
Proof. induction l as [|a l IH]; simpl; auto. destruct (f a); simpl; now rewrite IH. Qed.

Lemma filter_concat {A} (f : A -> bool) ls : flat_map (filter f) ls = filter f (concat ls).
Proof.
  induction ls as [|l ls IH]; simpl; auto. rewrite IH.
  clear. induction l as [|a l IH]; simpl; auto. destruct (f a); simpl; now rewrite IH.
Qed.

Lemma find_fqn_filter c name sc : find_fqn c name sc = filter (on_chainb sc name) (all_decls c).
Proof.
  unfold find_fqn, all_decls, on_chainb. rewrite resolution_order_eq.
  rewrite <- filter_concat. apply flat_map_ext. intros l. apply flat_map_if_filter.
Qed.

Lemma find_fqn_sound_complete c name sc d :
  In d (find_fqn c name sc) <-> In d (all_decls c) /\ on_chain sc name d.
Proof. rewrite find_fqn_filter, filter_In, on_chainb_spec. tauto. Qed.

Lemma find_any_filter c e : find_any c e = filter (ends_withb e) (all_decls c).
Proof.
  unfold find_any, all_decls, ends_withb. rewrite <- filter_concat.
  apply flat_map_ext. intros l. apply flat_map_if_filter.
Qed.

Lemma lastn_app {A} (p e : list A) : e <> [] -> lastn (List.length e) (p ++ e) = e.
Proof.
  intros He. unfold lastn. destruct (List.length e) eqn:E; [destruct e; [congruence|discriminate]|].
  rewrite <- E. rewrite app_length. replace (List.length p + List.length e - List.length e) with (List.length p) by lia.
  rewrite skipn_app, skipn_all, Nat.sub_diag. reflexivity.
Qed.

Lemma lastn_suffix {A} n (l : list A) : exists p, l = p ++ lastn n l.
Proof.
  unfold lastn. destruct n; [exists []; reflexivity|].
  exists (firstn (List.length l - S n) l). now rewrite firstn_skipn.
Qed.

Lemma ends_withb_spec e d : e <> [] -> (ends_withb e d = true <-> ends_with e d).
Proof.
  intros He. unfold ends_withb, ends_with. rewrite ids_eqb_eq. split.
  - intros H. destruct (lastn_suffix (List.length e) (d_fqn d)) as [p Hp]. exists p. now rewrite <- H.
  - intros [p Hp]. rewrite Hp. now apply lastn_app.
Qed.

Lemma find_any_spec c e d : e <> [] -> (In d (find_any c e) <-> In d (all_decls c) /\ ends_with e d).
Proof. intros He. rewrite find_any_filter, filter_In, (ends_withb_spec e d He). tauto. Qed.

(* ---------- every NamespaceIds handed out is made of valid identifiers ---------- *)

Lemma mk_ids_valid l i : mk_ids l = Ok i -> valid_ids i /\ i = l.
Proof.
  unfold mk_ids. destruct (forallb valid_id l) eqn:E; [|discriminate]. intros H; inversion H; subst.
  split; [|reflexivity]. unfold valid_ids. rewrite Forall_forall. rewrite forallb_forall in E. exact E.
Qed.

Lemma namespaceids_t_valid a i : (forall j, a = AIds j -> valid_ids j) -> namespaceids_t a = Ok i -> valid_ids i.
Proof.
  intros Ha. destruct a as [j | l | x | ]; cbn [namespaceids_t].
  - intros H; inversion H; subst. now apply Ha.
  - intros H. now apply mk_ids_valid in H.
  - destruct (is_nil x); [intros H; now apply mk_ids_valid in H|].
    destruct (contains dot x); [intros H; now apply mk_ids_valid in H|].
    destruct (contains colons x); intros H; now apply mk_ids_valid in H.
  - discriminate.
Qed.

Lemma valid_add a b : valid_ids a -> valid_ids b -> valid_ids (ids_add a b).
Proof. intros; apply Forall_app; auto. Qed.

Lemma valid_sum_from acc l : valid_ids acc -> Forall valid_ids l -> valid_ids (fold_left ids_add l acc).
Proof.
  revert acc; induction l as [|a l IH]; intros acc Hacc Hl; cbn; auto.
  inversion Hl; subst. apply IH; auto. now apply valid_add.
Qed.
Lemma valid_sum l : Forall valid_ids l -> valid_ids (ids_sum l).
Proof. apply valid_sum_from. constructor. Qed.

Lemma valid_tree_fqn t : Forall valid_ids t -> valid_ids (tree_fqn t).
Proof. apply valid_sum. Qed.

Lemma valid_fqn_member t m : Forall valid_ids t -> valid_ids m -> valid_ids (fqn_member_name t m).
Proof. intros. apply valid_add; auto using valid_tree_fqn. Qed.

Lemma in_firstn {A} k (l : list A) x : In x (firstn k l) -> In x l.
Proof. revert l; induction k; intros [|a l] H; simpl in *; try tauto. destruct H; auto. Qed.

Lemma valid_firstn k i : valid_ids i -> valid_ids (firstn k i).
Proof. unfold valid_ids. rewrite !Forall_forall. intros H x Hx. apply H. eapply in_firstn. eauto. Qed.

Lemma valid_sro name sc : valid_ids name -> valid_ids sc -> Forall valid_ids (scope_resolution_order name sc).
Proof.
  intros Hn Hs. rewrite resolution_order_eq. rewrite Forall_forall. intros f Hf.
  apply in_chain_iff in Hf as [k [_ ->]]. apply Forall_app. split; [now apply valid_firstn|assumption].
Qed.

(* ---------- notations convert losslessly ---------- *)

Lemma startswith_app p x : startswith p (p ++ x) = true.
Proof. induction p; simpl; auto. now rewrite N.eqb_refl. Qed.

Lemma startswith_head_neq sep c t : ~ In c sep -> sep <> [] -> startswith sep (c :: t) = false.
Proof.
  destruct sep as [|a sp]; [congruence|]. intros H _. cbn.
  destruct (N.eqb a c) eqn:E; [|reflexivity]. apply N.eqb_eq in E. subst. exfalso. apply H. now left.
Qed.

(* consuming the rest of a matched separator *)
Lemma split_go_skip sep : forall sp cur rest, split_go sep (List.length sp) cur (sp ++ rest) = split_go sep 0 cur rest.
Proof. induction sp as [|a sp IH]; intros cur rest; [reflexivity|]. cbn [List.length app split_go]. apply IH. Qed.

(* reading one separator-free item up to the next separator or the end *)
Lemma split_go_item sep (Hsep : sep <> []) item : Forall (fun c => ~ In c sep) item ->
  forall cur rest, (rest = [] \/ exists r, rest = sep ++ r) ->
  split_go sep 0 cur (item ++ rest) =
  match rest with
  | [] => [rev cur ++ item]
  | _ => (rev cur ++ item) :: split_go sep 0 [] (skipn (List.length sep) rest)
  end.
Proof.
  induction 1 as [|c item Hc Hitem IH]; intros cur rest Hrest.
  - cbn [app]. rewrite app_nil_r. destruct Hrest as [-> | [r ->]]; [reflexivity|].
    destruct sep as [|a sp]; [congruence|]. cbn [app]. cbn [split_go].
    change (a :: sp ++ r) with ((a :: sp) ++ r). rewrite startswith_app.
    replace (List.length (a :: sp) - 1) with (List.length sp) by (cbn [List.length]; lia).
    rewrite split_go_skip. rewrite skipn_app, skipn_all, Nat.sub_diag. reflexivity.
  - cbn [app split_go]. rewrite startswith_head_neq by assumption. rewrite IH by assumption.
    cbn [rev]. rewrite <- !app_assoc. reflexivity.
Qed.

Lemma split_join sep items : sep <> [] -> items <> [] -> sep_free sep items -> split sep (join sep items) = items.
Proof.
  intros Hsep Hne Hfree. unfold split. revert Hne.
  induction Hfree as [|x items Hx Hitems IH]; intros Hne; [exfalso; apply Hne; reflexivity|].
  destruct items as [|y t].
  - cbn [join]. rewrite <- (app_nil_r x) at 1. rewrite (split_go_item sep Hsep x Hx [] []) by auto. reflexivity.
  - rewrite join_cons.
    pose proof (split_go_item sep Hsep x Hx [] (sep ++ join sep (y :: t))) as P.
    etransitivity; [apply P; eauto|]. clear P.
    destruct (sep ++ join sep (y :: t)) as [|a r] eqn:E.
    { destruct sep; [congruence|discriminate]. }
    rewrite <- E. rewrite skipn_app, skipn_all, Nat.sub_diag. cbn [app skipn rev]. f_equal. apply IH. discriminate.
Qed.

Lemma valid_id_chars x : valid_id x = true -> Forall (fun c => is_alnum_ c = true) x.
Proof.
  destruct x as [|c t]; [discriminate|]. cbn. rewrite andb_true_iff. intros [Hc Ht].
  constructor; [unfold is_alnum_; now rewrite Hc|]. now apply forallb_forall_iff in Ht || (rewrite Forall_forall; rewrite forallb_forall in Ht; exact Ht).
Qed.

Lemma alnum_not_dot c : is_alnum_ c = true -> ~ In c dot.
Proof. intros H [E|[]]. subst. discriminate. Qed.
Lemma alnum_not_colon c : is_alnum_ c = true -> ~ In c colons.
Proof. intros H [E|[E|[]]]; subst; discriminate. Qed.

Lemma valid_sep_free_dot i : valid_ids i -> sep_free dot i.
Proof.
  unfold valid_ids, sep_free. rewrite !Forall_forall. intros H x Hx. specialize (H x Hx).
  apply valid_id_chars in H. rewrite Forall_forall in *. intros c Hc. apply alnum_not_dot, H, Hc.
Qed.
Lemma valid_sep_free_colons i : valid_ids i -> sep_free colons i.
Proof.
  unfold valid_ids, sep_free. rewrite !Forall_forall. intros H x Hx. specialize (H x Hx).
  apply valid_id_chars in H. rewrite Forall_forall in *. intros c Hc. apply alnum_not_colon, H, Hc.
Qed.

Lemma contains_sep_free sep x : sep <> [] -> Forall (fun c => ~ In c sep) x -> contains sep x = false.
Proof.
  intros Hsep. induction 1 as [|c t Hc Ht IH]; cbn.
  - destruct sep; [congruence|reflexivity].
  - rewrite startswith_head_neq by assumption. exact IH.
Qed.

Lemma contains_join sep a b t : contains sep (join sep (a :: b :: t)) = true.
Proof.
  rewrite join_cons. induction a as [|c a IH]; cbn [app].
  - destruct (sep ++ join sep (b :: t)) eqn:E.
    + destruct sep; [reflexivity|discriminate].
    + cbn [contains]. rewrite <- E, startswith_app. reflexivity.
  - cbn [contains]. rewrite IH. apply orb_true_r.
Qed.

Lemma mk_ids_ok i : valid_ids i -> mk_ids i = Ok i.
Proof.
  intros H. unfold mk_ids. replace (forallb valid_id i) with true; [reflexivity|].
  symmetry. apply forallb_forall. unfold valid_ids in H. rewrite Forall_forall in H. exact H.
Qed.

Lemma valid_nonnil x : valid_id x = true -> is_nil x = false.
Proof. destruct x; [discriminate|reflexivity]. Qed.

Lemma list_roundtrip i : valid_ids i -> namespaceids_t (AStrList i) = Ok i.
Proof. apply mk_ids_ok. Qed.

Lemma join_nonnil sep a t : valid_id a = true -> is_nil (join sep (a :: t)) = false.
Proof. intros H. destruct a; [discriminate|]. destruct t; reflexivity. Qed.

Lemma dotted_roundtrip i : valid_ids i -> namespaceids_t (AStr (ids_dotted i)) = Ok i.
Proof.
  intros H. unfold ids_dotted. cbn [namespaceids_t].
  destruct i as [|a [|b t]].
  - reflexivity.
  - inversion H; subst. cbn [join]. rewrite valid_nonnil by assumption.
    pose proof (valid_sep_free_dot [a] H) as F. inversion F; subst.
    rewrite contains_sep_free by (auto; discriminate).
    pose proof (valid_sep_free_colons [a] H) as G. inversion G; subst.
    rewrite contains_sep_free by (auto; discriminate). now apply mk_ids_ok.
  - inversion H; subst. rewrite join_nonnil by assumption. rewrite contains_join.
    rewrite split_join; [now apply mk_ids_ok|discriminate|discriminate|now apply valid_sep_free_dot].
Qed.

Lemma join_sep_free_other sep sep' items : Forall (fun x => Forall (fun c => ~ In c sep') x) items ->
  Forall (fun c => ~ In c sep') sep -> Forall (fun c => ~ In c sep') (join sep items).
Proof.
  intros Hi Hs. induction Hi as [|x t Hx Ht IH]; [constructor|].
  destruct t as [|y t']; [exact Hx|]. rewrite join_cons. apply Forall_app. split; [exact Hx|].
  apply Forall_app. split; [exact Hs|exact IH].
Qed.

Lemma colons_roundtrip i : valid_ids i -> namespaceids_t (AStr (ids_colons i)) = Ok i.
Proof.
  intros H. unfold ids_colons. cbn [namespaceids_t].
  destruct i as [|a [|b t]].
  - reflexivity.
  - apply (dotted_roundtrip [a] H).
  - inversion H; subst. rewrite join_nonnil by assumption.
    rewrite contains_sep_free; [|discriminate|].
    + rewrite contains_join. rewrite split_join; [now apply mk_ids_ok|discriminate|discriminate|now apply valid_sep_free_colons].
    + apply join_sep_free_other; [now apply valid_sep_free_dot|].
      repeat constructor; intros [E|[]]; discriminate.
Qed.
