From Coq Require Import List NArith ZArith Bool Lia Arith String.
From Dznpy Require Import Base.PyStr Base.Result Model.TextGen Model.Scoping Model.PortSelection Model.CppGen Model.Ast
  Model.SupportFiles Model.Builder Spec.FlattenSpec Proofs.PyStrFacts Proofs.TextGenFacts Proofs.C17Facts Proofs.C19Facts
  Proofs.C20Facts Proofs.BuilderFacts Proofs.C19BuildFacts.
Import ListNotations.

(* ---------- include closure ---------- *)

Lemma support_names tp prefix : map g_name (support_files tp prefix) =
  map (fun x => (sf_file_ns prefix ++ L "_" ++ L x ++ L ".hh")%list)
      ["StrictPort"; "ILog"; "MiscUtils"; "MetaHelpers"; "MultiClientSelector"; "MutexWrapped"]%string.
Proof. reflexivity. Qed.

(* every quoted include of the shell header names the Dezyne-generated header of the model or a returned file *)
Lemma header_include_closure tp fc cfg fs inc : build tp fc cfg = Ok fs ->
  In inc (header_project_includes (get_basename (cf_filename cfg)) (sf_file_ns (cf_sf_prefix cfg)) (pc_mc (cf_ports cfg))) ->
  inc = (get_basename (cf_filename cfg) ++ L ".hh")%list \/ In inc (map g_name fs).
Proof.
  intros H Hin. destruct (build_ok_files _ _ _ _ H) as [h [s [-> _]]]. cbn [app map]. rewrite support_names.
  unfold header_project_includes in Hin. cbn [app In] in Hin. destruct Hin as [<-|[<-|Hin]]; [now left|right; cbn; auto|].
  destruct (pc_mc (cf_ports cfg)); cbn in Hin; [|contradiction]. destruct Hin as [<-|[<-|[]]]; right; cbn; auto 10.
Qed.

(* the shell source includes the shell header, which is a returned file *)
Lemma source_includes_header tp fc cfg fs : build tp fc cfg = Ok fs ->
  In (get_basename (cf_filename cfg) ++ cf_suffix cfg ++ L ".hh")%list (map g_name fs).
Proof. intros H. destruct (build_ok_files _ _ _ _ H) as [h [s [-> [Hh _]]]]. cbn. left. exact Hh. Qed.

(* the project includes of the multi-client selector header are returned support files *)
Lemma selector_include_closure tp prefix x : In x ["ILog"; "MiscUtils"; "MetaHelpers"; "MutexWrapped"]%string ->
  In (sf_file_ns prefix ++ L "_" ++ L x ++ L ".hh")%list (map g_name (support_files tp prefix)).
Proof. rewrite support_names. intros [<-|[<-|[<-|[<-|[]]]]]; cbn; auto 10. Qed.

(* ---------- no include guard: a generated header starts with a comment line (refutes "may be included twice") ---------- *)

Lemma comment_nonempty_pieces c rest : pieces (comment (CList (c :: blank_line :: rest))) <> [].
Proof.
  unfold comment. cbn [pieces]. intros E. apply map_eq_nil in E.
  cbn [appended flatten flat_map] in E. rewrite flat_map_app in E. apply app_eq_nil in E as [_ E].
  cbn in E. discriminate.
Qed.

Lemma header_starts_with_comment tp cfg fns ce :
  exists l ls, splitlines (g_contents (create_headerfile tp cfg fns ce)) = l :: ls /\ starts_slashes l = true.
Proof.
  unfold create_headerfile. cbn [g_contents].
  match goal with |- context [str_tb (mk1 (CList [CList [?cm; ?a; ?b; ?c; ?d]; ?e; ?f]))] =>
    pose proof (file_lines cm a b c d e f) as FL end.
  rewrite FL; try reflexivity.
  2:{ apply comment_wf; discriminate. } 2:{ apply comment_wf; discriminate. }
  match goal with |- context [pieces (comment (CList (?c :: blank_line :: ?rest)))] =>
    pose proof (comment_nonempty_pieces c rest) as NE; pose proof (comment_pieces_slashes (CList (c :: blank_line :: rest))) as SL end.
  destruct (pieces (comment _)) as [|l ls] eqn:E; [contradiction|].
  exists l. eexists. split; [reflexivity|]. inversion SL; assumption.
Qed.

(* ---------- an encapsulee in the global namespace ends up in an anonymous namespace (refutes external linkage) ---------- *)

Lemma global_scope_is_anonymous_namespace t : wf t = true -> lns t <> [] ->
  hd [] (splitlines (str_namespace [] t)) = L "namespace {".
Proof. intros Hw Hn. rewrite namespace_lines by (auto; constructor). reflexivity. Qed.

(* ---------- support file names are not an injective function of the namespace prefix (refutes coexistence, K10) ---------- *)

Lemma prefix_file_names_not_injective :
  exists p q, p <> q /\ sf_file_ns (Some p) = sf_file_ns (Some q) /\ sf_ns (Some p) <> sf_ns (Some q).
Proof.
  exists [L "A"; L "B"], [L "A_B"]. split; [discriminate|]. split; [vm_compute; reflexivity|vm_compute; discriminate].
Qed.


