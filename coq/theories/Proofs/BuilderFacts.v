From Coq Require Import List NArith ZArith Bool Lia Arith String.
From Dznpy Require Import Base.PyStr Base.Result Base.Json Model.TextGen Model.Scoping Model.PortSelection Model.CppGen
  Model.Ast Model.SupportFiles Sem.ShellSem Model.Builder Proofs.C03Facts.
Import ListNotations.

(* the library's own error types *)
Definition library_error (e : err) : Prop :=
  e = AdvShellError \/ e = MultiClientCfgError \/ e = FindError \/ e = NamespaceIdsTypeError \/ e = CppGenError.
Definition lib_err {A} (r : result A) : Prop := forall e, r = Err e -> library_error e.

Lemma lib_ok {A} (a : A) : lib_err (Ok a). Proof. intros e H; discriminate. Qed.
Lemma lib_adv {A} : lib_err (@Err A AdvShellError). Proof. intros e H; inversion H; unfold library_error; auto. Qed.
Lemma lib_mc {A} : lib_err (@Err A MultiClientCfgError). Proof. intros e H; inversion H; unfold library_error; auto. Qed.
Lemma lib_find {A} : lib_err (@Err A FindError). Proof. intros e H; inversion H; unfold library_error; auto. Qed.
Lemma lib_ns {A} : lib_err (@Err A NamespaceIdsTypeError). Proof. intros e H; inversion H; unfold library_error; auto 6. Qed.
Lemma lib_cpp {A} : lib_err (@Err A CppGenError). Proof. intros e H; inversion H; unfold library_error; auto 6. Qed.

Lemma lib_bind {A B} (r : result A) (f : A -> result B) : lib_err r -> (forall a, lib_err (f a)) -> lib_err (bind r f).
Proof. intros Hr Hf. destruct r as [a|e0]; cbn; [apply Hf|]. intros e H; inversion H; subst. now apply Hr. Qed.
Lemma lib_mapM {A B} (f : A -> result B) l : (forall a, lib_err (f a)) -> lib_err (mapM f l).
Proof. intros Hf. induction l as [|a l IH]; cbn; [apply lib_ok|]. apply lib_bind; [apply Hf|]. intros b. apply lib_bind; [exact IH|]. intros; apply lib_ok. Qed.
Lemma lib_if {A} (b : bool) (x y : result A) : lib_err x -> lib_err y -> lib_err (if b then x else y).
Proof. destruct b; auto. Qed.
Lemma lib_fold {A S} (g : S -> A -> result S) l : (forall s a, lib_err (g s a)) -> forall acc, lib_err acc ->
  lib_err (fold_left (fun acc x => do s <- acc; g s x) l acc).
Proof.
  intros Hg. induction l as [|a l IH]; intros acc Hacc; cbn [fold_left]; [exact Hacc|].
  apply IH. apply lib_bind; [exact Hacc|]. intros s. apply Hg.
Qed.

#[local] Hint Resolve lib_ok lib_adv lib_mc lib_find lib_ns lib_cpp lib_if lib_mapM : lib.

Lemma lib_single {A} (pick : found -> option A) l : lib_err (single pick l).
Proof. unfold single. destruct l as [|f [|g l']]; auto with lib. destruct (pick f); auto with lib. Qed.
#[local] Hint Resolve lib_single : lib.

Lemma lib_check_multiclient m n itf fc : lib_err (check_multiclient m n itf fc).
Proof.
  unfold check_multiclient. destruct m as [c|]; auto with lib.
  apply lib_if; auto with lib. apply lib_if; auto with lib.
  destruct (filter _ (it_events itf)) as [|claim t]; auto with lib.
  destruct (single as_enum _) as [en|e]; auto with lib.
  apply lib_if; auto with lib. destruct (filter _ (it_events itf)); auto with lib.
Qed.

Lemma lib_cfg_match a b c d pp rp : lib_err (cfg_match a b c d pp rp).
Proof.
  unfold cfg_match. apply lib_bind.
  - intros e H. apply side_match_err_kind in H. subst. unfold library_error; auto.
  - intros x. apply lib_bind; [|intros; apply lib_ok]. intros e H. apply side_match_err_kind in H. subst. unfold library_error; auto.
Qed.
#[local] Hint Resolve lib_check_multiclient lib_cfg_match : lib.

Lemma lib_create_dzn_elements cfg fc parent ports : lib_err (create_dzn_elements cfg fc parent ports).
Proof.
  unfold create_dzn_elements. apply lib_bind; [auto with lib|]. intros matched.
  assert (Hs : forall n, lib_err (match lookup matched n with Some s => Ok s | None => Err AdvShellError end)).
  { intros n. destruct (lookup matched n); auto with lib. }
  apply lib_bind.
  - apply lib_fold; [|auto with lib]. intros st port. apply lib_bind; [auto with lib|]. intros itf.
    apply lib_if.
    + apply lib_bind; [auto with lib|]. intros mcf. apply lib_bind.
      * destruct mcf; auto with lib. apply lib_bind; [apply Hs|]. intros [|]; auto with lib.
      * intros _. apply lib_bind; [apply Hs|]. intros; auto with lib.
    + apply lib_if; auto with lib. apply lib_bind; [apply Hs|]. intros; auto with lib.
  - intros pr. destruct (pc_mc (cf_ports cfg)); auto with lib.
Qed.

Lemma lib_formal_params fc itf r e : lib_err (formal_params fc itf r e).
Proof. unfold formal_params. apply lib_mapM. intros f. apply lib_bind; auto with lib. Qed.
Lemma lib_formal_args fc itf r e : lib_err (formal_args fc itf r e).
Proof. unfold formal_args. apply lib_bind; [apply lib_formal_params|auto with lib]. Qed.
#[local] Hint Resolve lib_formal_params lib_formal_args lib_create_dzn_elements : lib.

Lemma lib_in_stmts fc p : lib_err (in_stmts fc p).
Proof. unfold in_stmts. apply lib_mapM. intros e. apply lib_bind; auto with lib. Qed.
Lemma lib_out_stmts fc p : lib_err (out_stmts fc p).
Proof. unfold out_stmts. apply lib_mapM. intros e. apply lib_bind; auto with lib. Qed.
Lemma lib_reroute_in fc d p : lib_err (reroute_in_events fc d p).
Proof. unfold reroute_in_events. apply lib_bind; [apply lib_in_stmts|auto with lib]. Qed.
Lemma lib_reroute_out fc d p : lib_err (reroute_out_events fc d p).
Proof. unfold reroute_out_events. apply lib_bind; [apply lib_out_stmts|auto with lib]. Qed.
Lemma lib_reroute_mc_out fc p : lib_err (reroute_multiclient_out_events fc p).
Proof. unfold reroute_multiclient_out_events. apply lib_bind; [|auto with lib]. apply lib_mapM. intros e. apply lib_bind; auto with lib. Qed.
Lemma lib_claim fc p m : lib_err (claim_snippet fc p m).
Proof. unfold claim_snippet. apply lib_bind; auto with lib. Qed.
Lemma lib_release fc p m : lib_err (release_snippet fc p m).
Proof. unfold release_snippet. apply lib_bind; auto with lib. Qed.
#[local] Hint Resolve lib_reroute_in lib_reroute_out lib_reroute_mc_out lib_claim lib_release : lib.

Lemma lib_initialize_port fc sfns p m : lib_err (initialize_port_impl fc sfns p m).
Proof.
  unfold initialize_port_impl. apply lib_bind; [|auto with lib]. apply lib_mapM. intros e.
  apply lib_if; auto with lib.
Qed.
#[local] Hint Resolve lib_initialize_port : lib.

Lemma lib_helpers fc sfns scope ports : lib_err (create_cpp_port_helpers fc sfns scope ports).
Proof.
  unfold create_cpp_port_helpers. apply lib_fold; [|auto with lib]. intros h p.
  destruct (zp_mc (cp_dzn p)); auto with lib. apply lib_bind; auto with lib.
Qed.

Lemma lib_constructor fc scope fa ins pp rp : lib_err (create_constructor fc scope fa ins pp rp).
Proof.
  unfold create_constructor. repeat (apply lib_bind; [auto with lib|intros]). auto with lib.
Qed.
#[local] Hint Resolve lib_helpers lib_constructor : lib.

Lemma lib_encapsulee_of f : lib_err (encapsulee_of f).
Proof. destruct f; cbn; auto with lib. Qed.

(* a build fails only with one of the library's own error types *)
Lemma build_err_library tp fc cfg : lib_err (build tp fc cfg).
Proof.
  unfold build. destruct (lookup_fqn fc (cf_encapsulee cfg) []) as [|f [|g l]]; auto with lib.
  apply lib_bind; [apply lib_encapsulee_of|]. intros [[[enc_fqn parent] enc_name] ports].
  apply lib_bind; [auto with lib|]. intros ze. apply lib_if; auto with lib.
  apply lib_bind; [auto with lib|]. intros hp. apply lib_bind; auto with lib.
Qed.

(* a successful build returns the shell header, the shell source and the six support files generated
   stand-alone with the same prefix - never a partial set *)
Lemma build_ok_files tp fc cfg fs : build tp fc cfg = Ok fs ->
  exists h s, fs = [h; s] ++ support_files tp (cf_sf_prefix cfg) /\
              g_name h = (get_basename (cf_filename cfg) ++ cf_suffix cfg ++ L ".hh")%list /\
              g_name s = (get_basename (cf_filename cfg) ++ cf_suffix cfg ++ L ".cc")%list.
Proof.
  unfold build. destruct (lookup_fqn fc (cf_encapsulee cfg) []) as [|f [|g l]]; try discriminate.
  destruct (encapsulee_of f) as [[[[enc_fqn parent] enc_name] ports]|]; cbn [bind]; [|discriminate].
  destruct (create_dzn_elements cfg fc parent ports) as [ze|]; cbn [bind]; [|discriminate].
  destruct (is_nil _); [discriminate|].
  destruct (create_cpp_port_helpers _ _ _ _) as [hp|]; cbn [bind]; [|discriminate].
  destruct (create_constructor _ _ _ _ _ _) as [ctor|]; cbn [bind]; [|discriminate].
  intros H; inversion H; subst. eexists; eexists. split; [reflexivity|]. cbn [create_headerfile create_sourcefile g_name ce_target_basename].
  now rewrite <- !app_assoc.
Qed.

Lemma build_ok_eight tp fc cfg fs : build tp fc cfg = Ok fs -> List.length fs = 8%nat.
Proof. intros H. destruct (build_ok_files _ _ _ _ H) as [h [s [-> _]]]. reflexivity. Qed.

Lemma support_files_standalone tp fc cfg fs : build tp fc cfg = Ok fs -> skipn 2 fs = support_files tp (cf_sf_prefix cfg).
Proof. intros H. destruct (build_ok_files _ _ _ _ H) as [h [s [-> _]]]. reflexivity. Qed.

(* whether a build succeeds, and with which error it fails, does not depend on copyright / creator information *)
Definition with_texts (cfg : config) (copyright creator : content) : config :=
  {| cf_filename := cf_filename cfg; cf_suffix := cf_suffix cfg; cf_encapsulee := cf_encapsulee cfg; cf_ports := cf_ports cfg;
     cf_origin := cf_origin cfg; cf_copyright := copyright; cf_sf_prefix := cf_sf_prefix cfg; cf_creator := creator |}.

Lemma build_outcome_independent_of_texts tp fc cfg a b :
  match build tp fc cfg, build tp fc (with_texts cfg a b) with
  | Ok _, Ok _ => True
  | Err e, Err e' => e = e'
  | _, _ => False
  end.
Proof.
  unfold build. cbn [with_texts cf_encapsulee cf_filename cf_suffix cf_sf_prefix cf_origin].
  destruct (lookup_fqn fc (cf_encapsulee cfg) []) as [|f [|g l]]; auto.
  destruct (encapsulee_of f) as [[[[enc_fqn parent] enc_name] ports]|]; cbn [bind]; auto.
  change (create_dzn_elements (with_texts cfg a b) fc parent ports) with (create_dzn_elements cfg fc parent ports).
  destruct (create_dzn_elements cfg fc parent ports) as [ze|]; cbn [bind]; auto.
  destruct (is_nil _); auto.
  destruct (create_cpp_port_helpers _ _ _ _) as [hp|]; cbn [bind]; auto.
  destruct (create_constructor _ _ _ _ _ _) as [ctor|]; cbn [bind]; auto.
Qed.

Lemma lib_mk_ids l : lib_err (mk_ids l).
Proof. unfold mk_ids. destruct (forallb valid_id l); auto with lib. Qed.
Lemma lib_mk_semcfg a b : lib_err (mk_semcfg a b).
Proof.
  unfold mk_semcfg. apply lib_bind; [intros e H; apply psel_err in H; subst; unfold library_error; auto|]. intros _.
  apply lib_bind; [intros e H; apply psel_err in H; subst; unfold library_error; auto|]. intros _.
  intros e H. apply semcfg_err in H. subst. unfold library_error; auto.
Qed.
Lemma lib_mc_cfg_ok m : lib_err (mc_cfg_ok m).
Proof. unfold mc_cfg_ok. repeat (apply lib_if; auto with lib). Qed.
Lemma lib_portscfg_ok a b : lib_err (portscfg_ok a b).
Proof. unfold portscfg_ok. apply lib_if; auto with lib. Qed.

(* for every model and configuration: the whole user-visible pipeline returns files or a library error *)
Lemma configure_and_build_err_library tp fc cfg : lib_err (configure_and_build tp fc cfg).
Proof.
  unfold configure_and_build.
  apply lib_bind; [apply lib_mk_ids|]. intros _.
  apply lib_bind; [apply lib_mk_semcfg|]. intros _.
  apply lib_bind; [apply lib_mk_semcfg|]. intros _.
  apply lib_bind. { destruct (pc_mc (cf_ports cfg)); auto with lib. apply lib_bind; [apply lib_mk_ids|]. intros _. apply lib_mc_cfg_ok. }
  intros _. apply lib_bind; [apply lib_portscfg_ok|]. intros _.
  apply lib_bind. { destruct (cf_sf_prefix cfg); auto with lib. apply lib_bind; [apply lib_mk_ids|]. auto with lib. }
  intros _. apply build_err_library.
Qed.

Lemma configure_and_build_never_internal tp fc cfg : configure_and_build tp fc cfg <> Err Internal.
Proof. intros H. apply configure_and_build_err_library in H. unfold library_error in H. intuition discriminate. Qed.

Lemma configure_and_build_ok_files tp fc cfg fs : configure_and_build tp fc cfg = Ok fs -> build tp fc cfg = Ok fs.
Proof.
  unfold configure_and_build. repeat match goal with |- context [bind ?r _] => destruct r; cbn [bind]; try discriminate end. auto.
Qed.

(* ---------- what a successful build implies about the input (soundness half of "valid iff succeeds") ---------- *)

Lemma fold_ok_steps {A S} (g : S -> A -> result S) l : forall s0 s,
  fold_left (fun acc x => do st <- acc; g st x) l (Ok s0) = Ok s ->
  forall x, In x l -> exists st st', g st x = Ok st'.
Proof.
  induction l as [|a l IH]; intros s0 s H x Hin; [destruct Hin|].
  cbn [fold_left bind] in H. destruct (g s0 a) as [s1|e] eqn:G.
  - destruct Hin as [->|Hin]; [eauto|]. eapply IH; eauto.
  - exfalso. clear -H. induction l as [|b l IHl]; cbn in H; [discriminate|]. apply IHl. exact H.
Qed.

Definition is_component_or_system (f : found) : bool := match f with FComponent _ | FSystem _ => true | _ => false end.
Definition found_ports (f : found) : list aport := match f with FComponent c => co_ports c | FSystem s => sy_ports s | _ => [] end.
Definition found_parent (f : found) : ids := match f with FComponent c => co_parent c | FSystem s => sy_parent s | _ => [] end.

Lemma build_ok_sound tp fc cfg fs : build tp fc cfg = Ok fs ->
  exists f, lookup_fqn fc (cf_encapsulee cfg) [] = [f] /\ is_component_or_system f = true /\
            forall port, In port (found_ports f) ->
              exists i, lookup_fqn fc (po_type port) (found_parent f) = [FInterface i].
Proof.
  unfold build. destruct (lookup_fqn fc (cf_encapsulee cfg) []) as [|f [|g l]] eqn:L; try discriminate.
  destruct (encapsulee_of f) as [[[[enc_fqn parent] enc_name] ports]|] eqn:E; cbn [bind]; [|discriminate].
  destruct (create_dzn_elements cfg fc parent ports) as [ze|] eqn:Z; cbn [bind]; [|discriminate].
  intros _. exists f. split; [reflexivity|].
  assert (Hf : is_component_or_system f = true /\ found_ports f = ports /\ found_parent f = parent).
  { destruct f; cbn in E; try discriminate; inversion E; subst; auto. }
  destruct Hf as [H1 [H2 H3]]. split; [exact H1|]. rewrite H2, H3. intros port Hin.
  unfold create_dzn_elements in Z. destruct (cfg_match _ _ _ _ _ _) as [matched|]; cbn [bind] in Z; [|discriminate].
  match type of Z with context [fold_left ?step ports (Ok ?s0)] => destruct (fold_left step ports (Ok s0)) as [pr|] eqn:F end; cbn [bind] in Z; [|discriminate].
  destruct (fold_ok_steps _ _ _ _ F port Hin) as [st [st' G]]. cbn beta in G.
  destruct (lookup_fqn fc (po_type port) parent) as [|x [|y l']] eqn:Lk; cbn [single bind] in G; try discriminate.
  destruct x; cbn [as_interface bind] in G; try discriminate. eauto.
Qed.
