(* C19, builder level: changing only the copyright / creator information changes nothing but comment lines. *)
From Coq Require Import List NArith ZArith Bool Lia Arith String.
From Dznpy Require Import Base.PyStr Base.Result Model.TextGen Model.Scoping Model.PortSelection Model.CppGen Model.Ast
  Model.SupportFiles Model.Builder Spec.FlattenSpec Proofs.PyStrFacts Proofs.TextGenFacts Proofs.C17Facts Proofs.C19Facts
  Proofs.BuilderFacts.
Import ListNotations.

Lemma comment_wf c : (forall t, c <> CBlock t) -> (forall ls, c <> CComment ls) -> wfc (comment c) = true.
Proof.
  intros H1 H2. unfold comment. cbn [wfc]. apply wf_lines_spec.
  pose proof (appended_no_break_any c) as H. destruct c; auto; [exfalso; eapply H1|exfalso; eapply H2]; reflexivity.
Qed.

(* a file whose content is [ [comment; fixed...]; fixed...; fixed ] : its lines are the comment lines followed by lines
   that do not depend on the comment *)
Lemma file_lines (cm : content) (a b c d e f : content) :
  wfc cm = true -> wfc a = true -> wfc b = true -> wfc c = true -> wfc d = true -> wfc e = true -> wfc f = true ->
  splitlines (str_tb (mk1 (CList [CList [cm; a; b; c; d]; e; f]))) =
  (pieces cm ++ (pieces a ++ pieces b ++ pieces c ++ pieces d) ++ pieces e ++ pieces f)%list.
Proof.
  intros Hcm Ha Hb Hc Hd He Hf.
  assert (W : wfc (CList [CList [cm; a; b; c; d]; e; f]) = true).
  { cbn [wfc forallb]. now rewrite Hcm, Ha, Hb, Hc, Hd, He, Hf. }
  rewrite str_form. unfold mk1. cbn [mk hdr truthy app]. rewrite lines_eq_spec by exact W.
  cbn [pieces_top pieces flat_map]. rewrite !app_nil_r, <- !app_assoc.
  apply splitlines_terminated.
  pose proof (wf_mk _ CNone W eq_refl) as Wm. unfold wf in Wm. cbn [mk hdr truthy app] in Wm.
  rewrite lines_eq_spec in Wm by exact W. cbn [pieces_top pieces flat_map] in Wm. rewrite !app_nil_r, <- !app_assoc in Wm.
  now apply wf_lines_spec.
Qed.

Definition all_comment_lines (ls : list str) : Prop := Forall (fun l => starts_slashes l = true) ls.

Lemma comment_pieces_slashes c : all_comment_lines (pieces (comment c)).
Proof.
  unfold comment. cbn [pieces]. unfold all_comment_lines. rewrite Forall_forall. intros x Hx.
  apply in_map_iff in Hx as [l [<- _]]. apply comment_line_slashes.
Qed.

(* the shell source file: comment block of (copyright, fixed texts), then text independent of copyright/creator *)
Lemma sourcefile_lines tp cfg ce : wfc (cf_copyright cfg) = true ->
  exists rest, forall a b, wfc a = true ->
    exists cl, splitlines (g_contents (create_sourcefile tp (with_texts cfg a b) ce)) = (cl ++ rest)%list /\ all_comment_lines cl.
Proof.
  intros _. eexists. intros a b Ha. eexists. split.
  - unfold create_sourcefile. cbn [g_contents with_texts cf_copyright].
    apply file_lines; try reflexivity.
    + apply comment_wf; discriminate.
    + apply comment_wf; discriminate.
  - apply comment_pieces_slashes.
Qed.

Lemma headerfile_lines tp cfg fns ce :
  exists rest, forall a b, wfc a = true -> wfc b = true ->
    exists cl, splitlines (g_contents (create_headerfile tp (with_texts cfg a b) fns ce)) = (cl ++ rest)%list /\ all_comment_lines cl.
Proof.
  eexists. intros a b Ha Hb. eexists. split.
  - unfold create_headerfile. cbn [g_contents with_texts cf_copyright cf_creator cf_ports cf_encapsulee cf_origin].
    apply file_lines; try reflexivity.
    + apply comment_wf; discriminate.
    + apply comment_wf; discriminate.
  - apply comment_pieces_slashes.
Qed.
