From Coq Require Import List NArith Bool String Lia Arith.
From Dznpy Require Import Base.PyStr Sem.ShellSem Sem.Exec Proofs.PyStrFacts.
Import ListNotations.

(* ---------- slots ---------- *)

Lemma obj_eqb_eq a b : obj_eqb a b = true <-> a = b.
Proof.
  destruct a, b; cbn; split; try discriminate; try (intros H; apply str_eqb_eq in H; now subst);
    try (intros H; inversion H; subst; apply str_eqb_refl).
  - rewrite andb_true_iff, !str_eqb_eq. intros [-> ->]; reflexivity.
  - intros H; inversion H; subst. now rewrite !str_eqb_refl.
Qed.
Lemma slot_eqb_eq a b : slot_eqb a b = true <-> a = b.
Proof.
  destruct a as [oa da ea], b as [ob db eb]. unfold slot_eqb; cbn. rewrite !andb_true_iff, obj_eqb_eq, str_eqb_eq. split.
  - intros [[-> Hd] ->]. destruct da, db; cbn in Hd; try discriminate; reflexivity.
  - intros H; inversion H; subst. destruct db; auto.
Qed.
Lemma slot_eqb_refl s : slot_eqb s s = true. Proof. now apply slot_eqb_eq. Qed.
Lemma slot_eqb_neq a b : a <> b -> slot_eqb a b = false.
Proof. intros H. destruct (slot_eqb a b) eqn:E; auto. apply slot_eqb_eq in E. contradiction. Qed.

Lemma lookup_assign_same m s h : lookup (assign m s h) s = h.
Proof. cbn. now rewrite slot_eqb_refl. Qed.
Lemma lookup_assign_other m s s' h : s <> s' -> lookup (assign m s h) s' = lookup m s'.
Proof. intros H. cbn. now rewrite slot_eqb_neq. Qed.

(* a block of assignments to pairwise distinct slots *)
Definition assigns (l : list (slot * handler)) : list stmt := map (fun sh => Assign (fst sh) (snd sh)) l.

Lemma exec_app a b m : exec (a ++ b) m = exec b (exec a m).
Proof. apply fold_left_app. Qed.

Lemma exec_assigns_notin l : forall m s, ~ In s (map fst l) -> lookup (exec (assigns l) m) s = lookup m s.
Proof.
  induction l as [|[k v] l IH]; intros m s Hnin; cbn in *; auto.
  rewrite IH by tauto. apply lookup_assign_other. intro; subst; tauto.
Qed.
Lemma exec_assigns_in l : forall m s h, NoDup (map fst l) -> In (s, h) l -> lookup (exec (assigns l) m) s = h.
Proof.
  induction l as [|[k v] l IH]; intros m s h Hnd Hin; cbn in *; [contradiction|].
  inversion Hnd as [|? ? Hnin Hnd']; subst. destruct Hin as [E|Hin].
  - inversion E; subst. rewrite exec_assigns_notin by assumption. apply lookup_assign_same.
  - now apply IH.
Qed.

(* copies only write slots of the destination object *)
Lemma lookup_copy_other m d src s : s_obj s <> d -> lookup (copy_port m d src) s = lookup m s.
Proof.
  intros H. unfold copy_port. induction m as [|[k v] m IH]; [reflexivity|]. cbn [flat_map fst snd].
  destruct (obj_eqb (s_obj k) src); cbn [app].
  - cbn [lookup]. rewrite slot_eqb_neq; [|intros E; subst; cbn in H; congruence].
    cbn [lookup] in IH |- *. clear IH.
    (* peel the remaining copied entries: none of them matches s *)
    assert (G : forall pre, (forall x, In x pre -> s_obj (fst x) = d) -> lookup (pre ++ (k, v) :: m) s = lookup ((k, v) :: m) s).
    { induction pre as [|[k' v'] pre IHp]; intros Hp; [reflexivity|]. cbn [app lookup].
      rewrite slot_eqb_neq; [apply IHp; intros; apply Hp; now right|].
      intros E; subst. apply H. apply (Hp (s, v')). now left. }
    apply G. intros x Hx. apply in_flat_map in Hx as [[k2 v2] [_ Hx]]. cbn in Hx. destruct (obj_eqb (s_obj k2) src); [|destruct Hx].
    destruct Hx as [<-|[]]. reflexivity.
  - assert (G : forall pre, (forall x, In x pre -> s_obj (fst x) = d) -> lookup (pre ++ (k, v) :: m) s = lookup ((k, v) :: m) s).
    { induction pre as [|[k' v'] pre IHp]; intros Hp; [reflexivity|]. cbn [app lookup].
      rewrite slot_eqb_neq; [apply IHp; intros; apply Hp; now right|].
      intros E; subst. apply H. apply (Hp (s, v')). now left. }
    apply G. intros x Hx. apply in_flat_map in Hx as [[k2 v2] [_ Hx]]. cbn in Hx. destruct (obj_eqb (s_obj k2) src); [|destruct Hx].
    destruct Hx as [<-|[]]. reflexivity.
Qed.

(* ---------- argument plumbing ---------- *)

Lemma env_get_bind_notin p ps vs x v : ~ In x ps -> env_get ((p, v) :: bind_params ps vs) x = if str_eqb p x then Some v else env_get (bind_params ps vs) x.
Proof. reflexivity. Qed.

Lemma eval_bind_id ps vs : NoDup ps -> List.length ps = List.length vs -> eval_args (bind_params ps vs) ps = Some vs.
Proof.
  revert vs; induction ps as [|p ps IH]; intros [|v vs] Hnd Hl; cbn in *; try discriminate; auto.
  inversion Hnd as [|? ? Hnin Hnd']; subst. rewrite str_eqb_refl.
  assert (H : eval_args ((p, v) :: bind_params ps vs) ps = eval_args (bind_params ps vs) ps).
  { clear IH Hl Hnd Hnd'. revert Hnin. generalize (bind_params ps vs) as e. induction ps as [|q qs IHq]; intros e Hnin; cbn; auto.
    destruct (str_eqb p q) eqn:E. { apply str_eqb_eq in E; subst; exfalso; apply Hnin; now left. }
    rewrite IHq; auto. intro; apply Hnin; now right. }
  rewrite H, IH; auto.
Qed.

Lemma find_none_iff {A} (f : A -> bool) l : find f l = None <-> forall x, In x l -> f x = false.
Proof.
  induction l as [|a l IH]; cbn; [split; auto; intros _ x []|]. destruct (f a) eqn:E.
  - split; [discriminate|]. intros H. specialize (H a (or_introl eq_refl)). congruence.
  - rewrite IH. split; [intros H x [<-|Hx]; auto|intros H x Hx; apply H; now right].
Qed.

Section Theorems.
Variable sc : script.
(* a native handler leaves the number of arguments alone *)
Hypothesis sc_arity : forall s vs, List.length (snd (sc s vs)) = List.length vs.

(* ---------- T1: a dispatcher-forwarded in-event (MTS provides port, or the arbitered port of a multi-client port) ---------- *)
Theorem shellfwd_once w sB sE ps caps who vs :
  lookup (w_slots w) sB = ShellFwd ps caps sE (map cp_pname ps) ->
  lookup (w_slots w) sE = Native who ->
  NoDup (map cp_pname ps) -> List.length vs = List.length ps ->
  call sc 2 w sB vs Caller =
  ({| w_slots := w_slots w; w_queue := w_queue w;
      w_trace := w_trace w ++ [{| r_who := who; r_slot := sE; r_args := vs; r_ctx := Dispatcher |}] |},
   Done (fst (sc sE vs)) (write_back caps ps vs (snd (sc sE vs)))).
Proof.
  intros HB HE Hnd Hlen. cbn [call]. rewrite HB.
  rewrite Hlen, Nat.eqb_refl. cbn [negb].
  rewrite eval_bind_id by (auto; now rewrite map_length).
  cbn [call]. rewrite HE.
  rewrite eval_bind_id; [reflexivity|assumption|].
  rewrite sc_arity, map_length. now symmetry.
Qed.

(* ---------- T2: a posted out-event (MTS requires port) ---------- *)
Theorem postfwd_queued w sB sE ps caps vs c :
  lookup (w_slots w) sB = PostFwd ps caps sE (map cp_pname ps) -> List.length vs = List.length ps ->
  call sc 1 w sB vs c =
  ({| w_slots := w_slots w;
      w_queue := w_queue w ++ [{| c_target := sE; c_env := bind_params (map cp_pname ps) vs; c_args := map cp_pname ps; c_caps := caps |}];
      w_trace := w_trace w |}, Done 0%N vs).
Proof. intros HB Hlen. cbn [call]. rewrite HB, Hlen, Nat.eqb_refl. reflexivity. Qed.

(* when the dispatcher later runs it: one native record in dispatcher context with the values as they were at post time *)
Theorem posted_runs_once w sE ps caps who vs q :
  lookup (w_slots w) sE = Native who -> NoDup (map cp_pname ps) -> List.length vs = List.length ps ->
  (forall a, In a (map cp_pname ps) -> In a caps) ->
  w_queue w = {| c_target := sE; c_env := bind_params (map cp_pname ps) vs; c_args := map cp_pname ps; c_caps := caps |} :: q ->
  run_head sc 1 w =
  ({| w_slots := w_slots w; w_queue := q;
      w_trace := w_trace w ++ [{| r_who := who; r_slot := sE; r_args := vs; r_ctx := Dispatcher |}] |},
   Done (fst (sc sE vs)) (snd (sc sE vs))).
Proof.
  intros HE Hnd Hlen Hcaps Hq. unfold run_head. rewrite Hq. unfold run_closure. cbn [c_args c_caps c_env c_target].
  assert (F : find (fun a => negb (existsb (str_eqb a) caps)) (map cp_pname ps) = None).
  { apply find_none_iff. intros a Ha. apply negb_false_iff, existsb_exists. exists a. split; [now apply Hcaps|apply str_eqb_refl]. }
  rewrite F. rewrite eval_bind_id by (auto; now rewrite map_length). cbn [call w_slots]. rewrite HE. reflexivity.
Qed.

(* an argument that was not copied into the closure is read after its frame has died *)
Theorem posted_dangling w sE ps caps vs q a :
  In a (map cp_pname ps) -> ~ In a caps ->
  w_queue w = {| c_target := sE; c_env := bind_params (map cp_pname ps) vs; c_args := map cp_pname ps; c_caps := caps |} :: q ->
  exists b, snd (run_head sc 1 w) = Dangling b.
Proof.
  intros Ha Hn Hq. unfold run_head. rewrite Hq. unfold run_closure. cbn [c_args c_caps].
  destruct (find (fun a0 => negb (existsb (str_eqb a0) caps)) (map cp_pname ps)) as [b|] eqn:F; [exists b; reflexivity|].
  exfalso. pose proof (proj1 (find_none_iff _ _) F) as F'. specialize (F' a Ha). rename F' into G. clear F. rename G into F. apply negb_false_iff, existsb_exists in F as [x [Hx E]].
  apply str_eqb_eq in E. subst. contradiction.
Qed.

(* ---------- T3: std::ref pass-through ---------- *)
Theorem ref_passthrough w sA sB who vs c :
  lookup (w_slots w) sA = Ref sB -> lookup (w_slots w) sB = Native who ->
  call sc 2 w sA vs c =
  ({| w_slots := w_slots w; w_queue := w_queue w;
      w_trace := w_trace w ++ [{| r_who := who; r_slot := sB; r_args := vs; r_ctx := c |}] |}, Done (fst (sc sB vs)) (snd (sc sB vs))).
Proof. intros HA HB. cbn [call]. rewrite HA. cbn [call]. rewrite HB. reflexivity. Qed.

(* ---------- T4: a single-threaded port is the component's own port: direct call, no dispatcher ---------- *)
Theorem native_direct w s who vs c :
  lookup (w_slots w) s = Native who ->
  call sc 1 w s vs c =
  ({| w_slots := w_slots w; w_queue := w_queue w;
      w_trace := w_trace w ++ [{| r_who := who; r_slot := s; r_args := vs; r_ctx := c |}] |}, Done (fst (sc s vs)) (snd (sc s vs))).
Proof. intros H. cbn [call]. rewrite H. reflexivity. Qed.

(* an unbound slot is reported, never silently skipped *)
Theorem unbound_reported w s vs c : lookup (w_slots w) s = Unset -> call sc 1 w s vs c = (w, Unbound s).
Proof. intros H. cbn [call]. now rewrite H. Qed.
End Theorems.
