From Coq Require Import List NArith ZArith Bool Lia Arith String.
From Dznpy Require Import Base.PyStr Base.Result Base.Json Model.TextGen Model.Scoping Model.PortSelection Model.CppGen Model.Ast
  Model.SupportFiles Sem.ShellSem Model.Builder Spec.LookupSpec Spec.DznFile Proofs.C14Facts Proofs.BuilderFacts.
Import ListNotations.
Open Scope nat_scope.

(* a declaration is on the scope chain of (scope, name): its fqn is name prefixed by scope or an enclosing scope *)
Definition found_on_chain (scope name : ids) (f : found) : Prop :=
  exists k, k <= List.length scope /\ found_fqn f = firstn k scope ++ name.

Lemma lookup_fqn_spec fc name scope f :
  In f (lookup_fqn fc name scope) <-> In f (all_found fc) /\ found_on_chain scope name f.
Proof.
  unfold lookup_fqn. rewrite filter_In, resolution_order_eq, existsb_exists. unfold found_on_chain. split.
  - intros [Hin [x [Hx He]]]. split; [assumption|]. apply ids_eqb_eq in He. subst. now apply in_chain_iff.
  - intros [Hin H]. split; [assumption|]. exists (found_fqn f). split; [now apply in_chain_iff|now apply ids_eqb_eq].
Qed.

(* same-named declarations elsewhere never influence a lookup: adding declarations none of which is on the chain
   leaves the result unchanged (same elements, same order) *)
Lemma filter_app_none {A} (p : A -> bool) l extra : (forall x, In x extra -> p x = false) -> filter p (l ++ extra) = filter p l.
Proof.
  intros H. rewrite filter_app. assert (E : filter p extra = []).
  { induction extra as [|a e IH]; cbn; auto. rewrite H by (now left). apply IH. intros; apply H; now right. }
  now rewrite E, app_nil_r.
Qed.

Lemma all_found_app a b : forall p, filter p (all_found (fc_app a b)) =
  filter p (map FComponent (fc_components a)) ++ filter p (map FComponent (fc_components b)) ++
  filter p (map FEnum (fc_enums a)) ++ filter p (map FEnum (fc_enums b)) ++
  filter p (map FExtern (fc_externs a)) ++ filter p (map FExtern (fc_externs b)) ++
  filter p (map FForeign (fc_foreigns a)) ++ filter p (map FForeign (fc_foreigns b)) ++
  filter p (map FInterface (fc_interfaces a)) ++ filter p (map FInterface (fc_interfaces b)) ++
  filter p (map FSubInt (fc_subints a)) ++ filter p (map FSubInt (fc_subints b)) ++
  filter p (map FSystem (fc_systems a)) ++ filter p (map FSystem (fc_systems b)).
Proof. intros p. unfold all_found, fc_app; cbn. rewrite !map_app, !filter_app, <- !app_assoc. reflexivity. Qed.

Lemma filter_none {A} (p : A -> bool) l : (forall x, In x l -> p x = false) -> filter p l = [].
Proof. induction l as [|a l IH]; cbn; auto. intros H. rewrite H by (now left). apply IH. intros; apply H; now right. Qed.

Lemma lookup_unaffected fc extra name scope :
  (forall f, In f (all_found extra) -> ~ found_on_chain scope name f) ->
  lookup_fqn (fc_app fc extra) name scope = lookup_fqn fc name scope.
Proof.
  intros H. unfold lookup_fqn at 1. rewrite all_found_app.
  set (p := fun f => existsb (ids_eqb (found_fqn f)) (scope_resolution_order name scope)).
  assert (Hp : forall f, In f (all_found extra) -> p f = false).
  { intros f Hf. destruct (p f) eqn:E; [|reflexivity]. exfalso. apply (H f Hf).
    unfold p in E. rewrite resolution_order_eq in E. apply existsb_exists in E as [x [Hx He]].
    apply ids_eqb_eq in He. subst. now apply in_chain_iff. }
  unfold all_found in Hp.
  rewrite (filter_none p (map FComponent (fc_components extra))) by (intros; apply Hp; rewrite !in_app_iff; auto).
  rewrite (filter_none p (map FEnum (fc_enums extra))) by (intros; apply Hp; rewrite !in_app_iff; auto).
  rewrite (filter_none p (map FExtern (fc_externs extra))) by (intros; apply Hp; rewrite !in_app_iff; auto).
  rewrite (filter_none p (map FForeign (fc_foreigns extra))) by (intros; apply Hp; rewrite !in_app_iff; auto 10).
  rewrite (filter_none p (map FInterface (fc_interfaces extra))) by (intros; apply Hp; rewrite !in_app_iff; auto 10).
  rewrite (filter_none p (map FSubInt (fc_subints extra))) by (intros; apply Hp; rewrite !in_app_iff; auto 10).
  rewrite (filter_none p (map FSystem (fc_systems extra))) by (intros; apply Hp; rewrite !in_app_iff; auto 10).
  cbn [app]. unfold lookup_fqn, all_found. fold p. rewrite !filter_app, ?app_nil_r. reflexivity.
Qed.

(* "exactly one, of the right kind, or an error" *)
Lemma single_ok_iff {A} (pick : found -> option A) l a : single pick l = Ok a <-> exists f, l = [f] /\ pick f = Some a.
Proof.
  unfold single. destruct l as [|f [|g l']]; split; try discriminate.
  - intros [f [E _]]; discriminate.
  - destruct (pick f) eqn:P; [|discriminate]. intros H; inversion H; subst. eauto.
  - intros [f' [E P]]. inversion E; subst. now rewrite P.
  - intros [f' [E _]]. discriminate.
Qed.

Lemma single_err {A} (pick : found -> option A) l e : single pick l = Err e -> e = FindError.
Proof. unfold single. destruct l as [|f [|g l']]; try congruence. destruct (pick f); congruence. Qed.

(* every parameter type printed in the shell is the data value of the unique extern found from the interface's scope *)
Lemma formal_params_resolution fc itf by_ref e ps : formal_params fc itf by_ref e = Ok ps ->
  Forall2 (fun f p => exists ext, lookup_fqn fc (f_type f) (it_fqn itf) = [FExtern ext] /\ cp_type p = ex_value ext /\ cp_pname p = f_name f) (e_formals e) ps.
Proof.
  unfold formal_params. generalize (e_formals e) as fs. intros fs. revert ps.
  induction fs as [|f fs IH]; intros ps; cbn [mapM]; [intros H; inversion H; constructor|].
  destruct (single as_extern (lookup_fqn fc (f_type f) (it_fqn itf))) as [ext|] eqn:S; cbn [bind]; [|discriminate].
  destruct (mapM _ fs) as [rest|] eqn:M; cbn [bind]; [|discriminate]. intros H; inversion H; subst.
  constructor; [|now apply IH].
  apply single_ok_iff in S as [x [Lk P]]. destruct x; cbn in P; try discriminate. inversion P; subst. eauto.
Qed.

(* every exposed port's interface is the unique interface on the chain of the encapsulee's parent scope *)
Lemma fold_invariant {A S} (g : S -> A -> result S) (P : S -> Prop) l :
  (forall s a s', P s -> g s a = Ok s' -> P s') -> forall s0 s, P s0 ->
  fold_left (fun acc x => do st <- acc; g st x) l (Ok s0) = Ok s -> P s.
Proof.
  intros Hg. induction l as [|a l IH]; intros s0 s H0 H; cbn [fold_left bind] in H; [inversion H; now subst|].
  destruct (g s0 a) as [s1|e] eqn:G.
  - eapply IH; [eapply Hg; eauto|exact H].
  - exfalso. clear -H. induction l as [|b l IHl]; cbn in H; [discriminate|]. apply IHl. exact H.
Qed.

Lemma port_itf_resolution cfg fc parent ports ze : create_dzn_elements cfg fc parent ports = Ok ze ->
  forall z, In z (ze_provides ze ++ ze_requires ze) -> lookup_fqn fc (po_type (zp_port z)) parent = [FInterface (zp_itf z)].
Proof.
  unfold create_dzn_elements. destruct (cfg_match _ _ _ _ _ _) as [matched|]; cbn [bind]; [|discriminate].
  match goal with |- context [fold_left ?step ports (Ok ?s0)] => destruct (fold_left step ports (Ok s0)) as [pr|] eqn:F end; cbn [bind]; [|discriminate].
  set (P := fun st : list dznport * list dznport =>
              forall z, In z (fst st ++ snd st) -> lookup_fqn fc (po_type (zp_port z)) parent = [FInterface (zp_itf z)]).
  assert (HP : P pr).
  { eapply fold_invariant; [|shelve|exact F]. Unshelve. 2:{ intros z []. }
    intros st port st' Hst G. cbn beta in G.
    destruct (single as_interface (lookup_fqn fc (po_type port) parent)) as [itf|] eqn:S; cbn [bind] in G; [|discriminate].
    apply single_ok_iff in S as [x [Lk Px]]. destruct x; cbn in Px; try discriminate. inversion Px; subst.
    destruct (aport_is_provides port).
    - destruct (check_multiclient _ _ _ _) as [mcf|]; cbn [bind] in G; [|discriminate].
      destruct (match mcf with Some _ => _ | None => Ok tt end); cbn [bind] in G; [|discriminate].
      destruct (lookup matched (po_name port)); cbn [bind] in G; [|discriminate]. inversion G; subst.
      intros z Hz. cbn [fst snd] in Hz. rewrite <- app_assoc in Hz. apply in_app_iff in Hz as [Hz|Hz]; [apply Hst; apply in_app_iff; auto|].
      cbn in Hz. destruct Hz as [<-|Hz]; [exact Lk|apply Hst; apply in_app_iff; auto].
    - destruct (po_injected port); [inversion G; subst; exact Hst|].
      destruct (lookup matched (po_name port)); cbn [bind] in G; [|discriminate]. inversion G; subst.
      intros z Hz. cbn [fst snd] in Hz. rewrite app_assoc in Hz. apply in_app_iff in Hz as [Hz|Hz]; [apply Hst; exact Hz|].
      cbn in Hz. destruct Hz as [<-|[]]. exact Lk. }
  destruct (pc_mc (cf_ports cfg)).
  - destruct (existsb _ (fst pr)); [|discriminate]. intros H; inversion H; subst. exact HP.
  - intros H; inversion H; subst. exact HP.
Qed.

(* the claim event's reply type of a multi-client port is the unique enum on the interface's chain *)
Lemma claim_enum_resolution m n itf fc fx : check_multiclient m n itf fc = Ok (Some fx) ->
  exists en, lookup_fqn fc (e_ret (mx_claim fx)) (it_fqn itf) = [FEnum en] /\ mx_reply fx = (en_fqn en ++ [hd [] (match m with Some c => mcc_reply c | None => [] end)])%list.
Proof.
  unfold check_multiclient. destruct m as [c|]; [|discriminate].
  destruct (negb (str_eqb n (mcc_port c))); [discriminate|]. destruct (str_eqb (mcc_claim c) (mcc_release c)); [discriminate|].
  destruct (filter _ (it_events itf)) as [|claim t]; [discriminate|].
  destruct (single as_enum (lookup_fqn fc (e_ret claim) (it_fqn itf))) as [en|] eqn:S; [|discriminate].
  destruct (negb _); [discriminate|]. destruct (filter _ (it_events itf)) as [|rel t']; [discriminate|].
  intros H; inversion H; subst. cbn [mx_claim mx_reply].
  apply single_ok_iff in S as [x [Lk Px]]. destruct x; cbn in Px; try discriminate. inversion Px; subst. eauto.
Qed.

(* the claim and release handlers are attached to the events the configuration names - two distinct in-events *)
Lemma multiclient_names_from_cfg c n itf fc fx : check_multiclient (Some c) n itf fc = Ok (Some fx) ->
  e_name (mx_claim fx) = mcc_claim c /\ e_name (mx_release fx) = mcc_release c /\
  e_dir (mx_claim fx) = EIn /\ e_dir (mx_release fx) = EIn /\ mcc_claim c <> mcc_release c /\
  In (mx_claim fx) (it_events itf) /\ In (mx_release fx) (it_events itf).
Proof.
  unfold check_multiclient.
  destruct (negb (str_eqb n (mcc_port c))); [discriminate|].
  destruct (str_eqb (mcc_claim c) (mcc_release c)) eqn:Eq; [discriminate|].
  destruct (filter _ (it_events itf)) as [|claim t] eqn:F1; [discriminate|].
  destruct (single as_enum _); [|discriminate]. destruct (negb _); [discriminate|].
  destruct (filter (fun e => event_eqb_name e (mcc_release c) && is_in e) (it_events itf)) as [|rel t'] eqn:F2; [discriminate|].
  intros H; inversion H; subst. cbn [mx_claim mx_release].
  assert (H1 : In claim (filter (fun e => event_eqb_name e (mcc_claim c) && is_in e) (it_events itf))) by (rewrite F1; now left).
  assert (H2 : In rel (filter (fun e => event_eqb_name e (mcc_release c) && is_in e) (it_events itf))) by (rewrite F2; now left).
  apply filter_In in H1 as [I1 P1]. apply filter_In in H2 as [I2 P2].
  apply andb_true_iff in P1 as [N1 D1]. apply andb_true_iff in P2 as [N2 D2].
  unfold event_eqb_name in N1, N2. apply PyStrFacts.str_eqb_eq in N1, N2. unfold is_in in D1, D2.
  repeat split; auto.
  - destruct (e_dir claim); [reflexivity|discriminate].
  - destruct (e_dir rel); [reflexivity|discriminate].
  - intros E. rewrite E in Eq. rewrite PyStrFacts.str_eqb_refl in Eq. discriminate.
Qed.
