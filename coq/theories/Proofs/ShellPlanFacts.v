(* The constructor program of the generated shell for plain (non multi-client) ports and what calls through it do. *)
From Coq Require Import List NArith Bool String Lia Arith.
From Dznpy Require Import Base.PyStr Base.Result Model.TextGen Model.Scoping Model.PortSelection Model.CppGen Model.Ast
  Model.SupportFiles Sem.ShellSem Sem.Exec Model.Builder Proofs.PyStrFacts Proofs.SemFacts Proofs.BuilderFacts.
Import ListNotations.

Definition is_plain_mts (p : cppport) : bool := cp_is_mts p && negb (cp_is_mc p).

Definition pair_of (st : stmt) : list (slot * handler) := match st with Assign s h => [(s, h)] | CopyPort _ _ => [] end.

(* the assignments of the constructor body, in the order create_constructor emits them (multi-client ports aside) *)
Definition ctor_assigns (fc : file_contents) (pp rp : list cppport) : result (list (slot * handler)) :=
  let plain := filter is_plain_mts pp in
  let mrp := filter cp_is_mts rp in
  do ins <- mapM (in_stmts fc) plain;
  do outs <- mapM (out_stmts fc) mrp;
  Ok (flat_map pair_of (List.concat ins ++ flat_map (ref_stmts EOut) plain ++ List.concat outs ++ flat_map (ref_stmts EIn) mrp)).

(* the member initialisers m_ppX(m_encapsulee.x) / m_rpX(m_encapsulee.x) *)
Definition ctor_copies (pp rp : list cppport) : list stmt :=
  map (fun p => CopyPort (Bnd (cp_name p)) (Enc (cp_name p))) (filter is_plain_mts pp ++ filter cp_is_mts rp).

Definition ENC : str := L "ENC".
Definition USER : str := L "USER".

(* the component's constructor has bound its own side of every port *)
Definition comp_init (pp rp : list cppport) : slots :=
  flat_map (fun p => map (fun e => (sl (Enc (cp_name p)) DIn e, Native ENC)) (events_of EIn p)) pp ++
  flat_map (fun p => map (fun e => (sl (Enc (cp_name p)) DOut e, Native ENC)) (events_of EOut p)) rp.

(* the object an accessor hands out *)
Definition accessor_obj (p : cppport) : obj := if cp_is_mts p then Bnd (cp_name p) else Enc (cp_name p).

(* the user binds the other side of every accessor port *)
Definition user_binds (pp rp : list cppport) : list (slot * handler) :=
  flat_map (fun p => map (fun e => (sl (accessor_obj p) DOut e, Native USER)) (events_of EOut p)) pp ++
  flat_map (fun p => map (fun e => (sl (accessor_obj p) DIn e, Native USER)) (events_of EIn p)) rp.

Definition final_slots (L : list (slot * handler)) (pp rp : list cppport) : slots :=
  exec (assigns (user_binds pp rp)) (exec (assigns L) (exec (ctor_copies pp rp) (comp_init pp rp))).

(* ---------- lookups in the final state ---------- *)

Lemma exec_copies_enc l m s : (forall st, In st l -> exists d src, st = CopyPort (Bnd d) src) ->
  (forall p, s_obj s <> Bnd p) -> lookup (exec l m) s = lookup m s.
Proof.
  revert m. induction l as [|st l IH]; intros m Hl Hs; [reflexivity|]. cbn [exec fold_left].
  change (fold_left exec_stmt l (exec_stmt m st)) with (exec l (exec_stmt m st)).
  rewrite IH by (auto; intros; apply Hl; now right).
  destruct (Hl st (or_introl eq_refl)) as [d [src ->]]. cbn [exec_stmt]. apply lookup_copy_other. apply Hs.
Qed.

Lemma ctor_copies_shape pp rp st : In st (ctor_copies pp rp) -> exists d src, st = CopyPort (Bnd d) src.
Proof. unfold ctor_copies. intros H. apply in_map_iff in H as [p [<- _]]. eauto. Qed.

Lemma lookup_in_init (m : slots) s h : NoDup (map fst m) -> In (s, h) m -> lookup m s = h.
Proof.
  induction m as [|[k v] m IH]; intros Hnd Hin; [destruct Hin|]. cbn in *. inversion Hnd; subst.
  destruct Hin as [E|Hin]; [inversion E; subst; now rewrite slot_eqb_refl|].
  rewrite slot_eqb_neq; [now apply IH|]. intros ->. apply H1. apply (in_map fst _ _ Hin).
Qed.

Section Routing.
Variable sc : script.
Hypothesis sc_arity : forall s vs, List.length (snd (sc s vs)) = List.length vs.
Variables (fc : file_contents) (pp rp : list cppport) (L : list (slot * handler)).
Hypothesis HL : ctor_assigns fc pp rp = Ok L.
(* what Dezyne guarantees about names: no slot is assigned twice by the constructor, bound twice by the component or by the user *)
Hypothesis nodup_assigns : NoDup (map fst L).
Hypothesis nodup_init : NoDup (map fst (comp_init pp rp)).
Hypothesis nodup_user : NoDup (map fst (user_binds pp rp)).

Let final := final_slots L pp rp.
Definition world0 : world := {| w_slots := final; w_queue := []; w_trace := [] |}.

Lemma final_assigned s h : In (s, h) L -> ~ In s (map fst (user_binds pp rp)) -> lookup final s = h.
Proof.
  intros Hin Hu. unfold final, final_slots. rewrite exec_assigns_notin by assumption. now apply exec_assigns_in.
Qed.

Lemma final_user s h : In (s, h) (user_binds pp rp) -> lookup final s = h.
Proof. intros Hin. unfold final, final_slots. now apply exec_assigns_in. Qed.

Lemma final_init s h : In (s, h) (comp_init pp rp) -> ~ In s (map fst L) -> ~ In s (map fst (user_binds pp rp)) ->
  (forall p, s_obj s <> Bnd p) -> lookup final s = h.
Proof.
  intros Hin HnL Hnu Hb. unfold final, final_slots. rewrite !exec_assigns_notin by assumption.
  rewrite exec_copies_enc; [now apply lookup_in_init|apply ctor_copies_shape|exact Hb].
Qed.

(* C01/C02, provides port configured MTS, in-event e called by the user through the accessor port *)
Theorem provides_mts_in_once p e ps vs :
  In (sl (Bnd (cp_name p)) DIn e, ShellFwd ps (map f_name (in_formals e)) (sl (Enc (cp_name p)) DIn e) (map cp_pname ps)) L ->
  In (sl (Enc (cp_name p)) DIn e, Native ENC) (comp_init pp rp) ->
  ~ In (sl (Bnd (cp_name p)) DIn e) (map fst (user_binds pp rp)) ->
  ~ In (sl (Enc (cp_name p)) DIn e) (map fst L) -> ~ In (sl (Enc (cp_name p)) DIn e) (map fst (user_binds pp rp)) ->
  NoDup (map cp_pname ps) -> List.length vs = List.length ps ->
  call sc 2 world0 (sl (Bnd (cp_name p)) DIn e) vs Caller =
  ({| w_slots := final; w_queue := [];
      w_trace := [{| r_who := ENC; r_slot := sl (Enc (cp_name p)) DIn e; r_args := vs; r_ctx := Dispatcher |}] |},
   Done (fst (sc (sl (Enc (cp_name p)) DIn e) vs))
        (write_back (map f_name (in_formals e)) ps vs (snd (sc (sl (Enc (cp_name p)) DIn e) vs)))).
Proof.
  intros HinL Hinit HuB HnL HnU Hnd Hlen.
  apply (shellfwd_once sc sc_arity world0); auto.
  - apply final_assigned; assumption.
  - apply final_init; auto. intros q H; discriminate H.
Qed.

(* provides port, out-event raised by the component: reaches the user's handler on the accessor port, directly *)
Theorem provides_mts_out_once p e vs c :
  In (sl (Enc (cp_name p)) DOut e, Ref (sl (Bnd (cp_name p)) DOut e)) L ->
  In (sl (Bnd (cp_name p)) DOut e, Native USER) (user_binds pp rp) ->
  ~ In (sl (Enc (cp_name p)) DOut e) (map fst (user_binds pp rp)) ->
  call sc 2 world0 (sl (Enc (cp_name p)) DOut e) vs c =
  ({| w_slots := final; w_queue := [];
      w_trace := [{| r_who := USER; r_slot := sl (Bnd (cp_name p)) DOut e; r_args := vs; r_ctx := c |}] |},
   Done (fst (sc (sl (Bnd (cp_name p)) DOut e) vs)) (snd (sc (sl (Bnd (cp_name p)) DOut e) vs))).
Proof.
  intros HinL Hu Hnu. apply (ref_passthrough sc world0).
  - apply final_assigned; assumption.
  - apply final_user; assumption.
Qed.

(* requires port configured MTS, out-event raised by a peer: queued, returns at once, nothing has run *)
Theorem requires_mts_out_queued p e ps vs c :
  In (sl (Bnd (cp_name p)) DOut e, PostFwd ps (map f_name (in_formals e)) (sl (Enc (cp_name p)) DOut e) (map cp_pname ps)) L ->
  ~ In (sl (Bnd (cp_name p)) DOut e) (map fst (user_binds pp rp)) -> List.length vs = List.length ps ->
  call sc 1 world0 (sl (Bnd (cp_name p)) DOut e) vs c =
  ({| w_slots := final;
      w_queue := [{| c_target := sl (Enc (cp_name p)) DOut e; c_env := bind_params (map cp_pname ps) vs; c_args := map cp_pname ps;
                     c_caps := map f_name (in_formals e) |}];
      w_trace := [] |}, Done 0%N vs).
Proof.
  intros HinL Hnu Hlen. apply (postfwd_queued sc world0); [|assumption]. apply final_assigned; assumption.
Qed.

(* ... and when the dispatcher runs it, the component's handler is reached exactly once, in dispatcher context, with the
   values as they were at post time - provided every argument was captured by value (out events have only in-parameters) *)
Theorem requires_mts_out_delivered p e ps vs w :
  w_slots w = final ->
  In (sl (Enc (cp_name p)) DOut e, Native ENC) (comp_init pp rp) ->
  ~ In (sl (Enc (cp_name p)) DOut e) (map fst L) -> ~ In (sl (Enc (cp_name p)) DOut e) (map fst (user_binds pp rp)) ->
  NoDup (map cp_pname ps) -> List.length vs = List.length ps ->
  (forall a, In a (map cp_pname ps) -> In a (map f_name (in_formals e))) ->
  w_queue w = [{| c_target := sl (Enc (cp_name p)) DOut e; c_env := bind_params (map cp_pname ps) vs; c_args := map cp_pname ps;
                  c_caps := map f_name (in_formals e) |}] ->
  run_head sc 1 w =
  ({| w_slots := final; w_queue := [];
      w_trace := w_trace w ++ [{| r_who := ENC; r_slot := sl (Enc (cp_name p)) DOut e; r_args := vs; r_ctx := Dispatcher |}] |},
   Done (fst (sc (sl (Enc (cp_name p)) DOut e) vs)) (snd (sc (sl (Enc (cp_name p)) DOut e) vs))).
Proof.
  intros Hw Hinit HnL HnU Hnd Hlen Hcaps Hq.
  rewrite (posted_runs_once sc w (sl (Enc (cp_name p)) DOut e) ps (map f_name (in_formals e)) ENC vs []); auto.
  - now rewrite Hw.
  - rewrite Hw. apply final_init; auto. intros q H; discriminate H.
Qed.

(* requires port configured MTS, in-event called by the component: reaches the user's handler directly *)
Theorem requires_mts_in_once p e vs c :
  In (sl (Enc (cp_name p)) DIn e, Ref (sl (Bnd (cp_name p)) DIn e)) L ->
  In (sl (Bnd (cp_name p)) DIn e, Native USER) (user_binds pp rp) ->
  ~ In (sl (Enc (cp_name p)) DIn e) (map fst (user_binds pp rp)) ->
  call sc 2 world0 (sl (Enc (cp_name p)) DIn e) vs c =
  ({| w_slots := final; w_queue := [];
      w_trace := [{| r_who := USER; r_slot := sl (Bnd (cp_name p)) DIn e; r_args := vs; r_ctx := c |}] |},
   Done (fst (sc (sl (Bnd (cp_name p)) DIn e) vs)) (snd (sc (sl (Bnd (cp_name p)) DIn e) vs))).
Proof.
  intros HinL Hu Hnu. apply (ref_passthrough sc world0).
  - apply final_assigned; assumption.
  - apply final_user; assumption.
Qed.

(* a port configured STS: the accessor hands out the component's own port; calls go straight to the other side,
   in the caller's context, never through the dispatcher *)
Theorem sts_direct s who vs c :
  (In (s, Native who) (comp_init pp rp) /\ ~ In s (map fst L) /\ ~ In s (map fst (user_binds pp rp)) /\ (forall p, s_obj s <> Bnd p))
  \/ In (s, Native who) (user_binds pp rp) ->
  call sc 1 world0 s vs c =
  ({| w_slots := final; w_queue := []; w_trace := [{| r_who := who; r_slot := s; r_args := vs; r_ctx := c |}] |},
   Done (fst (sc s vs)) (snd (sc s vs))).
Proof.
  intros [[H1 [H2 [H3 H4]]]|H]; apply (native_direct sc world0).
  - now apply final_init.
  - now apply final_user.
Qed.
End Routing.

(* ---------- the generated program contains the statement the theorems talk about ---------- *)

Lemma formal_params_names fc itf r e ps : formal_params fc itf r e = Ok ps -> map cp_pname ps = map f_name (e_formals e).
Proof.
  unfold formal_params. generalize (e_formals e) as fs. intros fs. revert ps.
  induction fs as [|f fs IH]; intros ps; cbn [mapM]; [intros H; inversion H; reflexivity|].
  destruct (single as_extern _); cbn [bind]; [|discriminate]. destruct (mapM _ fs) eqn:M; cbn [bind]; [|discriminate].
  intros H; inversion H; subst. cbn. f_equal. now apply IH.
Qed.

Lemma mapM_in {A B} (f : A -> result B) l r a : mapM f l = Ok r -> In a l -> exists b, f a = Ok b /\ In b r.
Proof.
  revert r; induction l as [|x l IH]; cbn; intros r H Hin; [destruct Hin|].
  destruct (f x) eqn:Fx; cbn in H; [|discriminate]. destruct (mapM f l) eqn:M; cbn in H; [|discriminate]. inversion H; subst.
  destruct Hin as [->|Hin]; [exists a0; split; [assumption|now left]|].
  destruct (IH _ eq_refl Hin) as [b [Hb1 Hb2]]. exists b. split; [assumption|now right].
Qed.

Lemma in_stmts_member fc p l e : in_stmts fc p = Ok l -> In e (events_of EIn p) ->
  exists ps, formal_params fc (zp_itf (cp_dzn p)) true e = Ok ps /\
             In (Assign (sl (boundary p) DIn e) (ShellFwd ps (map f_name (in_formals e)) (sl (Enc (cp_name p)) DIn e) (map cp_pname ps))) l.
Proof.
  intros H Hin. destruct (mapM_in _ _ _ _ H Hin) as [st [Hst Hl]]. cbn beta in Hst.
  destruct (formal_params fc (zp_itf (cp_dzn p)) true e) as [ps|] eqn:FP; cbn [bind] in Hst; [|discriminate].
  inversion Hst; subst. exists ps. split; [reflexivity|]. rewrite (formal_params_names _ _ _ _ _ FP). exact Hl.
Qed.

Lemma out_stmts_member fc p l e : out_stmts fc p = Ok l -> In e (events_of EOut p) ->
  exists ps, formal_params fc (zp_itf (cp_dzn p)) false e = Ok ps /\
             In (Assign (sl (Bnd (cp_name p)) DOut e) (PostFwd ps (map f_name (in_formals e)) (sl (Enc (cp_name p)) DOut e) (map cp_pname ps))) l.
Proof.
  intros H Hin. destruct (mapM_in _ _ _ _ H Hin) as [st [Hst Hl]]. cbn beta in Hst.
  destruct (formal_params fc (zp_itf (cp_dzn p)) false e) as [ps|] eqn:FP; cbn [bind] in Hst; [|discriminate].
  inversion Hst; subst. exists ps. split; [reflexivity|]. rewrite (formal_params_names _ _ _ _ _ FP). exact Hl.
Qed.

Lemma in_pair_of st l : In st l -> forall s h, st = Assign s h -> In (s, h) (flat_map pair_of l).
Proof. intros Hin s h ->. apply in_flat_map. exists (Assign s h). split; [assumption|now left]. Qed.

(* every in-event of every plain MTS provides port is rerouted through the dispatcher to the same-named event of the
   same-named port of the component - no event is left out *)
Theorem ctor_reroutes_every_provides_in_event fc pp rp L p e : ctor_assigns fc pp rp = Ok L ->
  In p pp -> is_plain_mts p = true -> In e (events_of EIn p) ->
  exists ps, formal_params fc (zp_itf (cp_dzn p)) true e = Ok ps /\
    In (sl (Bnd (cp_name p)) DIn e, ShellFwd ps (map f_name (in_formals e)) (sl (Enc (cp_name p)) DIn e) (map cp_pname ps)) L.
Proof.
  unfold ctor_assigns. intros H Hp Hm He.
  destruct (mapM (in_stmts fc) (filter is_plain_mts pp)) as [ins|] eqn:MI; cbn [bind] in H; [|discriminate].
  destruct (mapM (out_stmts fc) (filter cp_is_mts rp)) as [outs|] eqn:MO; cbn [bind] in H; [|discriminate].
  inversion H; subst. clear H.
  assert (Hf : In p (filter is_plain_mts pp)) by (apply filter_In; auto).
  destruct (mapM_in _ _ _ _ MI Hf) as [l [Hl Hins]].
  destruct (in_stmts_member _ _ _ _ Hl He) as [ps [FP Hst]]. exists ps. split; [assumption|].
  assert (B : boundary p = Bnd (cp_name p)).
  { unfold boundary. unfold is_plain_mts in Hm. apply andb_true_iff in Hm as [_ Hm]. apply negb_true_iff in Hm. now rewrite Hm. }
  rewrite B in Hst. eapply in_pair_of; [|reflexivity]. apply in_or_app. left. apply in_concat. eauto.
Qed.

Theorem ctor_posts_every_requires_out_event fc pp rp L p e : ctor_assigns fc pp rp = Ok L ->
  In p rp -> cp_is_mts p = true -> In e (events_of EOut p) ->
  exists ps, formal_params fc (zp_itf (cp_dzn p)) false e = Ok ps /\
    In (sl (Bnd (cp_name p)) DOut e, PostFwd ps (map f_name (in_formals e)) (sl (Enc (cp_name p)) DOut e) (map cp_pname ps)) L.
Proof.
  unfold ctor_assigns. intros H Hp Hm He.
  destruct (mapM (in_stmts fc) (filter is_plain_mts pp)) as [ins|] eqn:MI; cbn [bind] in H; [|discriminate].
  destruct (mapM (out_stmts fc) (filter cp_is_mts rp)) as [outs|] eqn:MO; cbn [bind] in H; [|discriminate].
  inversion H; subst. clear H.
  assert (Hf : In p (filter cp_is_mts rp)) by (apply filter_In; auto).
  destruct (mapM_in _ _ _ _ MO Hf) as [l [Hl Houts]].
  destruct (out_stmts_member _ _ _ _ Hl He) as [ps [FP Hst]]. exists ps. split; [assumption|].
  eapply in_pair_of; [|reflexivity]. apply in_or_app. right. apply in_or_app. right. apply in_or_app. left. apply in_concat. eauto.
Qed.

Theorem ctor_refs_every_provides_out_event fc pp rp L p e : ctor_assigns fc pp rp = Ok L ->
  In p pp -> is_plain_mts p = true -> In e (events_of EOut p) ->
  In (sl (Enc (cp_name p)) DOut e, Ref (sl (Bnd (cp_name p)) DOut e)) L.
Proof.
  unfold ctor_assigns. intros H Hp Hm He.
  destruct (mapM (in_stmts fc) (filter is_plain_mts pp)) as [ins|] eqn:MI; cbn [bind] in H; [|discriminate].
  destruct (mapM (out_stmts fc) (filter cp_is_mts rp)) as [outs|] eqn:MO; cbn [bind] in H; [|discriminate].
  inversion H; subst. clear H.
  assert (B : boundary p = Bnd (cp_name p)).
  { unfold boundary. unfold is_plain_mts in Hm. apply andb_true_iff in Hm as [_ Hm]. apply negb_true_iff in Hm. now rewrite Hm. }
  eapply in_pair_of; [|reflexivity]. apply in_or_app. right. apply in_or_app. left.
  apply in_flat_map. exists p. split; [apply filter_In; auto|]. unfold ref_stmts. rewrite B.
  apply in_map_iff. exists e. split; [reflexivity|assumption].
Qed.

Theorem ctor_refs_every_requires_in_event fc pp rp L p e : ctor_assigns fc pp rp = Ok L ->
  In p rp -> cp_is_mts p = true -> cp_is_mc p = false -> In e (events_of EIn p) ->
  In (sl (Enc (cp_name p)) DIn e, Ref (sl (Bnd (cp_name p)) DIn e)) L.
Proof.
  unfold ctor_assigns. intros H Hp Hm Hmc He.
  destruct (mapM (in_stmts fc) (filter is_plain_mts pp)) as [ins|] eqn:MI; cbn [bind] in H; [|discriminate].
  destruct (mapM (out_stmts fc) (filter cp_is_mts rp)) as [outs|] eqn:MO; cbn [bind] in H; [|discriminate].
  inversion H; subst. clear H.
  assert (B : boundary p = Bnd (cp_name p)) by (unfold boundary; now rewrite Hmc).
  eapply in_pair_of; [|reflexivity]. apply in_or_app. right. apply in_or_app. right. apply in_or_app. right.
  apply in_flat_map. exists p. split; [apply filter_In; auto|]. unfold ref_stmts. rewrite B.
  apply in_map_iff. exists e. split; [reflexivity|assumption].
Qed.

(* ---------- the name-hygiene side conditions, decidable per plan ---------- *)

Definition slot_mem (s : slot) (l : list slot) : bool := existsb (slot_eqb s) l.
Fixpoint nodup_slots (l : list slot) : bool :=
  match l with [] => true | s :: t => negb (slot_mem s t) && nodup_slots t end.

Lemma slot_mem_In s l : slot_mem s l = true <-> In s l.
Proof.
  unfold slot_mem. rewrite existsb_exists. split.
  - intros [x [Hx E]]. apply slot_eqb_eq in E. now subst.
  - intros H. exists s. split; [assumption|apply slot_eqb_refl].
Qed.
Lemma nodup_slots_spec l : nodup_slots l = true -> NoDup l.
Proof.
  induction l as [|s t IH]; cbn; [constructor|]. rewrite andb_true_iff, negb_true_iff. intros [H1 H2].
  constructor; [|now apply IH]. intros Hin. apply slot_mem_In in Hin. congruence.
Qed.

Lemma accessor_type_iff_semantics : forall scope sfns z,
  let p := create_cpp_portitf scope sfns z in
  (zp_sem z = STS -> q_ids (t_fqn (fn_ret (cp_accessor p))) = sfns ++ [L "Sts"] /\ cp_target p = (m_encapsulee ++ L "." ++ po_name (zp_port z))%list /\ cp_member p = None) /\
  (zp_sem z = MTS -> q_ids (t_fqn (fn_ret (cp_accessor p))) = sfns ++ [L "Mts"] /\ exists m, cp_member p = Some m /\ cp_target p = snd m).
Proof.
  intros scope sfns z p. unfold p, create_cpp_portitf. split; intros H; rewrite H.
  - repeat split; reflexivity.
  - destruct (zp_mc z); (split; [reflexivity|eexists; split; reflexivity]).
Qed.
