(* The positive half of C11's delivery clause in the interleaving model: once a client has been granted the claim and has
   completed its Select, every out-event the dispatcher delivers goes to that client, whatever the other clients claim or use in
   between and however the threads interleave - as long as nobody is going to release and no earlier granted claim still has its
   Select pending.  (The two excluded situations are exactly the known findings K3 and K4, refuted in ConcurrentFacts.) *)
From Coq Require Import List NArith Bool Lia Arith.
From Dznpy Require Import Sem.Concurrent Proofs.ConcurrentFacts.
Import ListNotations.

Definition no_release (p : list cop) : bool := forallb (fun o => match o with ORelease => false | _ => true end) p.

(* a thread position that can neither write the selection nor lead to a release *)
Definition pc_quiet (p : pc) : bool :=
  match p with
  | Ready => true
  | Blocked ORelease => false
  | Blocked _ => true
  | Replied o g => negb (needs_lock o g)
  | Locked _ _ => false
  end.

Definition client_quiet (cl : client) : bool := no_release (prog cl) && pc_quiet (at_ cl).

Record Hold (c : cid) (s : st) : Prop := {
  h_sel : selected s = Some c;
  h_claimed : claimed s = true;
  h_clients : Forall (fun cl => client_quiet cl = true) (clients s);
  h_queue : Forall (fun e => snd e <> ORelease) (queue s) }.

Lemma Forall_upd {A} (P : A -> Prop) (l : list A) i x : Forall P l -> P x -> Forall P (upd l i x).
Proof.
  intros Hl Hx; revert i; induction Hl as [|a t Ha Ht IH]; intros i; destruct i; cbn [upd]; auto.
Qed.

Lemma Forall_nth {A} (P : A -> Prop) (l : list A) i x : Forall P l -> nth_error l i = Some x -> P x.
Proof. intros Hl Hn; rewrite Forall_forall in Hl; apply Hl; eapply nth_error_In; eauto. Qed.

Lemma hold_step c s l s' : Hold c s -> step s l = Some s' ->
  Hold c s' /\ delivered s' = delivered s ++ (match l with LOut => [Some c] | _ => [] end).
Proof.
  intros [Hsel Hcl Hcs Hq] Hst.
  destruct l as [c'| |t|c'|]; cbn [step] in Hst.
  - (* LStart *)
    destruct (nth_error (clients s) c') as [[p a]|] eqn:Hn; [|discriminate].
    destruct p as [|o rest]; [discriminate|]. destruct a; try discriminate.
    injection Hst as <-. pose proof (Forall_nth _ _ _ _ Hcs Hn) as Hc. unfold client_quiet in Hc; cbn in Hc.
    apply andb_true_iff in Hc as [Hp _]. apply andb_true_iff in Hp as [Ho Hrest].
    split; [|cbn; now rewrite app_nil_r].
    constructor; cbn; auto.
    + apply Forall_upd; auto. unfold client_quiet; cbn. rewrite Hrest. destruct o; auto; discriminate.
    + apply Forall_app; split; auto. constructor; auto. cbn. destruct o; try discriminate; congruence.
  - (* LDisp *)
    destruct (out_pending s); [discriminate|].
    destruct (queue s) as [|[c' o] q] eqn:Hqs; [discriminate|].
    inversion Hq as [|? ? Ho Hq']; subst. cbn in Ho.
    destruct o; [| congruence |].
    + rewrite Hcl in Hst. destruct (nth_error (clients s) c') as [cl|] eqn:Hn; [|discriminate].
      injection Hst as <-. pose proof (Forall_nth _ _ _ _ Hcs Hn) as Hc. unfold client_quiet in Hc. apply andb_true_iff in Hc as [Hp _].
      split; [|cbn; now rewrite app_nil_r].
      constructor; cbn; auto. apply Forall_upd; auto. unfold client_quiet; cbn [prog at_ pc_quiet needs_lock negb]. now rewrite Hp.
    + destruct (nth_error (clients s) c') as [cl|] eqn:Hn; [|discriminate].
      injection Hst as <-. pose proof (Forall_nth _ _ _ _ Hcs Hn) as Hc. unfold client_quiet in Hc. apply andb_true_iff in Hc as [Hp _].
      split; [|cbn; now rewrite app_nil_r].
      constructor; cbn; auto. apply Forall_upd; auto. unfold client_quiet; cbn [prog at_ pc_quiet needs_lock negb]. now rewrite Hp.
  - (* LLock *)
    destruct t as [c'|].
    + destruct (mutex s); [discriminate|].
      destruct (nth_error (clients s) c') as [[p a]|] eqn:Hn; [|discriminate].
      destruct a as [| |o g|]; try discriminate.
      pose proof (Forall_nth _ _ _ _ Hcs Hn) as Hc. unfold client_quiet in Hc; cbn in Hc. apply andb_true_iff in Hc as [_ Hc].
      destruct (needs_lock o g); discriminate.
    + destruct (mutex s); [discriminate|]. destruct (out_pending s); [discriminate|].
      injection Hst as <-. split; [|cbn; now rewrite app_nil_r]. constructor; cbn; auto.
  - (* LFinish *)
    destruct (nth_error (clients s) c') as [[p a]|] eqn:Hn; [|discriminate].
    pose proof (Forall_nth _ _ _ _ Hcs Hn) as Hc. unfold client_quiet in Hc; cbn in Hc. apply andb_true_iff in Hc as [Hp Hc].
    destruct a as [| |o g|o g]; try discriminate.
    destruct (needs_lock o g); [discriminate|].
    injection Hst as <-. split; [|cbn; now rewrite app_nil_r].
    constructor; cbn; auto. apply Forall_upd; auto. unfold client_quiet, no_release; cbn [prog at_ pc_quiet]. now rewrite Hp.
  - (* LOut *)
    destruct (mutex s) as [[?|]|]; try discriminate.
    injection Hst as <-. split; [|cbn; now rewrite Hsel].
    constructor; cbn; auto.
Qed.

Definition outs_in (ls : list label) : nat := List.length (filter (fun l => match l with LOut => true | _ => false end) ls).

Theorem holder_receives_all ls : forall c s s', Hold c s -> run s ls = Some s' ->
  Hold c s' /\ delivered s' = delivered s ++ repeat (Some c) (outs_in ls).
Proof.
  induction ls as [|l t IH]; intros c s s' H Hr; cbn [run] in Hr.
  - injection Hr as <-. split; auto. cbn. now rewrite app_nil_r.
  - destruct (step s l) as [s1|] eqn:Hs; [|discriminate].
    destruct (hold_step _ _ _ _ H Hs) as [H1 Hd1].
    destruct (IH _ _ _ H1 Hr) as [H2 Hd2]. split; auto.
    rewrite Hd2, Hd1, <- app_assoc. f_equal.
    unfold outs_in; destruct l; cbn; auto.
Qed.

(* how such a state arises: a granted claim whose Select has completed, when no release is pending anywhere *)
Lemma hold_after_select s c p s' : claimed s = true -> nth_error (clients s) c = Some {| prog := p; at_ := Locked OClaim true |} ->
  no_release p = true ->
  (forall c' cl, c' <> c -> nth_error (clients s) c' = Some cl -> client_quiet cl = true) ->
  Forall (fun e => snd e <> ORelease) (queue s) ->
  step s (LFinish c) = Some s' -> Hold c s'.
Proof.
  intros Hcl Hn Hp Hothers Hq Hst. cbn [step] in Hst. rewrite Hn in Hst. injection Hst as <-.
  constructor; cbn; auto.
  apply Forall_forall. intros cl Hin. apply In_nth_error in Hin as [i Hi].
  destruct (Nat.eq_dec i c) as [->|Hne].
  - erewrite nth_error_upd_same in Hi by eauto. injection Hi as <-. unfold client_quiet; cbn [prog at_ pc_quiet]. now rewrite Hp.
  - rewrite nth_error_upd_other in Hi by auto. eapply Hothers; eauto.
Qed.

(* non-vacuity: a reachable state in which client 0 holds the claim while two other clients still claim and use *)
Definition demo_progs : list (list cop) := [[OClaim; OUse]; [OClaim; OUse]; [OUse; OClaim]].
Definition demo_prefix : list label := [LStart 0; LStart 1; LDisp; LLock (TClient 0); LFinish 0].
Example hold_reachable : exists s, run (init demo_progs) demo_prefix = Some s /\ Hold 0 s.
Proof.
  eexists; split; [vm_compute; reflexivity|].
  constructor; try reflexivity.
  - vm_compute. repeat constructor.
  - vm_compute. repeat constructor; cbn; congruence.
Qed.
Example hold_demo_deliveries :
  option_map delivered (run (init demo_progs) (demo_prefix ++ [LDisp; LStart 2; LLock TDispatcher; LOut; LFinish 1; LDisp; LStart 0; LLock TDispatcher; LOut]))
  = Some [Some 0; Some 0].
Proof. vm_compute. reflexivity. Qed.
